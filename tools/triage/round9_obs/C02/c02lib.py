# Helper for the C02 demos / observations:
#   * Net            - tiny builder for quantised TFLite models (serialised with Vela's own writer)
#   * compile_model  - runs the real command line driver (ethosu.vela.vela.main) on a model
#   * check_output   - independent oracle: decodes the command stream(s) of the *_vela.tflite file and checks every
#                      feature map / weight / scale / DMA footprint against the region tensors published in that file
import contextlib
import io
import os
import shutil
import struct
import sys
import tempfile

import numpy as np

_HERE = os.path.dirname(os.path.abspath(__file__))
_ROOT = os.path.dirname(_HERE)
if _ROOT not in sys.path:
    sys.path.insert(0, _ROOT)

from ethosu.vela.data_type import DataType  # noqa: E402
from ethosu.vela.nn_graph import Graph  # noqa: E402
from ethosu.vela.nn_graph import Pass  # noqa: E402
from ethosu.vela.nn_graph import PassPlacement  # noqa: E402
from ethosu.vela.nn_graph import Subgraph  # noqa: E402
from ethosu.vela.operation import NpuBlockType  # noqa: E402
from ethosu.vela.operation import Op  # noqa: E402
from ethosu.vela.operation import Operation  # noqa: E402
from ethosu.vela.operation import Padding  # noqa: E402
from ethosu.vela.tensor import QuantizationParameters  # noqa: E402
from ethosu.vela.tensor import Tensor  # noqa: E402
from ethosu.vela.tflite import Model as TflModel  # noqa: E402


# ----------------------------------------------------------------------------------------------------------------------
# Model builder
# ----------------------------------------------------------------------------------------------------------------------
def _q(scale, zp=0):
    qp = QuantizationParameters()
    qp.scale_f32 = np.float32(scale)
    qp.zero_point = np.int64(zp) if np.isscalar(zp) else np.array(zp, np.int64)
    return qp


class Net:
    def __init__(self, name="net", dtype=DataType.int8, seed=1):
        self.name = name
        self.dtype = dtype
        self.ops = []
        self.inputs = []
        self.outputs = []
        self.n = 0
        self.rng = np.random.RandomState(seed)

    # -- tensors
    def _name(self, base):
        self.n += 1
        return f"{base}_{self.n}"

    def fm(self, shape, scale=0.05, zp=0, dtype=None, name=None):
        t = Tensor(list(shape), dtype or self.dtype, name or self._name("t"))
        t.quantization = _q(scale, zp)
        return t

    def _wdtype(self):
        return DataType.int8 if self.dtype == DataType.int16 else self.dtype

    def input(self, shape, scale=0.05, zp=0, dtype=None):
        t = self.fm(shape, scale, zp, dtype, self._name("input"))
        op = Operation(Op.Placeholder, t.name + "_ph")
        op.set_output_tensor(t)
        self.inputs.append(t)
        return t

    def const(self, shape, dtype=None, scale=0.02, zp=0, values=None, lo=-100, hi=100, quant=True, name=None):
        dtype = dtype or self.dtype
        t = Tensor(list(shape), dtype, name or self._name("const"))
        if values is None:
            values = self.rng.randint(lo, hi + 1, size=shape)
        t.values = np.array(values).astype(dtype.as_numpy_type()).reshape(shape)
        if quant:
            t.quantization = _q(scale, zp)
        op = Operation(Op.Const, t.name + "_c")
        op.set_output_tensor(t)
        return t

    def _op(self, op_type, inputs, out, attrs=None, name=None):
        op = Operation(op_type, name or self._name(op_type.name))
        for i in inputs:
            if i is None:
                op.inputs.append(None)
            else:
                op.add_input_tensor(i)
        op.set_output_tensor(out)
        if attrs:
            op.attrs.update(attrs)
        self.ops.append(op)
        return out

    @staticmethod
    def _out_hw(h, w, kh, kw, sh, sw, padding, dh=1, dw=1):
        kh = (kh - 1) * dh + 1
        kw = (kw - 1) * dw + 1
        if padding == Padding.SAME:
            return -(-h // sh), -(-w // sw)
        return (h - kh) // sh + 1, (w - kw) // sw + 1

    # -- operators
    def conv(self, x, oc, k=(3, 3), stride=(1, 1), padding=Padding.SAME, act=None, dilation=(1, 1), oscale=0.05,
             per_channel=False, bias=True):
        n, h, w, c = x.shape
        kh, kw = k
        oh, ow = self._out_hw(h, w, kh, kw, stride[0], stride[1], padding, dilation[0], dilation[1])
        wt = self.const([oc, kh, kw, c], self._wdtype(), scale=0.02)
        if per_channel:
            wt.quantization = _q(0.02, 0)
            wt.quantization.scale_f32 = np.full([oc], 0.02, np.float32)
            wt.quantization.zero_point = np.zeros([oc], np.int64)
            wt.quantization.quant_dim = 0
        bt = self.const([oc], DataType.int32, scale=0.001, lo=-1000, hi=1000) if bias else None
        out = self.fm([n, oh, ow, oc], oscale)
        attrs = dict(
            dilation_h_factor=dilation[0], dilation_w_factor=dilation[1], fused_activation_function=act,
            padding=padding, stride_h=stride[0], stride_w=stride[1],
        )
        return self._op(Op.Conv2DBias, [x, wt, bt], out, attrs)

    def dwconv(self, x, k=(3, 3), stride=(1, 1), padding=Padding.SAME, act=None, dilation=(1, 1), oscale=0.05,
               depth_multiplier=1):
        n, h, w, c = x.shape
        kh, kw = k
        oh, ow = self._out_hw(h, w, kh, kw, stride[0], stride[1], padding, dilation[0], dilation[1])
        oc = c * depth_multiplier
        wt = self.const([1, kh, kw, oc], self._wdtype(), scale=0.02)
        bt = self.const([oc], DataType.int32, scale=0.001, lo=-1000, hi=1000)
        out = self.fm([n, oh, ow, oc], oscale)
        attrs = dict(
            depth_multiplier=depth_multiplier, dilation_h_factor=dilation[0], dilation_w_factor=dilation[1],
            fused_activation_function=act, padding=padding, stride_h=stride[0], stride_w=stride[1],
        )
        return self._op(Op.DepthwiseConv2DBias, [x, wt, bt], out, attrs)

    def pool(self, x, kind="max", k=(2, 2), stride=(2, 2), padding=Padding.VALID, act=None):
        n, h, w, c = x.shape
        oh, ow = self._out_hw(h, w, k[0], k[1], stride[0], stride[1], padding)
        out = self.fm([n, oh, ow, c], float(x.quantization.scale_f32), int(x.quantization.zero_point))
        attrs = dict(
            filter_height=k[0], filter_width=k[1], fused_activation_function=act, padding=padding,
            stride_h=stride[0], stride_w=stride[1],
        )
        return self._op(Op.MaxPool if kind == "max" else Op.AvgPool, [x], out, attrs)

    def ew(self, op_type, a, b, oscale=0.1, act=None):
        shape = [max(p, q) for p, q in zip(a.shape, b.shape)] if len(a.shape) == len(b.shape) else list(a.shape)
        out = self.fm(shape, oscale)
        attrs = dict(fused_activation_function=act)
        if op_type in (Op.Add, Op.Sub):
            attrs["pot_scale_int16"] = False
        return self._op(op_type, [a, b], out, attrs)

    def add(self, a, b, **kw):
        return self.ew(Op.Add, a, b, **kw)

    def mul(self, a, b, **kw):
        return self.ew(Op.Mul, a, b, **kw)

    def unary(self, op_type, x, oscale=None, attrs=None):
        out = self.fm(list(x.shape), oscale if oscale is not None else float(x.quantization.scale_f32))
        return self._op(op_type, [x], out, attrs or {})

    def tanh(self, x):
        return self.unary(Op.Tanh, x, 1.0 / 128)

    def sigmoid(self, x):
        out = self.fm(list(x.shape), 1.0 / 256, -128)
        return self._op(Op.Sigmoid, [x], out, {})

    def leaky_relu(self, x, alpha=0.1):
        return self.unary(Op.LeakyRelu, x, attrs=dict(alpha=alpha))

    def softmax(self, x, beta=1.0):
        out = self.fm(list(x.shape), 1.0 / 256, -128)
        return self._op(Op.Softmax, [x], out, dict(beta=beta))

    def fc(self, x, oc, act=None, oscale=0.05):
        ic = x.shape[-1]
        wt = self.const([oc, ic], self._wdtype(), scale=0.02)
        bt = self.const([oc], DataType.int32, scale=0.001, lo=-1000, hi=1000)
        out = self.fm(list(x.shape[:-1]) + [oc], oscale)
        attrs = dict(asymmetric_quantize_inputs=False, fused_activation_function=act, keep_num_dims=False,
                     weights_format=0)
        return self._op(Op.FullyConnected, [x, wt, bt], out, attrs)

    def reshape(self, x, shape):
        shp = self.const([len(shape)], DataType.int32, values=shape, quant=False)
        out = self.fm(list(shape), float(x.quantization.scale_f32), int(x.quantization.zero_point))
        return self._op(Op.Reshape, [x, shp], out, dict(new_shape=list(shape)))

    def concat(self, xs, axis=3, oscale=None):
        shape = list(xs[0].shape)
        shape[axis] = sum(x.shape[axis] for x in xs)
        out = self.fm(shape, oscale if oscale else float(xs[0].quantization.scale_f32))
        return self._op(Op.ConcatTFLite, list(xs), out, dict(axis=axis, fused_activation_function=None))

    def resize_bilinear(self, x, oh, ow, align_corners=False, half_pixel_centers=False):
        n, h, w, c = x.shape
        sz = self.const([2], DataType.int32, values=[oh, ow], quant=False)
        out = self.fm([n, oh, ow, c], float(x.quantization.scale_f32), int(x.quantization.zero_point))
        return self._op(Op.ResizeBilinear, [x, sz], out,
                        dict(align_corners=align_corners, half_pixel_centers=half_pixel_centers))

    def resize_nearest(self, x, oh, ow, align_corners=False, half_pixel_centers=False):
        n, h, w, c = x.shape
        sz = self.const([2], DataType.int32, values=[oh, ow], quant=False)
        out = self.fm([n, oh, ow, c], float(x.quantization.scale_f32), int(x.quantization.zero_point))
        return self._op(Op.ResizeNearestNeighbor, [x, sz], out,
                        dict(align_corners=align_corners, half_pixel_centers=half_pixel_centers))

    def transpose(self, x, perm):
        p = self.const([len(perm)], DataType.int32, values=perm, quant=False)
        out = self.fm([x.shape[i] for i in perm], float(x.quantization.scale_f32), int(x.quantization.zero_point))
        return self._op(Op.Transpose, [x, p], out, {})

    def pad(self, x, pads):
        p = self.const([len(pads), 2], DataType.int32, values=pads, quant=False)
        shape = [d + a + b for d, (a, b) in zip(x.shape, pads)]
        out = self.fm(shape, float(x.quantization.scale_f32), int(x.quantization.zero_point))
        return self._op(Op.Pad, [x, p], out, {})

    def mean(self, x, axes=(1, 2), keep_dims=True):
        a = self.const([len(axes)], DataType.int32, values=list(axes), quant=False)
        shape = [1 if i in axes else d for i, d in enumerate(x.shape)]
        if not keep_dims:
            shape = [d for i, d in enumerate(x.shape) if i not in axes]
        out = self.fm(shape, float(x.quantization.scale_f32), int(x.quantization.zero_point))
        return self._op(Op.Mean, [x, a], out, dict(keep_dims=keep_dims))

    def strided_slice(self, x, begin, end):
        b = self.const([len(begin)], DataType.int32, values=begin, quant=False)
        e = self.const([len(end)], DataType.int32, values=end, quant=False)
        s = self.const([len(end)], DataType.int32, values=[1] * len(end), quant=False)
        shape = [q - p for p, q in zip(begin, end)]
        out = self.fm(shape, float(x.quantization.scale_f32), int(x.quantization.zero_point))
        return self._op(Op.StridedSlice, [x, b, e, s], out,
                        dict(begin_mask=0, ellipsis_mask=0, end_mask=0, new_axis_mask=0, shrink_axis_mask=0))

    def transpose_conv(self, x, oc, k=(3, 3), stride=(2, 2), padding=Padding.SAME, oscale=0.05):
        n, h, w, c = x.shape
        if padding == Padding.SAME:
            oh, ow = h * stride[0], w * stride[1]
        else:
            oh, ow = (h - 1) * stride[0] + k[0], (w - 1) * stride[1] + k[1]
        wt = self.const([oc, k[0], k[1], c], self._wdtype(), scale=0.02)
        bt = self.const([oc], DataType.int32, scale=0.001, lo=-1000, hi=1000)
        osh = self.const([4], DataType.int32, values=[n, oh, ow, oc], quant=False)
        out = self.fm([n, oh, ow, oc], oscale)
        return self._op(Op.Conv2DBackpropInput, [osh, wt, x, bt], out,
                        dict(padding=padding, stride_h=stride[0], stride_w=stride[1],
                             fused_activation_function=None))

    def _multi(self, op_type, inputs, outs, attrs=None):
        op = Operation(op_type, self._name(op_type.name))
        for i in inputs:
            op.add_input_tensor(i)
        op.outputs = list(outs)
        for o in outs:
            o.ops = [op]
        if attrs:
            op.attrs.update(attrs)
        self.ops.append(op)
        return outs

    def _like(self, x, shape=None):
        return self.fm(list(shape if shape is not None else x.shape), float(x.quantization.scale_f32),
                       int(x.quantization.zero_point), x.dtype)

    def split(self, x, axis, num):
        a = self.const([], DataType.int32, values=axis, quant=False)
        shape = list(x.shape)
        shape[axis] //= num
        outs = [self._like(x, shape) for _ in range(num)]
        return self._multi(Op.Split, [a, x], outs, dict(num_splits=num))

    def split_v(self, x, axis, sizes):
        sz = self.const([len(sizes)], DataType.int32, values=sizes, quant=False)
        a = self.const([], DataType.int32, values=axis, quant=False)
        outs = []
        for s_ in sizes:
            shape = list(x.shape)
            shape[axis] = s_
            outs.append(self._like(x, shape))
        return self._multi(Op.SplitV, [x, sz, a], outs, dict(num_splits=len(sizes)))

    def unpack(self, x, axis):
        num = x.shape[axis]
        shape = [d for i, d in enumerate(x.shape) if i != axis]
        outs = [self._like(x, shape) for _ in range(num)]
        return self._multi(Op.Unpack, [x], outs, dict(axis=axis, num=num))

    def pack(self, xs, axis):
        shape = list(xs[0].shape)
        shape.insert(axis, len(xs))
        out = self._like(xs[0], shape)
        return self._op(Op.Pack, list(xs), out, dict(axis=axis, values_count=len(xs)))

    def slice(self, x, begin, size):
        b = self.const([len(begin)], DataType.int32, values=begin, quant=False)
        sz = self.const([len(size)], DataType.int32, values=size, quant=False)
        out = self._like(x, size)
        return self._op(Op.Slice, [x, b, sz], out, {})

    def minimum(self, a, b):
        out = self._like(a, [max(p, q) for p, q in zip(a.shape, b.shape)])
        return self._op(Op.Minimum, [a, b], out, {})

    def maximum(self, a, b):
        out = self._like(a, [max(p, q) for p, q in zip(a.shape, b.shape)])
        return self._op(Op.Maximum, [a, b], out, {})

    def sub(self, a, b, **kw):
        return self.ew(Op.Sub, a, b, **kw)

    def abs(self, x):
        return self.unary(Op.Abs, x)

    def exp(self, x):
        return self.unary(Op.Exp, x, 1.0 / 64)

    def hardswish(self, x):
        return self.unary(Op.HardSwish, x)

    def rsqrt(self, x):
        return self.unary(Op.Rsqrt, x, 1.0 / 64)

    def prelu(self, x):
        alpha = self.const([1, 1, x.shape[-1]], scale=0.01, lo=-50, hi=127)
        out = self._like(x)
        return self._op(Op.Prelu, [x, alpha], out, {})

    def argmax(self, x, axis=3):
        a = self.const([], DataType.int32, values=axis, quant=False)
        shape = [d for i, d in enumerate(x.shape) if i != axis]
        out = Tensor(shape, DataType.int32, self._name("argmax"))
        return self._op(Op.ArgMax, [x, a], out, dict(output_type=DataType.int32))

    def quantize(self, x, scale, zp=0, dtype=None):
        out = self.fm(list(x.shape), scale, zp, dtype or x.dtype)
        return self._op(Op.Quantize, [x], out, {})

    def expand_dims(self, x, axis):
        a = self.const([], DataType.int32, values=axis, quant=False)
        shape = list(x.shape)
        shape.insert(axis, 1)
        return self._op(Op.ExpandDims, [x, a], self._like(x, shape), {})

    def squeeze(self, x, dims):
        shape = [d for i, d in enumerate(x.shape) if i not in dims]
        return self._op(Op.Squeeze, [x], self._like(x, shape), dict(squeeze_dims=list(dims)))

    def lstm(self, x, n_out, time_major=False):
        """UNIDIRECTIONAL_SEQUENCE_LSTM; x is [batch, time, feature] (or [time, batch, feature] when time_major)"""
        dt = x.dtype
        if time_major:
            n_time, n_batch, n_feat = x.shape
        else:
            n_batch, n_time, n_feat = x.shape
        bias_dt = DataType.int32

        def w(shape):
            return self.const(shape, DataType.int8, scale=0.01, lo=-60, hi=60)

        def b():
            return self.const([n_out], bias_dt, scale=0.0001, lo=-500, hi=500)

        in_w = [w([n_out, n_feat]) for _ in range(4)]
        rec_w = [w([n_out, n_out]) for _ in range(4)]
        biases = [b() for _ in range(4)]
        out_state = self.fm([n_batch, n_out], float(x.quantization.scale_f32), 0, dt, self._name("output_state"))
        out_state.is_variable = True
        cell_state = self.fm([n_batch, n_out], 2.0 ** -11, 0, DataType.int16, self._name("cell_state"))
        cell_state.is_variable = True
        for st in (out_state, cell_state):
            vop = Operation(Op.Placeholder, st.name + "_var")
            vop.set_output_tensor(st)
        inputs = [x] + in_w + rec_w + [None, None, None] + biases + [None, None, out_state, cell_state] + [None] * 4
        oshape = [n_time, n_batch, n_out] if time_major else [n_batch, n_time, n_out]
        out = self.fm(oshape, float(x.quantization.scale_f32), 0, dt)
        op = Operation(Op.UnidirectionalSequenceLstm, self._name("lstm"))
        for i in inputs:
            if i is None:
                op.inputs.append(None)
            else:
                op.add_input_tensor(i)
        op.set_output_tensor(out)
        inter = []
        for k in range(5):
            t = self.fm([], 2.0 ** -12 if k < 4 else 2.0 ** -18, 0, DataType.int16 if k < 4 else dt, self._name("lstm_im"))
            inter.append(t)
        op.intermediates = inter
        op.attrs.update(dict(asymmetric_quantize_inputs=False, cell_clip=0.0, diagonal_recurrent_tensors=False,
                             fused_activation_function=Op.Tanh, proj_clip=0.0, time_major=time_major))
        self.ops.append(op)
        self.variables = getattr(self, "variables", []) + [out_state, cell_state]
        return out

    def output(self, *ts):
        self.outputs.extend(ts)

    # -- serialisation
    def build(self):
        from ethosu.vela import tflite_writer

        nng = Graph(self.name)
        sg = Subgraph("main", PassPlacement.Cpu)
        sg.input_tensors = list(self.inputs)
        sg.original_inputs = list(self.inputs)
        sg.output_tensors = list(self.outputs)
        for op in self.ops:
            ps = Pass(op.name, PassPlacement.Cpu, False, NpuBlockType.Default)
            ps.ops = [op]
            sg.passes.append(ps)
        ps = Pass("placeholders", PassPlacement.Cpu, False, NpuBlockType.Default)
        ps.ops = [t.ops[0] for t in self.inputs]
        sg.passes.insert(0, ps)
        nng.subgraphs.append(sg)
        with contextlib.redirect_stdout(io.StringIO()):
            buf = tflite_writer.write_tflite_buffer(nng)
        return bytes(buf)


# ----------------------------------------------------------------------------------------------------------------------
# Running the compiler
# ----------------------------------------------------------------------------------------------------------------------
class CompileResult:
    def __init__(self, rc, log, out_path, workdir):
        self.rc = rc
        self.log = log
        self.out_path = out_path
        self.workdir = workdir

    def cleanup(self):
        shutil.rmtree(self.workdir, ignore_errors=True)


def compile_model(model_bytes, args=(), name="model", quiet=True):
    """Runs `vela <model> <args>` in a temporary directory; returns CompileResult"""
    from ethosu.vela import vela

    workdir = tempfile.mkdtemp(prefix="c02_")
    path = os.path.join(workdir, name + ".tflite")
    with open(path, "wb") as f:
        f.write(model_bytes)
    outdir = os.path.join(workdir, "out")
    argv = [path, "--output-dir", outdir] + list(args)
    log = io.StringIO()
    # some of the compiler's summary output is written to the original sys.stdout object: capture on file descriptor level
    sys.stdout.flush()
    sys.stderr.flush()
    cap_path = os.path.join(workdir, "stdout.txt")
    saved = (os.dup(1), os.dup(2))
    cap_fd = os.open(cap_path, os.O_WRONLY | os.O_CREAT | os.O_TRUNC)
    os.dup2(cap_fd, 1)
    os.dup2(cap_fd, 2)
    try:
        with contextlib.redirect_stdout(log), contextlib.redirect_stderr(log):
            try:
                rc = vela.main(argv)
            except SystemExit as e:
                rc = e.code
    finally:
        sys.__stdout__.flush()
        sys.__stderr__.flush()
        os.dup2(saved[0], 1)
        os.dup2(saved[1], 2)
        os.close(cap_fd)
        os.close(saved[0])
        os.close(saved[1])
    with open(cap_path) as f:
        text = log.getvalue() + f.read()
    out_path = os.path.join(outdir, name + "_vela.tflite")
    if not os.path.exists(out_path):
        out_path = None
    if not quiet:
        print(text)
    return CompileResult(rc, text, out_path, workdir)


# ----------------------------------------------------------------------------------------------------------------------
# Oracle: decode the command streams of a *_vela.tflite file
# ----------------------------------------------------------------------------------------------------------------------
# cmd0 codes
OP_STOP, OP_IRQ, OP_CONV, OP_DEPTHWISE, OP_POOL, OP_ELEMENTWISE = 0x0, 0x1, 0x2, 0x3, 0x5, 0x6
OP_DMA_START, OP_DMA_WAIT, OP_KERNEL_WAIT = 0x10, 0x11, 0x12
C0 = dict(
    IFM_PAD_TOP=0x100, IFM_PAD_LEFT=0x101, IFM_PAD_RIGHT=0x102, IFM_PAD_BOTTOM=0x103, IFM_DEPTH_M1=0x104,
    IFM_PRECISION=0x105, IFM_UPSCALE=0x107, IFM_WIDTH0_M1=0x10A, IFM_HEIGHT0_M1=0x10B, IFM_HEIGHT1_M1=0x10C,
    IFM_REGION=0x10F, OFM_WIDTH_M1=0x111, OFM_HEIGHT_M1=0x112, OFM_DEPTH_M1=0x113, OFM_PRECISION=0x114,
    OFM_WIDTH0_M1=0x11A, OFM_HEIGHT0_M1=0x11B, OFM_HEIGHT1_M1=0x11C, OFM_REGION=0x11F, KERNEL_WIDTH_M1=0x120,
    KERNEL_HEIGHT_M1=0x121, KERNEL_STRIDE=0x122, PARALLEL_MODE=0x123, ACTIVATION=0x125, WEIGHT_REGION=0x128,
    SCALE_REGION=0x129, DMA0_SRC_REGION=0x130, DMA0_DST_REGION=0x131, IFM2_BROADCAST=0x180, IFM2_PRECISION=0x185,
    IFM2_WIDTH0_M1=0x18A, IFM2_HEIGHT0_M1=0x18B, IFM2_HEIGHT1_M1=0x18C, IFM2_REGION=0x18F,
)
C1 = dict(
    IFM_BASE0=0x0, IFM_BASE1=0x1, IFM_BASE2=0x2, IFM_BASE3=0x3, IFM_STRIDE_X=0x4, IFM_STRIDE_Y=0x5, IFM_STRIDE_C=0x6,
    OFM_BASE0=0x10, OFM_BASE1=0x11, OFM_BASE2=0x12, OFM_BASE3=0x13, OFM_STRIDE_X=0x14, OFM_STRIDE_Y=0x15,
    OFM_STRIDE_C=0x16, WEIGHT_BASE=0x20, WEIGHT_LENGTH=0x21, SCALE_BASE=0x22, SCALE_LENGTH=0x23, DMA0_SRC=0x30,
    DMA0_DST=0x31, DMA0_LEN=0x32, IFM2_BASE0=0x80, IFM2_BASE1=0x81, IFM2_BASE2=0x82, IFM2_BASE3=0x83,
    IFM2_STRIDE_X=0x84, IFM2_STRIDE_Y=0x85, IFM2_STRIDE_C=0x86, WEIGHT1_BASE=0x90, WEIGHT1_LENGTH=0x91,
    SCALE1_BASE=0x92, SCALE1_LENGTH=0x93,
)
SHRAM_REGION = 0x103
REGION_NAMES = {0: "flash(constants)", 1: "scratch(arena)", 2: "scratch_fast", SHRAM_REGION: "SHRAM"}


class Access:
    def __init__(self, op_index, op_name, what, region, lo, hi, write):
        self.op_index, self.op_name, self.what = op_index, op_name, what
        self.region, self.lo, self.hi, self.write = region, lo, hi, write

    def __repr__(self):
        rw = "W" if self.write else "R"
        return (f"op#{self.op_index} {self.op_name} {self.what} {rw} region={REGION_NAMES.get(self.region, self.region)}"
                f" [{self.lo}, {self.hi})")


def _fm_footprint(bases, h0, h1, w0, height, width, depth, sx, sy, sc, elem, nhcwb16):
    """Returns list of (lo, hi) byte ranges (hi exclusive), one per tile in use, for a H x W x D feature map"""
    tiles = []
    tiles.append((0, min(height, h0), min(width, w0)))
    if width > w0:
        tiles.append((1, min(height, h1), width - w0))
    if height > h0:
        tiles.append((2, height - h0, min(width, w0)))
    if width > w0 and height > h1:
        tiles.append((3, height - h1, width - w0))
    res = []
    for t, rows, cols in tiles:
        base = bases[t]
        if nhcwb16:
            # a depth slice is assumed to start at a brick boundary (tensor bases are only 16-byte aligned, so the channel
            # offset inside a brick cannot be recovered from the address; assuming 0 can only under-estimate the extent)
            c_last = depth - 1
            hi = base + (rows - 1) * sy + (cols - 1) * 16 * elem + (c_last // 16) * sc + (c_last % 16 + 1) * elem
        else:
            hi = base + (rows - 1) * sy + (cols - 1) * sx + depth * elem
        res.append((base, hi))
    return res


def decode_stream(words):
    """Decodes one command stream (list of 32 bit words); returns (accesses, ncores, n_ops)"""
    r0 = {}
    r1 = {}
    accesses = []
    op_index = 0
    i = 0

    def g0(name, default=0):
        return r0.get(C0[name], default)

    def g1(name, default=0):
        return r1.get(C1[name], default)

    def fm(prefix, height, width, depth, prec_shift):
        prec = g0(prefix + "_PRECISION")
        if prefix == "OFM":
            elem = 1 << ((prec >> 1) & 3)
        else:
            elem = 1 << ((prec >> 2) & 3)
        nhcwb16 = bool((prec >> 6) & 1)
        bases = [g1(prefix + "_BASE%d" % t) for t in range(4)]
        return _fm_footprint(
            bases, g0(prefix + "_HEIGHT0_M1") + 1, g0(prefix + "_HEIGHT1_M1") + 1, g0(prefix + "_WIDTH0_M1") + 1,
            height, width, depth, g1(prefix + "_STRIDE_X"), g1(prefix + "_STRIDE_Y"), g1(prefix + "_STRIDE_C"),
            elem, nhcwb16,
        )

    ncores = 1
    while i < len(words):
        w = words[i]
        code = w & 0x3FF
        param = (w >> 16) & 0xFFFF
        has_payload = (w & 0xC000) == 0x4000
        if has_payload:
            payload = words[i + 1]
            i += 2
            r1[code] = payload | (param << 32)
            continue
        i += 1
        if code >= 0x100:
            r0[code] = param
            if code == C0["PARALLEL_MODE"]:
                ncores = param + 1
            continue
        if code in (OP_STOP, OP_IRQ, OP_DMA_WAIT, OP_KERNEL_WAIT, 0x13):
            continue
        if code == OP_DMA_START:
            ln = g1("DMA0_LEN")
            src = g1("DMA0_SRC")
            dst = g1("DMA0_DST")
            accesses.append(Access(op_index, "DMA", "src", g0("DMA0_SRC_REGION"), src, src + ln, False))
            accesses.append(Access(op_index, "DMA", "dst", g0("DMA0_DST_REGION"), dst, dst + ln, True))
            op_index += 1
            continue
        assert code in (OP_CONV, OP_DEPTHWISE, OP_POOL, OP_ELEMENTWISE), hex(code)
        name = {OP_CONV: "CONV", OP_DEPTHWISE: "DEPTHWISE", OP_POOL: "POOL", OP_ELEMENTWISE: "ELEMENTWISE"}[code]
        oh, ow, od = g0("OFM_HEIGHT_M1") + 1, g0("OFM_WIDTH_M1") + 1, g0("OFM_DEPTH_M1") + 1
        for lo, hi in fm("OFM", oh, ow, od, 1):
            accesses.append(Access(op_index, name, "OFM", g0("OFM_REGION"), lo, hi, True))
        idepth = g0("IFM_DEPTH_M1") + 1
        if code == OP_ELEMENTWISE:
            ih, iw = oh, ow
        else:
            ks = g0("KERNEL_STRIDE")
            sx = ((ks & 1) | (((ks >> 6) & 7) << 1)) + 1
            sy = (((ks >> 1) & 1) | (((ks >> 9) & 7) << 1)) + 1
            kw = g0("KERNEL_WIDTH_M1") + 1  # dilated extent
            kh = g0("KERNEL_HEIGHT_M1") + 1
            ih = (oh - 1) * sy + kh - g0("IFM_PAD_TOP") - g0("IFM_PAD_BOTTOM")
            iw = (ow - 1) * sx + kw - g0("IFM_PAD_LEFT") - g0("IFM_PAD_RIGHT")
            if g0("IFM_UPSCALE") != 0:
                ih = -(-ih // 2)
                iw = -(-iw // 2)
            ih, iw = max(ih, 1), max(iw, 1)
        for lo, hi in fm("IFM", ih, iw, idepth, 2):
            accesses.append(Access(op_index, name, "IFM", g0("IFM_REGION"), lo, hi, False))
        if code == OP_ELEMENTWISE and param in (0, 1, 2, 3, 4, 8, 9):  # binary: MUL ADD SUB MIN MAX SHR SHL
            bc = g0("IFM2_BROADCAST")
            if not (bc & 0x80):
                h2 = 1 if bc & 1 else oh
                w2 = 1 if bc & 2 else ow
                d2 = 1 if bc & 4 else od
                for lo, hi in fm("IFM2", h2, w2, d2, 2):
                    accesses.append(Access(op_index, name, "IFM2", g0("IFM2_REGION"), lo, hi, False))
        if code in (OP_CONV, OP_DEPTHWISE):
            b, ln = g1("WEIGHT_BASE"), g1("WEIGHT_LENGTH") & 0xFFFFFFFF
            if ln:
                accesses.append(Access(op_index, name, "WEIGHT", g0("WEIGHT_REGION"), b, b + ln, False))
            b, ln = g1("SCALE_BASE"), g1("SCALE_LENGTH") & 0xFFFFFFFF
            if ln:
                accesses.append(Access(op_index, name, "SCALE", g0("SCALE_REGION"), b, b + ln, False))
            if ncores > 1:
                b, ln = g1("WEIGHT1_BASE"), g1("WEIGHT1_LENGTH") & 0xFFFFFFFF
                if ln:
                    accesses.append(Access(op_index, name, "WEIGHT1", g0("WEIGHT_REGION"), b, b + ln, False))
                b, ln = g1("SCALE1_BASE"), g1("SCALE1_LENGTH") & 0xFFFFFFFF
                if ln:
                    accesses.append(Access(op_index, name, "SCALE1", g0("SCALE_REGION"), b, b + ln, False))
        if (g0("ACTIVATION") & 0x10) and True:
            pass  # LUT lives in SHRAM; its placement is checked through the DMA destination
        op_index += 1
    return accesses, ncores, op_index


def parse_payload(data):
    """Splits the custom operator payload into (shram_bytes_per_core, command stream words)"""
    words = list(struct.unpack("<%dI" % (len(data) // 4), data[: len(data) // 4 * 4]))
    assert words[0] == struct.unpack("<I", b"COP1")[0], "bad fourcc"
    i = 1
    shram_kb = None
    product = 0
    stream = None
    while i < len(words):
        tag = words[i]
        cmd = tag & 0xFF
        if cmd == 0x01:  # config
            cfg = words[i + 1]
            shram_kb = (cfg >> 8) & 0xFF
            product = (cfg >> 28) & 0xF
            i += 3
        elif cmd == 0x05:
            i += 1
        elif cmd == 0x02:
            length = ((tag >> 8) & 0xFF) << 16 | (tag >> 16)
            stream = words[i + 1 : i + 1 + length]
            i += 1 + length
        else:
            raise AssertionError("unknown driver action %x" % cmd)
    return shram_kb, product, stream


def read_npu_ops(path):
    """Returns list of dicts describing every ethos-u custom operator in the file"""
    with open(path, "rb") as f:
        buf = f.read()
    model = TflModel.Model.GetRootAsModel(bytearray(buf), 0)
    res = []
    for sgi in range(model.SubgraphsLength()):
        sg = model.Subgraphs(sgi)
        for oi in range(sg.OperatorsLength()):
            op = sg.Operators(oi)
            oc = model.OperatorCodes(op.OpcodeIndex())
            cc = oc.CustomCode()
            if cc is None or cc.decode() != "ethos-u":
                continue
            tens = [sg.Tensors(op.Inputs(k)) for k in range(4)]
            names = [t.Name().decode() for t in tens]
            sizes = []
            for t in tens:
                n = 1
                for d in range(t.ShapeLength()):
                    n *= t.Shape(d)
                sizes.append(n)
            cs_buf = model.Buffers(tens[0].Buffer())
            payload = cs_buf.DataAsNumpy().tobytes()
            flash_buf = model.Buffers(tens[1].Buffer())
            flash_len = flash_buf.DataLength()
            res.append(dict(names=names, sizes=sizes, payload=payload, flash_data_len=flash_len))
    return res


def cpu_operator_codes(path):
    """Returns the builtin operator codes of the operators that were left on the CPU"""
    with open(path, "rb") as f:
        buf = f.read()
    model = TflModel.Model.GetRootAsModel(bytearray(buf), 0)
    res = []
    for sgi in range(model.SubgraphsLength()):
        sg = model.Subgraphs(sgi)
        for oi in range(sg.OperatorsLength()):
            op = sg.Operators(oi)
            oc = model.OperatorCodes(op.OpcodeIndex())
            cc = oc.CustomCode()
            if cc is not None and cc.decode() == "ethos-u":
                continue
            res.append(max(oc.BuiltinCode(), oc.DeprecatedBuiltinCode()))
    return res


def check_output(path, arena_cache_size=None, dedicated_sram=False, verbose=False):
    """
    Returns list of violation strings for the compiled network in `path`.
    """
    violations = []
    npu_ops = read_npu_ops(path)
    if not npu_ops:
        violations.append("NO-NPU-OP: nothing was placed on the NPU (oracle vacuous)")
    for k, info in enumerate(npu_ops):
        cs_size, flash_size, scratch_size, fast_size = info["sizes"]
        shram_kb, product, stream = parse_payload(info["payload"])
        accesses, ncores, n_ops = decode_stream(stream)
        limits = {0: flash_size, 1: scratch_size, 2: fast_size, SHRAM_REGION: (shram_kb // ncores) * 1024}
        if verbose:
            print(f"npu op {k}: tensors {info['names']} sizes {info['sizes']} ops {n_ops} limits {limits}")
        if info["flash_data_len"] != flash_size:
            violations.append(f"npu op {k}: flash tensor shape {flash_size} != buffer length {info['flash_data_len']}")
        for a in accesses:
            if verbose:
                print("   ", a)
            if a.region not in limits:
                violations.append(f"npu op {k}: {a}: unknown region")
                continue
            if a.lo < 0 or a.hi > limits[a.region] or a.hi < a.lo:
                violations.append(f"npu op {k}: {a}: outside the published extent of {limits[a.region]} bytes")
            if a.write and a.region == 0:
                violations.append(f"npu op {k}: {a}: write to the constants region")
        if dedicated_sram and arena_cache_size is not None and fast_size > arena_cache_size:
            violations.append(
                f"npu op {k}: published fast-scratch extent {fast_size} exceeds arena cache size {arena_cache_size}"
            )
    return violations


def run_case(net_or_bytes, args=(), arena_cache_size=None, dedicated_sram=False, verbose=False, keep=False):
    """Compiles and checks; returns (status, violations, log). status in OK / VIOLATION / REJECTED"""
    data = net_or_bytes.build() if isinstance(net_or_bytes, Net) else net_or_bytes
    res = compile_model(data, args)
    try:
        if res.rc != 0 or res.out_path is None:
            return "REJECTED", [], res.log
        v = check_output(res.out_path, arena_cache_size, dedicated_sram, verbose)
        res.log += "\nCPU-OPS: %s" % cpu_operator_codes(res.out_path)
        return ("VIOLATION" if v else "OK"), v, res.log
    finally:
        if not keep:
            res.cleanup()


def run_demo(cases, need=None):
    """
    cases: list of (label, model bytes, vela args, arena cache size or None, dedicated sram flag).
    need: optional function(path) -> str or None; returns a reason when the compiled file does not exercise the scenario.
    Prints PASS / FAIL and returns the exit code. A configuration that the compiler rejects produces no output file and
    therefore cannot violate the property; it is reported but only counts when nothing at all could be checked.
    """
    failures = []
    notes = []
    checked = 0
    for label, model, args, acs, ded in cases:
        res = compile_model(model, args)
        try:
            if res.rc != 0 or res.out_path is None:
                last = res.log.strip().splitlines()[-1:] if res.log.strip() else []
                notes.append(f"{label}: rejected by the compiler {last}")
                continue
            why = need(res.out_path) if need else None
            if why:
                notes.append(f"{label}: scenario not exercised ({why})")
                continue
            checked += 1
            for s in check_output(res.out_path, acs, ded)[:6]:
                failures.append(f"{label}: {s}")
        finally:
            res.cleanup()
    if checked == 0:
        failures.append("nothing could be checked: " + "; ".join(notes))
    if failures:
        print("FAIL")
        for f in failures:
            print("  ", f)
        for s in notes:
            print("   note:", s)
        return 1
    print("PASS" + ("" if not notes else "  (" + "; ".join(notes) + ")"))
    return 0


def count_npu_ops(path):
    n = 0
    for info in read_npu_ops(path):
        _, _, stream = parse_payload(info["payload"])
        n += decode_stream(stream)[2]
    return n

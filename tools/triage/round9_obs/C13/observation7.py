"""A constant tensor of type INT4 (TensorType 17, which tflite_mapping.datatype_map knows): datatype_map_numpy has no entry
for it, so TFLiteSubgraph.parse_tensor dies with KeyError: 17 (KeyError is not among the exceptions the reader turns
into an 'Invalid tflite file' message).  A non-constant INT4 tensor is read and the operator falls back to the CPU."""
import sys

import numpy as np

from _obs_common import c13util, report
from c13util import BuiltinOperator as B, O, SG, T, TensorType as TT

c13util.NP_TYPES[TT.INT4] = np.int8


def model(const):
    return SG([T("x", [1, 4], TT.INT8, 0.05, 0), T("c", [1, 4], TT.INT4, 0.05, 0, np.array([[1, 2, 3, 4]]) if const else None),
               T("y", [1, 4], TT.INT8, 0.05, 0)],
              [O(B.ADD, [0, 1], [2], ("AddOptions", dict(FusedActivationFunction=0)))], [0] if const else [0, 1], [2])


cases = [("ADD with a constant INT4 operand", c13util.build_tflite(model(True)), ()),
         ("control: ADD with a non-constant INT4 operand", c13util.build_tflite(model(False)), ())]
sys.exit(report(__doc__, cases))

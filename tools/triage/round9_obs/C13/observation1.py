"""RESIZE_NEAREST_NEIGHBOR int8 [1,4,4,4] -> [1,7,7,4] with align_corners=True: ValueError in
tflite_graph_optimiser.convert_resizenn_ac_to_depthwise_conv ("cannot reshape array of size 4 into shape (2,2,4,4)").
The same resize with RESIZE_BILINEAR, or without align_corners, compiles."""
import sys

from _obs_common import c13util, report
import zoo
from c13util import BuiltinOperator as B

cases = [
    ("RESIZE_NEAREST_NEIGHBOR 4x4->7x7 align_corners", c13util.build_tflite(zoo.resize(B.RESIZE_NEAREST_NEIGHBOR, osize=(7, 7), align=True)), ()),
    ("control: RESIZE_BILINEAR 4x4->7x7 align_corners", c13util.build_tflite(zoo.resize(B.RESIZE_BILINEAR, osize=(7, 7), align=True)), ()),
    ("control: RESIZE_NEAREST_NEIGHBOR 4x4->8x8", c13util.build_tflite(zoo.resize(B.RESIZE_NEAREST_NEIGHBOR, osize=(8, 8))), ()),
]
sys.exit(report(__doc__, cases))

"""A zoo of small, structurally valid TFLite models used to sweep the C13 property."""
import os
import sys

import numpy as np

sys.path.insert(0, os.path.dirname(os.path.abspath(__file__)))
from c13util import O, SG, T, BuiltinOperator as B, TensorType as TT  # noqa: E402

I8, U8, I16, I32, I64, F32, BOOL = TT.INT8, TT.UINT8, TT.INT16, TT.INT32, TT.INT64, TT.FLOAT32, TT.BOOL


def rnd(shape, lo=-100, hi=100, seed=1):
    return np.random.RandomState(seed).randint(lo, hi, shape)


def conv_opts(padding=0, sw=1, sh=1, faf=0, dw=1, dh=1):
    return (
        "Conv2DOptions",
        dict(Padding=padding, StrideW=sw, StrideH=sh, FusedActivationFunction=faf, DilationWFactor=dw, DilationHFactor=dh),
    )


def out_hw(h, w, kh, kw, sh, sw, padding, dh=1, dw=1):
    if padding == 0:
        return -(-h // sh), -(-w // sw)
    ekh, ekw = (kh - 1) * dh + 1, (kw - 1) * dw + 1
    return (h - ekh) // sh + 1, (w - ekw) // sw + 1


def conv(ifm=(1, 8, 8, 4), oc=8, k=(3, 3), s=(1, 1), padding=0, dtype=I8, faf=0, per_axis=False, bias=True, dil=(1, 1),
         wdtype=I8, bias_dtype=I32, ifm_scale=0.05, wzp=0):
    n, h, w, c = ifm
    oh, ow = out_hw(h, w, k[0], k[1], s[0], s[1], padding, dil[0], dil[1])
    wscale = list(0.01 + 0.001 * np.arange(oc)) if per_axis else 0.02
    wz = [wzp] * oc if per_axis else wzp
    bscale = [ifm_scale * x for x in wscale] if per_axis else ifm_scale * 0.02
    tensors = [
        T("ifm", list(ifm), dtype, ifm_scale, 0),
        T("w", [oc, k[0], k[1], c], wdtype, wscale, wz, rnd((oc, k[0], k[1], c), 0 if wdtype == U8 else -100)),
        T("b", [oc], bias_dtype, bscale, [0] * oc if per_axis else 0, rnd((oc,), -500, 500)),
        T("ofm", [n, oh, ow, oc], dtype, 0.1, 0),
    ]
    ins = [0, 1, 2] if bias else [0, 1]
    return SG(tensors, [O(B.CONV_2D, ins, [3], conv_opts(padding, s[1], s[0], faf, dil[1], dil[0]))], [0], [3])


def dwconv(ifm=(1, 8, 8, 4), mult=1, k=(3, 3), s=(1, 1), padding=0, dtype=I8, faf=0, dil=(1, 1)):
    n, h, w, c = ifm
    oc = c * mult
    oh, ow = out_hw(h, w, k[0], k[1], s[0], s[1], padding, dil[0], dil[1])
    tensors = [
        T("ifm", list(ifm), dtype, 0.05, 0),
        T("w", [1, k[0], k[1], oc], I8, 0.02, 0, rnd((1, k[0], k[1], oc))),
        T("b", [oc], I32, 0.001, 0, rnd((oc,), -500, 500)),
        T("ofm", [n, oh, ow, oc], dtype, 0.1, 0),
    ]
    opts = (
        "DepthwiseConv2DOptions",
        dict(Padding=padding, StrideW=s[1], StrideH=s[0], DepthMultiplier=mult, FusedActivationFunction=faf,
             DilationWFactor=dil[1], DilationHFactor=dil[0]),
    )
    return SG(tensors, [O(B.DEPTHWISE_CONV_2D, [0, 1, 2], [3], opts)], [0], [3])


def fc(batch=1, inp=16, out=8, dtype=I8, bias=True, keep=False, ifm_shape=None):
    ishape = ifm_shape or [batch, inp]
    tensors = [
        T("ifm", ishape, dtype, 0.05, 0),
        T("w", [out, inp], I8, 0.02, 0, rnd((out, inp))),
        T("b", [out], I32, 0.001, 0, rnd((out,), -500, 500)),
        T("ofm", (ishape[:-1] + [out]) if keep else [int(np.prod(ishape)) // inp, out], dtype, 0.1, 0),
    ]
    opts = ("FullyConnectedOptions", dict(FusedActivationFunction=0, WeightsFormat=0, KeepNumDims=keep))
    return SG(tensors, [O(B.FULLY_CONNECTED, [0, 1, 2] if bias else [0, 1, -1], [3], opts)], [0], [3])


def pool(kind=B.MAX_POOL_2D, ifm=(1, 8, 8, 4), k=(2, 2), s=(2, 2), padding=1, dtype=I8, faf=0, quant=True):
    n, h, w, c = ifm
    oh, ow = out_hw(h, w, k[0], k[1], s[0], s[1], padding)
    sc = 0.05 if quant else None
    tensors = [T("ifm", list(ifm), dtype, sc, 0), T("ofm", [n, oh, ow, c], dtype, sc, 0)]
    opts = (
        "Pool2DOptions",
        dict(Padding=padding, StrideW=s[1], StrideH=s[0], FilterWidth=k[1], FilterHeight=k[0], FusedActivationFunction=faf),
    )
    return SG(tensors, [O(kind, [0], [1], opts)], [0], [1])


def binary(kind=B.ADD, a=(1, 8, 8, 4), b=(1, 8, 8, 4), dtype=I8, const_b=False, faf=0, scales=(0.05, 0.07, 0.1),
           out_dtype=None):
    oshape = list(np.broadcast_shapes(tuple(a), tuple(b)))
    optname = {B.ADD: "AddOptions", B.SUB: "SubOptions", B.MUL: "MulOptions"}.get(kind)
    opts = (optname, dict(FusedActivationFunction=faf)) if optname else None
    if kind in (B.MINIMUM, B.MAXIMUM):
        opts = ("MaximumMinimumOptions", {})
    if kind == B.SQUARED_DIFFERENCE:
        opts = ("SquaredDifferenceOptions", {})
    tensors = [
        T("a", list(a), dtype, scales[0], 0),
        T("b", list(b), dtype, scales[1], 0, rnd(b) if const_b else None),
        T("ofm", oshape, out_dtype if out_dtype is not None else dtype, scales[2], 0),
    ]
    return SG(tensors, [O(kind, [0, 1], [2], opts)], [0] if const_b else [0, 1], [2])


def unary(kind, shape=(1, 8, 8, 4), dtype=I8, opts=None, oscale=0.05, iscale=0.05, out_dtype=None, izp=0, ozp=0):
    tensors = [T("ifm", list(shape), dtype, iscale, izp), T("ofm", list(shape), out_dtype or dtype, oscale, ozp)]
    return SG(tensors, [O(kind, [0], [1], opts)], [0], [1])


def reshape(ishape=(1, 8, 8, 4), oshape=(1, 256), dtype=I8, with_tensor=True, with_attr=True):
    tensors = [T("ifm", list(ishape), dtype, 0.05, 0), T("ofm", list(oshape), dtype, 0.05, 0)]
    ins = [0]
    if with_tensor:
        tensors.append(T("shape", [len(oshape)], I32, None, None, np.array(oshape)))
        ins.append(2)
    opts = ("ReshapeOptions", dict(NewShape=list(oshape))) if with_attr else ("ReshapeOptions", {})
    return SG(tensors, [O(B.RESHAPE, ins, [1], opts)], [0], [1])


def concat(shapes=((1, 8, 8, 4), (1, 8, 8, 4)), axis=3, dtype=I8, faf=0):
    oshape = list(shapes[0])
    oshape[axis] = sum(s[axis] for s in shapes)
    tensors = [T(f"in{i}", list(s), dtype, 0.05 + 0.01 * i, 0) for i, s in enumerate(shapes)]
    tensors.append(T("ofm", oshape, dtype, 0.05, 0))
    n = len(shapes)
    opts = ("ConcatenationOptions", dict(Axis=axis, FusedActivationFunction=faf))
    return SG(tensors, [O(B.CONCATENATION, list(range(n)), [n], opts)], list(range(n)), [n])


def split(ishape=(1, 8, 8, 4), axis=3, num=2, dtype=I8):
    oshape = list(ishape)
    oshape[axis] //= num
    tensors = [T("axis", [], I32, None, None, np.array(axis)), T("ifm", list(ishape), dtype, 0.05, 0)]
    tensors += [T(f"out{i}", oshape, dtype, 0.05, 0) for i in range(num)]
    outs = list(range(2, 2 + num))
    return SG(tensors, [O(B.SPLIT, [0, 1], outs, ("SplitOptions", dict(NumSplits=num)))], [1], outs)


def splitv(ishape=(1, 8, 8, 6), axis=3, sizes=(2, 4), dtype=I8):
    tensors = [
        T("ifm", list(ishape), dtype, 0.05, 0),
        T("sizes", [len(sizes)], I32, None, None, np.array(sizes)),
        T("axis", [], I32, None, None, np.array(axis)),
    ]
    rest = ishape[axis] - sum(s for s in sizes if s >= 0)
    for i, s in enumerate(sizes):
        o = list(ishape)
        o[axis] = s if s >= 0 else rest
        tensors.append(T(f"out{i}", o, dtype, 0.05, 0))
    outs = list(range(3, 3 + len(sizes)))
    return SG(tensors, [O(B.SPLIT_V, [0, 1, 2], outs, ("SplitVOptions", dict(NumSplits=len(sizes))))], [0], outs)


def slice_(ishape=(1, 8, 8, 4), begin=(0, 2, 2, 0), size=(1, 4, 4, 4), dtype=I8):
    oshape = [ishape[i] - begin[i] if s == -1 else s for i, s in enumerate(size)]
    tensors = [
        T("ifm", list(ishape), dtype, 0.05, 0),
        T("begin", [len(begin)], I32, None, None, np.array(begin)),
        T("size", [len(size)], I32, None, None, np.array(size)),
        T("ofm", oshape, dtype, 0.05, 0),
    ]
    return SG(tensors, [O(B.SLICE, [0, 1, 2], [3], ("SliceOptions", {}))], [0], [3])


def strided_slice(ishape=(1, 8, 8, 4), begin=(0, 2, 2, 0), end=(1, 6, 6, 4), strides=(1, 1, 1, 1), oshape=None, dtype=I8,
                  masks=None):
    if oshape is None:
        oshape = [-(-(e - b) // s) for b, e, s in zip(begin, end, strides)]
    m = dict(BeginMask=0, EndMask=0, EllipsisMask=0, NewAxisMask=0, ShrinkAxisMask=0)
    m.update(masks or {})
    tensors = [
        T("ifm", list(ishape), dtype, 0.05, 0),
        T("begin", [len(begin)], I32, None, None, np.array(begin)),
        T("end", [len(end)], I32, None, None, np.array(end)),
        T("strides", [len(strides)], I32, None, None, np.array(strides)),
        T("ofm", list(oshape), dtype, 0.05, 0),
    ]
    return SG(tensors, [O(B.STRIDED_SLICE, [0, 1, 2, 3], [4], ("StridedSliceOptions", m))], [0], [4])


def pad(ishape=(1, 8, 8, 4), pads=((0, 0), (1, 1), (1, 1), (0, 0)), dtype=I8, kind=B.PAD, pad_dtype=I32, then_conv=False):
    oshape = [d + p[0] + p[1] for d, p in zip(ishape, pads)]
    tensors = [
        T("ifm", list(ishape), dtype, 0.05, 0),
        T("pads", [len(pads), 2], pad_dtype, None, None, np.array(pads)),
        T("ofm", oshape, dtype, 0.05, 0),
    ]
    ins = [0, 1]
    opts = ("PadOptions", {})
    if kind == B.PADV2:
        tensors.append(T("cv", [1], dtype, 0.05, 0, np.array([3])))
        ins.append(3)
        opts = ("PadV2Options", {})
    if kind == B.MIRROR_PAD:
        opts = ("MirrorPadOptions", dict(Mode=0))
    ops = [O(kind, ins, [2], opts)]
    outs = [2]
    if then_conv:
        base = len(tensors)
        c = oshape[3]
        oh, ow = oshape[1] - 2, oshape[2] - 2
        tensors += [
            T("w", [8, 3, 3, c], I8, 0.02, 0, rnd((8, 3, 3, c))),
            T("b", [8], I32, 0.001, 0, rnd((8,))),
            T("cofm", [oshape[0], oh, ow, 8], dtype, 0.1, 0),
        ]
        ops.append(O(B.CONV_2D, [2, base, base + 1], [base + 2], conv_opts(1)))
        outs = [base + 2]
    return SG(tensors, ops, [0], outs)


def mean(ishape=(1, 8, 8, 4), axes=(1, 2), keep=True, dtype=I8, kind=B.MEAN, iscale=0.05, oscale=0.05, axis_dtype=I32):
    ax = [a % len(ishape) for a in axes]
    if keep:
        oshape = [1 if i in ax else d for i, d in enumerate(ishape)]
    else:
        oshape = [d for i, d in enumerate(ishape) if i not in ax]
    tensors = [
        T("ifm", list(ishape), dtype, iscale, 0),
        T("axes", [len(axes)], axis_dtype, None, None, np.array(axes)),
        T("ofm", oshape, dtype, oscale, 0),
    ]
    return SG(tensors, [O(kind, [0, 1], [2], ("ReducerOptions", dict(KeepDims=keep)))], [0], [2])


def softmax(shape=(1, 10), dtype=I8, beta=1.0):
    osc, ozp = (1 / 256, -128) if dtype == I8 else ((1 / 256, 0) if dtype == U8 else (1 / 32768, 0))
    tensors = [T("ifm", list(shape), dtype, 0.1, 0), T("ofm", list(shape), dtype, osc, ozp)]
    return SG(tensors, [O(B.SOFTMAX, [0], [1], ("SoftmaxOptions", dict(Beta=beta)))], [0], [1])


def resize(kind=B.RESIZE_BILINEAR, ishape=(1, 4, 4, 4), osize=(8, 8), align=False, half=False, dtype=I8):
    oshape = [ishape[0], osize[0], osize[1], ishape[3]]
    tensors = [
        T("ifm", list(ishape), dtype, 0.05, 0),
        T("size", [2], I32, None, None, np.array(osize)),
        T("ofm", oshape, dtype, 0.05, 0),
    ]
    name = "ResizeBilinearOptions" if kind == B.RESIZE_BILINEAR else "ResizeNearestNeighborOptions"
    return SG(tensors, [O(kind, [0, 1], [2], (name, dict(AlignCorners=align, HalfPixelCenters=half)))], [0], [2])


def transpose(ishape=(1, 8, 8, 4), perm=(0, 2, 1, 3), dtype=I8):
    oshape = [ishape[p] for p in perm]
    tensors = [
        T("ifm", list(ishape), dtype, 0.05, 0),
        T("perm", [len(perm)], I32, None, None, np.array(perm)),
        T("ofm", oshape, dtype, 0.05, 0),
    ]
    return SG(tensors, [O(B.TRANSPOSE, [0, 1], [2], ("TransposeOptions", {}))], [0], [2])


def argmax(ishape=(1, 8, 8, 4), axis=3, dtype=I8, out=I32):
    oshape = [d for i, d in enumerate(ishape) if i != axis % len(ishape)]
    tensors = [
        T("ifm", list(ishape), dtype, 0.05, 0),
        T("axis", [], I32, None, None, np.array(axis)),
        T("ofm", oshape, out, None, None),
    ]
    return SG(tensors, [O(B.ARG_MAX, [0, 1], [2], ("ArgMaxOptions", dict(OutputType=out)))], [0], [2])


def pack(shapes=((8, 4), (8, 4)), axis=0, dtype=I8):
    oshape = list(shapes[0])
    oshape.insert(axis, len(shapes))
    tensors = [T(f"in{i}", list(s), dtype, 0.05, 0) for i, s in enumerate(shapes)]
    tensors.append(T("ofm", oshape, dtype, 0.05, 0))
    n = len(shapes)
    return SG(tensors, [O(B.PACK, list(range(n)), [n], ("PackOptions", dict(Axis=axis, ValuesCount=n)))], list(range(n)), [n])


def unpack(ishape=(2, 8, 4), axis=0, dtype=I8):
    n = ishape[axis]
    oshape = [d for i, d in enumerate(ishape) if i != axis % len(ishape)]
    tensors = [T("ifm", list(ishape), dtype, 0.05, 0)] + [T(f"out{i}", oshape, dtype, 0.05, 0) for i in range(n)]
    outs = list(range(1, n + 1))
    return SG(tensors, [O(B.UNPACK, [0], outs, ("UnpackOptions", dict(Axis=axis, Num=n)))], [0], outs)


def tconv(ishape=(1, 4, 4, 4), oc=8, k=(3, 3), s=(2, 2), padding=0, dtype=I8, bias=True):
    n, h, w, c = ishape
    if padding == 0:
        oh, ow = h * s[0], w * s[1]
    else:
        oh, ow = (h - 1) * s[0] + k[0], (w - 1) * s[1] + k[1]
    tensors = [
        T("oshape", [4], I32, None, None, np.array([n, oh, ow, oc])),
        T("w", [oc, k[0], k[1], c], I8, 0.02, 0, rnd((oc, k[0], k[1], c))),
        T("ifm", list(ishape), dtype, 0.05, 0),
        T("b", [oc], I32, 0.001, 0, rnd((oc,))),
        T("ofm", [n, oh, ow, oc], dtype, 0.1, 0),
    ]
    opts = ("TransposeConvOptions", dict(Padding=padding, StrideW=s[1], StrideH=s[0]))
    return SG(tensors, [O(B.TRANSPOSE_CONV, [0, 1, 2, 3] if bias else [0, 1, 2], [4], opts)], [2], [4])


def quantize(shape=(1, 8, 8, 4), idt=I8, odt=I8, iscale=0.05, oscale=0.1, kind=B.QUANTIZE):
    tensors = [
        T("ifm", list(shape), idt, iscale if idt != F32 else None, 0),
        T("ofm", list(shape), odt, oscale if odt != F32 else None, 0),
    ]
    name = "QuantizeOptions" if kind == B.QUANTIZE else "DequantizeOptions"
    return SG(tensors, [O(kind, [0], [1], (name, {}))], [0], [1])


def chain_conv(n_layers=3, ifm=(1, 16, 16, 8), oc=8, dtype=I8, k=3):
    n, h, w, c = ifm
    tensors = [T("ifm", list(ifm), dtype, 0.05, 0)]
    ops = []
    prev = 0
    for i in range(n_layers):
        base = len(tensors)
        tensors += [
            T(f"w{i}", [oc, k, k, c], I8, 0.02, 0, rnd((oc, k, k, c), seed=i)),
            T(f"b{i}", [oc], I32, 0.001, 0, rnd((oc,), seed=i)),
            T(f"fm{i}", [n, h, w, oc], dtype, 0.05, 0),
        ]
        ops.append(O(B.CONV_2D, [prev, base, base + 1], [base + 2], conv_opts(0)))
        prev = base + 2
        c = oc
    return SG(tensors, ops, [0], [prev])


def cpu_npu_mix(dtype=I8):
    """conv -> FLOOR-like unsupported op (CPU) -> conv: several NPU subgraphs."""
    sg = chain_conv(1)
    t = sg.tensors
    base = len(t)
    t += [T("mid", [1, 16, 16, 8], dtype, 0.05, 0)]
    sg.ops.append(O(B.REVERSE_V2, [3, base + 1], [base], ("ReverseV2Options", {})))
    t += [T("axis", [1], I32, None, None, np.array([1]))]
    b2 = len(t)
    t += [
        T("w_b", [8, 3, 3, 8], I8, 0.02, 0, rnd((8, 3, 3, 8), seed=7)),
        T("b_b", [8], I32, 0.001, 0, rnd((8,), seed=7)),
        T("out", [1, 16, 16, 8], dtype, 0.05, 0),
    ]
    sg.ops.append(O(B.CONV_2D, [base, b2, b2 + 1], [b2 + 2], conv_opts(0)))
    sg.outputs = [b2 + 2]
    return sg


def custom_op(n_in=1, n_out=1, custom_options=b"\x01\x02", code="MyCustomOp"):
    tensors = [T(f"in{i}", [1, 4], F32, None, None) for i in range(n_in)]
    tensors += [T(f"out{i}", [1, 4], F32, None, None) for i in range(n_out)]
    ins = list(range(n_in))
    outs = list(range(n_in, n_in + n_out))
    return SG(tensors, [O(B.CUSTOM, ins, outs, None, custom_code=code, custom_options=custom_options)], ins, outs)


def passthrough():
    return SG([T("x", [1, 4], I8, 0.05, 0)], [], [0], [0])


def generic_cpu(kind, n_in=1, shape=(1, 8, 8, 4), dtype=F32, opts=None):
    tensors = [T(f"in{i}", list(shape), dtype, None if dtype == F32 else 0.05, 0) for i in range(n_in)]
    tensors.append(T("ofm", list(shape), dtype, None if dtype == F32 else 0.05, 0))
    return SG(tensors, [O(kind, list(range(n_in)), [n_in], opts)], list(range(n_in)), [n_in])


def lstm(batch=1, time=3, feat=4, outs=4, dtype=I8, time_major=False):
    ishape = [time, batch, feat] if time_major else [batch, time, feat]
    oshape = [time, batch, outs] if time_major else [batch, time, outs]
    bias_dt = I32 if dtype == I8 else I64
    t = [T("ifm", ishape, dtype, 0.05, 0)]

    def w(name, shape, seed):
        t.append(T(name, shape, I8, 0.02, 0, rnd(shape, seed=seed)))
        return len(t) - 1

    def b(name, seed):
        t.append(T(name, [outs], bias_dt, 0.001, 0, rnd((outs,), seed=seed)))
        return len(t) - 1

    iw = [w(f"iw{i}", [outs, feat], i) for i in range(4)]
    rw = [w(f"rw{i}", [outs, outs], 10 + i) for i in range(4)]
    bs = [b(f"b{i}", 20 + i) for i in range(4)]
    t.append(T("out_state", [batch, outs], dtype, 0.05, 0, variable=True))
    os_i = len(t) - 1
    t.append(T("cell_state", [batch, outs], I16, 1 / 2048, 0, variable=True))
    cs_i = len(t) - 1
    t.append(T("ofm", oshape, dtype, 0.05, 0))
    ofm_i = len(t) - 1
    inter = []
    for i in range(4):
        t.append(T(f"inter{i}", [], I16, 0.001, 0))
        inter.append(len(t) - 1)
    t.append(T("inter4", [], dtype, 0.05, 0))
    inter.append(len(t) - 1)
    ins = [0] + iw + rw + [-1, -1, -1] + bs + [-1, -1, os_i, cs_i, -1, -1, -1, -1]
    opts = (
        "UnidirectionalSequenceLSTMOptions",
        dict(FusedActivationFunction=4, CellClip=10.0, ProjClip=0.0, TimeMajor=time_major),
    )
    op = O(B.UNIDIRECTIONAL_SEQUENCE_LSTM, ins, [ofm_i], opts)
    op.intermediates = inter
    return SG(t, [op], [0], [ofm_i])


def zoo():
    z = {}
    z["conv"] = conv()
    z["conv_valid"] = conv(padding=1)
    z["conv_u8"] = conv(dtype=U8, wdtype=U8, wzp=128)
    z["conv_i16"] = conv(dtype=I16, bias_dtype=I64)
    z["conv_i16_b32"] = conv(dtype=I16, bias_dtype=I32)
    z["conv_per_axis"] = conv(per_axis=True)
    z["conv_nobias"] = conv(bias=False)
    z["conv_s2"] = conv(s=(2, 2))
    z["conv_s3"] = conv(s=(3, 3), ifm=(1, 9, 9, 4))
    z["conv_s4"] = conv(s=(4, 4), ifm=(1, 16, 16, 4), k=(4, 4), padding=1)
    z["conv_s1x5"] = conv(s=(1, 5), ifm=(1, 8, 20, 4), k=(1, 5), padding=1)
    z["conv_dil2"] = conv(dil=(2, 2))
    z["conv_dil3"] = conv(dil=(3, 3), ifm=(1, 12, 12, 4))
    z["conv_1x1"] = conv(k=(1, 1))
    z["conv_k7"] = conv(k=(7, 7), ifm=(1, 16, 16, 3))
    z["conv_k9x1"] = conv(k=(9, 1), ifm=(1, 16, 16, 3))
    z["conv_batch2"] = conv(ifm=(2, 8, 8, 4))
    z["conv_prime"] = conv(ifm=(1, 7, 13, 5), oc=11)
    z["conv_relu6"] = conv(faf=3)
    z["conv_tanh"] = conv(faf=4)
    z["conv_signbit"] = conv(faf=5)
    z["conv_big"] = conv(ifm=(1, 64, 64, 16), oc=32)
    z["conv_1x1x1"] = conv(ifm=(1, 1, 1, 1), oc=1, k=(1, 1))
    z["conv_wide"] = conv(ifm=(1, 1, 300, 3), k=(1, 3), oc=4)
    z["dw"] = dwconv()
    z["dw_mult2"] = dwconv(mult=2)
    z["dw_c1_mult8"] = dwconv(ifm=(1, 8, 8, 1), mult=8)
    z["dw_s2"] = dwconv(s=(2, 2))
    z["dw_i16"] = dwconv(dtype=I16)
    z["dw_dil2"] = dwconv(dil=(2, 2))
    z["fc"] = fc()
    z["fc_batch4"] = fc(batch=4)
    z["fc_nobias"] = fc(bias=False)
    z["fc_i16"] = fc(dtype=I16)
    z["fc_keep"] = fc(keep=True, ifm_shape=[1, 3, 16])
    z["fc_4d"] = fc(ifm_shape=[1, 2, 2, 4])
    z["fc_big"] = fc(inp=1024, out=256)
    for nm, kd in (("maxpool", B.MAX_POOL_2D), ("avgpool", B.AVERAGE_POOL_2D)):
        z[nm] = pool(kd)
        z[nm + "_same"] = pool(kd, padding=0, k=(3, 3), s=(1, 1))
        z[nm + "_i16"] = pool(kd, dtype=I16)
        z[nm + "_u8"] = pool(kd, dtype=U8)
        z[nm + "_k8"] = pool(kd, k=(8, 8), s=(1, 1))
        z[nm + "_noquant"] = pool(kd, quant=False)
        z[nm + "_relu"] = pool(kd, faf=1)
        z[nm + "_s3"] = pool(kd, ifm=(1, 9, 9, 4), k=(3, 3), s=(3, 3))
        z[nm + "_big"] = pool(kd, ifm=(1, 32, 32, 4), k=(16, 16), s=(16, 16))
    z["l2pool"] = pool(B.L2_POOL_2D, dtype=F32, quant=False)
    for nm, kd in (("add", B.ADD), ("sub", B.SUB), ("mul", B.MUL), ("min", B.MINIMUM), ("max", B.MAXIMUM),
                   ("sqdiff", B.SQUARED_DIFFERENCE)):
        z[nm] = binary(kd)
        z[nm + "_bcast"] = binary(kd, b=(1, 1, 1, 4))
        z[nm + "_bcast_a"] = binary(kd, a=(1, 1, 1, 4), b=(1, 8, 8, 4))
        z[nm + "_const"] = binary(kd, const_b=True)
        z[nm + "_scalar"] = binary(kd, b=(), const_b=True)
        z[nm + "_i16"] = binary(kd, dtype=I16)
        z[nm + "_u8"] = binary(kd, dtype=U8)
        z[nm + "_i32"] = binary(kd, dtype=I32)
        z[nm + "_2d"] = binary(kd, a=(8, 4), b=(8, 4))
        z[nm + "_1d"] = binary(kd, a=(7,), b=(7,))
        z[nm + "_5d"] = binary(kd, a=(1, 2, 3, 4, 5), b=(1, 2, 3, 4, 5))
        z[nm + "_f32"] = binary(kd, dtype=F32, scales=(None, None, None))
        z[nm + "_batch"] = binary(kd, a=(3, 4, 4, 4), b=(3, 4, 4, 4))
        z[nm + "_relu"] = binary(kd, faf=1) if kd in (B.ADD, B.SUB, B.MUL) else binary(kd)
    z["mul_i16_i32out"] = binary(B.MUL, dtype=I16, out_dtype=I32)
    for nm, kd, o in (
        ("abs", B.ABS, ("AbsOptions", {})),
        ("relu", B.RELU, None),
        ("relu6", B.RELU6, None),
        ("relu_n1", B.RELU_N1_TO_1, None),
        ("relu01", B.RELU_0_TO_1, None),
        ("tanh", B.TANH, None),
        ("logistic", B.LOGISTIC, None),
        ("hswish", B.HARD_SWISH, ("HardSwishOptions", {})),
        ("exp", B.EXP, ("ExpOptions", {})),
        ("log", B.LOG, None),
        ("sqrt", B.SQRT, None),
        ("rsqrt", B.RSQRT, None),
        ("gelu", B.GELU, ("GeluOptions", dict(Approximate=False))),
        ("lrelu", B.LEAKY_RELU, ("LeakyReluOptions", dict(Alpha=0.1))),
        ("lrelu_neg", B.LEAKY_RELU, ("LeakyReluOptions", dict(Alpha=-0.5))),
        ("lrelu_big", B.LEAKY_RELU, ("LeakyReluOptions", dict(Alpha=1.5))),
        ("neg", B.NEG, ("NegOptions", {})),
        ("floor", B.FLOOR, None),
    ):
        z[nm] = unary(kd, opts=o)
        z[nm + "_i16"] = unary(kd, opts=o, dtype=I16)
        z[nm + "_u8"] = unary(kd, opts=o, dtype=U8, izp=128, ozp=128)
        z[nm + "_i32"] = unary(kd, opts=o, dtype=I32)
        z[nm + "_2d"] = unary(kd, opts=o, shape=(3, 5))
        z[nm + "_1d"] = unary(kd, opts=o, shape=(17,))
        z[nm + "_rescale"] = unary(kd, opts=o, oscale=0.2)
        z[nm + "_f32"] = unary(kd, opts=o, dtype=F32, iscale=None, oscale=None)
    z["reshape"] = reshape()
    z["reshape_noattr"] = reshape(with_attr=False)
    z["reshape_notens"] = reshape(with_tensor=False)
    z["reshape_neither"] = reshape(with_tensor=False, with_attr=False)
    z["reshape_5d"] = reshape(oshape=(1, 2, 4, 8, 4))
    z["reshape_0d"] = reshape(ishape=(1,), oshape=())
    z["concat"] = concat()
    z["concat_h"] = concat(axis=1)
    z["concat_neg"] = concat(axis=-1)
    z["concat_3"] = concat(shapes=((1, 8, 8, 3), (1, 8, 8, 5), (1, 8, 8, 7)))
    z["concat_2d"] = concat(shapes=((4, 3), (4, 5)), axis=1)
    z["concat_relu"] = concat(faf=1)
    z["concat_i16"] = concat(dtype=I16)
    z["concat_5d"] = concat(shapes=((1, 2, 2, 2, 2), (1, 2, 2, 2, 2)), axis=4)
    z["concat_batch"] = concat(shapes=((1, 4, 4, 4), (2, 4, 4, 4)), axis=0)
    z["split"] = split()
    z["split_h"] = split(axis=1)
    z["split_neg"] = split(axis=-1)
    z["split_2d"] = split(ishape=(4, 6), axis=1, num=3)
    z["split_1"] = split(num=1)
    z["splitv"] = splitv()
    z["splitv_inferred"] = splitv(sizes=(2, -1))
    z["splitv_h"] = splitv(ishape=(1, 8, 8, 4), axis=1, sizes=(3, 5))
    z["slice"] = slice_()
    z["slice_m1"] = slice_(size=(1, -1, -1, -1))
    z["slice_2d"] = slice_(ishape=(8, 8), begin=(1, 2), size=(3, 4))
    z["sslice"] = strided_slice()
    z["sslice_s2"] = strided_slice(strides=(1, 2, 2, 1))
    z["sslice_neg"] = strided_slice(begin=(0, -6, -6, 0), end=(1, -2, -2, 4))
    z["sslice_shrink"] = strided_slice(begin=(0, 2, 0, 0), end=(1, 3, 8, 4), oshape=(1, 8, 4), masks=dict(ShrinkAxisMask=2))
    z["sslice_masks"] = strided_slice(begin=(0, 0, 0, 0), end=(0, 0, 0, 0), oshape=(1, 8, 8, 4), masks=dict(BeginMask=15, EndMask=15))
    z["sslice_short"] = strided_slice(begin=(0, 2), end=(1, 6), strides=(1, 1), oshape=(1, 4, 8, 4))
    z["sslice_newaxis"] = strided_slice(ishape=(8, 4), begin=(0, 0, 0), end=(0, 8, 4), strides=(1, 1, 1), oshape=(1, 8, 4), masks=dict(NewAxisMask=1))
    z["pad"] = pad()
    z["pad_conv"] = pad(then_conv=True)
    z["pad_c"] = pad(pads=((0, 0), (0, 0), (0, 0), (2, 3)))
    z["pad_batch"] = pad(pads=((1, 1), (0, 0), (0, 0), (0, 0)))
    z["pad_i64"] = pad(pad_dtype=I64)
    z["pad_big_conv"] = pad(pads=((0, 0), (5, 5), (5, 5), (0, 0)), then_conv=True)
    z["pad_2d"] = pad(ishape=(8, 4), pads=((1, 1), (2, 2)))
    z["pad_3d"] = pad(ishape=(2, 8, 4), pads=((0, 0), (1, 1), (2, 2)))
    z["padv2"] = pad(kind=B.PADV2)
    z["mirror_pad"] = pad(kind=B.MIRROR_PAD)
    z["pad_i16"] = pad(dtype=I16)
    z["mean"] = mean()
    z["mean_nokeep"] = mean(keep=False)
    z["mean_h"] = mean(axes=(1,))
    z["mean_w"] = mean(axes=(2,))
    z["mean_c"] = mean(axes=(3,))
    z["mean_neg"] = mean(axes=(-2, -3))
    z["mean_big"] = mean(ishape=(1, 64, 64, 8))
    z["mean_rescale"] = mean(oscale=0.1)
    z["mean_i16"] = mean(dtype=I16)
    z["mean_u8"] = mean(dtype=U8)
    z["mean_2d"] = mean(ishape=(8, 16), axes=(1,))
    z["mean_3d"] = mean(ishape=(4, 8, 16), axes=(1,))
    z["mean_all"] = mean(axes=(0, 1, 2, 3))
    z["mean_5d"] = mean(ishape=(1, 2, 4, 4, 4), axes=(2, 3))
    z["mean_prime"] = mean(ishape=(1, 7, 13, 5))
    z["mean_axis64"] = mean(axis_dtype=I64)
    z["sum"] = mean(kind=B.SUM, axes=(3,))
    z["sum_hw"] = mean(kind=B.SUM, axes=(1, 2))
    z["sum_i16"] = mean(kind=B.SUM, axes=(3,), dtype=I16)
    z["sum_i32"] = mean(kind=B.SUM, axes=(3,), dtype=I32)
    z["reduce_max"] = mean(kind=B.REDUCE_MAX)
    z["softmax"] = softmax()
    z["softmax_u8"] = softmax(dtype=U8)
    z["softmax_i16"] = softmax(dtype=I16)
    z["softmax_4d"] = softmax(shape=(1, 4, 4, 10))
    z["softmax_3d"] = softmax(shape=(2, 5, 10))
    z["softmax_1d"] = softmax(shape=(10,))
    z["softmax_beta"] = softmax(beta=0.5)
    z["softmax_beta0"] = softmax(beta=0.0)
    z["softmax_big"] = softmax(shape=(1, 1000))
    for nm, kd in (("rb", B.RESIZE_BILINEAR), ("rnn", B.RESIZE_NEAREST_NEIGHBOR)):
        z[nm] = resize(kd)
        z[nm + "_align"] = resize(kd, osize=(7, 7), align=True)
        z[nm + "_half"] = resize(kd, half=True)
        z[nm + "_x4"] = resize(kd, osize=(16, 16))
        z[nm + "_x8"] = resize(kd, osize=(32, 32))
        z[nm + "_1x1"] = resize(kd, ishape=(1, 1, 1, 4))
        z[nm + "_same"] = resize(kd, osize=(4, 4))
        z[nm + "_odd"] = resize(kd, osize=(5, 7))
        z[nm + "_down"] = resize(kd, ishape=(1, 8, 8, 4), osize=(4, 4))
        z[nm + "_i16"] = resize(kd, dtype=I16)
        z[nm + "_x3"] = resize(kd, osize=(12, 12))
        z[nm + "_align_half"] = resize(kd, align=True, half=True)
        z[nm + "_h1"] = resize(kd, ishape=(1, 1, 4, 4), osize=(1, 8))
        z[nm + "_h1_align"] = resize(kd, ishape=(1, 1, 4, 4), osize=(1, 7), align=True)
    z["transpose"] = transpose()
    z["transpose_nchw"] = transpose(perm=(0, 3, 1, 2))
    z["transpose_2d"] = transpose(ishape=(8, 4), perm=(1, 0))
    z["transpose_3d"] = transpose(ishape=(2, 8, 4), perm=(0, 2, 1))
    z["transpose_id"] = transpose(perm=(0, 1, 2, 3))
    z["transpose_i16"] = transpose(dtype=I16)
    z["transpose_5d"] = transpose(ishape=(1, 2, 3, 4, 5), perm=(0, 1, 3, 2, 4))
    z["argmax"] = argmax()
    z["argmax_i64"] = argmax(out=I64)
    z["argmax_h"] = argmax(axis=1)
    z["argmax_neg"] = argmax(axis=-1)
    z["argmax_2d"] = argmax(ishape=(4, 10), axis=1)
    z["argmax_big"] = argmax(ishape=(1, 4, 4, 300))
    z["pack"] = pack()
    z["pack_axis1"] = pack(axis=1)
    z["pack_4d"] = pack(shapes=((1, 4, 4, 4), (1, 4, 4, 4)), axis=0)
    z["pack_last"] = pack(axis=2)
    z["unpack"] = unpack()
    z["unpack_axis1"] = unpack(axis=1)
    z["unpack_neg"] = unpack(axis=-1)
    z["unpack_4d"] = unpack(ishape=(1, 4, 4, 2), axis=3)
    z["tconv"] = tconv()
    z["tconv_valid"] = tconv(padding=1)
    z["tconv_nobias"] = tconv(bias=False)
    z["tconv_s1"] = tconv(s=(1, 1))
    z["tconv_i16"] = tconv(dtype=I16)
    z["tconv_k2"] = tconv(k=(2, 2))
    z["tconv_s2x1"] = tconv(s=(2, 1))
    z["quantize"] = quantize()
    z["quantize_u8_i8"] = quantize(idt=U8, odt=I8)
    z["quantize_i16_i8"] = quantize(idt=I16, odt=I8)
    z["quantize_i8_i16"] = quantize(idt=I8, odt=I16)
    z["quantize_f32"] = quantize(idt=F32, odt=I8)
    z["dequantize"] = quantize(idt=I8, odt=F32, kind=B.DEQUANTIZE)
    z["quantize_i32_i8"] = quantize(idt=I32, odt=I8)
    z["chain3"] = chain_conv(3)
    z["chain6_big"] = chain_conv(6, ifm=(1, 64, 64, 16), oc=16)
    z["chain2_wide"] = chain_conv(2, ifm=(1, 128, 128, 8))
    z["mix"] = cpu_npu_mix()
    z["custom"] = custom_op()
    z["custom_noopts"] = custom_op(custom_options=None)
    z["custom_2in2out"] = custom_op(2, 2)
    z["custom_noin"] = custom_op(0, 1)
    z["passthrough"] = passthrough()
    z["lstm"] = lstm()
    z["lstm_i16"] = lstm(dtype=I16)
    z["lstm_tm"] = lstm(time_major=True, batch=2)
    z["lstm_b2"] = lstm(batch=2)
    z["lstm_t1"] = lstm(time=1)
    z["expand_dims"] = SG(
        [T("ifm", [8, 4], I8, 0.05, 0), T("ax", [], I32, None, None, np.array(0)), T("ofm", [1, 8, 4], I8, 0.05, 0)],
        [O(B.EXPAND_DIMS, [0, 1], [2], ("ExpandDimsOptions", {}))], [0], [2])
    z["squeeze"] = SG(
        [T("ifm", [1, 8, 1, 4], I8, 0.05, 0), T("ofm", [8, 4], I8, 0.05, 0)],
        [O(B.SQUEEZE, [0], [1], ("SqueezeOptions", dict(SqueezeDims=[0, 2])))], [0], [1])
    z["shape"] = SG(
        [T("ifm", [1, 8, 8, 4], I8, 0.05, 0), T("ofm", [4], I32, None, None)],
        [O(B.SHAPE, [0], [1], ("ShapeOptions", dict(OutType=I32)))], [0], [1])
    z["cast"] = SG(
        [T("ifm", [1, 8, 8, 4], I8, 0.05, 0), T("ofm", [1, 8, 8, 4], I32, None, None)],
        [O(B.CAST, [0], [1], ("CastOptions", dict(InDataType=I8, OutDataType=I32)))], [0], [1])
    z["prelu"] = SG(
        [T("ifm", [1, 8, 8, 4], I8, 0.05, 0), T("alpha", [1, 1, 4], I8, 0.01, 0, np.array([[[10, -20, 30, 127]]])),
         T("ofm", [1, 8, 8, 4], I8, 0.05, 0)],
        [O(B.PRELU, [0, 1], [2], None)], [0], [2])
    for nm, kd, n_in in (("less", B.LESS, 2), ("sin", B.SIN, 1), ("cos", B.COS, 1), ("pow", B.POW, 2), ("div", B.DIV, 2),
                         ("floor_div", B.FLOOR_DIV, 2), ("addn", B.ADD_N, 3), ("round", B.ROUND, 1), ("ceil", B.CEIL, 1),
                         ("square", B.SQUARE, 1), ("elu", B.ELU, 1), ("l2norm", B.L2_NORMALIZATION, 1),
                         ("logsoftmax", B.LOG_SOFTMAX, 1), ("zeros_like", B.ZEROS_LIKE, 1), ("sign", B.SIGN, 1)):
        z["cpu_" + nm] = generic_cpu(kd, n_in)
        z["cpu_" + nm + "_i8"] = generic_cpu(kd, n_in, dtype=I8)
    return z


def while_model(npu_body=True, share=False):
    """main: y = WHILE(x) ; cond: LESS(x, const) ; body: ADD(x, const)."""
    dt = I8 if npu_body else F32
    sc = 0.05 if npu_body else None
    main = SG([T("x", [1, 8, 8, 4], dt, sc, 0), T("y", [1, 8, 8, 4], dt, sc, 0)],
              [O(B.WHILE, [0], [1], ("WhileOptions", dict(CondSubgraphIndex=1, BodySubgraphIndex=2)))], [0], [1], "main")
    cond = SG([T("cx", [1, 8, 8, 4], dt, sc, 0), T("lim", [1], dt, sc, 0, np.array([5])), T("c", [1, 8, 8, 4], BOOL, None, None)],
              [O(B.LESS, [0, 1], [2], ("LessOptions", {}))], [0], [2], "cond")
    body = SG([T("bx", [1, 8, 8, 4], dt, sc, 0), T("one", [1, 1, 1, 4], dt, sc, 0, np.array([[[[1, 2, 3, 4]]]])),
               T("by", [1, 8, 8, 4], dt, sc, 0)],
              [O(B.ADD, [0, 1], [2], ("AddOptions", dict(FusedActivationFunction=0)))], [0], [2], "body")
    sgs = [main, cond, body]
    if share:
        main.tensors.append(T("z", [1, 8, 8, 4], dt, sc, 0))
        main.ops.append(O(B.WHILE, [1], [2], ("WhileOptions", dict(CondSubgraphIndex=1, BodySubgraphIndex=2))))
        main.outputs = [2]
    return sgs


def if_model(npu=True):
    dt = I8 if npu else F32
    sc = 0.05 if npu else None
    main = SG([T("c", [1], BOOL, None, None), T("x", [1, 8, 8, 4], dt, sc, 0), T("y", [1, 8, 8, 4], dt, sc, 0)],
              [O(B.IF, [0, 1], [2], ("IfOptions", dict(ThenSubgraphIndex=1, ElseSubgraphIndex=2)))], [0, 1], [2], "main")
    then = SG([T("tx", [1, 8, 8, 4], dt, sc, 0), T("ty", [1, 8, 8, 4], dt, sc, 0)],
              [O(B.ABS if npu else B.SIN, [0], [1], ("AbsOptions", {}) if npu else None)], [0], [1], "then")
    els = SG([T("ex", [1, 8, 8, 4], dt, sc, 0), T("ey", [1, 8, 8, 4], dt, sc, 0)],
             [O(B.RELU if npu else B.COS, [0], [1], None)], [0], [1], "else")
    return [main, then, els]


def var_model():
    """CALL_ONCE(init) ; VAR_HANDLE ; READ_VARIABLE ; ADD ; ASSIGN_VARIABLE."""
    RES = TT.RESOURCE
    main = SG(
        [T("x", [1, 4], I8, 0.05, 0), T("h", [], RES, None, None), T("v", [1, 4], I8, 0.05, 0), T("y", [1, 4], I8, 0.05, 0)],
        [
            O(B.CALL_ONCE, [], [], ("CallOnceOptions", dict(InitSubgraphIndex=1))),
            O(B.VAR_HANDLE, [], [1], ("VarHandleOptions", {})),
            O(B.READ_VARIABLE, [1], [2], ("ReadVariableOptions", {})),
            O(B.ADD, [0, 2], [3], ("AddOptions", dict(FusedActivationFunction=0))),
            O(B.ASSIGN_VARIABLE, [1, 3], [], ("AssignVariableOptions", {})),
        ],
        [0], [3], "main")
    init = SG(
        [T("h", [], RES, None, None), T("zero", [1, 4], I8, 0.05, 0, np.zeros((1, 4)))],
        [O(B.VAR_HANDLE, [], [0], ("VarHandleOptions", {})), O(B.ASSIGN_VARIABLE, [0, 1], [], ("AssignVariableOptions", {}))],
        [], [], "init")
    return [main, init]


def zoo2():
    z = {}
    z["while_npu"] = while_model(True)
    z["while_cpu"] = while_model(False)
    z["while_shared"] = while_model(True, share=True)
    z["if_npu"] = if_model(True)
    z["if_cpu"] = if_model(False)
    z["vars"] = var_model()
    return z

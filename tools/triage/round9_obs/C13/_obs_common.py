"""Shared driver for the observation reproducers: runs the Vela CLI on a model and reports a C13 violation."""
import os
import sys

sys.path.insert(0, os.getcwd())
sys.path.insert(0, os.path.dirname(os.path.abspath(__file__)))

import c13util  # noqa: E402


def report(title, cases):
    """cases: list of (label, model bytes, extra CLI args[, files])."""
    bad = 0
    print(title)
    for case in cases:
        label, data, extra = case[:3]
        files = case[3] if len(case) > 3 else None
        r = c13util.run_vela(data, extra, files=files)
        if r.ok:
            print(f"  ok        : {label} (status {r.status})")
        else:
            bad += 1
            last = (r.exception or r.stdout).strip().splitlines()
            print(f"  VIOLATION : {label} options={list(extra)}")
            for line in last[-6:]:
                print("      " + line)
    print("unmodified tree violates C13" if bad else "no violation reproduced")
    return 1 if bad else 0

"""A configuration file whose system configuration section is named 'My/Sys' (legal for ConfigParser) selected with
--system-config My/Sys: the name goes unchecked into the summary file name '<model>_summary_My/Sys.csv' ->
FileNotFoundError from stats_writer.write_summary_metrics_csv after the whole compilation succeeded."""
import sys

from _obs_common import c13util, report
import zoo

INI = """
[System_Config.NAME]
core_clock=500e6
axi0_port=Sram
axi1_port=OffChipFlash
Sram_clock_scale=1.0
Sram_burst_length=32
Sram_read_latency=32
Sram_write_latency=32
OffChipFlash_clock_scale=0.125
OffChipFlash_burst_length=128
OffChipFlash_read_latency=64
OffChipFlash_write_latency=64

[Memory_Mode.Shared]
const_mem_area=Axi1
arena_mem_area=Axi0
cache_mem_area=Axi0
"""


def args(name):
    return ("--config", "@TMP@/my.ini", "--system-config", name, "--memory-mode", "Shared", "--accelerator-config", "ethos-u55-128")


data = c13util.build_tflite(zoo.conv())
cases = [("system config section 'My/Sys'", data, args("My/Sys"), {"my.ini": INI.replace("NAME", "My/Sys")}),
         ("control: section 'MySys'", data, args("MySys"), {"my.ini": INI.replace("NAME", "MySys")})]
sys.exit(report(__doc__, cases))

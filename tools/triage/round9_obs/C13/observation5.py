"""Two WHILE operators in the main subgraph that share their cond / body subgraphs, the body holding an int8 ADD that
runs on the NPU: live_range.fuse_ranges is reached a second time for the body's OFM -> AssertionError
(assert out_tens not in self.ranges).  One WHILE with the same subgraphs compiles."""
import sys

from _obs_common import c13util, report
import zoo

cases = [
    ("two WHILE ops sharing cond/body", c13util.build_tflite(zoo.while_model(True, share=True)), ()),
    ("control: one WHILE op", c13util.build_tflite(zoo.while_model(True)), ()),
]
sys.exit(report(__doc__, cases))

"""CONCATENATION (two int8 [1,8,8,4] inputs, axis 3) with a fused RELU on any Ethos-U55 configuration:
AssertionError in scheduler.build_cascades_for_min_schedule (assert non_local_mem_usage[sched_op] >= 0).
The same model compiles for Ethos-U65, and without the fused activation it compiles for Ethos-U55 too."""
import sys

from _obs_common import c13util, report
import zoo

cases = [
    ("concat + fused RELU, ethos-u55-128", c13util.build_tflite(zoo.concat(faf=1)), ("--accelerator-config", "ethos-u55-128")),
    ("concat + fused RELU, ethos-u55-256 + Arm/vela.ini Shared_Sram", c13util.build_tflite(zoo.concat(faf=1)),
     ("--accelerator-config", "ethos-u55-256", "--config", "Arm/vela.ini", "--system-config", "Ethos_U55_High_End_Embedded",
      "--memory-mode", "Shared_Sram")),
    ("control: concat + fused RELU, ethos-u65-256", c13util.build_tflite(zoo.concat(faf=1)), ()),
    ("control: concat without activation, ethos-u55-128", c13util.build_tflite(zoo.concat()), ("--accelerator-config", "ethos-u55-128")),
]
sys.exit(report(__doc__, cases))

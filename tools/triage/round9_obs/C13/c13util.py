"""Helpers shared by the C13 demos / observations.

* build_tflite(): serialise a small model description into a TFLite flatbuffer using only the generated flatbuffer
  classes in ethosu.vela.tflite (no Vela compiler code is involved in producing the input file).
* run_vela(): run the Vela command line driver (ethosu.vela.vela.main) on a flatbuffer in a scratch directory and
  classify the outcome in terms of the C13 property.
"""
import contextlib
import importlib
import io
import os
import shutil
import sys
import tempfile
import traceback

import flatbuffers
import numpy as np

ROOT = os.path.dirname(os.path.dirname(os.path.abspath(__file__)))
if ROOT not in sys.path:
    sys.path.insert(0, ROOT)

from ethosu.vela.tflite import Buffer  # noqa: E402
from ethosu.vela.tflite import Model  # noqa: E402
from ethosu.vela.tflite import Operator  # noqa: E402
from ethosu.vela.tflite import OperatorCode  # noqa: E402
from ethosu.vela.tflite import QuantizationParameters  # noqa: E402
from ethosu.vela.tflite import SubGraph  # noqa: E402
from ethosu.vela.tflite import Tensor  # noqa: E402
from ethosu.vela.tflite.BuiltinOperator import BuiltinOperator  # noqa: E402
from ethosu.vela.tflite.BuiltinOptions import BuiltinOptions  # noqa: E402
from ethosu.vela.tflite.TensorType import TensorType  # noqa: E402

NP_TYPES = {
    TensorType.FLOAT32: np.float32,
    TensorType.FLOAT16: np.float16,
    TensorType.INT32: np.int32,
    TensorType.UINT8: np.uint8,
    TensorType.INT64: np.int64,
    TensorType.INT16: np.int16,
    TensorType.INT8: np.int8,
    TensorType.BOOL: np.bool_,
    TensorType.UINT32: np.uint32,
    TensorType.UINT16: np.uint16,
    TensorType.FLOAT64: np.float64,
}


class T:
    """Tensor description."""

    def __init__(self, name, shape, dtype=TensorType.INT8, scale=1.0, zp=0, data=None, qdim=0, variable=False):
        self.name = name
        self.shape = shape  # list, or None for "no shape vector"
        self.dtype = dtype
        self.scale = scale  # None -> no quantisation table, float or list of floats; "empty" -> table without arrays
        self.zp = zp
        self.data = data
        self.qdim = qdim
        self.variable = variable


class O:
    """Operator description. options = (BuiltinOptions name, {field: value}) or None."""

    def __init__(self, code, inputs, outputs, options=None, custom_code=None, version=1, custom_options=None):
        self.code = code
        self.inputs = inputs
        self.outputs = outputs
        self.options = options
        self.custom_code = custom_code
        self.version = version
        self.custom_options = custom_options
        self.intermediates = None


class SG:
    def __init__(self, tensors, ops, inputs, outputs, name="main"):
        self.tensors = tensors
        self.ops = ops
        self.inputs = inputs
        self.outputs = outputs
        self.name = name


def _vec(b, elem_size, prepend, values, align=None):
    b.StartVector(elem_size, len(values), align or elem_size)
    for v in reversed(values):
        prepend(v)
    return b.EndVector()


def _ivec(b, values):
    return _vec(b, 4, b.PrependInt32, [int(v) for v in values])


def _lvec(b, values):
    return _vec(b, 8, b.PrependInt64, [int(v) for v in values])


def _fvec(b, values):
    return _vec(b, 4, b.PrependFloat32, [float(v) for v in values])


def _ovec(b, values):
    return _vec(b, 4, b.PrependUOffsetTRelative, values)


def _options(b, options):
    name, fields = options
    mod = importlib.import_module("ethosu.vela.tflite." + name)
    prepared = {}
    for k, v in fields.items():
        if isinstance(v, (list, tuple)):
            prepared[k] = _ivec(b, v)
        else:
            prepared[k] = v
    getattr(mod, name + "Start")(b)
    for k, v in prepared.items():
        getattr(mod, name + "Add" + k)(b, v)
    return getattr(BuiltinOptions, name), getattr(mod, name + "End")(b)


def build_tflite(subgraphs, description="c13", metadata=None):
    """metadata: optional list of (name, bytes-or-None)."""
    if isinstance(subgraphs, SG):
        subgraphs = [subgraphs]
    b = flatbuffers.Builder(1024)
    buffers = [None]
    codes = []

    def code_index(op):
        key = (op.code, op.custom_code, op.version)
        if key not in codes:
            codes.append(key)
        return codes.index(key)

    sg_offsets = []
    for sg in subgraphs:
        tensor_offsets = []
        for t in sg.tensors:
            name = b.CreateString(t.name)
            shape = _ivec(b, t.shape) if t.shape is not None else None
            quant = None
            if t.scale is not None:
                if t.scale == "empty":
                    QuantizationParameters.QuantizationParametersStart(b)
                    quant = QuantizationParameters.QuantizationParametersEnd(b)
                else:
                    scales = t.scale if isinstance(t.scale, (list, tuple, np.ndarray)) else [t.scale]
                    sc = _fvec(b, scales)
                    zp = None
                    if t.zp is not None:
                        zps = t.zp if isinstance(t.zp, (list, tuple, np.ndarray)) else [t.zp]
                        zp = _lvec(b, zps)
                    QuantizationParameters.QuantizationParametersStart(b)
                    QuantizationParameters.QuantizationParametersAddScale(b, sc)
                    if zp is not None:
                        QuantizationParameters.QuantizationParametersAddZeroPoint(b, zp)
                    QuantizationParameters.QuantizationParametersAddQuantizedDimension(b, t.qdim)
                    quant = QuantizationParameters.QuantizationParametersEnd(b)
            buf_idx = 0
            if t.data is not None:
                arr = np.asarray(t.data).astype(NP_TYPES[t.dtype])
                buffers.append(arr.tobytes())
                buf_idx = len(buffers) - 1
            Tensor.TensorStart(b)
            if shape is not None:
                Tensor.TensorAddShape(b, shape)
            Tensor.TensorAddType(b, t.dtype)
            Tensor.TensorAddBuffer(b, buf_idx)
            Tensor.TensorAddName(b, name)
            if quant is not None:
                Tensor.TensorAddQuantization(b, quant)
            if t.variable:
                Tensor.TensorAddIsVariable(b, True)
            tensor_offsets.append(Tensor.TensorEnd(b))
        tensors_vec = _ovec(b, tensor_offsets)

        op_offsets = []
        for op in sg.ops:
            idx = code_index(op)
            ins = _ivec(b, op.inputs)
            outs = _ivec(b, op.outputs)
            opt = _options(b, op.options) if op.options is not None else None
            inter = _ivec(b, op.intermediates) if op.intermediates is not None else None
            cust = None
            if op.custom_options is not None:
                cust = _vec(b, 1, b.PrependByte, list(op.custom_options))
            Operator.OperatorStart(b)
            Operator.OperatorAddOpcodeIndex(b, idx)
            Operator.OperatorAddInputs(b, ins)
            Operator.OperatorAddOutputs(b, outs)
            if opt is not None:
                Operator.OperatorAddBuiltinOptionsType(b, opt[0])
                Operator.OperatorAddBuiltinOptions(b, opt[1])
            if cust is not None:
                Operator.OperatorAddCustomOptions(b, cust)
            if inter is not None:
                Operator.OperatorAddIntermediates(b, inter)
            op_offsets.append(Operator.OperatorEnd(b))
        ops_vec = _ovec(b, op_offsets)
        ins = _ivec(b, sg.inputs)
        outs = _ivec(b, sg.outputs)
        nm = b.CreateString(sg.name)
        SubGraph.SubGraphStart(b)
        SubGraph.SubGraphAddTensors(b, tensors_vec)
        SubGraph.SubGraphAddInputs(b, ins)
        SubGraph.SubGraphAddOutputs(b, outs)
        SubGraph.SubGraphAddOperators(b, ops_vec)
        SubGraph.SubGraphAddName(b, nm)
        sg_offsets.append(SubGraph.SubGraphEnd(b))
    sgs_vec = _ovec(b, sg_offsets)

    code_offsets = []
    for code, custom, version in codes:
        cc = b.CreateString(custom) if custom is not None else None
        OperatorCode.OperatorCodeStart(b)
        OperatorCode.OperatorCodeAddDeprecatedBuiltinCode(b, min(code, 127))
        if cc is not None:
            OperatorCode.OperatorCodeAddCustomCode(b, cc)
        OperatorCode.OperatorCodeAddVersion(b, version)
        OperatorCode.OperatorCodeAddBuiltinCode(b, code)
        code_offsets.append(OperatorCode.OperatorCodeEnd(b))
    codes_vec = _ovec(b, code_offsets)

    meta_entries = []
    for mname, mdata in metadata or []:
        buffers.append(mdata)
        meta_entries.append((mname, len(buffers) - 1))

    buf_offsets = []
    for data in buffers:
        d = None
        if data is not None:
            b.StartVector(1, len(data), 16)
            b.head = b.head - len(data)
            b.Bytes[b.head : b.head + len(data)] = data
            d = b.EndVector()
        Buffer.BufferStart(b)
        if d is not None:
            Buffer.BufferAddData(b, d)
        buf_offsets.append(Buffer.BufferEnd(b))
    bufs_vec = _ovec(b, buf_offsets)
    meta_vec = None
    if meta_entries:
        from ethosu.vela.tflite import Metadata

        offs = []
        for mname, bidx in meta_entries:
            nm = b.CreateString(mname) if mname is not None else None
            Metadata.MetadataStart(b)
            if nm is not None:
                Metadata.MetadataAddName(b, nm)
            Metadata.MetadataAddBuffer(b, bidx)
            offs.append(Metadata.MetadataEnd(b))
        meta_vec = _ovec(b, offs)
    desc = b.CreateString(description)
    Model.ModelStart(b)
    Model.ModelAddVersion(b, 3)
    Model.ModelAddOperatorCodes(b, codes_vec)
    Model.ModelAddSubgraphs(b, sgs_vec)
    Model.ModelAddDescription(b, desc)
    Model.ModelAddBuffers(b, bufs_vec)
    if meta_vec is not None:
        Model.ModelAddMetadata(b, meta_vec)
    model = Model.ModelEnd(b)
    b.Finish(model, file_identifier=b"TFL3")
    return bytes(b.Output())


class Result:
    def __init__(self):
        self.status = None  # return value of main() / SystemExit code
        self.exception = None  # internal exception (traceback text) or None
        self.stdout = ""
        self.output_written = False
        self.output_bytes = None
        self.files = []

    @property
    def ok(self):
        """True when the C13 property holds for this run."""
        if self.exception is not None:
            return False
        if self.status == 0:
            return self.output_written
        # rejected: needs a diagnosis
        return self.status not in (None, 0) and len(self.stdout.strip()) > 0

    def describe(self):
        if self.exception is not None:
            return "internal exception:\n" + self.exception
        return f"status={self.status} output_written={self.output_written}\n" + self.stdout[-1500:]


def run_vela(model_bytes, extra_args=(), name="model", keep_dir=None, files=None, ext=".tflite"):
    """Run the CLI driver in-process. files: {relative name: text} written next to the model before the run."""
    from ethosu.vela import vela

    res = Result()
    tmp = keep_dir or tempfile.mkdtemp(prefix="c13_")
    cwd = os.getcwd()
    reclimit = sys.getrecursionlimit()
    try:
        path = os.path.join(tmp, name + ext)
        with open(path, "wb") as f:
            f.write(model_bytes)
        for fn, text in (files or {}).items():
            with open(os.path.join(tmp, fn), "w") as f:
                f.write(text)
        outdir = os.path.join(tmp, "output")
        args = [path, "--output-dir", outdir] + [a.replace("@TMP@", tmp) for a in extra_args]
        out = io.StringIO()
        os.chdir(tmp)
        # some report functions bind sys.stdout as a default argument at import time: capture those at fd level
        sys.stdout.flush()
        sys.stderr.flush()
        fd_file = tempfile.TemporaryFile(mode="w+b")
        saved = os.dup(1), os.dup(2)
        os.dup2(fd_file.fileno(), 1)
        os.dup2(fd_file.fileno(), 2)
        try:
            try:
                with contextlib.redirect_stdout(out), contextlib.redirect_stderr(out):
                    res.status = vela.main(args)
            except SystemExit as e:
                res.status = e.code if isinstance(e.code, int) else (0 if e.code is None else 1)
            except BaseException:  # noqa: B902
                res.exception = traceback.format_exc()
        finally:
            sys.__stdout__.flush()
            sys.__stderr__.flush()
            os.dup2(saved[0], 1)
            os.dup2(saved[1], 2)
            os.close(saved[0])
            os.close(saved[1])
        fd_file.seek(0)
        res.stdout = out.getvalue() + fd_file.read().decode(errors="replace")
        fd_file.close()
        if os.path.isdir(outdir):
            res.files = sorted(os.listdir(outdir))
        # the compiled model: <name>_vela.tflite in the output directory
        for fn in res.files:
            outfile = os.path.join(outdir, fn)
            if fn.lower() == (name + "_vela.tflite").lower() and os.path.getsize(outfile) > 0:
                res.output_written = True
                with open(outfile, "rb") as f:
                    res.output_bytes = f.read()
    finally:
        os.chdir(cwd)
        sys.setrecursionlimit(reclimit)
        if keep_dir is None:
            shutil.rmtree(tmp, ignore_errors=True)
    return res


def output_op_names(model_bytes):
    """Names of the operators of the first subgraph of a written model (custom code for custom operators)."""
    from ethosu.vela.tflite.Model import Model as M

    m = M.GetRootAsModel(bytearray(model_bytes), 0)
    rev = {v: k for k, v in BuiltinOperator.__dict__.items() if not k.startswith("_")}
    names = []
    sg = m.Subgraphs(0)
    for i in range(sg.OperatorsLength()):
        oc = m.OperatorCodes(sg.Operators(i).OpcodeIndex())
        c = max(oc.BuiltinCode(), oc.DeprecatedBuiltinCode())
        if c == BuiltinOperator.CUSTOM:
            names.append(oc.CustomCode().decode())
        else:
            names.append(rev[c])
    return names


# ---- small model library -------------------------------------------------------------------------------------------
I8 = TensorType.INT8


def conv_model(ifm=(1, 8, 8, 4), ofm_c=8, k=(3, 3), stride=(1, 1), padding=0, dtype=I8, faf=0, per_axis=False, seed=0):
    rng = np.random.RandomState(seed)
    n, h, w, c = ifm
    if padding == 0:  # SAME
        oh, ow = -(-h // stride[0]), -(-w // stride[1])
    else:
        oh, ow = (h - k[0]) // stride[0] + 1, (w - k[1]) // stride[1] + 1
    wscale = list(0.01 + 0.001 * np.arange(ofm_c)) if per_axis else 0.02
    wzp = [0] * ofm_c if per_axis else 0
    bscale = [0.05 * s for s in wscale] if per_axis else 0.05 * 0.02
    tensors = [
        T("ifm", list(ifm), dtype, 0.05, 0),
        T("w", [ofm_c, k[0], k[1], c], I8, wscale, wzp, rng.randint(-100, 100, (ofm_c, k[0], k[1], c))),
        T("b", [ofm_c], TensorType.INT32, bscale, wzp, rng.randint(-500, 500, (ofm_c,))),
        T("ofm", [n, oh, ow, ofm_c], dtype, 0.1, 0),
    ]
    ops = [
        O(
            BuiltinOperator.CONV_2D,
            [0, 1, 2],
            [3],
            (
                "Conv2DOptions",
                dict(
                    Padding=padding,
                    StrideW=stride[1],
                    StrideH=stride[0],
                    FusedActivationFunction=faf,
                    DilationWFactor=1,
                    DilationHFactor=1,
                ),
            ),
        )
    ]
    return SG(tensors, ops, [0], [3])

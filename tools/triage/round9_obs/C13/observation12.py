"""Degenerate but structurally valid subgraphs:
* a subgraph whose outputs vector is empty (one CONV_2D that nothing consumes), and a model whose only subgraph has no
  tensors at all: TypeError "float() argument must be ... not 'PassPlacement'" in
  extract_npu_subgraphs.extract_subgraph (the pass list is empty).
* a RELU whose input is its own output tensor (self loop, the subgraph input is unused): same TypeError."""
import sys

from _obs_common import c13util, report
import zoo
from c13util import BuiltinOperator as B, SG

no_out = zoo.chain_conv(1)
no_out.outputs = []
loop = zoo.unary(B.RELU)
loop.ops[0].inputs = [1]
cases = [
    ("subgraph with one CONV_2D and no outputs", c13util.build_tflite(no_out), ()),
    ("subgraph without tensors and operators", c13util.build_tflite(SG([], [], [], [])), ()),
    ("RELU reading its own output", c13util.build_tflite(loop), ()),
    ("control: subgraph without operators, input == output", c13util.build_tflite(zoo.passthrough()), ()),
]
sys.exit(report(__doc__, cases))

"""UNIDIRECTIONAL_SEQUENCE_LSTM (int8, batch 1, 3 time steps, 4 features, 4 outputs, 24 operands, 5 intermediates,
variable output/cell state) on any Ethos-U55 configuration: TypeError 'NoneType' + 'float' in
Tensor.address_for_coordinate (a feature map of the unrolled LSTM never got an address); with batch 2 an AssertionError.
The same models compile for Ethos-U65 (all operators on the NPU)."""
import sys

from _obs_common import c13util, report
import zoo

cases = [
    ("lstm batch 1, ethos-u55-128", c13util.build_tflite(zoo.lstm()), ("--accelerator-config", "ethos-u55-128")),
    ("lstm int16, ethos-u55-64", c13util.build_tflite(zoo.lstm(dtype=zoo.I16)), ("--accelerator-config", "ethos-u55-64")),
    ("lstm batch 2, ethos-u55-128", c13util.build_tflite(zoo.lstm(batch=2)), ("--accelerator-config", "ethos-u55-128")),
    ("control: lstm batch 1, ethos-u65-256", c13util.build_tflite(zoo.lstm()), ()),
]
sys.exit(report(__doc__, cases))

"""A chain of 1500 unary operators (ABS int8 on the NPU, or SIN float32 on the CPU) with the default --recursion-limit 4000:
RecursionError (an internal exception with a traceback; from about 2500 operators on it carries the hint to raise
--recursion-limit, but it still is not a VelaError and main() does not catch it).  800 operators compile."""
import sys

from _obs_common import c13util, report
from c13util import BuiltinOperator as B, O, SG, T, TensorType as TT


def chain(n, kind, dt, sc):
    t = [T("t0", [1, 4, 4, 4], dt, sc, 0)]
    ops = []
    for i in range(n):
        t.append(T(f"t{i + 1}", [1, 4, 4, 4], dt, sc, 0))
        ops.append(O(kind, [i], [i + 1], ("AbsOptions", {}) if kind == B.ABS else None))
    return SG(t, ops, [0], [n])


cases = [("1500 x ABS", c13util.build_tflite(chain(1500, B.ABS, TT.INT8, 0.05)), ()),
         ("1500 x SIN (CPU only)", c13util.build_tflite(chain(1500, B.SIN, TT.FLOAT32, None)), ()),
         ("control: 800 x ABS", c13util.build_tflite(chain(800, B.ABS, TT.INT8, 0.05)), ())]
sys.exit(report(__doc__, cases))

"""A subgraph without any Const / Placeholder operator (its only operator, a CUSTOM op, has no inputs, and the subgraph
has no inputs): pass_packing.pack_into_passes reads 'startup_ps' that is only bound when the start-up list is not empty
-> UnboundLocalError."""
import sys

from _obs_common import c13util, report
import zoo

cases = [
    ("CUSTOM op with 0 inputs, 1 output, subgraph without inputs", c13util.build_tflite(zoo.custom_op(0, 1)), ()),
    ("control: CUSTOM op with 1 input", c13util.build_tflite(zoo.custom_op(1, 1)), ()),
]
sys.exit(report(__doc__, cases))

"""Borderline (the flatbuffers are structurally valid, but TensorFlow Lite itself would refuse them at Prepare time):
* CONV_2D / MAX_POOL_2D whose options table leaves stride_w / stride_h at the schema default 0: AssertionError in
  operation.Kernel.__init__ (assert stride_x > 0 and stride_y > 0), raised from compiler_driver._record_operator before
  any supported-operator check can send the operator to the CPU.
* SPLIT with two outputs whose SplitOptions.num_splits is left at the default 0: AssertionError."""
import sys

from _obs_common import c13util, report
import zoo

conv = zoo.conv()
conv.ops[0].options = ("Conv2DOptions", {})
pool = zoo.pool()
pool.ops[0].options = ("Pool2DOptions", {})
split = zoo.split()
split.ops[0].options = ("SplitOptions", {})
cases = [("CONV_2D with default-valued Conv2DOptions (stride 0)", c13util.build_tflite(conv), ()),
         ("MAX_POOL_2D with default-valued Pool2DOptions (stride 0, filter 0)", c13util.build_tflite(pool), ()),
         ("SPLIT with num_splits = 0", c13util.build_tflite(split), ()),
         ("control: CONV_2D without any options table", c13util.build_tflite((lambda s: (setattr(s.ops[0], "options", None), s)[1])(zoo.conv())), ())]
sys.exit(report(__doc__, cases))

"""Quantisation values that the semantic / supported-operator checks let through to the NPU code generation
(constraint_tens_quant_scale only rejects infinite scales):
* NaN scale on any tensor of an NPU operator (CONV_2D IFM / weights / OFM, ADD OFM, TANH, SOFTMAX, AVERAGE_POOL_2D, MEAN):
  ValueError 'cannot convert float NaN to integer' in scaling.quantise_scale.
* negative IFM or weight scale of a CONV_2D: AssertionError in weight_compressor.encode_bias (assert 0 <= scale < 2**32);
  negative input scale of SOFTMAX: AssertionError.
* input scale 0.0 of TANH: ZeroDivisionError in scaling.simplified_elementwise_add_sub_scale.
* per-axis quantised OFM (8 scales / zero points) of a CONV_2D with per-axis weights: TypeError in scaling.quantise_scale
  (constraint_tens_quant_per_axis allows per-axis parameters on every tensor of a convolution)."""
import sys

from _obs_common import c13util, report
import zoo
from c13util import BuiltinOperator as B


def mod(sg, idx, **kw):
    for k, v in kw.items():
        setattr(sg.tensors[idx], k, v)
    return c13util.build_tflite(sg)


nan = float("nan")
cases = [
    ("CONV_2D, IFM scale NaN", mod(zoo.conv(), 0, scale=nan), ()),
    ("CONV_2D, OFM scale NaN", mod(zoo.conv(), 3, scale=nan), ()),
    ("ADD, OFM scale NaN", mod(zoo.binary(B.ADD), 2, scale=nan), ()),
    ("MEAN, OFM scale NaN", mod(zoo.mean(), 2, scale=nan), ()),
    ("CONV_2D, IFM scale -0.5", mod(zoo.conv(), 0, scale=-0.5), ()),
    ("CONV_2D, weight scale -0.5", mod(zoo.conv(), 1, scale=-0.5), ()),
    ("SOFTMAX, input scale -0.5", mod(zoo.softmax(), 0, scale=-0.5), ()),
    ("TANH, input scale 0.0", mod(zoo.unary(B.TANH), 0, scale=0.0), ()),
    ("CONV_2D per-axis weights and per-axis OFM", mod(zoo.conv(per_axis=True), 3, scale=[0.1] * 8, zp=[0] * 8), ()),
    ("control: CONV_2D, IFM scale inf (rejected to the CPU)", mod(zoo.conv(), 0, scale=float("inf")), ()),
]
sys.exit(report(__doc__, cases))

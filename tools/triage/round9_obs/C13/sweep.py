"""Sweep the zoo over option combinations; report property violations. usage: sweep.py [name-filter] [-- extra args]"""
import os, sys, multiprocessing as mp
sys.path.insert(0, os.path.dirname(os.path.abspath(__file__)))
import c13util, zoo

def ALL():
    z = zoo.zoo(); z.update(zoo.zoo2()); return z

def work(job):
    name, args = job
    try:
        sg = ALL()[name]
        data = c13util.build_tflite(sg)
    except Exception as e:
        import traceback
        return name, args, "BUILD", traceback.format_exc()
    r = c13util.run_vela(data, args)
    if r.ok:
        return name, args, "ok" if r.status == 0 else "rejected", (r.stdout.strip().splitlines() or [""])[-1] if r.status else ""
    return name, args, "VIOLATION", r.describe()

if __name__ == "__main__":
    argv = sys.argv[1:]
    extra = []
    if "--" in argv:
        i = argv.index("--")
        extra = argv[i + 1:]
        argv = argv[:i]
    flt = argv[0] if argv else ""
    names = [n for n in ALL() if flt in n]
    jobs = [(n, tuple(extra)) for n in names]
    with mp.Pool(8, maxtasksperchild=20) as pool:
        res = pool.map(work, jobs, chunksize=1)
    bad = 0
    for name, args, st, info in res:
        if st in ("VIOLATION", "BUILD"):
            bad += 1
            print("=" * 20, name, args, st)
            print(info[-2500:])
        elif st == "rejected":
            print("rejected:", name, info)
    print(f"{len(res)} runs, {bad} violations, extra={extra}")

"""The (deprecated but still mapped) CALL operator with CallOptions.subgraph = 1: tflite_mapping stores the subgraph index
under the attribute name 'subgraph', which live_range.extract_live_ranges_from_cascaded_passes takes for the tuple of
Subgraph objects of a control flow operator -> TypeError: 'int' object is not iterable."""
import sys

from _obs_common import c13util, report
from c13util import BuiltinOperator as B, O, SG, T, TensorType as TT

main = SG([T("x", [1, 4], TT.FLOAT32, None, None), T("y", [1, 4], TT.FLOAT32, None, None)],
          [O(B.CALL, [0], [1], ("CallOptions", dict(Subgraph=1)))], [0], [1])
sub = SG([T("a", [1, 4], TT.FLOAT32, None, None), T("b", [1, 4], TT.FLOAT32, None, None)], [O(B.SIN, [0], [1], None)], [0], [1], "sub")
sys.exit(report(__doc__, [("CALL(subgraph=1)", c13util.build_tflite([main, sub]), ())]))

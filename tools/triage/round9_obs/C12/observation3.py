"""Observation 3 (unmodified tree): an INT4 activation tensor gets 16 bytes of arena, whatever its shape.

Tensor.element_size() is dtype.size_in_bits() // 8, which is 0 for DataType.int4; storage_size() then 'forces it to take up
space' with 1 byte, rounded up to 16. A [1, 16, 16, 8] INT4 tensor between two CPU operators (2048 elements = 1024 bytes
even when packed two per byte) is given the arena range [off, off + 16): the tensor that is allocated behind it overlaps it
while both are live, and the arena / scratch size that Vela reports ends inside the INT4 tensor.
Exit code 1 = violation observed."""
import os
import sys

sys.path.insert(0, os.getcwd())
sys.path.insert(0, os.path.dirname(os.path.abspath(__file__)))
import c12_lib as L  # noqa: E402

BO = L.BO


def build():
    m = L.ModelBuilder()
    sg = m.subgraph()
    x = L.fm(sg, "x", [1, 16, 16, 8])
    a = L.conv(sg, "a", x, 8, k=3)
    i4 = sg.tensor("i4", [1, 16, 16, 8], "int4", 0.05, 0)
    k8 = sg.tensor("k8", [1, 16, 16, 8], "int8", 0.05, 0)
    sg.op(BO.CUSTOM, [a], [i4, k8], custom_code="quantise_to_int4")  # a CPU operator with an INT4 and an INT8 result
    b = sg.tensor("b", [1, 16, 16, 8], "int8", 0.05, 0)
    sg.op(BO.CUSTOM, [i4, k8], [b], custom_code="from_int4")
    c = L.conv(sg, "c", b, 8, k=3)
    sg.inputs = [x]
    sg.outputs = [c]
    return m.build()


def main():
    bad = []
    for alloc in ("HillClimb", "Greedy", "LinearAlloc"):
        res = L.run_vela(build(), ["--accelerator-config", "ethos-u55-128", "--tensor-allocator", alloc])
        probs = L.check_plan(res, verbose=(alloc == "HillClimb"))
        for p in probs:
            print(alloc, "VIOLATION", p)
        bad += probs
    print("FAIL" if bad else "PASS")
    return 1 if bad else 0


if __name__ == "__main__":
    sys.exit(main())

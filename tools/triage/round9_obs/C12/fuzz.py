import os, sys, itertools, traceback
sys.path.insert(0, os.getcwd())
sys.path.insert(0, os.path.dirname(os.path.abspath(__file__)))
import c12_lib as L

CONFIGS = [
    # (args, arena_area, fast_area)
    (["--accelerator-config", "ethos-u55-128"], "sram", None),
    (["--accelerator-config", "ethos-u55-64", "--config", L.CONFIG, "--system-config", "Ethos_U55_High_End_Embedded", "--memory-mode", "Shared_Sram"], "sram", None),
    (["--accelerator-config", "ethos-u55-256", "--config", L.CONFIG, "--system-config", "Ethos_U55_High_End_Embedded", "--memory-mode", "Sram_Only"], "sram", None),
    (["--accelerator-config", "ethos-u65-256", "--config", L.CONFIG, "--system-config", "Ethos_U65_High_End", "--memory-mode", "Dedicated_Sram"], "dram", "sram"),
    (["--accelerator-config", "ethos-u65-512", "--config", L.CONFIG, "--system-config", "Ethos_U65_Mid_End", "--memory-mode", "Dedicated_Sram", "--arena-cache-size", "8192"], "dram", "sram"),
    (["--accelerator-config", "ethos-u65-256", "--config", L.CONFIG, "--system-config", "Ethos_U65_Mid_End", "--memory-mode", "Dedicated_Sram", "--arena-cache-size", "40000"], "dram", "sram"),
]
ALLOCS = ["HillClimb", "Greedy", "LinearAlloc"]
ALIGNS = [16, 32, 64, 128, 256]
OPTS = ["Performance", "Size"]

def main():
    lo, hi = int(sys.argv[1]), int(sys.argv[2])
    nbad = 0
    for seed in range(lo, hi):
        import random
        r = random.Random(seed * 7919)
        model = L.random_network(seed, n_ops=r.choice([4, 6, 9, 12]), hw=r.choice([8, 16, 24, 33]), c=r.choice([3, 8, 16, 20]), p_cpu=r.choice([0.0, 0.2, 0.4]))
        cfg, arena, fast = r.choice(CONFIGS)
        alloc = r.choice(ALLOCS)
        align = r.choice(ALIGNS)
        opt = r.choice(OPTS)
        args = cfg + ["--tensor-allocator", alloc, "--cpu-tensor-alignment", str(align), "--optimise", opt]
        try:
            res = L.run_vela(model, args)
            probs = L.check_plan(res, cpu_alignment=align, arena_area=arena, fast_area=fast)
        except SystemExit as e:
            probs = [f"SystemExit {e}"]
        except Exception as e:
            probs = [f"EXC {type(e).__name__}: {str(e)[:200]}"]
        if probs:
            nbad += 1
            print(seed, " ".join(args[1:]), flush=True)
            for p in probs[:6]:
                print("    ", p, flush=True)
    print("done", lo, hi, "bad", nbad)
main()

"""Observation 2 (unmodified tree): feeding a Vela-optimised model to Vela again produces a broken arena plan.

The reader recognises the 'ethos-u' custom operators (CustomType.ExistingNpuOp, mark_tensors keeps the scratch purpose), but
the semantic check rejects them ('Constant tensors should not have NoneType-values': the scratch / scratch_fast tensors have
no data) and they are kept as CPU operators. Their command streams are copied unchanged - they address the arena of the FIRST
compilation - while the second compilation allocates everything anew, including the scratch tensors themselves, as ordinary
arena tensors: in the written model the scratch tensor is not at offset 0, the custom operators' inputs and outputs are not
inside it, and the offsets the (unchanged) command streams use no longer match the OfflineMemoryAllocation record.
Exit code 1 = violation observed."""
import os
import sys

sys.path.insert(0, os.getcwd())
sys.path.insert(0, os.path.dirname(os.path.abspath(__file__)))
import c12_lib as L  # noqa: E402


def build():
    m = L.ModelBuilder()
    sg = m.subgraph()
    x = L.fm(sg, "x", [1, 16, 16, 8])
    c1 = L.conv(sg, "c1", x, 16, k=3)
    f = L.cpu_unary(sg, "fl", c1)
    c2 = L.conv(sg, "c2", f, 16, k=3)
    sg.inputs = [x]
    sg.outputs = [c2]
    return m.build()


def offsets(res):
    _, meta, sgs = L.parse_output(res.tflite)
    pos = 3
    out = {}
    for sg in sgs:
        for t in sg.tensors:
            out[t.name] = int(meta[pos])
            pos += 1
    return out


def main():
    first = L.run_vela(build(), ["--accelerator-config", "ethos-u55-128"])
    p1 = L.check_plan(first)
    print("first compilation:", p1 or "consistent", offsets(first))
    second = L.run_vela(first.tflite, ["--accelerator-config", "ethos-u55-128"], name="net_vela")
    probs = L.check_plan(second, verbose=True)
    o1, o2 = offsets(first), offsets(second)
    for name in ("x", "c1", "fl", "c2"):
        if o1.get(name) != o2.get(name):
            probs.append(
                f"tensor '{name}' was at arena offset {o1.get(name)} when the command streams were generated, the new record "
                f"puts it at {o2.get(name)} (the command streams are unchanged)"
            )
    for p in probs:
        print("VIOLATION", p)
    print("FAIL" if probs else "PASS")
    return 1 if probs else 0


if __name__ == "__main__":
    sys.exit(main())

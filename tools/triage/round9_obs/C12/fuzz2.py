import os, sys
sys.path.insert(0, os.getcwd())
sys.path.insert(0, os.path.dirname(os.path.abspath(__file__)))
import c12_lib as L, random

CONFIGS = [
    (["--accelerator-config", "ethos-u55-128"], "sram", None),
    (["--accelerator-config", "ethos-u55-128", "--arena-cache-size", "30000"], "sram", None),
    (["--accelerator-config", "ethos-u55-256", "--optimise", "Size"], "sram", None),
    (["--accelerator-config", "ethos-u55-64", "--config", L.CONFIG, "--system-config", "Ethos_U55_High_End_Embedded", "--memory-mode", "Shared_Sram", "--arena-cache-size", "50000"], "sram", None),
    (["--accelerator-config", "ethos-u55-256", "--config", L.CONFIG, "--system-config", "Ethos_U55_High_End_Embedded", "--memory-mode", "Sram_Only"], "sram", None),
    (["--accelerator-config", "ethos-u65-256", "--config", L.CONFIG, "--system-config", "Ethos_U65_High_End", "--memory-mode", "Dedicated_Sram"], "dram", "sram"),
    (["--accelerator-config", "ethos-u65-512", "--config", L.CONFIG, "--system-config", "Ethos_U65_Mid_End", "--memory-mode", "Dedicated_Sram", "--arena-cache-size", "100000"], "dram", "sram"),
    (["--accelerator-config", "ethos-u65-512", "--config", L.CONFIG, "--system-config", "Ethos_U65_Embedded", "--memory-mode", "Shared_Sram"], "sram", None),
]
ALLOCS = ["HillClimb", "HillClimb", "Greedy", "LinearAlloc"]
ALIGNS = [16, 16, 32, 64, 256]

def main():
    lo, hi = int(sys.argv[1]), int(sys.argv[2])
    nbad = 0
    for seed in range(lo, hi):
        r = random.Random(seed * 104729)
        model = L.random_network2(seed, n_ops=r.choice([6, 10, 14]), hw=r.choice([16, 32, 48, 64]), c=r.choice([8, 16, 32]), p_cpu=r.choice([0.0, 0.15, 0.3]))
        cfg, arena, fast = r.choice(CONFIGS)
        alloc = r.choice(ALLOCS)
        align = r.choice(ALIGNS)
        args = cfg + ["--tensor-allocator", alloc, "--cpu-tensor-alignment", str(align)]
        try:
            res = L.run_vela(model, args)
            probs = L.check_plan(res, cpu_alignment=align, arena_area=arena, fast_area=fast) + L.check_command_streams_in_file(res.tflite)
        except SystemExit as e:
            probs = [f"SystemExit {e}"]
        except Exception as e:
            probs = [f"EXC {type(e).__name__}: {str(e)[-300:]}"]
        if probs:
            nbad += 1
            print(seed, " ".join(args[1:]), flush=True)
            for p in probs[:6]:
                print("    ", p, flush=True)
    print("done", lo, hi, "bad", nbad)
main()

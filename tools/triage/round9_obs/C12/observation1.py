"""Observation 1 (unmodified tree): WHILE - tensors of the cond/body subgraphs and the operator's own outputs are placed on
top of the WHILE operator's inputs.

live_range.extract_live_ranges_from_cascaded_passes marks the inputs of the WHILE pass at the time slot *before* the called
subgraphs, then walks cond and body (each advancing the clock) and marks the WHILE outputs *after* them. The WHILE inputs are
therefore dead while cond / body run and while the outputs are written. In the written model
  * an input and an output of the same WHILE operator overlap partially ('pre' and 'w_x' below) - the TFLite(-Micro) kernel
    copies the operator inputs to the operator outputs / body inputs after the first cond evaluation,
  * the result of the cond subgraph ('c_out') lies inside the WHILE input 'pre', i.e. evaluating the condition overwrites the
    loop-carried value before it has been copied,
  * tensors of the body subgraph lie inside main-graph tensors that are operands of the WHILE.
Exit code 1 = violation observed."""
import os
import sys

sys.path.insert(0, os.getcwd())
sys.path.insert(0, os.path.dirname(os.path.abspath(__file__)))
import c12_lib as L  # noqa: E402

BO = L.BO


def build(n_body_convs=2, hw=16, c=8):
    m = L.ModelBuilder()
    main = m.subgraph("main")
    cond = m.subgraph("cond")
    body = m.subgraph("body")
    x = L.fm(main, "x", [1, hw, hw, c])
    i0 = main.tensor("i0", [1], "int32", None, 0)
    a = L.conv(main, "pre", x, c, k=3)
    keep = L.conv(main, "keep", x, c, k=1)  # live across the WHILE
    wi = main.tensor("w_i", [1], "int32", None, 0)
    wx = main.tensor("w_x", [1, hw, hw, c], "int8", 0.05, 0)
    main.op(BO.WHILE, [i0, a], [wi, wx], ("WhileOptions", dict(CondSubgraphIndex=1, BodySubgraphIndex=2)))
    out = L.add(main, "out", wx, keep)
    main.inputs = [x, i0]
    main.outputs = [out]
    ci = cond.tensor("c_i", [1], "int32", None, 0)
    cx = cond.tensor("c_x", [1, hw, hw, c], "int8", 0.05, 0)
    lim = cond.tensor("lim", [1], "int32", None, 0, [3])
    cb = cond.tensor("c_out", [1], "bool", None, 0)
    cond.op(BO.LESS, [ci, lim], [cb], ("LessOptions", dict()))
    cond.inputs = [ci, cx]
    cond.outputs = [cb]
    bi = body.tensor("b_i", [1], "int32", None, 0)
    bx = body.tensor("b_x", [1, hw, hw, c], "int8", 0.05, 0)
    one = body.tensor("one", [1], "int32", None, 0, [1])
    bi2 = body.tensor("b_i2", [1], "int32", None, 0)
    body.op(BO.ADD, [bi, one], [bi2], ("AddOptions", dict()))
    t = bx
    for k in range(n_body_convs):
        t = L.conv(body, f"bc{k}", t, c, k=3)
    body.inputs = [bi, bx]
    body.outputs = [bi2, t]
    return m.build()


def main():
    res = L.run_vela(build(), ["--accelerator-config", "ethos-u55-128"])
    probs = L.check_plan(res, verbose=True)
    for p in probs:
        print("VIOLATION", p)
    print("FAIL" if probs else "PASS")
    return 1 if probs else 0


if __name__ == "__main__":
    sys.exit(main())

"""Helper for the C12 demonstrations.

* a tiny TensorFlow Lite flatbuffer builder (independent of Vela's tflite_writer),
* a wrapper that runs the Vela command line driver on such a model,
* an oracle that re-derives, from the *output file only*, what the OfflineMemoryAllocation metadata promises
  and compares it with the sizes Vela reports (console + summary CSV).
"""
import contextlib
import csv
import importlib
import io
import os
import re
import shutil
import struct
import sys
import tempfile

import flatbuffers
import numpy as np

_HERE = os.path.dirname(os.path.abspath(__file__))
_ROOT = os.path.dirname(_HERE)
if _ROOT not in sys.path:
    sys.path.insert(0, _ROOT)

from ethosu.vela.tflite import Buffer  # noqa: E402
from ethosu.vela.tflite import BuiltinOperator  # noqa: E402
from ethosu.vela.tflite import BuiltinOptions  # noqa: E402
from ethosu.vela.tflite import Metadata  # noqa: E402
from ethosu.vela.tflite import Model  # noqa: E402
from ethosu.vela.tflite import Operator  # noqa: E402
from ethosu.vela.tflite import OperatorCode  # noqa: E402
from ethosu.vela.tflite import QuantizationParameters  # noqa: E402
from ethosu.vela.tflite import SubGraph  # noqa: E402
from ethosu.vela.tflite import Tensor  # noqa: E402
from ethosu.vela.tflite import TensorType  # noqa: E402

BO = BuiltinOperator.BuiltinOperator
TT = TensorType.TensorType

DTYPES = {
    "int8": (TT.INT8, np.int8),
    "uint8": (TT.UINT8, np.uint8),
    "int16": (TT.INT16, np.int16),
    "int32": (TT.INT32, np.int32),
    "float32": (TT.FLOAT32, np.float32),
    "bool": (TT.BOOL, np.bool_),
    "int4": (TT.INT4, np.int8),
}
TT_SIZE = {
    TT.INT8: 1,
    TT.UINT8: 1,
    TT.BOOL: 1,
    TT.INT16: 2,
    TT.FLOAT16: 2,
    TT.INT32: 4,
    TT.FLOAT32: 4,
    TT.INT64: 8,
    TT.FLOAT64: 8,
    TT.UINT32: 4,
    TT.UINT16: 2,
}


# ----------------------------------------------------------------------------------------------------------------------
# model builder
# ----------------------------------------------------------------------------------------------------------------------
class SG:
    def __init__(self, model, name):
        self.model = model
        self.name = name
        self.tensors = []
        self.ops = []
        self.inputs = []
        self.outputs = []

    def tensor(self, name, shape, dtype="int8", scale=0.05, zp=0, data=None, is_variable=False):
        buf = 0
        if data is not None:
            arr = np.asarray(data).astype(DTYPES[dtype][1]).reshape(shape)
            self.model.buffers.append(arr.tobytes())
            buf = len(self.model.buffers) - 1
        self.tensors.append(dict(name=name, shape=list(shape), dtype=dtype, scale=scale, zp=zp, buf=buf, var=is_variable))
        return len(self.tensors) - 1

    def op(self, code, inputs, outputs, opts=None, custom_code=None, version=1):
        key = (code, custom_code, version)
        if key not in self.model.opcodes:
            self.model.opcodes.append(key)
        self.ops.append(dict(opcode=self.model.opcodes.index(key), inputs=list(inputs), outputs=list(outputs), opts=opts))


class ModelBuilder:
    def __init__(self):
        self.buffers = [b""]
        self.opcodes = []
        self.subgraphs = []

    def subgraph(self, name="main"):
        sg = SG(self, name)
        self.subgraphs.append(sg)
        return sg

    # -- serialisation --
    @staticmethod
    def _vec(b, fmt_size, vals, prepend):
        b.StartVector(fmt_size, len(vals), fmt_size)
        for v in reversed(vals):
            prepend(v)
        return b.EndVector()

    def build(self):
        b = flatbuffers.Builder(1024)

        def ivec(vals):
            return self._vec(b, 4, vals, b.PrependInt32)

        def ovec(vals):
            return self._vec(b, 4, vals, b.PrependUOffsetTRelative)

        buf_offs = []
        for data in self.buffers:
            d = None
            if data:
                b.StartVector(1, len(data), 16)
                b.head = b.head - len(data)
                b.Bytes[b.head : b.head + len(data)] = data
                d = b.EndVector()
            Buffer.BufferStart(b)
            if d is not None:
                Buffer.BufferAddData(b, d)
            buf_offs.append(Buffer.BufferEnd(b))

        oc_offs = []
        for code, custom, version in self.opcodes:
            cc = b.CreateString(custom) if custom else None
            OperatorCode.OperatorCodeStart(b)
            OperatorCode.OperatorCodeAddDeprecatedBuiltinCode(b, min(code, 127))
            OperatorCode.OperatorCodeAddBuiltinCode(b, code)
            OperatorCode.OperatorCodeAddVersion(b, version)
            if cc is not None:
                OperatorCode.OperatorCodeAddCustomCode(b, cc)
            oc_offs.append(OperatorCode.OperatorCodeEnd(b))

        sg_offs = []
        for sg in self.subgraphs:
            t_offs = []
            for t in sg.tensors:
                shape = ivec(t["shape"])
                name = b.CreateString(t["name"])
                q = None
                if t["scale"] is not None:
                    scales = np.atleast_1d(np.asarray(t["scale"], dtype=np.float32)).tolist()
                    zps = np.atleast_1d(np.asarray(t["zp"], dtype=np.int64)).tolist()
                    if len(zps) != len(scales):
                        zps = zps * len(scales)
                    sc = self._vec(b, 4, scales, b.PrependFloat32)
                    b.StartVector(8, len(zps), 8)
                    for v in reversed(zps):
                        b.PrependInt64(v)
                    zp = b.EndVector()
                    QuantizationParameters.QuantizationParametersStart(b)
                    QuantizationParameters.QuantizationParametersAddScale(b, sc)
                    QuantizationParameters.QuantizationParametersAddZeroPoint(b, zp)
                    q = QuantizationParameters.QuantizationParametersEnd(b)
                Tensor.TensorStart(b)
                Tensor.TensorAddShape(b, shape)
                Tensor.TensorAddType(b, DTYPES[t["dtype"]][0])
                Tensor.TensorAddBuffer(b, t["buf"])
                Tensor.TensorAddName(b, name)
                if q is not None:
                    Tensor.TensorAddQuantization(b, q)
                Tensor.TensorAddIsVariable(b, t["var"])
                t_offs.append(Tensor.TensorEnd(b))
            tensors = ovec(t_offs)

            op_offs = []
            for op in sg.ops:
                ins = ivec(op["inputs"])
                outs = ivec(op["outputs"])
                opt_off = None
                opt_type = 0
                if op["opts"] is not None:
                    cls_name, fields = op["opts"]
                    mod = importlib.import_module("ethosu.vela.tflite." + cls_name)
                    getattr(mod, cls_name + "Start")(b)
                    for k, v in fields.items():
                        getattr(mod, cls_name + "Add" + k)(b, v)
                    opt_off = getattr(mod, cls_name + "End")(b)
                    opt_type = getattr(BuiltinOptions.BuiltinOptions, cls_name)
                Operator.OperatorStart(b)
                Operator.OperatorAddOpcodeIndex(b, op["opcode"])
                Operator.OperatorAddInputs(b, ins)
                Operator.OperatorAddOutputs(b, outs)
                if opt_off is not None:
                    Operator.OperatorAddBuiltinOptionsType(b, opt_type)
                    Operator.OperatorAddBuiltinOptions(b, opt_off)
                op_offs.append(Operator.OperatorEnd(b))
            operators = ovec(op_offs)
            inputs = ivec(sg.inputs)
            outputs = ivec(sg.outputs)
            name = b.CreateString(sg.name)
            SubGraph.SubGraphStart(b)
            SubGraph.SubGraphAddTensors(b, tensors)
            SubGraph.SubGraphAddInputs(b, inputs)
            SubGraph.SubGraphAddOutputs(b, outputs)
            SubGraph.SubGraphAddOperators(b, operators)
            SubGraph.SubGraphAddName(b, name)
            sg_offs.append(SubGraph.SubGraphEnd(b))

        opcodes = ovec(oc_offs)
        subgraphs = ovec(sg_offs)
        buffers = ovec(buf_offs)
        desc = b.CreateString("c12 demo model")
        Model.ModelStart(b)
        Model.ModelAddVersion(b, 3)
        Model.ModelAddOperatorCodes(b, opcodes)
        Model.ModelAddSubgraphs(b, subgraphs)
        Model.ModelAddDescription(b, desc)
        Model.ModelAddBuffers(b, buffers)
        root = Model.ModelEnd(b)
        b.Finish(root, b"TFL3")
        return bytes(b.Output())


# -- convenience layer builders ---------------------------------------------------------------------------------------
_rng = np.random.RandomState(1234)


def fm(sg, name, shape, dtype="int8", scale=0.05, zp=0):
    return sg.tensor(name, shape, dtype, scale, zp)


def conv(sg, name, ifm, out_c, k=1, stride=1, padding=0, dtype="int8", out_scale=0.05):
    """padding: 0 = SAME, 1 = VALID"""
    n, h, w, c = sg.tensors[ifm]["shape"]
    wgt = sg.tensor(name + "_w", [out_c, k, k, c], "int8", 0.01, 0, _rng.randint(-20, 20, size=(out_c, k, k, c)))
    bias = sg.tensor(name + "_b", [out_c], "int32", 0.0005, 0, _rng.randint(-50, 50, size=(out_c,)))
    if padding == 0:
        oh, ow = -(-h // stride), -(-w // stride)
    else:
        oh, ow = (h - k) // stride + 1, (w - k) // stride + 1
    ofm = sg.tensor(name, [n, oh, ow, out_c], dtype, out_scale, 0)
    sg.op(
        BO.CONV_2D,
        [ifm, wgt, bias],
        [ofm],
        ("Conv2DOptions", dict(Padding=padding, StrideW=stride, StrideH=stride, DilationWFactor=1, DilationHFactor=1)),
    )
    return ofm


def add(sg, name, a, b_, out_scale=0.1):
    shape = sg.tensors[a]["shape"]
    ofm = sg.tensor(name, shape, sg.tensors[a]["dtype"], out_scale, 0)
    sg.op(BO.ADD, [a, b_], [ofm], ("AddOptions", dict()))
    return ofm


def maxpool(sg, name, ifm, k=2, stride=2):
    n, h, w, c = sg.tensors[ifm]["shape"]
    t = sg.tensors[ifm]
    ofm = sg.tensor(name, [n, -(-h // stride), -(-w // stride), c], t["dtype"], t["scale"], t["zp"])
    sg.op(
        BO.MAX_POOL_2D,
        [ifm],
        [ofm],
        ("Pool2DOptions", dict(Padding=0, StrideW=stride, StrideH=stride, FilterWidth=k, FilterHeight=k)),
    )
    return ofm


def cpu_unary(sg, name, ifm, code=None):
    """An operator that Vela leaves on the CPU (no NPU support)."""
    t = sg.tensors[ifm]
    ofm = sg.tensor(name, t["shape"], t["dtype"], t["scale"], t["zp"])
    sg.op(BO.FLOOR if code is None else code, [ifm], [ofm])
    return ofm


# ----------------------------------------------------------------------------------------------------------------------
# running Vela
# ----------------------------------------------------------------------------------------------------------------------
CONFIG = os.path.join(_ROOT, "ethosu", "config_files", "Arm", "vela.ini")


class Result:
    pass


class _TouchRecorder:
    """Records what the generated NPU operations access (region, address, length), per NPU subgraph and in program
    order. Hooks the hand-over point between Vela's high level commands and the register command stream generator."""

    def __init__(self):
        self.extent = {}  # region -> highest touched offset + 1
        self.accesses = []  # flat list (region, address, length, what)
        self.streams = {}  # NPU subgraph name -> [ {kind, reads, writes, weights, src_region, name} ]
        self._cur = None

    def note(self, rng, what):
        if rng is None or rng.length == 0:
            return None
        end = int(rng.address) + int(rng.length)
        self.extent[int(rng.region)] = max(self.extent.get(int(rng.region), 0), end)
        self.accesses.append((int(rng.region), int(rng.address), int(rng.length), what))
        return (int(rng.region), int(rng.address), int(rng.length), what)

    def __enter__(self):
        from ethosu.vela import high_level_command_to_npu_op as h
        from ethosu.vela import register_command_stream_util as u
        from ethosu.vela.api import NpuDmaOperation

        self._h = h
        self._orig = h.generate_command_stream
        self._orig_sg = h.generate_register_command_stream_for_sg

        def wrapper(npu_op_list, *a, **kw):
            ops = []
            for op in npu_op_list:
                if isinstance(op, NpuDmaOperation):
                    rec = dict(kind="dma", reads=[], writes=[], weights=[], src_region=int(op.src.region), name=op.name)
                    r = self.note(op.src, "dma src")
                    if r:
                        rec["reads"].append(r)
                    r = self.note(op.dest, "dma dest " + str(getattr(op, "name", "")))
                    if r:
                        rec["writes"].append(r)
                    ops.append(rec)
                    continue
                rec = dict(kind="block", reads=[], writes=[], weights=[], src_region=None, name=getattr(op, "name", ""))
                for nm in ("ifm", "ifm2", "ofm"):
                    fm_ = getattr(op, nm, None)
                    if fm_ is None or (nm == "ifm2" and getattr(op, "ifm2_scalar", None) is not None):
                        continue
                    if fm_.shape is None or fm_.shape.height * fm_.shape.width * fm_.shape.depth == 0:
                        continue
                    for r_ in u.get_address_ranges(fm_):
                        r = self.note(r_, f"{nm} {fm_.name}")
                        if r:
                            rec["writes" if nm == "ofm" else "reads"].append(r)
                for r_ in list(op.weights) + list(op.biases):
                    r = self.note(r_, "weights/bias")
                    if r:
                        rec["weights"].append(r)
                ops.append(rec)
            if self._cur is not None:
                self.streams[self._cur] = ops
            return self._orig(npu_op_list, *a, **kw)

        def sg_wrapper(nng, sg, *a, **kw):
            self._cur = sg.name
            try:
                return self._orig_sg(nng, sg, *a, **kw)
            finally:
                self._cur = None

        h.generate_command_stream = wrapper
        h.generate_register_command_stream_for_sg = sg_wrapper
        return self

    def __exit__(self, *exc):
        self._h.generate_command_stream = self._orig
        self._h.generate_register_command_stream_for_sg = self._orig_sg


def run_vela(model_bytes, args=(), name="net", keep=False, extra_ini=None):
    """Compiles the model with the command line driver (in-process). Returns a Result with
    .tflite (bytes of <name>_vela.tflite), .console (str), .csv (dict of the summary CSV row)"""
    from ethosu.vela import vela

    tmp = tempfile.mkdtemp(prefix="c12_")
    try:
        path = os.path.join(tmp, name + ".tflite")
        with open(path, "wb") as f:
            f.write(model_bytes)
        out_dir = os.path.join(tmp, "output")
        argv = [path, "--output-dir", out_dir] + list(args)
        if extra_ini is not None:
            ini = os.path.join(tmp, "extra.ini")
            with open(ini, "w") as f:
                f.write(extra_ini)
            argv += ["--config", ini]
        # capture at file descriptor level: some of Vela's printing binds sys.stdout at import time
        console_path = os.path.join(tmp, "console.txt")
        sys.stdout.flush()
        saved_fd = os.dup(1)
        saved_stdout = sys.stdout
        with open(console_path, "w") as cf:
            os.dup2(cf.fileno(), 1)
            try:
                with contextlib.redirect_stdout(cf), _TouchRecorder() as rec:
                    vela.main(argv)
                    cf.flush()
            finally:
                saved_stdout.flush()
                os.dup2(saved_fd, 1)
                os.close(saved_fd)
        res = Result()
        with open(console_path) as cf:
            res.console = cf.read()
        res.npu_extent = dict(rec.extent)  # region -> highest touched offset + 1
        res.npu_accesses = list(rec.accesses)
        res.npu_streams = dict(rec.streams)  # NPU subgraph name -> operations with their accesses, in program order
        out_path = os.path.join(out_dir, name + "_vela.tflite")
        if not os.path.exists(out_path):
            raise RuntimeError("Vela did not write an output model: " + res.console.strip()[-300:])
        with open(out_path, "rb") as f:
            res.tflite = f.read()
        res.csv = None
        for fn in os.listdir(out_dir):
            if fn.startswith(name + "_summary_") and fn.endswith(".csv"):
                with open(os.path.join(out_dir, fn)) as f:
                    rows = list(csv.reader(f))
                res.csv = dict(zip(rows[0], rows[1]))
        res.dir = tmp if keep else None
        return res
    finally:
        if not keep:
            shutil.rmtree(tmp, ignore_errors=True)


# ----------------------------------------------------------------------------------------------------------------------
# reading the output model
# ----------------------------------------------------------------------------------------------------------------------
class OutTensor:
    def __repr__(self):
        return f"<{self.name} idx={self.idx} off={self.offset} size={self.size} live={self.first}..{self.last}>"


class OutSubgraph:
    pass


def parse_output(tflite_bytes):
    buf = bytearray(tflite_bytes)
    model = Model.Model.GetRootAsModel(buf, 0)
    meta = None
    for i in range(model.MetadataLength()):
        m = model.Metadata(i)
        if m.Name() == b"OfflineMemoryAllocation":
            data = model.Buffers(m.Buffer()).DataAsNumpy()
            meta = np.frombuffer(bytes(data), dtype=np.int32)
    subgraphs = []
    for si in range(model.SubgraphsLength()):
        sg = model.Subgraphs(si)
        o = OutSubgraph()
        o.name = sg.Name().decode() if sg.Name() else ""
        o.tensors = []
        for ti in range(sg.TensorsLength()):
            t = sg.Tensors(ti)
            ot = OutTensor()
            ot.idx = ti
            ot.name = t.Name().decode()
            ot.shape = [int(t.Shape(j)) for j in range(t.ShapeLength())]
            ot.type = t.Type()
            ot.size = int(np.prod(ot.shape, dtype=np.int64)) * TT_SIZE.get(ot.type, 1) if ot.shape else TT_SIZE.get(ot.type, 1)
            if ot.type == TT.INT4:
                # two elements per byte (the densest layout any runtime uses)
                ot.size = (int(np.prod(ot.shape, dtype=np.int64)) + 1) // 2
            ot.buffer = t.Buffer()
            b_ = model.Buffers(ot.buffer)
            ot.has_data = b_.DataLength() > 0
            ot.is_variable = bool(t.IsVariable())
            ot.offset = None
            ot.first = None
            ot.last = None
            o.tensors.append(ot)
        o.inputs = [int(sg.Inputs(j)) for j in range(sg.InputsLength())]
        o.outputs = [int(sg.Outputs(j)) for j in range(sg.OutputsLength())]
        o.ops = []
        for oi in range(sg.OperatorsLength()):
            op = sg.Operators(oi)
            oc = model.OperatorCodes(op.OpcodeIndex())
            code = max(oc.BuiltinCode(), oc.DeprecatedBuiltinCode())
            custom = oc.CustomCode().decode() if oc.CustomCode() else None
            callees = []
            if op.BuiltinOptions() is not None:
                if code == BO.WHILE:
                    from ethosu.vela.tflite import WhileOptions

                    wo = WhileOptions.WhileOptions()
                    wo.Init(op.BuiltinOptions().Bytes, op.BuiltinOptions().Pos)
                    callees = [wo.CondSubgraphIndex(), wo.BodySubgraphIndex()]
                elif code == BO.IF:
                    from ethosu.vela.tflite import IfOptions

                    io_ = IfOptions.IfOptions()
                    io_.Init(op.BuiltinOptions().Bytes, op.BuiltinOptions().Pos)
                    callees = [io_.ThenSubgraphIndex(), io_.ElseSubgraphIndex()]
            d = dict(
                callees=callees,
                code=code,
                custom=custom,
                inputs=[int(op.Inputs(j)) for j in range(op.InputsLength())],
                outputs=[int(op.Outputs(j)) for j in range(op.OutputsLength())],
                intermediates=[int(op.Intermediates(j)) for j in range(op.IntermediatesLength())],
            )
            o.ops.append(d)
        subgraphs.append(o)
    return model, meta, subgraphs


# ----------------------------------------------------------------------------------------------------------------------
# the oracle
# ----------------------------------------------------------------------------------------------------------------------
def console_used(console):
    """{'SRAM': bytes, 'DRAM': bytes, ...} from 'Total SRAM used   x KiB' lines"""
    res = {}
    for m in re.finditer(r"^Total\s+(.+?)\s+used\s+([0-9.]+)\s+KiB", console, re.M):
        res[m.group(1)] = float(m.group(2)) * 1024
    return res


def _liveness(sg):
    n_ops = len(sg.ops)
    for t in sg.tensors:
        t.first, t.last = None, None
        t.def_op, t.last_is_input_of = None, None
    for i in sg.inputs:
        sg.tensors[i].first = -1
        sg.tensors[i].last = -1
    for oi, op in enumerate(sg.ops):
        for i in op["inputs"] + op["outputs"] + op["intermediates"]:
            if i < 0:
                continue
            t = sg.tensors[i]
            t.first = oi if t.first is None else min(t.first, oi)
            t.last = oi if t.last is None else max(t.last, oi)
    for i in sg.outputs:
        t = sg.tensors[i]
        t.last = n_ops
        if t.first is None:
            t.first = n_ops
    for t in sg.tensors:
        if t.is_variable:
            t.first, t.last = -1, n_ops


def check_plan(res, cpu_alignment=16, arena_area="sram", fast_area=None, verbose=False):
    """Returns a list of violation strings (empty = the plan is consistent and the reported sizes are sufficient).

    arena_area : csv/console name of the memory area holding the tensor arena ('sram' or 'dram')
    fast_area  : for Dedicated_Sram the area holding the scratch_fast tensor ('sram'), else None
    """
    problems = []
    model, meta, subgraphs = parse_output(res.tflite)
    if meta is None:
        return ["no OfflineMemoryAllocation metadata"]
    if meta[0] != 0:
        problems.append(f"metadata version {meta[0]}")
    if meta[1] != len(subgraphs):
        problems.append(f"metadata says {meta[1]} subgraphs, file has {len(subgraphs)}")
    n_all = sum(len(sg.tensors) for sg in subgraphs)
    if meta[2] != n_all or len(meta) != 3 + n_all:
        problems.append(f"metadata says {meta[2]} tensors (len {len(meta)}), file has {n_all}")
        return problems
    pos = 3
    for sg in subgraphs:
        for t in sg.tensors:
            t.offset = int(meta[pos])
            pos += 1

    shared_fast = fast_area is None  # scratch_fast is not a separate memory
    arena_extent = 0
    fast_extent = 0
    scratch_size = None
    fast_size = None
    sg_arena = []  # per subgraph: CPU visible arena tensors
    for si, sg in enumerate(subgraphs):
        _liveness(sg)
        scratch_ids = set()
        fast_ids = set()
        for op in sg.ops:
            if op["custom"] == "ethos-u":
                ins = op["inputs"]  # [command stream, flash, scratch, scratch_fast, ifms...]
                scratch_ids.add(ins[2])
                fast_ids.add(ins[3])
        if len(scratch_ids) > 1:
            problems.append(f"sg{si}: several scratch tensors {scratch_ids}")

        plain = []
        for t in sg.tensors:
            if t.offset < 0 or t.idx in scratch_ids:
                continue
            if t.idx in fast_ids:
                fast_size = t.size
                if not shared_fast:
                    fast_extent = max(fast_extent, t.offset + t.size)
                if t.offset != 0:
                    problems.append(f"sg{si}: scratch_fast tensor '{t.name}' at offset {t.offset}")
                continue
            if t.first is None:
                continue  # unused tensor
            plain.append(t)
            arena_extent = max(arena_extent, t.offset + t.size)
        sg_arena.append(plain)

        if verbose:
            for t in sg.tensors:
                print("   ", si, t)

        # scratch tensor
        for s_ in scratch_ids:
            st = sg.tensors[s_]
            scratch_size = st.size
            if st.offset != 0:
                problems.append(f"sg{si}: scratch tensor '{st.name}' is at offset {st.offset}, not 0")
            arena_extent = max(arena_extent, st.offset + st.size)
            for op in sg.ops:
                if op["custom"] != "ethos-u":
                    continue
                for i in op["inputs"][4:] + op["outputs"]:
                    if i < 0:
                        continue
                    t = sg.tensors[i]
                    if t.offset < 0:
                        continue
                    if t.offset < st.offset or t.offset + t.size > st.offset + st.size:
                        problems.append(
                            f"sg{si}: ethos-u operand '{t.name}' [{t.offset}, {t.offset + t.size}) is outside the scratch "
                            f"tensor [{st.offset}, {st.offset + st.size})"
                        )

        # alignment + overlap of CPU visible tensors
        for t in plain:
            if t.offset % cpu_alignment != 0:
                problems.append(f"sg{si}: tensor '{t.name}' offset {t.offset} is not aligned to {cpu_alignment}")
        for a_i, a in enumerate(plain):
            for b_ in plain[a_i + 1 :]:
                if a.size == 0 or b_.size == 0:
                    continue
                if not (max(a.offset, b_.offset) < min(a.offset + a.size, b_.offset + b_.size)):
                    continue
                lo, hi = max(a.first, b_.first), min(a.last, b_.last)
                if lo > hi:
                    continue
                if lo == hi and 0 <= lo < len(sg.ops) and sg.ops[lo]["custom"] == "ethos-u":
                    # the Ethos-U operator may reuse the memory of an input that dies in it for one of its outputs
                    op = sg.ops[lo]
                    early, late = (a, b_) if a.first < b_.first else (b_, a)
                    if early.last == lo and late.first == lo and early.idx in op["inputs"] and late.idx in op["outputs"]:
                        continue
                problems.append(
                    f"sg{si}: tensors '{a.name}' [{a.offset}, {a.offset + a.size}) live {a.first}..{a.last} and "
                    f"'{b_.name}' [{b_.offset}, {b_.offset + b_.size}) live {b_.first}..{b_.last} overlap"
                )

    # control flow: everything in a called subgraph is live while the calling operator runs
    for si, sg in enumerate(subgraphs):
        for oi, op in enumerate(sg.ops):
            for ci in op.get("callees", []):
                if not (0 <= ci < len(subgraphs)):
                    continue
                for a in sg_arena[si]:
                    if not (a.first <= oi <= a.last):
                        continue
                    for b_ in sg_arena[ci]:
                        if a.size and b_.size and max(a.offset, b_.offset) < min(a.offset + a.size, b_.offset + b_.size):
                            problems.append(
                                f"sg{si} tensor '{a.name}' [{a.offset}, {a.offset + a.size}) is live across operator {oi} "
                                f"which runs sg{ci}, whose tensor '{b_.name}' [{b_.offset}, {b_.offset + b_.size}) overlaps it"
                            )

    # what the NPU does to the arena while a custom operator runs (region 1 = the scratch tensor)
    def _ov(a0, a1, b0, b1):
        return max(a0, b0) < min(a1, b1)

    streams = getattr(res, "npu_streams", {})
    for si, sg in enumerate(subgraphs):
        for oi, op in enumerate(sg.ops):
            if op["custom"] != "ethos-u":
                continue
            cs_name = sg.tensors[op["inputs"][0]].name
            if not cs_name.endswith("_command_stream") or cs_name[: -len("_command_stream")] not in streams:
                continue
            npu_ops = streams[cs_name[: -len("_command_stream")]]
            operands = set(i for i in op["inputs"] + op["outputs"] if i >= 0)
            bystanders = [t for t in sg_arena[si] if t.idx not in operands and t.first < oi < t.last]
            last_writer = []  # (region, start, end, op record), later entries win
            for no in npu_ops:
                for (reg, addr, ln, what) in no["writes"]:
                    if reg != 1:
                        continue
                    for t in bystanders:
                        if t.size and _ov(addr, addr + ln, t.offset, t.offset + t.size):
                            problems.append(
                                f"sg{si} operator {oi} ({cs_name}): NPU {what} writes [{addr}, {addr + ln}) into tensor "
                                f"'{t.name}' [{t.offset}, {t.offset + t.size}) which is live across the operator"
                            )
                if no["kind"] == "block":
                    fm_ranges = [r for r in no["reads"] + no["writes"] if r[0] in (1, 2)]
                    for (wreg, waddr, wln, _) in no["weights"]:
                        if wreg not in (1, 2):
                            continue
                        for (reg, addr, ln, what) in fm_ranges:
                            if reg == wreg and _ov(addr, addr + ln, waddr, waddr + wln):
                                problems.append(
                                    f"sg{si} operator {oi} ({cs_name}): NPU op '{no['name']}' reads its weights from region "
                                    f"{wreg} [{waddr}, {waddr + wln}) which overlaps its own {what} [{addr}, {addr + ln})"
                                )
                        # weights in the arena arrive by DMA: nothing else may have written there since
                        for (r0, w0, w1, wrec) in reversed(last_writer):
                            if r0 == wreg and _ov(waddr, waddr + wln, w0, w1):
                                if wrec["kind"] != "dma":
                                    problems.append(
                                        f"sg{si} operator {oi} ({cs_name}): NPU op '{no['name']}' reads its weights from region "
                                        f"{wreg} [{waddr}, {waddr + wln}) but [{max(waddr, w0)}, {min(waddr + wln, w1)}) was last "
                                        f"written as a feature map by '{wrec['name']}'"
                                    )
                                break
                    for (reg, addr, ln, what) in no["reads"]:
                        if reg not in (1, 2):
                            continue
                        # most recent writer of the bytes that are read
                        for (r0, w0, w1, wrec) in reversed(last_writer):
                            if r0 == reg and _ov(addr, addr + ln, w0, w1):
                                if wrec["kind"] == "dma" and wrec["src_region"] == 0:
                                    problems.append(
                                        f"sg{si} operator {oi} ({cs_name}): NPU op '{no['name']}' reads {what} region {reg} "
                                        f"[{addr}, {addr + ln}) whose bytes [{max(addr, w0)}, {min(addr + ln, w1)}) were last "
                                        f"written by the weight DMA '{wrec['name']}'"
                                    )
                                break
                for (reg, addr, ln, what) in no["writes"]:
                    if reg in (1, 2):
                        last_writer.append((reg, addr, addr + ln, no))
            # results handed back to the CPU must not have been overwritten by a weight transfer
            for i in op["outputs"]:
                if i < 0:
                    continue
                t = sg.tensors[i]
                if t.offset < 0 or not t.size:
                    continue
                for (r0, w0, w1, wrec) in reversed(last_writer):
                    if r0 == 1 and _ov(t.offset, t.offset + t.size, w0, w1):
                        if wrec["kind"] == "dma" and wrec["src_region"] == 0:
                            problems.append(
                                f"sg{si} operator {oi} ({cs_name}): result '{t.name}' [{t.offset}, {t.offset + t.size}) was last "
                                f"written by the weight DMA '{wrec['name']}' [{w0}, {w1})"
                            )
                        break

    # what the command streams touch
    ext = getattr(res, "npu_extent", {})
    if ext.get(1, 0) and scratch_size is not None and ext[1] > scratch_size:
        problems.append(f"the command streams touch scratch bytes up to {ext[1]}, the scratch tensor has {scratch_size} bytes")
    if ext.get(2, 0) and fast_size is not None and ext[2] > fast_size:
        problems.append(
            f"the command streams touch scratch_fast bytes up to {ext[2]}, the scratch_fast tensor has {fast_size} bytes"
        )
    arena_extent = max(arena_extent, ext.get(1, 0))
    if shared_fast:
        arena_extent = max(arena_extent, ext.get(2, 0))
    else:
        fast_extent = max(fast_extent, ext.get(2, 0))

    # reported sizes
    res.arena_extent = arena_extent
    res.fast_extent = fast_extent
    used = console_used(res.console)
    checks = [(arena_area, arena_extent)]
    if fast_area is not None:
        checks.append((fast_area, fast_extent))
    for area, extent in checks:
        if extent == 0:
            continue
        label = {"sram": "SRAM", "dram": "DRAM"}[area]
        if label not in used:
            problems.append(f"console does not report {label} usage (plan needs {extent} bytes)")
        elif used[label] + 5.13 < extent:
            # the console prints two decimals of KiB (rounded to nearest: at most 5.12 bytes off)
            problems.append(f"console reports {used[label]:.0f} bytes of {label}, the plan needs {extent}")
        if res.csv is not None:
            csv_val = float(res.csv[area + "_memory_used"]) * 1024
            if csv_val + 1e-6 < extent:
                problems.append(f"summary CSV reports {csv_val:.0f} bytes of {area}, the plan needs {extent}")
    return problems


# ----------------------------------------------------------------------------------------------------------------------
# more layer builders + a random network generator (used by the observation scripts)
# ----------------------------------------------------------------------------------------------------------------------
def dwconv(sg, name, ifm, k=3, stride=1):
    n, h, w, c = sg.tensors[ifm]["shape"]
    wgt = sg.tensor(name + "_w", [1, k, k, c], "int8", 0.01, 0, _rng.randint(-20, 20, size=(1, k, k, c)))
    bias = sg.tensor(name + "_b", [c], "int32", 0.0005, 0, _rng.randint(-50, 50, size=(c,)))
    ofm = sg.tensor(name, [n, -(-h // stride), -(-w // stride), c], "int8", 0.05, 0)
    sg.op(
        BO.DEPTHWISE_CONV_2D,
        [ifm, wgt, bias],
        [ofm],
        (
            "DepthwiseConv2DOptions",
            dict(Padding=0, StrideW=stride, StrideH=stride, DepthMultiplier=1, DilationWFactor=1, DilationHFactor=1),
        ),
    )
    return ofm


def concat(sg, name, inputs, axis=3):
    shapes = [sg.tensors[i]["shape"] for i in inputs]
    shape = list(shapes[0])
    shape[axis] = sum(s_[axis] for s_ in shapes)
    t = sg.tensors[inputs[0]]
    ofm = sg.tensor(name, shape, t["dtype"], t["scale"], t["zp"])
    sg.op(BO.CONCATENATION, list(inputs), [ofm], ("ConcatenationOptions", dict(Axis=axis)))
    return ofm


def reshape(sg, name, ifm, new_shape):
    t = sg.tensors[ifm]
    shp = sg.tensor(name + "_shape", [len(new_shape)], "int32", None, 0, new_shape)
    ofm = sg.tensor(name, list(new_shape), t["dtype"], t["scale"], t["zp"])
    sg.op(BO.RESHAPE, [ifm, shp], [ofm], ("ReshapeOptions", dict()))
    return ofm


def random_network(seed, n_ops=8, hw=16, c=8, p_cpu=0.25, n_outputs=None):
    import random

    r = random.Random(seed)
    m = ModelBuilder()
    sg = m.subgraph()
    x = fm(sg, "x", [1, hw, hw, c])
    live = [x]
    consumed = set()
    for k in range(n_ops):
        name = f"t{k}"
        kind = r.random()
        a = r.choice(live[-4:])
        sa = sg.tensors[a]["shape"]
        if kind < p_cpu:
            t = cpu_unary(sg, name, a)
            consumed.add(a)
        else:
            ch = r.choice(["conv", "conv", "dw", "add", "pool", "conv1", "concat"])
            same = [b for b in live if b != a and sg.tensors[b]["shape"] == sa]
            if ch == "add" and same:
                b = r.choice(same)
                # both operands need the same scale as produced by the builders (0.05 / 0.1 mix is fine for ADD)
                t = add(sg, name, a, b)
                consumed.update((a, b))
            elif ch == "concat" and same:
                b = r.choice(same)
                if sg.tensors[b]["scale"] == sg.tensors[a]["scale"]:
                    t = concat(sg, name, [a, b])
                    consumed.update((a, b))
                else:
                    t = conv(sg, name, a, r.choice([8, 16, 24]), k=1)
                    consumed.add(a)
            elif ch == "pool" and sa[1] >= 4:
                t = maxpool(sg, name, a)
                consumed.add(a)
            elif ch == "dw":
                t = dwconv(sg, name, a)
                consumed.add(a)
            elif ch == "conv1":
                t = conv(sg, name, a, r.choice([8, 16, 32]), k=1)
                consumed.add(a)
            else:
                t = conv(sg, name, a, r.choice([8, 16, 20]), k=3)
                consumed.add(a)
        live.append(t)
    outs = [t for t in live if t not in consumed and t != x]
    if not outs:
        outs = [live[-1]]
    sg.inputs = [x]
    sg.outputs = outs
    return m.build()


# ----------------------------------------------------------------------------------------------------------------------
# decoding the command stream that is stored in the output file (no Vela code involved)
# ----------------------------------------------------------------------------------------------------------------------
_CMD1 = {
    0x000: "IFM_BASE0", 0x001: "IFM_BASE1", 0x002: "IFM_BASE2", 0x003: "IFM_BASE3",
    0x010: "OFM_BASE0", 0x011: "OFM_BASE1", 0x012: "OFM_BASE2", 0x013: "OFM_BASE3",
    0x020: "WEIGHT_BASE", 0x021: "WEIGHT_LENGTH", 0x022: "SCALE_BASE", 0x023: "SCALE_LENGTH",
    0x030: "DMA0_SRC", 0x031: "DMA0_DST", 0x032: "DMA0_LEN",
    0x080: "IFM2_BASE0", 0x081: "IFM2_BASE1", 0x082: "IFM2_BASE2", 0x083: "IFM2_BASE3",
    0x090: "WEIGHT1_BASE", 0x091: "WEIGHT1_LENGTH", 0x092: "SCALE1_BASE", 0x093: "SCALE1_LENGTH",
}  # fmt: skip
_CMD0_REGION = {0x10F: "IFM_REGION", 0x11F: "OFM_REGION", 0x128: "WEIGHT_REGION", 0x129: "SCALE_REGION",
                0x130: "DMA0_SRC_REGION", 0x131: "DMA0_DST_REGION", 0x18F: "IFM2_REGION"}  # fmt: skip
_OPS = {0x002: "CONV", 0x003: "DEPTHWISE", 0x005: "POOL", 0x006: "ELEMENTWISE", 0x010: "DMA_START"}


def decode_command_stream(payload):
    """payload: bytes of the first input of an ethos-u custom operator. Returns a list of events in program order:
    ('dma', src_region, src, dst_region, dst, length)
    ('op', kind, {'weights': [(region, base, length)...], 'ifm': (region, base0), 'ifm2': ..., 'ofm': ...})"""
    words = struct.unpack("<%dI" % (len(payload) // 4), payload[: len(payload) // 4 * 4])
    assert words[0] == struct.unpack("<I", b"COP1")[0], "not a driver payload"
    i = 1
    n = None
    while i < len(words):
        tag = words[i] & 0xFF
        if tag == 0x01:  # config: 2 more words
            i += 3
        elif tag == 0x05:  # nop
            i += 1
        elif tag == 0x02:  # command stream
            n = ((words[i] >> 8) & 0xFF) << 16 | (words[i] >> 16)
            i += 1
            break
        else:
            i += 1
    assert n is not None
    stream = words[i : i + n]
    reg = {}
    events = []
    k = 0
    while k < len(stream):
        w = stream[k]
        code = w & 0x3FF
        param = w >> 16
        if w & 0x4000:
            payload32 = stream[k + 1]
            k += 2
            if code in _CMD1:
                reg[_CMD1[code]] = payload32 | ((param & 0xFF) << 32 if _CMD1[code].endswith(("BASE", "SRC", "DST")) or "BASE" in _CMD1[code] else 0)
            continue
        k += 1
        if code in _CMD0_REGION:
            reg[_CMD0_REGION[code]] = param & 0x7
        elif code in _OPS:
            kind = _OPS[code]
            if kind == "DMA_START":
                events.append(
                    ("dma", reg.get("DMA0_SRC_REGION"), reg.get("DMA0_SRC"), reg.get("DMA0_DST_REGION"), reg.get("DMA0_DST"), reg.get("DMA0_LEN"))
                )
            else:
                d = {"weights": []}
                if kind in ("CONV", "DEPTHWISE"):
                    for b_, l_ in (("WEIGHT_BASE", "WEIGHT_LENGTH"), ("WEIGHT1_BASE", "WEIGHT1_LENGTH")):
                        if reg.get(l_):
                            d["weights"].append((reg.get("WEIGHT_REGION"), reg[b_], reg[l_]))
                    for b_, l_ in (("SCALE_BASE", "SCALE_LENGTH"), ("SCALE1_BASE", "SCALE1_LENGTH")):
                        if reg.get(l_):
                            d["weights"].append((reg.get("SCALE_REGION"), reg[b_], reg[l_]))
                d["ifm"] = (reg.get("IFM_REGION"), reg.get("IFM_BASE0"))
                d["ofm"] = (reg.get("OFM_REGION"), reg.get("OFM_BASE0"))
                if kind == "ELEMENTWISE":
                    d["ifm2"] = (reg.get("IFM2_REGION"), reg.get("IFM2_BASE0"))
                events.append(("op", kind, d))
    return events


def check_command_streams_in_file(tflite_bytes):
    """File-only check: every arena (region 1) / scratch_fast (region 2) range that a DMA writes or that weights are read from
    lies inside the corresponding tensor of the custom operator; an operator's weights do not cover the first byte of its own
    feature maps."""
    problems = []
    model, meta, subgraphs = parse_output(tflite_bytes)
    for si, sg_fb in enumerate(subgraphs):
        sg_model = model.Subgraphs(si)
        for oi, op in enumerate(sg_fb.ops):
            if op["custom"] != "ethos-u":
                continue
            cs = sg_fb.tensors[op["inputs"][0]]
            data = bytes(model.Buffers(cs.buffer).DataAsNumpy())
            size = {1: sg_fb.tensors[op["inputs"][2]].size, 2: sg_fb.tensors[op["inputs"][3]].size}
            names = {1: "scratch", 2: "scratch_fast"}
            for ev in decode_command_stream(data):
                if ev[0] == "dma":
                    _, sreg, src, dreg, dst, ln = ev
                    if dreg in size and dst + ln > size[dreg]:
                        problems.append(
                            f"sg{si} operator {oi} ({cs.name}): DMA writes {names[dreg]} bytes [{dst}, {dst + ln}), the tensor has "
                            f"{size[dreg]} bytes"
                        )
                else:
                    _, kind, d = ev
                    for (wreg, base, ln) in d["weights"]:
                        if wreg in size and base + ln > size[wreg]:
                            problems.append(
                                f"sg{si} operator {oi} ({cs.name}): {kind} reads weights/scales from {names[wreg]} bytes "
                                f"[{base}, {base + ln}), the tensor has {size[wreg]} bytes"
                            )
                        for nm in ("ifm", "ifm2", "ofm"):
                            if nm in d and d[nm][0] == wreg and d[nm][1] is not None and wreg in size:
                                if base <= d[nm][1] < base + ln:
                                    problems.append(
                                        f"sg{si} operator {oi} ({cs.name}): {kind} reads weights/scales from {names[wreg]} bytes "
                                        f"[{base}, {base + ln}) which contain the start of its own {nm} at {d[nm][1]}"
                                    )
    return problems


def cpu_custom(sg, name, inputs, n_out=1, out_shape=None):
    """A third party custom operator (always stays on the CPU) with several inputs / outputs."""
    t = sg.tensors[inputs[0]]
    outs = [sg.tensor(f"{name}_{k}" if n_out > 1 else name, out_shape or t["shape"], t["dtype"], t["scale"], t["zp"]) for k in range(n_out)]
    sg.op(BO.CUSTOM, list(inputs), outs, custom_code="my_cpu_op")
    return outs


def random_network2(seed, n_ops=10, hw=32, c=16, p_cpu=0.2):
    """Like random_network, with multi-output CPU operators, reshapes and bigger feature maps."""
    import random

    r = random.Random(seed)
    m = ModelBuilder()
    sg = m.subgraph()
    x = fm(sg, "x", [1, hw, hw, c])
    live = [x]
    consumed = set()
    for k in range(n_ops):
        name = f"t{k}"
        a = r.choice(live[-5:])
        sa = sg.tensors[a]["shape"]
        same = [b for b in live if b != a and sg.tensors[b]["shape"] == sa]
        u = r.random()
        if u < p_cpu:
            ch = r.choice(["unary", "custom2", "custom_join"])
            if ch == "custom2":
                outs = cpu_custom(sg, name, [a], 2)
                consumed.add(a)
                live += outs
                continue
            if ch == "custom_join" and same:
                b = r.choice(same)
                t = cpu_custom(sg, name, [a, b], 1)[0]
                consumed.update((a, b))
            else:
                t = cpu_unary(sg, name, a)
                consumed.add(a)
        else:
            ch = r.choice(["conv", "conv", "dw", "add", "pool", "conv1", "concat", "reshape", "convs2"])
            if ch == "add" and same:
                b = r.choice(same)
                t = add(sg, name, a, b)
                consumed.update((a, b))
            elif ch == "concat" and same and sg.tensors[r.choice(same)]["scale"] == sg.tensors[a]["scale"]:
                b = [b for b in same if sg.tensors[b]["scale"] == sg.tensors[a]["scale"]][0]
                t = concat(sg, name, [a, b])
                consumed.update((a, b))
            elif ch == "pool" and sa[1] >= 4 and len(sa) == 4:
                t = maxpool(sg, name, a)
                consumed.add(a)
            elif ch == "dw" and len(sa) == 4:
                t = dwconv(sg, name, a)
                consumed.add(a)
            elif ch == "reshape" and len(sa) == 4 and sa[2] % 2 == 0:
                t = reshape(sg, name, a, [1, sa[1] * 2, sa[2] // 2, sa[3]])
                consumed.add(a)
            elif ch == "convs2" and len(sa) == 4 and sa[1] >= 8:
                t = conv(sg, name, a, r.choice([16, 32]), k=3, stride=2)
                consumed.add(a)
            elif ch == "conv1" and len(sa) == 4:
                t = conv(sg, name, a, r.choice([8, 16, 32, 64]), k=1)
                consumed.add(a)
            elif len(sa) == 4:
                t = conv(sg, name, a, r.choice([8, 16, 24, 48]), k=3)
                consumed.add(a)
            else:
                t = cpu_unary(sg, name, a)
                consumed.add(a)
        live.append(t)
    outs = [t for t in live if t not in consumed and t != x]
    if not outs:
        outs = [live[-1]]
    sg.inputs = [x]
    sg.outputs = outs
    return m.build()

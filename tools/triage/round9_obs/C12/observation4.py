"""Observation 4 (unmodified tree, minor): the console summary does not report the arena size of a network without NPU traffic.

stats_writer.print_performance_metrics_for_strat only prints 'Total <area> used' for memory areas whose bandwidth estimate is
non-zero. A network whose operators all stay on the CPU still gets an OfflineMemoryAllocation plan (here 4 KiB), the summary
CSV reports it, but the console prints no 'Total SRAM used' line at all.
Exit code 1 = observed."""
import os
import sys

sys.path.insert(0, os.getcwd())
sys.path.insert(0, os.path.dirname(os.path.abspath(__file__)))
import c12_lib as L  # noqa: E402


def main():
    m = L.ModelBuilder()
    sg = m.subgraph()
    x = L.fm(sg, "x", [1, 16, 16, 8])
    a = L.cpu_unary(sg, "a", x)
    b = L.cpu_unary(sg, "b", a)
    sg.inputs = [x]
    sg.outputs = [b]
    res = L.run_vela(m.build(), ["--accelerator-config", "ethos-u55-128"])
    probs = L.check_plan(res, verbose=True)
    print("console 'used' lines:", L.console_used(res.console), " CSV sram_memory_used (KiB):", res.csv["sram_memory_used"])
    for p in probs:
        print("VIOLATION", p)
    print("FAIL" if probs else "PASS")
    return 1 if probs else 0


if __name__ == "__main__":
    sys.exit(main())

# Helpers shared by the C19 demos / observations: builders for single-operator graphs with Vela's own classes and
# independent (pure Python integer) re-implementations of the gemmlowp / TFLite reference arithmetic.
import math
import os
import sys

_ROOT = os.path.dirname(os.path.dirname(os.path.abspath(__file__)))
if _ROOT not in sys.path:
    sys.path.insert(0, _ROOT)

import numpy as np  # noqa: E402

from ethosu.vela.data_type import DataType  # noqa: E402
from ethosu.vela.operation import Op  # noqa: E402
from ethosu.vela.operation import Operation  # noqa: E402
from ethosu.vela.tensor import QuantizationParameters  # noqa: E402
from ethosu.vela.tensor import Tensor  # noqa: E402

I32_MIN, I32_MAX = -(1 << 31), (1 << 31) - 1
I16_MIN, I16_MAX = -(1 << 15), (1 << 15) - 1


# ----------------------------------------------------------------------------------------------------------------------
# reference arithmetic (Python ints only)
def trunc_div(a, b):
    q = abs(a) // abs(b)
    return q if (a >= 0) == (b >= 0) else -q


def ref_srdhm32(a, b):
    if a == b == I32_MIN:
        return I32_MAX
    ab = a * b
    nudge = (1 << 30) if ab >= 0 else 1 - (1 << 30)
    return trunc_div(ab + nudge, 1 << 31)


def ref_srdhm16(a, b):
    if a == b == I16_MIN:
        return I16_MAX
    ab = a * b
    nudge = (1 << 14) if ab >= 0 else 1 - (1 << 14)
    return trunc_div(ab + nudge, 1 << 15)


def ref_sdhm16(a, b):
    # SaturatingDoublingHighMul of the TFLite hard swish kernel (no rounding)
    if a == b == I16_MIN:
        return I16_MAX
    return trunc_div(a * b, 1 << 15)


def ref_rdivpot(x, exponent):
    mask = (1 << exponent) - 1
    remainder = x & mask
    threshold = (mask >> 1) + (1 if x < 0 else 0)
    return (x >> exponent) + (1 if remainder > threshold else 0)


def ref_sat_left_shift(x, shift, lo, hi):
    return min(hi, max(lo, x * (1 << shift)))


def ref_quantize_multiplier(d):
    # TFLite QuantizeMultiplier: returns (quantized_multiplier, shift) with d ~ qm * 2**(shift - 31)
    if d == 0.0:
        return 0, 0
    q, shift = math.frexp(d)
    qf = q * (1 << 31)
    q_fixed = int(math.floor(abs(qf) + 0.5)) * (1 if qf >= 0 else -1)
    if q_fixed == (1 << 31):
        q_fixed //= 2
        shift += 1
    if shift < -31:
        shift = 0
        q_fixed = 0
    return q_fixed, shift


def ref_mbqm(x, qm, shift):
    # TFLite MultiplyByQuantizedMultiplier (shift in TFLite convention: positive = left shift)
    left = shift if shift > 0 else 0
    right = 0 if shift > 0 else -shift
    return ref_rdivpot(ref_srdhm32(x * (1 << left), qm), right)


def ref_exp_on_interval(a):
    # gemmlowp exp_on_interval_between_negative_one_quarter_and_0_excl, a in Q0.31
    constant_term = 1895147668
    constant_1_over_3 = 715827883
    x = a + (1 << 28)
    x2 = ref_srdhm32(x, x)
    x3 = ref_srdhm32(x2, x)
    x4 = ref_srdhm32(x2, x2)
    x4_over_4 = ref_rdivpot(x4, 2)
    t = ref_rdivpot(ref_srdhm32(x4_over_4 + x3, constant_1_over_3) + x2, 1)
    return constant_term + ref_srdhm32(constant_term, x + t)


def ref_exp_on_negative_values(a):
    # gemmlowp exp_on_negative_values for Q5.26
    if a == 0:
        return I32_MAX
    one_quarter = 1 << 24
    mask = one_quarter - 1
    a_mod = (a & mask) - one_quarter
    result = ref_exp_on_interval(a_mod * 32)
    remainder = a_mod - a
    for exponent, mult in (
        (-2, 1672461947),
        (-1, 1302514674),
        (0, 790015084),
        (1, 290630308),
        (2, 39332535),
        (3, 720401),
        (4, 242),
    ):
        if remainder & (1 << (26 + exponent)):
            result = ref_srdhm32(result, mult)
    return result


def c_round(f):
    # std::round
    return math.floor(f + 0.5) if f >= 0 else -math.floor(-f + 0.5)


# ----------------------------------------------------------------------------------------------------------------------
# reference tables
def code_range(dtype):
    return range(256) if dtype == DataType.uint8 else range(-128, 128)


def ref_real_table(fn, dtype, s_in, zp_in, s_out, zp_out):
    # Returns list of (lo, hi) admissible codes: the correctly rounded value, with both neighbours admitted when the
    # real value is within 1e-9 of a rounding tie (the oracle itself works in double precision)
    ix = code_range(dtype)
    qmin, qmax = min(ix), max(ix)
    s_in = float(s_in)
    s_out = float(s_out)
    res = []
    for x in ix:
        y = fn(s_in * (x - int(zp_in))) / s_out + int(zp_out)
        cands = {min(qmax, max(qmin, c_round(v))) for v in (y - 1e-9 * max(1.0, abs(y)), y, y + 1e-9 * max(1.0, abs(y)))}
        res.append((min(cands), max(cands)))
    return res


def ref_lrelu_table(dtype, s_in, zp_in, s_out, zp_out, alpha):
    ix = code_range(dtype)
    qmin, qmax = min(ix), max(ix)
    s_in, s_out, alpha = float(s_in), float(s_out), float(alpha)
    m_id, sh_id = ref_quantize_multiplier(s_in / s_out)
    m_al, sh_al = ref_quantize_multiplier(s_in * alpha / s_out)
    res = []
    for x in ix:
        v = x - int(zp_in)
        if v >= 0:
            y = ref_mbqm(v, m_id, sh_id)
        else:
            y = ref_mbqm(v, m_al, sh_al)
        res.append(min(qmax, max(qmin, y + int(zp_out))))
    return res


def ref_downscale_32_to_16(m):
    if m >= I32_MAX - (1 << 15):
        return I16_MAX
    return (m + (1 << 15)) >> 16


def ref_hardswish_table(dtype, s_in, zp_in, s_out, zp_out):
    ix = code_range(dtype)
    qmin, qmax = min(ix), max(ix)
    s_in, s_out = float(s_in), float(s_out)
    hires = (1 / 128) * s_in
    out_m32, out_exp = ref_quantize_multiplier(hires / s_out)
    relu_m32, relu_exp = ref_quantize_multiplier(hires / (3 / 32768))
    out_m16 = ref_downscale_32_to_16(out_m32)
    relu_m16 = ref_downscale_32_to_16(relu_m32)
    res = []
    for x in ix:
        v = (x - int(zp_in)) * 128
        pre = ref_srdhm16(v, out_m16)
        r = v
        if relu_exp > 0:
            r = ref_sat_left_shift(r, relu_exp - 1, I16_MIN, I16_MAX)
        r = ref_srdhm16(r, relu_m16)
        if relu_exp > 0:
            r = ref_sat_left_shift(r, 1, I16_MIN, I16_MAX)
        if relu_exp < 0:
            r = ref_rdivpot(r, -relu_exp)
        r = (r + (1 << 15)) >> 1
        y = ref_sdhm16(r, pre)
        y = ref_rdivpot(y, -out_exp if out_exp < 0 else 0) + int(zp_out)
        res.append(min(qmax, max(qmin, y)))
    return res


# ----------------------------------------------------------------------------------------------------------------------
# graph builders
def quant(dtype, scale, zp):
    qp = QuantizationParameters()
    qp.scale_f32 = np.float32(scale)
    qp.zero_point = np.int64(zp)
    if dtype == DataType.uint8:
        qp.quant_min, qp.quant_max = 0, 255
    else:
        qp.quant_min = -(1 << (dtype.bits - 1))
        qp.quant_max = (1 << (dtype.bits - 1)) - 1
    return qp


def feature_map(name, dtype, scale, zp, shape=(1, 8, 8, 16)):
    t = Tensor(list(shape), dtype, name)
    t.quantization = quant(dtype, scale, zp)
    return t


def with_producer(tens):
    # gives the tensor a Placeholder producer, like a subgraph input
    op = Operation(Op.Placeholder, tens.name + "_ph")
    op.set_output_tensor(tens)
    return tens


def unary_op(op_type, dtype, s_in, zp_in, s_out, zp_out, attrs=None, name="act", shape=(1, 8, 8, 16)):
    ifm = with_producer(feature_map(name + "_ifm", dtype, s_in, zp_in, shape))
    ofm = feature_map(name + "_ofm", dtype, s_out, zp_out, shape)
    op = Operation(op_type, name)
    op.add_input_tensor(ifm)
    op.set_output_tensor(ofm)
    if attrs:
        op.attrs.update(attrs)
    op.set_ifm_ofm_shapes()
    op.run_on_npu = True
    return op


def lut_values(op):
    assert op.activation_lut is not None, f"{op.name}: no LUT was attached"
    return [int(v) for v in op.activation_lut.values.flatten()]


def first_mismatch(got, want, dtype):
    # want: list of ints or of (lo, hi)
    for x, g, w in zip(code_range(dtype), got, want):
        lo, hi = w if isinstance(w, tuple) else (w, w)
        if not (lo <= g <= hi):
            return x, g, w
    return None


# ----------------------------------------------------------------------------------------------------------------------
# end-to-end: build a .tflite with Vela's own writer, compile it, return the compiled graph
def build_tflite(ops, inputs, outputs):
    # ops: list of Operation in execution order (run_on_npu is reset); returns the flatbuffer bytes
    from ethosu.vela import tflite_writer
    from ethosu.vela.nn_graph import Graph, Pass, PassPlacement, Subgraph
    from ethosu.vela.operation import NpuBlockType

    sg = Subgraph("main", PassPlacement.Cpu)
    sg.input_tensors = list(inputs)
    sg.original_inputs = list(inputs)
    sg.output_tensors = list(outputs)
    for op in ops:
        op.run_on_npu = False
        ps = Pass(op.name, PassPlacement.Cpu, False, NpuBlockType.Default)
        ps.ops = [op]
        sg.passes.append(ps)
    nng = Graph("model")
    nng.subgraphs.append(sg)
    return bytes(tflite_writer.write_tflite_buffer(nng))


def compile_tflite(data, accelerator="ethos-u55-128", extra_args=()):
    # Runs the real command line driver on the model and returns the compiled internal graph
    import contextlib
    import io
    import tempfile

    from ethosu.vela import vela

    captured = {}
    orig = vela.process

    def wrapper(*args, **kwargs):
        captured["nng"] = orig(*args, **kwargs)
        return captured["nng"]

    with tempfile.TemporaryDirectory() as tmp:
        path = os.path.join(tmp, "model.tflite")
        with open(path, "wb") as f:
            f.write(data)
        vela.process = wrapper
        # the driver prints its performance report through the C level stdout as well: silence file descriptor 1
        sys.stdout.flush()
        saved_fd = os.dup(1)
        devnull = os.open(os.devnull, os.O_WRONLY)
        os.dup2(devnull, 1)
        try:
            with contextlib.redirect_stdout(io.StringIO()):
                vela.main([path, "--output-dir", os.path.join(tmp, "out"), "--accelerator-config", accelerator, *extra_args])
        finally:
            sys.stdout.flush()
            os.dup2(saved_fd, 1)
            os.close(saved_fd)
            os.close(devnull)
            vela.process = orig
        with open(os.path.join(tmp, "out", "model_vela.tflite"), "rb") as f:
            captured["output"] = f.read()
    return captured["nng"], captured["output"]


def flash_luts(nng):
    # Returns list of (operator name, lut tensor, bytes found in the flash tensor at the LUT's address)
    from ethosu.vela.nn_graph import PassPlacement

    res = []
    for sg in nng.subgraphs:
        if sg.placement != PassPlacement.Npu:
            continue
        for sched_op in sg.sched_ops:
            lut = sched_op.parent_ps.lut_tensor
            if lut is None:
                continue
            n = lut.values.size * lut.dtype.size_in_bytes()
            res.append((sched_op.parent_op.name, lut, bytes(sg.flash_tensor.values[lut.address : lut.address + n])))
    return res

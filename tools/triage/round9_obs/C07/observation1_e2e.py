"""Observation 1 end-to-end (UNMODIFIED tree): a network in which one int8 weight tensor is used by a Conv2D with
int8 activations and by a Conv2D with int16 activations is compiled with the normal compiler driver. Both scheduled
operators end up with the very same encoded weight tensor (cache hit in CompressedWeightCache: the key has no IFM bit
depth), so for one of them the stream does not decode to its weights in the hardware order of its IFM precision.
With two separate (equal valued) weight tensors both operators are encoded correctly.
Exits 1 when the violation is present (it is on the unmodified tree), 0 otherwise."""
import os, sys, tempfile
sys.path.insert(0, os.getcwd()); sys.path.insert(0, os.path.dirname(os.path.abspath(__file__)))
import numpy as np
from c07_graph_check import qp
from c07_oracle import check_stream, py_reorder, UBLOCK_DEPTHS
from ethosu.vela import architecture_features, compiler_driver, scheduler
from ethosu.vela.architecture_features import Accelerator
from ethosu.vela.data_type import DataType
from ethosu.vela.nn_graph import Graph, Subgraph, PassPlacement, NetworkType
from ethosu.vela.operation import Op, Operation, Padding
from ethosu.vela.tensor import Tensor, create_const_tensor
from ethosu.vela.weight_compressor import CompressedWeightCache
from ethosu.vela.reader_util import clone_and_reshape_tensor, fixup_tensors

def build(shared=True):
    rng = np.random.default_rng(5)
    I, O = 16, 16
    w_ohwi = rng.integers(-127, 128, (O, 3, 3, I))
    wsrc = create_const_tensor("W", [O, 3, 3, I], DataType.int8, w_ohwi, quantization=qp(0.01))
    ops = []; ins = []; outs = []
    for name, dt, bdt in (("c8", DataType.int8, DataType.int32), ("c16", DataType.int16, DataType.int64)):
        ifm = Tensor([1, 8, 8, I], dt, name + "_in"); ifm.quantization = qp(0.02)
        ofm = Tensor([1, 8, 8, O], dt, name + "_out"); ofm.quantization = qp(0.05)
        src = wsrc if shared else create_const_tensor("W" + name, [O, 3, 3, I], DataType.int8, w_ohwi, quantization=qp(0.01))
        w = clone_and_reshape_tensor(src, (1, 2, 3, 0), False)
        b = create_const_tensor(name + "_b", [O], bdt, np.zeros(O), quantization=qp(0.0002))
        b = clone_and_reshape_tensor(b, None, True)
        op = Operation(Op.Conv2DBias, name)
        op.attrs = {"padding": Padding.SAME, "stride_w": 1, "stride_h": 1, "strides": (1, 1, 1, 1),
                    "dilation_w_factor": 1, "dilation_h_factor": 1, "dilation": (1, 1, 1, 1)}
        op.add_input_tensor(ifm); op.add_input_tensor(w); op.add_input_tensor(b)
        op.set_output_tensor(ofm)
        op.set_ifm_ofm_shapes()
        ops.append(op); ins.append(ifm); outs.append(ofm)
    nng = Graph("obs", 1)
    sg = Subgraph("main", PassPlacement.Cpu)
    sg.input_tensors = ins; sg.output_tensors = outs
    fixup_tensors(ins, ins)
    nng.subgraphs.append(sg)
    return nng, w_ohwi

def compile_(nng, acc="ethos-u55-128"):
    CompressedWeightCache.clear()
    arch = architecture_features.ArchitectureFeatures(
        vela_config_files=None, accelerator_config=acc, system_config=architecture_features.ArchitectureFeatures.DEFAULT_CONFIG,
        memory_mode=architecture_features.ArchitectureFeatures.DEFAULT_CONFIG, max_blockdep=3, verbose_config=False, arena_cache_size=None)
    out = tempfile.mkdtemp(prefix="c07obs")
    copts = compiler_driver.CompilerOptions(output_dir=out)
    sopts = scheduler.SchedulerOptions(optimization_strategy=scheduler.OptimizationStrategy.Performance, sram_target=arch.arena_cache_size, verbose_schedule=False)
    compiler_driver.compiler_driver(nng, arch, copts, sopts, NetworkType.TFLite, os.path.join(out, "obs"))
    return arch


from ethosu.vela.api import NpuBlockTraversal


def check(shared):
    nng, w_ohwi = build(shared)
    arch = compile_(nng)
    iu, ou = UBLOCK_DEPTHS["Ethos_U55_128"]
    problems = []
    for sg in nng.subgraphs:
        if sg.placement != PassPlacement.Npu:
            continue
        for sop, cost in sg.schedule.cost_map.items():
            wt = cost.npu_weights_tensor
            bits = sop.parent_op.ifm.dtype.size_in_bits()
            part = wt.hw_traversal == NpuBlockTraversal.PART_KERNEL_FIRST
            for key, rng in wt.encoded_ranges.items():
                idx = cost.ofm_depth_slices.index(key.depth)
                d0, d1 = cost.ofm_depth_slices[idx], cost.ofm_depth_slices[idx + 1]
                exp = py_reorder(w_ohwi[d0:d1], iu, ou, cost.block_config.ofm_block.depth, False, part, bits, 8, 8)
                start = rng.offset + rng.weight_offset
                msg = check_stream(wt.buffer[start : start + rng.weight_bytes], exp)
                if msg:
                    problems.append("%s (IFM %s, encoded tensor id %x, %d bytes): %s" % (sop.name, sop.parent_op.ifm.dtype, id(wt), len(wt.buffer), msg))
    return problems


def main():
    control = check(shared=False)
    assert control == [], control
    problems = check(shared=True)
    if problems:
        print("VIOLATION (unmodified tree): shared weight tensor, int8 and int16 IFM")
        for p in problems:
            print("  " + p)
        return 1
    print("no violation")
    return 0


if __name__ == "__main__":
    sys.exit(main())

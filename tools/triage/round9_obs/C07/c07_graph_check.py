"""Helper: run weight_compressor.encode_weight_and_scale_tensor on a small hand-made operator and check every
encoded weight range against the independent oracle (c07_oracle)."""
import os
import sys
from collections import namedtuple

import numpy as np

sys.path.insert(0, os.path.dirname(os.path.abspath(__file__)))
from c07_oracle import check_stream, py_reorder, UBLOCK_DEPTHS  # noqa: E402

from ethosu.vela import architecture_features  # noqa: E402
from ethosu.vela import weight_compressor  # noqa: E402
from ethosu.vela.api import NpuBlockTraversal  # noqa: E402
from ethosu.vela.data_type import DataType  # noqa: E402
from ethosu.vela.operation import Op, Operation, NpuBlockType  # noqa: E402
from ethosu.vela.tensor import create_const_tensor, QuantizationParameters, Tensor, TensorFormat, TensorPurpose  # noqa: E402

BlockCfg = namedtuple("BlockCfg", "ofm_block")
Blk = namedtuple("Blk", "depth")


def qp(scale=1.0, zp=0):
    q = QuantizationParameters()
    q.scale_f32 = np.float32(scale)
    q.zero_point = zp
    return q


def make_op(op_type, ifm_dtype, weight_tens, ofm_depth, name="op"):
    ifm = Tensor([1, 8, 8, weight_tens.shape[-2]], ifm_dtype, name + "_in")
    ifm.quantization = qp()
    ofm = Tensor([1, 8, 8, ofm_depth], ifm_dtype, name + "_out")
    ofm.quantization = qp()
    op = Operation(op_type, name)
    op.add_input_tensor(ifm)
    op.set_output_tensor(ofm)
    op.add_input_tensor(weight_tens)
    bias_dtype = DataType.int64 if ifm_dtype == DataType.int16 else DataType.int32
    bias = create_const_tensor(
        name + "_bias", [ofm_depth], bias_dtype, np.zeros([ofm_depth]), TensorPurpose.FeatureMap, quantization=qp()
    )
    bias.format = TensorFormat.NHWC
    if op_type == Op.Conv2DBackpropInputSwitchedBias:
        # inputs of the (switched) transpose convolution are [ifm, weights, output shape, bias]
        op.add_input_tensor(create_const_tensor(name + "_oshape", [4], DataType.int32, [1, 8, 8, ofm_depth]))
    op.add_input_tensor(bias)
    op.attrs.update({"stride_w": 1, "stride_h": 1, "strides": (1, 1, 1, 1), "padding": None})
    return op, bias


def expected_streams(arch, op, weight_values_hwio, zero_point, kernel_dilation, block_depth, depth_offsets, traversal):
    """yields (key, expected hardware ordered weight list) for every (core, depth offset)"""
    acc_name = [k for k in UBLOCK_DEPTHS if k.lower().replace("_", "-") == arch.accelerator_config.value][0]
    iu, ou = UBLOCK_DEPTHS[acc_name]
    w = weight_values_hwio.astype(np.int64) - np.asarray(zero_point).astype(np.int64)
    if w.ndim == 2:
        w = w.reshape((1, 1) + w.shape)
    if op.type == Op.Conv2DBackpropInputSwitchedBias:
        w = w[::-1, ::-1, :, :]
    bits = op.inputs[0].dtype.size_in_bits()
    is_dw = op.type.npu_block_type == NpuBlockType.ConvolutionDepthWise
    part = traversal == NpuBlockTraversal.PART_KERNEL_FIRST
    for idx, d0 in enumerate(depth_offsets[:-1]):
        d1 = depth_offsets[idx + 1]
        brick = w[:, :, :, d0:d1]
        for core in range(min(arch.ncores, w.shape[-1])):
            cbd = (block_depth + arch.ncores - 1 - core) // arch.ncores
            if cbd == 0:
                continue
            ohwi = np.transpose(brick, (3, 0, 1, 2))[core :: arch.ncores]
            yield (core, d0), py_reorder(
                ohwi, iu, ou, cbd, is_dw, part, bits, 8 // kernel_dilation[1], 8 // kernel_dilation[0]
            )


def check_encoded(arch, op, weight_tens, bias, block_depth, depth_offsets, expect_traversal=None):
    """Returns list of problems (empty when everything decodes to the expected weights)."""
    kernel = op.kernel
    npu_w, _ = weight_compressor.encode_weight_and_scale_tensor(
        arch, op, weight_tens, bias, kernel, BlockCfg(Blk(block_depth)), depth_offsets
    )
    problems = []
    trav = npu_w.hw_traversal
    if expect_traversal is not None and trav != expect_traversal:
        problems.append("hw_traversal is %s, expected %s" % (trav, expect_traversal))
    exp = dict(
        expected_streams(
            arch, op, weight_tens.values, weight_tens.quantization.zero_point, tuple(kernel.dilation), block_depth,
            depth_offsets, expect_traversal if expect_traversal is not None else trav,
        )
    )
    buf = npu_w.buffer
    for key, rng in npu_w.encoded_ranges.items():
        start = rng.offset + rng.weight_offset
        stream = buf[start : start + rng.weight_bytes]
        msg = check_stream(stream, exp[(key.core, key.depth)])
        if msg:
            problems.append("range core %d depth %d: %s" % (key.core, key.depth, msg))
    if set(exp) != {(k.core, k.depth) for k in npu_w.encoded_ranges}:
        problems.append("encoded range keys %s != expected %s" % (sorted(npu_w.encoded_ranges), sorted(exp)))
    return problems


def default_arch(acc):
    return architecture_features.create_default_arch(acc)

# Build the harness first (from the worktree root):
#   gcc -g -O1 -fsanitize=address,undefined -fno-sanitize-recover=undefined -Iethosu/mlw_codec out/harness.c ethosu/mlw_codec/mlw_encode.c ethosu/mlw_codec/mlw_decode.c -o out/harness_asan -lm
import os, sys, random, subprocess, tempfile
import numpy as np
here = os.path.dirname(os.path.abspath(__file__))
sys.path.insert(0, here)
import importlib.util
spec = importlib.util.spec_from_file_location("fz", os.path.join(here, "fuzz_encode.py"))
# reuse gen() without running main
src = open(os.path.join(here, "fuzz_encode.py")).read().replace("\nmain()\n", "\n")
src = src.replace("from ethosu import mlw_codec", "mlw_codec=None")
ns = {"__file__": os.path.join(here, "fuzz_encode.py")}
exec(compile(src, "fz", "exec"), ns)
gen = ns["gen"]
seed = int(sys.argv[1]); iters = int(sys.argv[2])
rng = random.Random(seed)
tmp = tempfile.mkdtemp(prefix="c07asan")
for it in range(iters):
    kind = rng.randrange(7)
    n = rng.choice([0,1,2,3,7,12,13,24,25,63,64,65,100,511,512,513,1000,4096,20000,70000])
    w = gen(rng, kind, n) if n else []
    fn = os.path.join(tmp, "w.i16")
    np.array(w, dtype=np.int16).tofile(fn)
    r = subprocess.run([os.path.join(here, "harness_asan"), "enc", fn], capture_output=True, text=True)
    if r.returncode != 0:
        print("FAIL seed", seed, "it", it, "kind", kind, "n", n, "rc", r.returncode)
        print(r.stderr[-3000:])
        keep = os.path.join(here, "asanbad_%d_%d.i16" % (seed, it))
        np.array(w, dtype=np.int16).tofile(keep)
print("done", seed)

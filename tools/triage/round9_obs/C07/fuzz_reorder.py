import os, sys, random
sys.path.insert(0, os.getcwd())
sys.path.insert(0, os.path.dirname(os.path.abspath(__file__)))
import numpy as np
from ethosu.vela.api import npu_encode_weights, NpuAccelerator, NpuBlockTraversal
from c07_oracle import py_reorder, check_stream, UBLOCK_DEPTHS
seed=int(sys.argv[1]); iters=int(sys.argv[2])
rng=random.Random(seed); nrng=np.random.default_rng(seed)
bad=0
for it in range(iters):
    acc = rng.choice(list(NpuAccelerator))
    O = rng.choice([1,2,3,4,5,7,8,9,15,16,17,24,31,33,40]); H=rng.choice([1,1,2,3,5,7,8,9,10,17]); W=rng.choice([1,1,2,3,4,5,8,9,11,16,17])
    I = rng.choice([1,2,3,7,8,9,15,16,17,31,32,33,48,65])
    mode = rng.choice(["depth","part","dw"])
    if mode=="dw": I=1 if rng.random()<0.7 else I
    dil = (rng.choice([1,2]), rng.choice([1,2]))
    bits = rng.choice([8,16])
    obd = rng.choice([1,2,3,4,5,8,12,16,24,32,64,100])
    lo,hi = rng.choice([(-255,255),(-128,127),(0,255),(-3,3),(0,1)])
    w = nrng.integers(lo,hi+1,size=(O,H,W,I)).astype(np.int16)
    if rng.random()<0.4: w[nrng.random(w.shape)<0.8]=0
    layout = rng.choice(["c","hwio_view","f"])
    if layout=="hwio_view":
        wv = np.transpose(np.ascontiguousarray(np.transpose(w,(1,2,3,0))),(3,0,1,2))
    elif layout=="f":
        wv = np.asfortranarray(w)
    else: wv = w
    dt = rng.choice([np.int16, np.int16, np.int8, np.uint8])
    if dt==np.int8 and (lo<-128 or hi>127): dt=np.int16
    if dt==np.uint8 and lo<0: dt=np.int16
    wv = wv.astype(dt) if dt!=np.int16 else wv
    s = npu_encode_weights(acc, wv, dil, bits, obd, mode=="dw", NpuBlockTraversal.PART_KERNEL_FIRST if mode=="part" else NpuBlockTraversal.DEPTH_FIRST)
    iu,ou = UBLOCK_DEPTHS[acc.name]
    exp = py_reorder(w, iu, ou, obd, mode=="dw", mode=="part", bits, 8//dil[1], 8//dil[0])
    msg = check_stream(s, exp)
    if msg:
        bad+=1; print("VIOLATION", seed, it, acc, (O,H,W,I), mode, dil, bits, obd, layout, dt, msg)
print("done",seed,"bad",bad)

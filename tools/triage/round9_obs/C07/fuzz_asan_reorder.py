# Build the harness first (from the worktree root):
#   gcc -g -O1 -fsanitize=address,undefined -fno-sanitize-recover=undefined -Iethosu/mlw_codec out/harness.c ethosu/mlw_codec/mlw_encode.c ethosu/mlw_codec/mlw_decode.c -o out/harness_asan -lm
import os, sys, random, subprocess, tempfile
import numpy as np
here = os.path.dirname(os.path.abspath(__file__))
seed = int(sys.argv[1]); iters = int(sys.argv[2])
rng = random.Random(seed); nrng=np.random.default_rng(seed)
tmp = tempfile.mkdtemp(prefix="c07asanr")
for it in range(iters):
    O = rng.choice([1,2,3,4,5,7,8,9,15,16,17,24,31,33,40,130]); H=rng.choice([1,1,2,3,5,7,8,9,10,17]); W=rng.choice([1,1,2,3,4,5,8,9,11,16,17])
    I = rng.choice([1,2,3,7,8,9,15,16,17,31,32,33,48,65])
    mode = rng.choice(["depth","part","dw"])
    if mode=="dw": I=1
    bits = rng.choice([8,16]); obd = rng.choice([1,2,3,4,5,8,12,16,24,32,64,100])
    dh, dw = rng.choice([8,4]), rng.choice([8,4])
    iu, ou = rng.choice([(8,4),(8,8)])
    lo,hi = rng.choice([(-255,255),(-128,127),(0,255),(-3,3),(0,1)])
    w = nrng.integers(lo,hi+1,size=(O,H,W,I)).astype(np.int16)
    if rng.random()<0.4: w[nrng.random(w.shape)<0.8]=0
    fn = os.path.join(tmp, "w.i16"); w.tofile(fn)
    args=[os.path.join(here,"harness_asan"),"reorder",fn]+[str(x) for x in (O,H,W,I,iu,ou,obd,int(mode=="dw"),int(mode=="part"),bits,dh,dw)]
    r = subprocess.run(args, capture_output=True, text=True)
    if r.returncode != 0:
        print("FAIL", seed, it, args[3:], r.returncode); print(r.stderr[-3000:])
print("done", seed)

"""Observation 3 (UNMODIFIED tree, borderline): an empty per-core weight volume is "encoded" as a zero-length
byte string instead of a stream.

mlw_codec.encode([]) returns a well formed 16 byte stream (end-of-stream marker + 0xff padding), but
mlw_codec.reorder_encode() / npu_encode_weights() of a volume with OFM depth 0 returns bytearray(b"") (padded
length 0): mlw_reorder_encode() skips mlw_encode() when nothing was reordered. Such a volume is produced by the
compiler itself: on Ethos-U65-512 (2 cores) a depth slice of OFM depth 1 (e.g. OFM depth 33 with depth offsets
[0, 32, 33]) gives core 1 no channel at all; encode_weight_and_scale_tensor() still records an encoded range
WeightKey(core=1, depth=32) with weight_bytes == 0. A zero-length "stream" has no end-of-stream marker; the
reference decoder treats it as a bit stream underrun (mlw_decode() then calls exit(1)).

Exits 1 when this behaviour is present (it is on the unmodified tree), 0 otherwise.
"""
import os
import sys

sys.path.insert(0, os.getcwd())
sys.path.insert(0, os.path.dirname(os.path.abspath(__file__)))

import numpy as np  # noqa: E402

from c07_graph_check import BlockCfg, Blk, default_arch, make_op, qp  # noqa: E402
from c07_oracle import DecodeError, py_decode  # noqa: E402
from ethosu import mlw_codec  # noqa: E402
from ethosu.vela import weight_compressor  # noqa: E402
from ethosu.vela.architecture_features import Accelerator  # noqa: E402
from ethosu.vela.data_type import DataType  # noqa: E402
from ethosu.vela.operation import Op  # noqa: E402
from ethosu.vela.tensor import create_const_tensor  # noqa: E402


def decodes_to_nothing(stream):
    try:
        return py_decode(stream) == []
    except DecodeError:
        return False


def main():
    found = []
    ref = mlw_codec.encode([])
    assert len(ref) == 16 and decodes_to_nothing(ref)

    stream, padded = mlw_codec.reorder_encode(8, 8, np.zeros((0, 3, 3, 8), np.int16), 8, 0, 0, 8, 8, 8)
    if not decodes_to_nothing(stream):
        found.append("reorder_encode of a (0,3,3,8) volume returns %r (padded length %d), not a decodable stream" % (stream, padded))

    rng = np.random.default_rng(0)
    arch = default_arch(Accelerator.Ethos_U65_512)
    shape = (1, 1, 8, 33)
    weight_compressor.CompressedWeightCache.clear()
    weights = create_const_tensor("w", list(shape), DataType.int8, rng.integers(-127, 128, shape), quantization=qp())
    op, bias = make_op(Op.Conv2DBias, DataType.int8, weights, shape[-1])
    npu_w, _ = weight_compressor.encode_weight_and_scale_tensor(
        arch, op, weights, bias, op.kernel, BlockCfg(Blk(16)), [0, 32, 33]
    )
    for key, r in npu_w.encoded_ranges.items():
        start = r.offset + r.weight_offset
        if not decodes_to_nothing(npu_w.buffer[start : start + r.weight_bytes]) and r.weight_bytes == 0:
            found.append("Ethos-U65-512, OFM depth 33, depth offsets [0, 32, 33]: range %s has weight_bytes == 0 (no stream)" % (key,))
    if found:
        print("OBSERVATION (unmodified tree): zero-length stream for an empty weight volume")
        for f in found:
            print("  " + f)
        return 1
    print("not present")
    return 0


if __name__ == "__main__":
    sys.exit(main())

import os, sys, random, itertools
sys.path.insert(0, os.getcwd())
sys.path.insert(0, os.path.dirname(os.path.abspath(__file__)))
import numpy as np
from ethosu import mlw_codec
from c07_oracle import py_decode, check_stream

def gen(rng, kind, n):
    if kind == 0:  # uniform small alphabet
        k = rng.choice([1,2,3,5,9,17,31,32,33,34,40,64])
        alpha = rng.sample(range(-255,256), k)
        return [rng.choice(alpha) for _ in range(n)]
    if kind == 1:  # sparse zero-run
        p = rng.choice([0.5,0.8,0.9,0.97,0.995])
        k = rng.choice([1,2,8,33,200])
        alpha = rng.sample(range(-255,256), k)
        return [0 if rng.random()<p else rng.choice(alpha) for _ in range(n)]
    if kind == 2:  # gaussian
        s = rng.choice([1,3,10,40,100])
        return [max(-255,min(255,int(rng.gauss(0,s)))) for _ in range(n)]
    if kind == 3:  # uniform full
        lo = rng.choice([-255,-128,0,100,200]); hi = rng.choice([255,127,lo+10 if lo+10<=255 else 255])
        if hi<lo: lo,hi=hi,lo
        return [rng.randint(lo,hi) for _ in range(n)]
    if kind == 4:  # piecewise (palette restarts, grc switches)
        out=[]
        while len(out)<n:
            m = rng.choice([5,40,70,300,700,2000])
            out += gen(rng, rng.choice([0,1,2,3]), m)
        return out[:n]
    if kind == 5: # extremes
        alpha=[-255,255,-254,254,0,1,-1]
        return [rng.choice(alpha) for _ in range(n)]
    if kind == 6: # long zero runs
        out=[]
        while len(out)<n:
            out += [0]*rng.choice([1,10,100,1000,5000,40000]) + [rng.randint(-255,255) for _ in range(rng.choice([1,1,2,10]))]
        return out[:n]

def main():
    seed = int(sys.argv[1]) if len(sys.argv)>1 else 0
    iters = int(sys.argv[2]) if len(sys.argv)>2 else 300
    rng = random.Random(seed)
    bad=0
    for it in range(iters):
        kind = rng.randrange(7)
        n = rng.choice([1,2,3,7,12,13,24,25,63,64,65,100,511,512,513,1000,4096,20000,70000]) if it%10 else rng.choice([100000,300000])
        w = gen(rng, kind, n)
        s = mlw_codec.encode(w)
        msg = check_stream(s, w)
        if msg:
            bad+=1
            print("VIOLATION seed",seed,"it",it,"kind",kind,"n",n,msg)
            np.save(os.path.join(os.path.dirname(os.path.abspath(__file__)), "bad_%d_%d.npy"%(seed,it)), np.array(w,dtype=np.int16))
        if len(s) > 2*len(w)+1024: print("BIG", len(s), len(w))
    print("done seed",seed,"bad",bad)
main()

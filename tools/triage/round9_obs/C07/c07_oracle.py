"""Independent oracle for property C07 (weight compression is lossless / hardware ordered).

Pure Python, shares no code with ethosu.mlw_codec or ethosu.vela:
  * py_decode(): a stream decoder written from the MLW bit stream format
  * py_reorder(): the hardware block traversal of an OHWI weight volume
"""
import numpy as np

ZDIV_DISABLE = 6
ZDIV_EOS = 7
WDIV_UNCOMPRESSED = 7


class DecodeError(Exception):
    pass


class _Bits:
    def __init__(self, data):
        self.data = bytes(data)
        self.pos = 0
        self.nbits = len(self.data) * 8

    def get(self, n):
        v = 0
        for i in range(n):
            if self.pos >= self.nbits:
                raise DecodeError("bitstream underrun at bit %d" % self.pos)
            v |= ((self.data[self.pos >> 3] >> (self.pos & 7)) & 1) << i
            self.pos += 1
        return v


def py_decode(stream):
    """Decode an MLW stream into the list of signed weights."""
    bb = _Bits(stream)
    size = len(stream)
    out = []
    first = True
    palsize = 0
    palbits = 0
    direct_offset = 0
    palette = []
    prev_use_zero_run = None
    while True:
        zdiv = bb.get(3)
        while zdiv == ZDIV_EOS:
            bb.get((8 - (bb.pos & 7)) & 7)
            first = True
            if bb.pos // 8 == size:
                break
            zdiv = bb.get(3)
        if bb.pos // 8 == size:
            break
        if not (zdiv < 4 or zdiv == ZDIV_DISABLE):
            raise DecodeError("illegal ZDIV %d" % zdiv)
        use_zero_run = zdiv != ZDIV_DISABLE
        nvalues = bb.get(15) + 1
        wdiv = bb.get(3)
        wtrunc = bb.get(1)
        new_palette = bb.get(1)
        if first:
            if not new_palette:
                raise DecodeError("first slice without palette/direct mode set-up")
            first = False
        if not new_palette and use_zero_run != prev_use_zero_run:
            raise DecodeError("alternating mode changed without a new palette")
        prev_use_zero_run = use_zero_run
        if new_palette:
            direct_offset = bb.get(5)
            palsize = bb.get(5)
            if palsize > 0:
                palsize += 1
            palbits = bb.get(3) + 2
            palette = [bb.get(palbits) for _ in range(palsize)]
        if wdiv == WDIV_UNCOMPRESSED:
            uncompressed = True
            if palsize > 0:
                ubits = 0
                while (1 << ubits) < palsize:
                    ubits += 1
            else:
                ubits = palbits
            wdiv = ubits
        else:
            uncompressed = False
            if wdiv >= 6:
                raise DecodeError("illegal WDIV %d" % wdiv)
        z_nvalues = nvalues + (1 if new_palette else 0)
        w_value = [0] * nvalues
        z_value = [0] * z_nvalues
        w_pos = z_pos = 0
        w_prev_pos = z_prev_pos = 0
        w_carry = z_carry = 0
        w_q = []
        z_q = []
        w_prev_enable = z_prev_enable = False
        w_prev_q = []
        z_prev_q = []
        z_unary_len = 12 if zdiv < 3 else 8
        while True:
            balance = (w_pos - z_pos) if use_zero_run else 0
            w_enable = (balance < 8 or not use_zero_run) and w_pos < nvalues
            z_enable = balance >= 0 and use_zero_run and z_pos < z_nvalues
            w_unary0 = 0
            if w_enable:
                w_unary0 = 0 if uncompressed else bb.get(12)
            if z_enable:
                z_unary = bb.get(z_unary_len)
                z_q = []
                cnt = z_carry
                for i in range(z_unary_len):
                    if z_unary & (1 << i):
                        cnt += 1
                    else:
                        z_q.append(cnt)
                        cnt = 0
                z_carry = cnt
                z_pos += len(z_q)
            if w_enable:
                max_symbols = 8 if (uncompressed and wdiv > 5) else 12
                w_unary1_len = bin(w_unary0 & ((1 << max_symbols) - 1)).count("1")
                w_unary1 = bb.get(w_unary1_len)
                w_q = []
                cnt = w_carry
                for i in range(max_symbols):
                    code = 0
                    if w_unary0 & (1 << i):
                        code = 1
                        if w_unary1 & 1:
                            code = 2
                        w_unary1 >>= 1
                    cnt += code
                    if code < 2 or wtrunc:
                        w_q.append(cnt)
                        cnt = 0
                w_carry = cnt
                w_pos += len(w_q)
            if w_prev_enable:
                for q in w_prev_q:
                    if w_prev_pos >= nvalues:
                        break
                    w_value[w_prev_pos] = (q << wdiv) + bb.get(wdiv)
                    w_prev_pos += 1
            if z_prev_enable:
                for q in z_prev_q:
                    if z_prev_pos >= z_nvalues:
                        break
                    z_value[z_prev_pos] = (q << zdiv) + bb.get(zdiv)
                    z_prev_pos += 1
            w_prev_enable, w_prev_q = w_enable, list(w_q)
            z_prev_enable, z_prev_q = z_enable, list(z_q)
            if not (w_prev_enable or z_prev_enable):
                break
        if new_palette and use_zero_run:
            out.extend([0] * z_value[0])
        zofs = 1 if new_palette else 0
        for i in range(nvalues):
            idx = w_value[i]
            if idx >= 512:
                raise DecodeError("weight index %d >= 512" % idx)
            val = palette[idx] if idx < palsize else idx - palsize + direct_offset
            mag = val >> 1
            out.append(-mag if (val & 1) else mag)
            if use_zero_run:
                out.extend([0] * z_value[i + zofs])
    return out


def _round_up(a, b):
    return ((a + b - 1) // b) * b


def py_reorder(
    ohwi, ifm_ublock_depth, ofm_ublock_depth, ofm_block_depth, is_depthwise, is_partkernel, ifm_bitdepth, decomp_h, decomp_w
):
    """Hardware traversal order of an OHWI volume (zero padded), as a flat list."""
    ohwi = np.asarray(ohwi)
    ofm_depth, kernel_height, kernel_width, ifm_depth = ohwi.shape
    w = ohwi.tolist()
    out = []
    ifm_block_depth = 16 if (is_partkernel or ifm_bitdepth == 16) else 32
    for ofm_block_z in range(0, ofm_depth, ofm_block_depth):
        clipped_ofm_block_depth = min(ofm_block_depth, ofm_depth - ofm_block_z)
        for ifm_block_z in range(0, 1 if is_depthwise else ifm_depth, ifm_block_depth):
            if is_depthwise:
                clipped_ifm_block_depth = ifm_ublock_depth
            elif is_partkernel:
                clipped_ifm_block_depth = min(ifm_block_depth, ifm_depth - ifm_block_z)
            else:
                clipped_ifm_block_depth = ifm_block_depth
            for subkernel_y in range(0, kernel_height, decomp_h):
                sub_height = min(kernel_height - subkernel_y, decomp_h)
                for subkernel_x in range(0, kernel_width, decomp_w):
                    sub_width = min(kernel_width - subkernel_x, decomp_w)
                    elements = sub_width * sub_height
                    if is_partkernel:
                        elements = _round_up(elements, 2 if ifm_bitdepth == 16 else 4)
                    elif is_depthwise:
                        elements = _round_up(elements, 4)
                    outer = clipped_ifm_block_depth if is_partkernel else 1
                    inner = 1 if is_partkernel else clipped_ifm_block_depth
                    for ifm_ublk_outer in range(0, outer, ifm_ublock_depth):
                        for ofm_ublk in range(0, clipped_ofm_block_depth, ofm_ublock_depth):
                            for element in range(elements):
                                kx = element % sub_width
                                ky = element // sub_width
                                for ifm_ublk_inner in range(0, inner, ifm_ublock_depth):
                                    for ofm_ublock_z in range(ofm_ublock_depth):
                                        for ifm_ublock_z in range(1 if is_depthwise else ifm_ublock_depth):
                                            wx = subkernel_x + kx
                                            wy = subkernel_y + ky
                                            ifm_z = ifm_block_z + ifm_ublk_inner + ifm_ublk_outer + ifm_ublock_z
                                            ofm_z = ofm_block_z + ofm_ublk + ofm_ublock_z
                                            if ifm_z < ifm_depth and ofm_z < ofm_depth and ky < sub_height:
                                                out.append(w[ofm_z][wy][wx][ifm_z])
                                            else:
                                                out.append(0)
    return out


# (ifm_ublock_depth, ofm_ublock_depth) per accelerator, from the Ethos-U TRM
UBLOCK_DEPTHS = {
    "Ethos_U55_32": (8, 4),
    "Ethos_U55_64": (8, 8),
    "Ethos_U55_128": (8, 8),
    "Ethos_U55_256": (8, 8),
    "Ethos_U65_256": (8, 8),
    "Ethos_U65_512": (8, 8),
}


def first_diff(a, b):
    n = min(len(a), len(b))
    for i in range(n):
        if a[i] != b[i]:
            return "first difference at index %d: got %d expected %d (len got %d, expected %d)" % (
                i,
                a[i],
                b[i],
                len(a),
                len(b),
            )
    if len(a) != len(b):
        return "length differs: got %d expected %d" % (len(a), len(b))
    return None


def check_stream(stream, expected):
    """Returns None when the stream is a valid 16-byte aligned MLW stream decoding to expected, else a message."""
    if len(stream) % 16 != 0:
        return "stream length %d is not a multiple of 16" % len(stream)
    try:
        got = py_decode(stream)
    except DecodeError as e:
        return "stream does not decode: %s" % e
    return first_diff(got, list(expected))

"""Observation 1 (UNMODIFIED tree): the compressed-weight cache key ignores the IFM bit depth.

weight_compressor.encode_weight_and_scale_tensor() keys CompressedWeightCache with
WeightCompressionConfig(npu_block_type, ofm_block_depth, hash(depth_offsets), dilation, weight value_id).
The IFM bit depth is not part of the key although it changes the hardware weight order (IFM block depth 32 vs 16
for depth-first, sub-kernel padding to 4 vs 2 elements and the traversal choice itself for part-kernel-first).
When one weight tensor feeds an operator with 8-bit IFM and another one with 16-bit IFM (same kernel, same block
depth), the second operator gets the stream that was encoded for the first one: decoding it does not give the
source weights in the 16-bit (resp. 8-bit) hardware order.

Exits 1 and prints the differences when the violation is present (it is on the unmodified tree), 0 otherwise.
"""
import os
import sys

sys.path.insert(0, os.getcwd())
sys.path.insert(0, os.path.dirname(os.path.abspath(__file__)))

import numpy as np  # noqa: E402

from c07_graph_check import check_encoded, default_arch, make_op, qp  # noqa: E402
from ethosu.vela.architecture_features import Accelerator  # noqa: E402
from ethosu.vela.data_type import DataType  # noqa: E402
from ethosu.vela.operation import Op  # noqa: E402
from ethosu.vela.tensor import create_const_tensor  # noqa: E402
from ethosu.vela.weight_compressor import CompressedWeightCache  # noqa: E402


def main():
    rng = np.random.default_rng(1)
    arch = default_arch(Accelerator.Ethos_U55_128)
    found = []
    for shape in ((3, 3, 16, 16), (1, 1, 40, 24)):  # HWIO
        for order in ((DataType.int8, DataType.int16), (DataType.int16, DataType.int8)):
            CompressedWeightCache.clear()
            weights = create_const_tensor("w", list(shape), DataType.int8, rng.integers(-127, 128, shape), quantization=qp())
            for ifm_dtype in order:
                op, bias = make_op(Op.Conv2DBias, ifm_dtype, weights, shape[-1], name="conv_" + str(ifm_dtype))
                problems = check_encoded(arch, op, weights, bias, 16, [0, shape[-1]])
                for p in problems:
                    found.append("weights %s, operators in order %s: operator with %s IFM: %s" % (shape, [str(o) for o in order], ifm_dtype, p))
            # control: with a cleared cache the second operator is encoded correctly
            CompressedWeightCache.clear()
            op, bias = make_op(Op.Conv2DBias, order[1], weights, shape[-1], name="control")
            assert check_encoded(arch, op, weights, bias, 16, [0, shape[-1]]) == []
    if found:
        print("VIOLATION (unmodified tree): cached stream reused across IFM bit depths")
        for f in found:
            print("  " + f)
        return 1
    print("no violation")
    return 0


if __name__ == "__main__":
    sys.exit(main())

// Sanitizer harness for mlw_encode / mlw_reorder_encode (built from the worktree C sources)
// usage: harness enc file.i16
//        harness reorder file.i16 O H W I ifm_ublk ofm_ublk ofm_block_depth depthwise partkernel bitdepth decomp_h decomp_w
// writes the encoded stream to stdout-file argv[last] if given with "-o"
#include <stdio.h>
#include <stdlib.h>
#include <stdint.h>
#include <string.h>
#include "mlw_encode.h"
#include "mlw_decode.h"

static int16_t *readfile(const char *fn, long *n) {
    FILE *f = fopen(fn, "rb");
    if (!f) { perror(fn); exit(2); }
    fseek(f, 0, SEEK_END);
    long sz = ftell(f);
    fseek(f, 0, SEEK_SET);
    int16_t *buf = malloc(sz > 0 ? sz : 1);
    if (fread(buf, 1, sz, f) != (size_t)sz) { exit(2); }
    fclose(f);
    *n = sz / 2;
    return buf;
}

int main(int argc, char **argv) {
    long n;
    if (argc < 3) return 2;
    int16_t *in = readfile(argv[2], &n);
    uint8_t *out = NULL;
    int len;
    if (!strcmp(argv[1], "enc")) {
        len = mlw_encode(in, (int)n, &out, 0);
    } else {
        int a[12];
        for (int i = 0; i < 12; i++) a[i] = atoi(argv[3 + i]);
        int O = a[0], H = a[1], W = a[2], I = a[3];
        int strides[4] = { H * W * I, W * I, I, 1 };
        int64_t padded = 0;
        len = mlw_reorder_encode(a[4], a[5], O, H, W, I, strides, in, a[6], a[7], a[8], a[9], a[10], a[11], &out, &padded, 0);
        fprintf(stderr, "padded %ld\n", (long)padded);
    }
    fprintf(stderr, "len %d\n", len);
    if (len > 0) {
        int16_t *dec = NULL;
        int m = mlw_decode(out, len, &dec, 0);
        fprintf(stderr, "decoded %d\n", m);
        if (!strcmp(argv[1], "enc")) {
            if (m != n || (n > 0 && memcmp(dec, in, n * 2))) { fprintf(stderr, "MISMATCH\n"); return 1; }
        }
        free(dec);
    }
    mlw_free_outbuf(out);
    free(in);
    return 0;
}

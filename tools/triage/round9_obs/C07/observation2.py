"""Observation 2 (UNMODIFIED tree): the compressed-weight cache key ignores the kernel flip of transpose convolutions.

encode_weight_and_scale_tensor() reverses the kernel in H and W for Op.Conv2DBackpropInputSwitchedBias
(np.flip(weights, axis=(0, 1))) before encoding, but the cache key (npu_block_type, ofm_block_depth, depth offsets,
dilation, weight value_id) is identical for a Conv2D and a TransposeConv that share one weight tensor (both are
NpuBlockType.ConvolutionMxN; the TFLite reader applies the same (1,2,3,0) transpose to both, the clones keep the
value_id). Whichever operator is encoded second receives the stream of the first one, i.e. the un-flipped
(resp. flipped) kernel: decoding the stream does not return that operator's source weights.

Exits 1 and prints the differences when the violation is present (it is on the unmodified tree), 0 otherwise.
"""
import os
import sys

sys.path.insert(0, os.getcwd())
sys.path.insert(0, os.path.dirname(os.path.abspath(__file__)))

import numpy as np  # noqa: E402

from c07_graph_check import check_encoded, default_arch, make_op, qp  # noqa: E402
from ethosu.vela.architecture_features import Accelerator  # noqa: E402
from ethosu.vela.data_type import DataType  # noqa: E402
from ethosu.vela.operation import Op  # noqa: E402
from ethosu.vela.tensor import create_const_tensor  # noqa: E402
from ethosu.vela.weight_compressor import CompressedWeightCache  # noqa: E402


def main():
    rng = np.random.default_rng(2)
    arch = default_arch(Accelerator.Ethos_U55_128)
    found = []
    shape = (3, 3, 16, 16)  # HWIO
    for order in ((Op.Conv2DBias, Op.Conv2DBackpropInputSwitchedBias), (Op.Conv2DBackpropInputSwitchedBias, Op.Conv2DBias)):
        CompressedWeightCache.clear()
        weights = create_const_tensor("w", list(shape), DataType.int8, rng.integers(-127, 128, shape), quantization=qp())
        for op_type in order:
            op, bias = make_op(op_type, DataType.int8, weights, shape[-1], name="op_" + op_type.name)
            for p in check_encoded(arch, op, weights, bias, 16, [0, shape[-1]]):
                found.append("operators in order %s: %s: %s" % ([o.name for o in order], op_type.name, p))
        CompressedWeightCache.clear()
        op, bias = make_op(order[1], DataType.int8, weights, shape[-1], name="control")
        assert check_encoded(arch, op, weights, bias, 16, [0, shape[-1]]) == []
    if found:
        print("VIOLATION (unmodified tree): cached stream reused between Conv2D and TransposeConv")
        for f in found:
            print("  " + f)
        return 1
    print("no violation")
    return 0


if __name__ == "__main__":
    sys.exit(main())

import os, sys, random
sys.path.insert(0, os.getcwd()); sys.path.insert(0, os.path.dirname(os.path.abspath(__file__)))
import numpy as np
from c07_graph_check import *
from ethosu.vela.architecture_features import Accelerator
from ethosu.vela.weight_compressor import CompressedWeightCache
seed=int(sys.argv[1]); iters=int(sys.argv[2])
rng=random.Random(seed); nrng=np.random.default_rng(seed)
archs={a: default_arch(a) for a in Accelerator}
bad=0
for it in range(iters):
    CompressedWeightCache.clear()
    acc=rng.choice(list(Accelerator)); arch=archs[acc]
    kind=rng.choice(["conv","conv","dw","fc","tconv"])
    H=rng.choice([1,2,3,5,7,9]); W=rng.choice([1,2,3,4,8,11])
    I=rng.choice([1,3,8,16,17,32,40]); O=rng.choice([1,2,7,8,16,24,33,48])
    wdt=rng.choice([DataType.int8, DataType.uint8])
    idt=rng.choice([DataType.int8, DataType.int16]) if wdt==DataType.int8 else DataType.uint8
    if kind=="dw": I=1
    if kind=="fc": shape=(I,O)
    else: shape=(H,W,I,O)
    if wdt==DataType.int8: vals=nrng.integers(-128,128,shape); zp=0
    else:
        vals=nrng.integers(0,256,shape); zp=rng.choice([0,128,255,7])
    if rng.random()<0.3: vals[nrng.random(shape)<0.8]=zp
    if wdt==DataType.int8 and rng.random()<0.3 and kind!="fc":
        zp=np.zeros(shape[-1],dtype=np.int64)
    wt=create_const_tensor("w", list(shape), wdt, vals, quantization=qp(zp=zp))
    t={"conv":Op.Conv2DBias,"dw":Op.DepthwiseConv2DBias,"fc":Op.FullyConnected,"tconv":Op.Conv2DBackpropInputSwitchedBias}[kind]
    op,bias=make_op(t, idt, wt, O)
    if kind in("conv","dw") and rng.random()<0.3:
        op.attrs["dilation"]=(1,rng.choice([1,2]),rng.choice([1,2]),1)
    bd=rng.choice([8,16,24,32,64])
    offs=[0]
    if O>16 and rng.random()<0.5:
        offs += sorted(set(rng.sample(range(8,O,8), k=min(len(range(8,O,8)), rng.choice([1,2])))))
    offs.append(O)
    try:
        pr=check_encoded(arch, op, wt, bias, bd, offs)
    except Exception as e:
        import traceback; traceback.print_exc(); pr=["EXC "+repr(e)]
    if pr:
        bad+=1; print("VIOLATION", seed, it, acc, kind, shape, wdt, idt, "zp", zp if np.isscalar(zp) else "perchan", "bd", bd, offs, op.attrs.get("dilation"), pr[:2])
print("done",seed,"bad",bad)

# Oracle runner: executes a sequence of compilations in THIS process and prints one line per step:
#   <step> <sha of output tflite> <sha of summary csv or ->
# usage: python out/c14_oracle.py step [step ...]
#   step = <net>:<entry>[:<accel>[:extra,args]]     entry in {bytes, file, cli}
import contextlib
import io
import os
import sys
import tempfile

HERE = os.path.dirname(os.path.abspath(__file__))
sys.path.insert(0, os.path.dirname(HERE))
sys.path.insert(0, HERE)

import c14_models as m  # noqa: E402
import c14_zoo as zoo  # noqa: E402


def run_step(step, workdir, idx):
    parts = step.split(":")
    net, entry = parts[0], parts[1]
    accel = parts[2] if len(parts) > 2 and parts[2] else None
    extra = [a for a in parts[3].split(",") if a] if len(parts) > 3 else []
    data = zoo.NETS[net]()
    from ethosu.vela import vela

    if entry == "bytes":
        out = m.compile_bytes(data)
        return m.sha(out), "-"
    if entry == "file":
        path = os.path.join(workdir, "model.tflite")
        with open(path, "wb") as f:
            f.write(data)
        cwd = os.getcwd()
        os.chdir(workdir)
        try:
            with contextlib.redirect_stdout(io.StringIO()):
                name = vela.convert(path)
            with open(name, "rb") as f:
                out = f.read()
        finally:
            os.chdir(cwd)
        return m.sha(out), "-"
    if entry == "cli":
        args = list(extra)
        if accel:
            args += ["--accelerator-config", accel]
        out, csv_text = m.compile_cli(data, os.path.join(workdir, "cli%d" % idx), "model", args)
        return m.sha(out), m.sha(csv_text.encode())
    raise ValueError(entry)


def main():
    devnull = os.open(os.devnull, os.O_WRONLY)
    real_stdout = os.dup(1)
    os.dup2(devnull, 1)
    results = []
    with tempfile.TemporaryDirectory() as td:
        for idx, step in enumerate(sys.argv[1:]):
            try:
                a, b = run_step(step, td, idx)
            except BaseException as e:  # noqa: B902
                a, b = "EXC:" + type(e).__name__ + ":" + str(e)[:80].replace("\n", " "), "-"
            results.append("%s %s %s" % (step, a, b))
    sys.stdout.flush()
    os.dup2(real_stdout, 1)
    for r in results:
        print(r)


if __name__ == "__main__":
    main()

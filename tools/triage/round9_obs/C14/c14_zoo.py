# A zoo of small generated networks used by the C14 oracle / demos.
import os
import sys

import numpy as np

HERE = os.path.dirname(os.path.abspath(__file__))
sys.path.insert(0, os.path.dirname(HERE))
sys.path.insert(0, HERE)

import c14_models as m  # noqa: E402
from c14_models import Builder  # noqa: E402
from ethosu.vela.data_type import DataType  # noqa: E402
from ethosu.vela.operation import Op  # noqa: E402
from ethosu.vela.operation import Padding  # noqa: E402


def net_lut(seed=0):
    # several LUT activations, two of them with identical tables
    b = Builder("lutnet", seed)
    x = b.input((1, 8, 8, 16))
    a = b.unary(Op.Tanh, x)
    c = b.conv(a, 16, k=1, oscale=0.05)
    d = b.unary(Op.Tanh, c)
    e = b.conv(d, 16, k=3, oscale=0.05)
    f = b.unary(Op.Sigmoid, e, oscale=1.0 / 256, ozp=-128)
    g = b.conv(f, 16, k=1, oscale=0.05)
    h = b.unary(Op.Tanh, g)
    return b.finish([h])


def net_shared_weights(seed=0):
    # the same weight values used by two convolutions (distinct tensors, equal contents) and twice the same tensor
    b = Builder("shared", seed)
    x = b.input((1, 12, 12, 16))
    w = np.random.RandomState(5).randint(-127, 128, size=(16, 3, 3, 16))
    y = b.conv(x, 16, k=3, weights=w, act=Op.Relu)
    z = b.conv(y, 16, k=3, weights=w, act=Op.Relu)
    v = b.conv(z, 16, k=3, weights=w)
    return b.finish([v])


def net_cpu_split(seed=0):
    # an operator that stays on the CPU in the middle (float-less trick: an unsupported op type) -> two NPU subgraphs
    b = Builder("cpusplit", seed)
    x = b.input((1, 8, 8, 8))
    y = b.conv(x, 8, k=3, act=Op.Relu)
    # Exp of int8 is not supported on the NPU -> CPU
    e = b.unary(Op.Exp, y, oscale=0.05)
    z = b.conv(e, 8, k=3)
    t = b.unary(Op.Tanh, z)
    return b.finish([t])


def net_two_outputs(seed=0):
    b = Builder("twoout", seed)
    x = b.input((1, 16, 16, 8))
    y = b.conv(x, 16, k=3, act=Op.Relu)
    p = b.pool(y, Op.MaxPool)
    q = b.pool(y, Op.AvgPool)
    r = b.conv(p, 8, k=1)
    s = b.conv(q, 8, k=1)
    t = b.elementwise(Op.Mul, r, s, oscale=0.2)
    return b.finish([t, p])


def net_concat(seed=0):
    b = Builder("concat", seed)
    x = b.input((1, 8, 8, 8))
    a = b.conv(x, 8, k=1)
    c = b.conv(x, 8, k=3)
    d = b.dwconv(x, k=3)
    cat = b.concat([a, c, d], axis=3)
    e = b.conv(cat, 16, k=1, act=Op.Relu6)
    return b.finish([e])


def net_leaky(seed=0):
    b = Builder("leaky", seed)
    x = b.input((1, 8, 8, 16))
    a = b.conv(x, 16, k=3)
    l1 = b.unary(Op.LeakyRelu, a, oscale=0.05, attrs={"alpha": 0.1})
    c = b.conv(l1, 16, k=3)
    l2 = b.unary(Op.LeakyRelu, c, oscale=0.05, attrs={"alpha": 0.1})
    h = b.unary(Op.HardSwish, l2, oscale=0.05)
    return b.finish([h])


def net_softmax(seed=0):
    b = Builder("softmaxnet", seed)
    x = b.input((1, 4, 4, 16))
    y = b.conv(x, 10, k=1)
    s = b.softmax(y)
    return b.finish([s])


def net_deep(seed=0):
    # many feature maps alive: exercise the hill climb allocator
    b = Builder("deep", seed)
    x = b.input((1, 24, 24, 8))
    taps = []
    y = x
    for i in range(6):
        y = b.conv(y, 8 + 8 * (i % 3), k=3, act=Op.Relu)
        taps.append(y)
    z = taps[-1]
    for t in reversed(taps[:-1]):
        tt = b.conv(t, z.shape[3], k=1)
        z = b.elementwise(Op.Add, z, tt, oscale=0.1)
    return b.finish([z])


def net_wide(seed=0):
    # large feature maps -> spilling into DRAM with the 384 KiB arena cache
    b = Builder("wide", seed)
    x = b.input((1, 64, 64, 16))
    y = b.conv(x, 32, k=3, act=Op.Relu)
    z = b.conv(y, 32, k=3, act=Op.Relu)
    w = b.pool(z, Op.MaxPool)
    v = b.conv(w, 64, k=3, act=Op.Relu)
    u = b.elementwise(Op.Add, v, b.conv(w, 64, k=1), oscale=0.1)
    return b.finish([u])


def net_fc_nobias(seed=0):
    b = Builder("fcnb", seed)
    x = b.input((1, 32))
    y = b.fc(x, 16)
    # drop the bias operand of the first FC
    fc_op = b.ops[-1]
    fc_op.inputs = fc_op.inputs[:2]
    z = b.fc(y, 16)
    fc_op2 = b.ops[-1]
    fc_op2.inputs = fc_op2.inputs[:2]
    return b.finish([z])


def net_uint8(seed=0):
    b = Builder("u8", seed, dtype=DataType.uint8)
    x = b.input((1, 8, 8, 8), zp=128)
    wv = np.random.RandomState(seed).randint(0, 256, size=(8, 3, 3, 8))
    b2 = b
    wt = b2.const("weights", (8, 3, 3, 8), DataType.uint8, wv, m.qp(0.02, 128))
    bt = b2.const("bias", (8,), DataType.int32, np.arange(8) * 10, m.qp(0.001, 0))
    ofm = b2.fm((1, 8, 8, 8), 0.05, 128, base="conv_out")
    attrs = {
        "dilation_h_factor": 1,
        "dilation_w_factor": 1,
        "fused_activation_function": None,
        "padding": Padding.SAME,
        "stride_h": 1,
        "stride_w": 1,
    }
    y = b2._add(Op.Conv2DBias, "conv", [x, wt, bt], ofm, attrs)
    s = b2.unary(Op.Sigmoid, y, oscale=1.0 / 256, ozp=0)
    return b2.finish([s])


def net_dilated(seed=0):
    b = Builder("dil", seed)
    x = b.input((1, 16, 16, 8))
    y = b.conv(x, 8, k=3, dilation=2)
    z = b.conv(y, 8, k=3, dilation=4)
    return b.finish([z])


def net_stride(seed=0):
    b = Builder("stride", seed)
    x = b.input((1, 17, 17, 3))
    y = b.conv(x, 16, k=3, stride=2, act=Op.Relu)
    z = b.dwconv(y, k=3, stride=2)
    w = b.conv(z, 24, k=1, padding=Padding.VALID)
    return b.finish([w])


NETS = {
    "convs": m.net_convs,
    "mixed": m.net_mixed,
    "fc": m.net_fc,
    "big": m.net_big,
    "lut": net_lut,
    "shared": net_shared_weights,
    "cpusplit": net_cpu_split,
    "twoout": net_two_outputs,
    "concat": net_concat,
    "leaky": net_leaky,
    "softmax": net_softmax,
    "deep": net_deep,
    "wide": net_wide,
    "fcnb": net_fc_nobias,
    "u8": net_uint8,
    "dil": net_dilated,
    "stride": net_stride,
}


# ----------------------------------------------------------------------------------------------------------------------
# more operator kinds


def _generic(b, kind, inputs, out_shape, attrs=None, oscale=0.05, ozp=0, base="gen"):
    ofm = b.fm(out_shape, oscale, ozp, base=base + "_out")
    return b._add(kind, base, inputs, ofm, attrs or {})


def net_mean(seed=0):
    b = Builder("meannet", seed)
    x = b.input((1, 8, 8, 16))
    c = b.conv(x, 16, k=3, act=Op.Relu)
    axis = b.const("axis", (2,), DataType.int32, [1, 2])
    mq = _generic(b, Op.Mean, [c, axis], (1, 1, 1, 16), {"keep_dims": True}, base="mean")
    d = b.conv(mq, 8, k=1)
    return b.finish([d])


def net_mean2(seed=0):
    # two MEAN operators with the same kernel size -> same all-ones kernel
    b = Builder("meannet2", seed)
    x = b.input((1, 8, 8, 16))
    axis = b.const("axis", (2,), DataType.int32, [1, 2])
    m1 = _generic(b, Op.Mean, [x, axis], (1, 1, 1, 16), {"keep_dims": True}, base="mean")
    c = b.conv(x, 16, k=3, act=Op.Relu)
    axis2 = b.const("axis", (2,), DataType.int32, [1, 2])
    m2 = _generic(b, Op.Mean, [c, axis2], (1, 1, 1, 16), {"keep_dims": True}, base="mean")
    s = b.elementwise(Op.Add, m1, m2, oscale=0.1)
    return b.finish([s])


def net_pad(seed=0):
    b = Builder("padnet", seed)
    x = b.input((1, 8, 8, 8))
    pads = b.const("paddings", (4, 2), DataType.int32, [[0, 0], [1, 1], [1, 1], [0, 0]])
    p = _generic(b, Op.Pad, [x, pads], (1, 10, 10, 8), {}, base="pad")
    c = b.conv(p, 8, k=3, padding=Padding.VALID)
    pads2 = b.const("paddings", (4, 2), DataType.int32, [[0, 0], [2, 2], [2, 2], [0, 0]])
    p2 = _generic(b, Op.Pad, [c, pads2], (1, 12, 12, 8), {}, base="pad")
    q = b.pool(p2, Op.MaxPool)
    return b.finish([q])


def net_resize(seed=0):
    b = Builder("resize", seed)
    x = b.input((1, 8, 8, 8))
    c = b.conv(x, 8, k=3)
    size = b.const("size", (2,), DataType.int32, [16, 16])
    r = _generic(b, Op.ResizeBilinear, [c, size], (1, 16, 16, 8), {"align_corners": False, "half_pixel_centers": False},
                 base="resize")
    d = b.conv(r, 8, k=3)
    size2 = b.const("size", (2,), DataType.int32, [32, 32])
    r2 = _generic(b, Op.ResizeNearestNeighbor, [d, size2], (1, 32, 32, 8),
                  {"align_corners": False, "half_pixel_centers": False}, base="resizenn")
    return b.finish([r2])


def net_cpu_mid(seed=0):
    # an operator without NPU support in the middle -> two NPU subgraphs
    b = Builder("cpumid", seed)
    x = b.input((1, 8, 8, 8))
    y = b.conv(x, 8, k=3, act=Op.Relu)
    t1 = b.unary(Op.Tanh, y)
    f = _generic(b, Op.Floor, [t1], (1, 8, 8, 8), {}, oscale=1.0 / 128, base="floor")
    z = b.conv(f, 8, k=3)
    t2 = b.unary(Op.Tanh, z)
    return b.finish([t2])


def net_cpu_only(seed=0):
    b = Builder("cpuonly", seed)
    x = b.input((1, 8, 8, 8))
    f = _generic(b, Op.Floor, [x], (1, 8, 8, 8), {}, base="floor")
    g = _generic(b, Op.Floor, [f], (1, 8, 8, 8), {}, base="floor")
    return b.finish([g])


def net_split(seed=0):
    b = Builder("splitnet", seed)
    x = b.input((1, 8, 8, 16))
    axis = b.const("axis", (), DataType.int32, 3)
    o1 = b.fm((1, 8, 8, 8), base="split_out")
    o2 = b.fm((1, 8, 8, 8), base="split_out")
    from ethosu.vela.operation import Operation
    op = Operation(Op.Split, b._nm("split"))
    op.add_input_tensor(axis)
    op.add_input_tensor(x)
    op.outputs = [o1, o2]
    o1.ops = [op]
    o2.ops = [op]
    op.attrs.update({"num_splits": 2})
    b.ops.append(op)
    c1 = b.conv(o1, 8, k=3)
    c2 = b.conv(o2, 8, k=1)
    s = b.elementwise(Op.Sub, c1, c2, oscale=0.1)
    return b.finish([s])


def net_minmax(seed=0):
    b = Builder("minmax", seed)
    x = b.input((1, 8, 8, 8))
    y = b.conv(x, 8, k=3)
    z = b.conv(x, 8, k=1)
    mx = _generic(b, Op.Maximum, [y, z], (1, 8, 8, 8), {}, base="max")
    mn = _generic(b, Op.Minimum, [y, z], (1, 8, 8, 8), {}, base="min")
    a = _generic(b, Op.Abs, [mn], (1, 8, 8, 8), {}, base="abs")
    s = b.elementwise(Op.Mul, mx, a, oscale=0.2)
    return b.finish([s])


def net_int16(seed=0):
    b = Builder("i16", seed, dtype=DataType.int16)
    x = b.input((1, 8, 8, 8), scale=0.001)
    wv = np.random.RandomState(seed).randint(-127, 128, size=(8, 3, 3, 8))
    wt = b.const("weights", (8, 3, 3, 8), DataType.int8, wv, m.qp(0.02, 0))
    bt = b.const("bias", (8,), DataType.int64, np.arange(8) * 10, m.qp(0.00002, 0))
    ofm = b.fm((1, 8, 8, 8), 0.001, 0, base="conv_out")
    attrs = {
        "dilation_h_factor": 1,
        "dilation_w_factor": 1,
        "fused_activation_function": None,
        "padding": Padding.SAME,
        "stride_h": 1,
        "stride_w": 1,
    }
    y = b._add(Op.Conv2DBias, "conv", [x, wt, bt], ofm, attrs)
    t = b.unary(Op.Tanh, y, oscale=1.0 / 32768)
    s = b.unary(Op.Sigmoid, y, oscale=1.0 / 32768)
    u = b.elementwise(Op.Mul, t, s, oscale=1.0 / 32768)
    return b.finish([u])


def net_perchannel(seed=0):
    b = Builder("pcq", seed)
    x = b.input((1, 8, 8, 8))
    y = b.conv(x, 16, k=3, per_channel=True, act=Op.Relu)
    z = b.conv(y, 16, k=1, per_channel=True)
    return b.finish([z])


def net_reshape_fc(seed=0):
    b = Builder("rfc", seed)
    x = b.input((1, 4, 4, 8))
    c = b.conv(x, 8, k=3)
    r = b.reshape(c, (1, 128))
    f = b.fc(r, 32, act=Op.Relu)
    g = b.fc(f, 10)
    return b.finish([g])


def net_samename(seed=0):
    # several tensors share a name
    b = Builder("samename", seed)
    x = b.input((1, 8, 8, 8))
    y = b.conv(x, 8, k=3)
    z = b.conv(y, 8, k=3)
    w = b.conv(z, 8, k=3)
    for t in (y, z, w):
        t.name = "dup"
    return b.finish([w])


def net_large_fc(seed=0):
    b = Builder("lfc", seed)
    x = b.input((1, 1024))
    y = b.fc(x, 512, act=Op.Relu)
    z = b.fc(y, 256)
    return b.finish([z])


def net_sub_relu(seed=0):
    b = Builder("subrelu", seed)
    x = b.input((1, 16, 16, 8))
    c = b.const_fm((1, 1, 1, 8))
    y = b.elementwise(Op.Sub, x, c, oscale=0.1, act=Op.Relu)
    r6 = b.unary(Op.Relu6, y, oscale=0.1)
    z = b.elementwise(Op.Mul, r6, b.const_fm((1, 16, 16, 8)), oscale=0.2)
    return b.finish([z])


NETS.update(
    {
        "mean": net_mean,
        "mean2": net_mean2,
        "pad": net_pad,
        "resize": net_resize,
        "cpumid": net_cpu_mid,
        "cpuonly": net_cpu_only,
        "split": net_split,
        "minmax": net_minmax,
        "i16": net_int16,
        "pcq": net_perchannel,
        "rfc": net_reshape_fc,
        "samename": net_samename,
        "lfc": net_large_fc,
        "subrelu": net_sub_relu,
    }
)

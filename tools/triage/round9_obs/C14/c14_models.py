# Helper for the C14 demos: builds small int8 .tflite models in memory with Vela's own classes and runs compilations.
import contextlib
import hashlib
import io
import os
import sys

import numpy as np

HERE = os.path.dirname(os.path.abspath(__file__))
ROOT = os.path.dirname(HERE)
if ROOT not in sys.path:
    sys.path.insert(0, ROOT)

from ethosu.vela import tflite_writer  # noqa: E402
from ethosu.vela.data_type import DataType  # noqa: E402
from ethosu.vela.nn_graph import Graph  # noqa: E402
from ethosu.vela.nn_graph import Subgraph  # noqa: E402
from ethosu.vela.operation import Op  # noqa: E402
from ethosu.vela.operation import Operation  # noqa: E402
from ethosu.vela.operation import Padding  # noqa: E402
from ethosu.vela.tensor import create_const_tensor  # noqa: E402
from ethosu.vela.tensor import QuantizationParameters  # noqa: E402
from ethosu.vela.tensor import Tensor  # noqa: E402


def qp(scale=0.05, zp=0):
    q = QuantizationParameters()
    q.scale_f32 = np.float32(scale)
    q.zero_point = np.int64(zp)
    q.min = None
    q.max = None
    return q


def qp_vec(scales):
    q = QuantizationParameters()
    q.scale_f32 = np.array(scales, dtype=np.float32)
    q.zero_point = np.zeros(len(scales), dtype=np.int64)
    return q


class _Pass:
    def __init__(self, ops):
        self.ops = ops
        self.inputs = []
        self.outputs = []


class Builder:
    """Tiny sequential/graph model builder. All feature maps are int8 NHWC."""

    def __init__(self, name="net", seed=0, dtype=DataType.int8):
        self.rng = np.random.RandomState(seed)
        self.ops = []
        self.inputs = []
        self.name = name
        self.cnt = 0
        self.dtype = dtype

    def _nm(self, base):
        self.cnt += 1
        return "%s_%d" % (base, self.cnt)

    def input(self, shape, scale=0.05, zp=0, name=None):
        t = Tensor(list(shape), self.dtype, name or self._nm("input"))
        t.quantization = qp(scale, zp)
        op = Operation(Op.Placeholder, t.name)
        op.set_output_tensor(t)
        self.ops.append(op)
        self.inputs.append(t)
        return t

    def fm(self, shape, scale=0.05, zp=0, base="fm"):
        t = Tensor(list(shape), self.dtype, self._nm(base))
        t.quantization = qp(scale, zp)
        return t

    def const(self, base, shape, dtype, values, quant=None):
        np_t = dtype.as_numpy_type()
        t = create_const_tensor(self._nm(base), list(shape), dtype, np.array(values).astype(np_t), quantization=quant)
        t.values = np.array(values).astype(np_t).reshape(shape)
        return t

    def _add(self, op_type, base, inputs, ofm, attrs):
        op = Operation(op_type, self._nm(base))
        for t in inputs:
            if t is None:
                op.inputs.append(None)
            else:
                op.add_input_tensor(t)
        op.set_output_tensor(ofm)
        op.attrs.update(attrs)
        self.ops.append(op)
        return ofm

    def conv(self, ifm, ofm_c, k=3, stride=1, padding=Padding.SAME, act=None, wseed=None, per_channel=False,
             dilation=1, oscale=0.05, weights=None, wscale=0.02):
        n, h, w, c = ifm.shape
        rng = self.rng if wseed is None else np.random.RandomState(wseed)
        if weights is None:
            wv = rng.randint(-127, 128, size=(ofm_c, k, k, c))
        else:
            wv = weights
        wq = qp_vec([wscale] * ofm_c) if per_channel else qp(wscale, 0)
        if per_channel:
            wq.quant_dim = 0
        wt = self.const("weights", (ofm_c, k, k, c), DataType.int8, wv, wq)
        bq = qp_vec([wscale * 0.05] * ofm_c) if per_channel else qp(wscale * 0.05, 0)
        bt = self.const("bias", (ofm_c,), DataType.int32, rng.randint(-1000, 1000, size=(ofm_c,)), bq)
        if padding == Padding.SAME:
            oh, ow = -(-h // stride), -(-w // stride)
        else:
            ek = (k - 1) * dilation + 1
            oh, ow = (h - ek) // stride + 1, (w - ek) // stride + 1
        ofm = self.fm((n, oh, ow, ofm_c), oscale, base="conv_out")
        attrs = {
            "dilation_h_factor": dilation,
            "dilation_w_factor": dilation,
            "fused_activation_function": act,
            "padding": padding,
            "stride_h": stride,
            "stride_w": stride,
        }
        return self._add(Op.Conv2DBias, "conv", [ifm, wt, bt], ofm, attrs)

    def dwconv(self, ifm, k=3, stride=1, padding=Padding.SAME, act=None, oscale=0.05, weights=None):
        n, h, w, c = ifm.shape
        wv = self.rng.randint(-127, 128, size=(1, k, k, c)) if weights is None else weights
        wt = self.const("dw_weights", (1, k, k, c), DataType.int8, wv, qp(0.02, 0))
        bt = self.const("dw_bias", (c,), DataType.int32, self.rng.randint(-1000, 1000, size=(c,)), qp(0.001, 0))
        if padding == Padding.SAME:
            oh, ow = -(-h // stride), -(-w // stride)
        else:
            oh, ow = (h - k) // stride + 1, (w - k) // stride + 1
        ofm = self.fm((n, oh, ow, c), oscale, base="dw_out")
        attrs = {
            "depth_multiplier": 1,
            "dilation_h_factor": 1,
            "dilation_w_factor": 1,
            "fused_activation_function": act,
            "padding": padding,
            "stride_h": stride,
            "stride_w": stride,
        }
        return self._add(Op.DepthwiseConv2DBias, "dwconv", [ifm, wt, bt], ofm, attrs)

    def fc(self, ifm, ofm_c, act=None, oscale=0.05, weights=None):
        n, c = ifm.shape
        wv = self.rng.randint(-127, 128, size=(ofm_c, c)) if weights is None else weights
        wt = self.const("fc_weights", (ofm_c, c), DataType.int8, wv, qp(0.02, 0))
        bt = self.const("fc_bias", (ofm_c,), DataType.int32, self.rng.randint(-1000, 1000, size=(ofm_c,)), qp(0.001, 0))
        ofm = self.fm((n, ofm_c), oscale, base="fc_out")
        attrs = {
            "asymmetric_quantize_inputs": False,
            "fused_activation_function": act,
            "keep_num_dims": False,
            "weights_format": 0,
        }
        return self._add(Op.FullyConnected, "fc", [ifm, wt, bt], ofm, attrs)

    def pool(self, ifm, kind=Op.MaxPool, k=2, stride=2, padding=Padding.VALID):
        n, h, w, c = ifm.shape
        if padding == Padding.SAME:
            oh, ow = -(-h // stride), -(-w // stride)
        else:
            oh, ow = (h - k) // stride + 1, (w - k) // stride + 1
        ofm = self.fm((n, oh, ow, c), float(ifm.quantization.scale_f32), int(ifm.quantization.zero_point), base="pool_out")
        attrs = {
            "filter_height": k,
            "filter_width": k,
            "fused_activation_function": None,
            "padding": padding,
            "stride_h": stride,
            "stride_w": stride,
        }
        return self._add(kind, "pool", [ifm], ofm, attrs)

    def elementwise(self, kind, a, b, oscale=0.1, act=None):
        ofm = self.fm(a.shape if len(a.shape) >= len(b.shape) else b.shape, oscale, base="ew_out")
        attrs = {"fused_activation_function": act}
        if kind in (Op.Add, Op.Sub):
            attrs["pot_scale_int16"] = False
        return self._add(kind, "ew", [a, b], ofm, attrs)

    def const_fm(self, shape, scale=0.05, zp=0, values=None):
        vals = self.rng.randint(-128, 128, size=shape) if values is None else values
        return self.const("const_fm", shape, self.dtype, vals, qp(scale, zp))

    def unary(self, kind, ifm, oscale=1.0 / 128, ozp=0, attrs=None):
        ofm = self.fm(ifm.shape, oscale, ozp, base="act_out")
        return self._add(kind, "act", [ifm], ofm, attrs or {})

    def softmax(self, ifm, beta=1.0):
        ofm = self.fm(ifm.shape, 1.0 / 256, -128, base="softmax_out")
        return self._add(Op.Softmax, "softmax", [ifm], ofm, {"beta": beta})

    def reshape(self, ifm, new_shape):
        st = self.const("new_shape", (len(new_shape),), DataType.int32, new_shape)
        ofm = self.fm(new_shape, float(ifm.quantization.scale_f32), int(ifm.quantization.zero_point), base="reshape_out")
        return self._add(Op.Reshape, "reshape", [ifm, st], ofm, {"new_shape": list(new_shape)})

    def concat(self, tensors, axis=3):
        shape = list(tensors[0].shape)
        shape[axis] = sum(t.shape[axis] for t in tensors)
        q = tensors[0].quantization
        ofm = self.fm(shape, float(q.scale_f32), int(q.zero_point), base="concat_out")
        return self._add(Op.ConcatTFLite, "concat", list(tensors), ofm, {"axis": axis, "fused_activation_function": None})

    def finish(self, outputs):
        sg = Subgraph(self.name)
        sg.passes = [_Pass([op]) for op in self.ops]
        sg.original_inputs = list(self.inputs)
        sg.input_tensors = list(self.inputs)
        sg.output_tensors = list(outputs)
        nng = Graph(self.name)
        nng.subgraphs.append(sg)
        buf = tflite_writer.write_tflite_buffer(nng)
        return bytes(buf)


# ----------------------------------------------------------------------------------------------------------------------
# A few stock networks


def net_convs(seed=0, name="convs", hw=16, c=8, depth=3, act=Op.Relu):
    b = Builder(name, seed)
    x = b.input((1, hw, hw, c))
    for i in range(depth):
        x = b.conv(x, c * 2 if i == 0 else x.shape[3], k=3, act=act)
    return b.finish([x])


def net_mixed(seed=0, name="mixed", hw=16, c=8):
    b = Builder(name, seed)
    x = b.input((1, hw, hw, c))
    y = b.conv(x, 16, k=3, act=Op.Relu)
    z = b.dwconv(y, k=3)
    p = b.pool(z, Op.MaxPool)
    q = b.conv(p, 16, k=1)
    r = b.elementwise(Op.Add, q, p)
    s = b.unary(Op.Tanh, r)
    t = b.pool(s, Op.AvgPool)
    return b.finish([t])


def net_fc(seed=0, name="fcnet", cin=64, cout=10):
    b = Builder(name, seed)
    x = b.input((1, cin))
    y = b.fc(x, 32, act=Op.Relu)
    z = b.fc(y, cout)
    s = b.softmax(z)
    return b.finish([s])


def net_big(seed=0, name="big", hw=48, c=16):
    # feature maps too big for the 384 KiB arena cache -> spilling / cascading decisions
    b = Builder(name, seed)
    x = b.input((1, hw, hw, c))
    y = b.conv(x, 32, k=3, act=Op.Relu)
    z = b.conv(y, 32, k=3, act=Op.Relu)
    w = b.conv(z, 32, k=3, stride=2)
    v = b.elementwise(Op.Add, w, b.pool(y, Op.MaxPool))
    return b.finish([v])


# ----------------------------------------------------------------------------------------------------------------------
# Running compilations


def sha(b):
    return hashlib.sha256(bytes(b)).hexdigest()[:16]


def compile_bytes(data):
    from ethosu.vela import vela

    with contextlib.redirect_stdout(io.StringIO()):
        out = vela.convert_bytes(bytearray(data))
    return bytes(out)


def compile_cli(data, workdir, name="model", extra_args=(), keep_stdout=False):
    """Runs vela.main on a file, returns (output tflite bytes, summary csv text without the timing independent part)."""
    from ethosu.vela import vela

    os.makedirs(workdir, exist_ok=True)
    path = os.path.join(workdir, name + ".tflite")
    with open(path, "wb") as f:
        f.write(data)
    outdir = os.path.join(workdir, "out_" + name)
    so = io.StringIO()
    with contextlib.redirect_stdout(so):
        rc = vela.main([path, "--output-dir", outdir] + list(extra_args))
    if rc != 0:
        raise RuntimeError("vela.main failed: " + so.getvalue()[-2000:])
    with open(os.path.join(outdir, name + "_vela.tflite"), "rb") as f:
        out = f.read()
    csvs = [f for f in os.listdir(outdir) if "_summary_" in f]
    with open(os.path.join(outdir, csvs[0])) as f:
        csv_text = f.read()
    if keep_stdout:
        return out, csv_text, so.getvalue()
    return out, csv_text

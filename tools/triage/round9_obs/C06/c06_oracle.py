"""
Independent decoder / reference model for Ethos-U register command streams, used by the demos and observations in this
directory. Nothing in here calls into the code generator; the expected register values are re-derived from the fields of
the NPU operations (public API objects) and from literal hardware tables.
"""
import math
from decimal import Decimal
from decimal import ROUND_HALF_UP
from fractions import Fraction

from ethosu.vela.api import NpuAccelerator
from ethosu.vela.api import NpuActivationOp
from ethosu.vela.api import NpuBlockTraversal
from ethosu.vela.api import NpuConv2DOperation
from ethosu.vela.api import NpuConvDepthWiseOperation
from ethosu.vela.api import NpuDataType
from ethosu.vela.api import NpuDmaOperation
from ethosu.vela.api import NpuElementWiseOp
from ethosu.vela.api import NpuElementWiseOperation
from ethosu.vela.api import NpuLayout
from ethosu.vela.api import NpuPoolingOp
from ethosu.vela.api import NpuPoolingOperation
from ethosu.vela.api import NpuResamplingMode
from ethosu.vela.api import NpuRoundingMode
from ethosu.vela.ethos_u55_regs.ethos_u55_regs import cmd0
from ethosu.vela.ethos_u55_regs.ethos_u55_regs import cmd1

MEM2MEM = 0x103

# ---------------------------------------------------------------------------------------------------------------------
# Hardware tables (literal)
# ---------------------------------------------------------------------------------------------------------------------
#                 banks, ofm ublock (w, h, d), cores, is_u65
HW = {
    NpuAccelerator.Ethos_U55_32: dict(banks=16, ublock=(1, 1, 4), cores=1, u65=False),
    NpuAccelerator.Ethos_U55_64: dict(banks=16, ublock=(1, 1, 8), cores=1, u65=False),
    NpuAccelerator.Ethos_U55_128: dict(banks=24, ublock=(2, 1, 8), cores=1, u65=False),
    NpuAccelerator.Ethos_U55_256: dict(banks=48, ublock=(2, 2, 8), cores=1, u65=False),
    NpuAccelerator.Ethos_U65_256: dict(banks=48, ublock=(2, 2, 8), cores=1, u65=True),
    NpuAccelerator.Ethos_U65_512: dict(banks=48, ublock=(2, 2, 8), cores=2, u65=True),
}
# SHRAM bank granules: ifm8, ifm16, ifm8 elementwise, ifm16 elementwise, ifm32, acc16, acc32, acc40
_G256 = dict(ifm={8: 8, 16: 8, 32: 16}, ifm_ew={8: 8, 16: 8, 32: 16}, acc={16: 8, 32: 16, 40: 20})
GRANULES = {
    NpuAccelerator.Ethos_U55_32: dict(ifm={8: 2, 16: 2, 32: 4}, ifm_ew={8: 2, 16: 2, 32: 4}, acc={16: 4, 32: 4, 40: 4}),
    NpuAccelerator.Ethos_U55_64: dict(ifm={8: 2, 16: 2, 32: 4}, ifm_ew={8: 2, 16: 2, 32: 4}, acc={16: 4, 32: 4, 40: 8}),
    NpuAccelerator.Ethos_U55_128: dict(
        ifm={8: 4, 16: 4, 32: 8}, ifm_ew={8: 4, 16: 4, 32: 8}, acc={16: 4, 32: 8, 40: 12}
    ),
    NpuAccelerator.Ethos_U55_256: _G256,
    NpuAccelerator.Ethos_U65_256: _G256,
    NpuAccelerator.Ethos_U65_512: _G256,
}
BANK_BYTES = 1024
SUBKERNEL_MAX = 8


def round_up(a, b):
    return ((a + b - 1) // b) * b


def ceil_div(a, b):
    return (a + b - 1) // b


# ---------------------------------------------------------------------------------------------------------------------
# Decoder
# ---------------------------------------------------------------------------------------------------------------------
class Event:
    def __init__(self, name, param, regs, waits, pos):
        self.name = name  # NPU_OP_xxx
        self.param = param
        self.regs = regs  # register state at the time of the operation: name -> value
        self.waits = waits  # list of (wait name, count) seen since the previous operation
        self.pos = pos

    def __repr__(self):
        return f"<{self.name} param={self.param} waits={self.waits}>"


class DecodeError(Exception):
    pass


def decode(words):
    """Decodes the stream, tracking register state. Returns (events, problems)"""
    problems = []
    regs = {}
    events = []
    waits = []
    i = 0
    n = len(words)
    stops = []
    while i < n:
        w = words[i]
        if not (isinstance(w, int) or hasattr(w, "__index__")) or not (0 <= int(w) < (1 << 32)):
            problems.append(f"word {i} is not a 32-bit unsigned value: {w!r}")
            w = int(w) & 0xFFFFFFFF
        w = int(w)
        code = w & 0xFFFF
        param = (w >> 16) & 0xFFFF
        opcode = code & 0x3FF
        mode = code & 0xC000
        if code & ~0xC3FF:
            problems.append(f"word {i}: reserved bits set in command {code:#x}")
        if mode == 0x4000:
            if i + 1 >= n:
                problems.append(f"word {i}: cmd1 without payload")
                break
            payload = int(words[i + 1])
            if not 0 <= payload < (1 << 32):
                problems.append(f"word {i+1}: payload is not a 32-bit unsigned value: {payload}")
            try:
                name = cmd1(opcode).name
            except ValueError:
                problems.append(f"word {i}: unknown cmd1 opcode {opcode:#x}")
                name = f"cmd1_{opcode:#x}"
            regs[name] = (param << 32) | (payload & 0xFFFFFFFF)
            i += 2
        elif mode == 0:
            try:
                name = cmd0(opcode).name
            except ValueError:
                problems.append(f"word {i}: unknown cmd0 opcode {opcode:#x}")
                name = f"cmd0_{opcode:#x}"
            if name in ("NPU_OP_DMA_WAIT", "NPU_OP_KERNEL_WAIT"):
                waits.append((name, param))
            elif name == "NPU_OP_STOP":
                stops.append(i)
            elif name.startswith("NPU_OP_"):
                events.append(Event(name, param, dict(regs), waits, i))
                waits = []
            else:
                regs[name] = param
            i += 1
        else:
            problems.append(f"word {i}: bad payload mode {mode:#x}")
            i += 1
    if len(stops) != 1 or stops[0] != n - 1:
        problems.append(f"stream must end with exactly one NPU_OP_STOP, stop positions={stops}, length={n}")
    elif (words[-1] >> 16) != 0xFFFF:
        problems.append("NPU_OP_STOP without mask 0xFFFF")
    if waits:
        problems.append(f"dangling waits before stop: {waits}")
    return events, problems


# ---------------------------------------------------------------------------------------------------------------------
# Reference model: direct fields
# ---------------------------------------------------------------------------------------------------------------------
def u16(v):
    return int(v) & 0xFFFF


def ref_quantise(value, quant):
    """value / scale rounded half away from zero (as the TFLite reference does), plus the zero point"""
    if quant is None:
        scale, zp = 1.0, 0
    else:
        scale = 1.0 if quant.scale_f32 is None else quant.scale_f32
        zp = quant.zero_point
    # float32 division, as the NPU driver stack does
    import numpy as np

    q = np.float32(value) / np.float32(scale)
    d = Decimal(float(q)).quantize(Decimal(1), rounding=ROUND_HALF_UP)  # half away from zero for both signs
    return int(zp) + int(d)


def ref_strides(fm):
    if fm.strides is not None:
        return fm.strides.depth, fm.strides.height, fm.strides.width  # c, y, x
    es = fm.data_type.size_in_bytes()
    h, w, c = fm.shape
    if fm.layout == NpuLayout.NHWC:
        return es, w * c * es, c * es
    return 16 * es * w, es * w * round_up(c, 16), 16 * es


def zero_point(fm):
    return int(fm.quantization.zero_point) if fm.quantization is not None else 0


def ifm_precision(fm, scale_mode=0):
    v = (1 if fm.data_type.is_signed() else 0) | ({8: 0, 16: 1, 32: 2}[fm.data_type.size_in_bits()] << 2)
    if fm.layout == NpuLayout.NHCWB16:
        v |= 1 << 6
    return v | (scale_mode << 8)


def addr_value(a):
    return int(a) & ((1 << 48) - 1)


def fm_regs(prefix, fm, with_depth, exp):
    exp[f"NPU_SET_{prefix}_REGION"] = fm.region
    for i in range(4):
        exp[f"NPU_SET_{prefix}_BASE{i}"] = addr_value(fm.tiles.addresses[i])
    exp[f"NPU_SET_{prefix}_HEIGHT0_M1"] = u16(fm.tiles.height_0 - 1)
    exp[f"NPU_SET_{prefix}_HEIGHT1_M1"] = u16(fm.tiles.height_1 - 1)
    exp[f"NPU_SET_{prefix}_WIDTH0_M1"] = u16(fm.tiles.width_0 - 1)
    if with_depth:
        exp[f"NPU_SET_{prefix}_DEPTH_M1"] = u16(fm.shape.depth - 1)
    sc, sy, sx = ref_strides(fm)
    exp[f"NPU_SET_{prefix}_STRIDE_C"] = addr_value(sc)
    exp[f"NPU_SET_{prefix}_STRIDE_Y"] = addr_value(sy)
    exp[f"NPU_SET_{prefix}_STRIDE_X"] = addr_value(sx)
    exp[f"NPU_SET_{prefix}_ZERO_POINT"] = u16(zero_point(fm))


def is_binary(op):
    return op.sub_op_type not in (NpuElementWiseOp.ABS, NpuElementWiseOp.LRELU, NpuElementWiseOp.CLZ)


def has_ifm2_tensor(op):
    return op.ifm2 is not None and op.ifm2_scalar is None


def uses_lut(op):
    return op.activation is not None and op.activation.op_type == NpuActivationOp.TABLE_LOOKUP


def ref_activation(op, exp):
    ofm = op.ofm
    act = op.activation
    lo, hi = ofm.data_type.min_value(), ofm.data_type.max_value()
    qmin = lo if act is None or act.min is None else ref_quantise(act.min, ofm.quantization)
    qmax = hi if act is None or act.max is None else ref_quantise(act.max, ofm.quantization)
    qmin = max(qmin, lo, -32768)
    qmax = min(qmax, hi, 32767)
    if act is None or act.op_type == NpuActivationOp.NONE_OR_RELU:
        val = 0
    elif act.op_type == NpuActivationOp.TANH:
        val = 3
    elif act.op_type == NpuActivationOp.SIGMOID:
        val = 4
    else:
        val = 16 + act.lookup_table_index
        if ofm.data_type == NpuDataType.INT32:
            val |= 3 << 12
            qmin = max(qmin, -128)
            qmax = min(qmax, 127)
    exp["NPU_SET_ACTIVATION"] = val
    exp["NPU_SET_ACTIVATION_MIN"] = u16(qmin)
    exp["NPU_SET_ACTIVATION_MAX"] = u16(qmax)


def ref_kernel(op, exp):
    k = op.kernel
    trav = op.block_traversal if isinstance(op, NpuConv2DOperation) else NpuBlockTraversal.DEPTH_FIRST
    exp["NPU_SET_KERNEL_HEIGHT_M1"] = u16(k.dilation_y * (k.height - 1))
    exp["NPU_SET_KERNEL_WIDTH_M1"] = u16(k.dilation_x * (k.width - 1))
    sx, sy = k.stride_x - 1, k.stride_y - 1
    v = (sx & 1) | ((sy & 1) << 1) | ((sx >> 1) << 6) | ((sy >> 1) << 9)
    v |= ((k.dilation_x - 1) << 3) | ((k.dilation_y - 1) << 4)
    if trav == NpuBlockTraversal.PART_KERNEL_FIRST:
        v |= 1 << 2
    exp["NPU_SET_KERNEL_STRIDE"] = v


def ref_ranges(op, accelerator, exp):
    cores = HW[accelerator]["cores"]
    for lst, region, names in (
        (op.weights, "NPU_SET_WEIGHT_REGION", [("NPU_SET_WEIGHT_BASE", "NPU_SET_WEIGHT_LENGTH"), ("NPU_SET_WEIGHT1_BASE", "NPU_SET_WEIGHT1_LENGTH")]),
        (op.biases, "NPU_SET_SCALE_REGION", [("NPU_SET_SCALE_BASE", "NPU_SET_SCALE_LENGTH"), ("NPU_SET_SCALE1_BASE", "NPU_SET_SCALE1_LENGTH")]),
    ):
        if not lst:
            continue
        exp[region] = lst[0].region
        for core, (b, l) in enumerate(names):
            if core < len(lst):
                exp[b] = addr_value(lst[core].address)
                exp[l] = lst[core].length
            elif core < cores:
                # an idle core must be given a zero length
                exp[l] = 0


# ---------------------------------------------------------------------------------------------------------------------
# Reference model: SHRAM layout
# ---------------------------------------------------------------------------------------------------------------------
def ref_shram(op, accelerator):
    """Returns dict(ib_end, ab_start, ib_start2 (or None), acc_format, ifm_banks, acc_banks, lut_start)"""
    hw = HW[accelerator]
    gran = GRANULES[accelerator]
    ub_w, ub_h, _ = hw["ublock"]
    ifm_bits = op.ifm.data_type.size_in_bits()
    is_ew = isinstance(op, NpuElementWiseOperation)
    is_pool = isinstance(op, NpuPoolingOperation)
    is_reduce_sum = is_pool and op.sub_op_type == NpuPoolingOp.REDUCE_SUM
    is_dw = isinstance(op, NpuConvDepthWiseOperation)
    fms = [op.ifm, op.ofm] + ([op.ifm2] if op.ifm2 is not None else [])
    scaled = all(fm.quantization is not None and fm.quantization.scale_f32 is not None for fm in fms)
    acc_bits = 40 if (ifm_bits == 16 and not (is_pool and not is_reduce_sum) and scaled) else 32
    lut_banks = max(2 if uses_lut(op) else 0, 2 if hw["banks"] > 16 else 0)
    lut_start = hw["banks"] - lut_banks
    bh, bw, bd = op.block_config
    if op.kernel is None:
        kw = kh = 1
        sx = sy = 1
    else:
        k = op.kernel
        kw = (k.width - 1) * k.dilation_x + 1
        kh = (k.height - 1) * k.dilation_y + 1
        sx, sy = k.stride_x, k.stride_y
    upscale = 1 if op.ifm_upscale == NpuResamplingMode.NONE else 2
    nearest = 1 if op.ifm_upscale == NpuResamplingMode.NEAREST else 0
    ifm_bh = round_up(-(-((bh - 1) * sy + min(kh, SUBKERNEL_MAX) + nearest) // upscale), ub_h)
    ifm_bw = round_up(-(-((bw - 1) * sx + min(kw, SUBKERNEL_MAX) + nearest) // upscale), ub_w)
    equal_depth = is_ew or (is_pool and not is_reduce_sum) or is_dw
    if equal_depth:
        ifm_bd = bd
    else:
        partkernel = isinstance(op, NpuConv2DOperation) and op.block_traversal == NpuBlockTraversal.PART_KERNEL_FIRST
        ifm_depth = op.ifm.shape.depth
        if ifm_bits == 16:
            ifm_bd = round_up(min(ifm_depth, 16), 4)
        else:
            ifm_bd = round_up(min(ifm_depth, 16 if partkernel else 32), 8)
    ifm_bytes = ifm_bw * ifm_bh * round_up(ifm_bd * ifm_bits // 8, 8)
    ifm_gran = (gran["ifm_ew"] if is_ew else gran["ifm"])[ifm_bits]
    ifm_banks = round_up(ceil_div(ifm_bytes, BANK_BYTES) * 2, ifm_gran)
    res = dict(lut_start=lut_start, ifm_banks=ifm_banks, acc_bits=acc_bits)
    res["acc_format"] = {32: 0, 40: 1}[acc_bits]
    if is_ew:
        res["ib_end"] = lut_start
        res["ab_start"] = lut_start
        res["ib_start2"] = 2 + ifm_banks
        res["acc_banks"] = 0
    else:
        abh = bh
        if op.ofm.shape.height == 1 and (op.kernel is None or op.kernel.height == 1) and ub_h == 2:
            abh = min(bh, 1)
        acc_bytes = bw * abh * round_up(bd, 8) * acc_bits // 8
        acc_banks = round_up(ceil_div(acc_bytes, BANK_BYTES) * 2, gran["acc"][acc_bits])
        res["acc_banks"] = acc_banks
        res["ib_end"] = 2 + ifm_banks
        res["ab_start"] = lut_start - acc_banks
        res["ib_start2"] = None
    return res


# ---------------------------------------------------------------------------------------------------------------------
# Reference model: complete expectation for a block operation
# ---------------------------------------------------------------------------------------------------------------------
ROUNDING = {NpuRoundingMode.TFL: 0, NpuRoundingMode.TRUNCATE: 1, NpuRoundingMode.NATURAL: 2}
UPSCALE = {NpuResamplingMode.NONE: 0, NpuResamplingMode.NEAREST: 1, NpuResamplingMode.TRANSPOSE: 2}
EW_MODE = {
    NpuElementWiseOp.MUL: 0,
    NpuElementWiseOp.ADD: 1,
    NpuElementWiseOp.SUB: 2,
    NpuElementWiseOp.MIN: 3,
    NpuElementWiseOp.MAX: 4,
    NpuElementWiseOp.LRELU: 5,
    NpuElementWiseOp.ABS: 6,
    NpuElementWiseOp.CLZ: 7,
    NpuElementWiseOp.SHR: 8,
    NpuElementWiseOp.SHL: 9,
}
POOL_MODE = {NpuPoolingOp.MAX: 0, NpuPoolingOp.AVERAGE: 1, NpuPoolingOp.REDUCE_SUM: 2}


def is_explicit_scaling(rescale):
    return rescale is not None and type(rescale).__name__ == "ExplicitScaling"


def global_scale(op):
    if isinstance(op, NpuPoolingOperation):
        g = op.sub_op_type in (NpuPoolingOp.AVERAGE, NpuPoolingOp.REDUCE_SUM) and sum(op.padding) == 0
        if is_explicit_scaling(op.rescale):
            g = not op.rescale.per_channel
        return g
    if isinstance(op, NpuElementWiseOperation):
        return op.sub_op_type in (
            NpuElementWiseOp.ADD,
            NpuElementWiseOp.SUB,
            NpuElementWiseOp.MUL,
            NpuElementWiseOp.LRELU,
            NpuElementWiseOp.ABS,
        )
    return False


def expected_block_op(op, accelerator, with_shram=True):
    """Returns (op name, op param, dict register name -> expected value, set of 'masked' checks)"""
    exp = {}
    fm_regs("IFM", op.ifm, True, exp)
    exp["NPU_SET_IFM_UPSCALE"] = UPSCALE[op.ifm_upscale]
    if op.padding is not None:
        exp["NPU_SET_IFM_PAD_TOP"] = op.padding.top
        exp["NPU_SET_IFM_PAD_LEFT"] = op.padding.left
        exp["NPU_SET_IFM_PAD_BOTTOM"] = op.padding.bottom
        exp["NPU_SET_IFM_PAD_RIGHT"] = op.padding.right
    fm_regs("OFM", op.ofm, True, exp)
    exp["NPU_SET_OFM_HEIGHT_M1"] = u16(op.ofm.shape.height - 1)
    exp["NPU_SET_OFM_WIDTH_M1"] = u16(op.ofm.shape.width - 1)
    v = (1 if op.ofm.data_type.is_signed() else 0) | ({8: 0, 16: 1, 32: 2}[op.ofm.data_type.size_in_bits()] << 1)
    if op.ofm.layout == NpuLayout.NHCWB16:
        v |= 1 << 6
    if global_scale(op):
        v |= 1 << 8
    v |= ROUNDING[op.rounding_mode] << 14
    exp["NPU_SET_OFM_PRECISION"] = v
    is_ew = isinstance(op, NpuElementWiseOperation)
    if not is_ew:
        ref_kernel(op, exp)
    ref_ranges(op, accelerator, exp)
    ref_activation(op, exp)
    exp["NPU_SET_OFM_BLK_HEIGHT_M1"] = op.block_config.height - 1
    exp["NPU_SET_OFM_BLK_WIDTH_M1"] = op.block_config.width - 1
    exp["NPU_SET_OFM_BLK_DEPTH_M1"] = op.block_config.depth - 1
    if with_shram:
        s = ref_shram(op, accelerator)
        exp["NPU_SET_IFM_IB_END"] = s["ib_end"]
        exp["NPU_SET_AB_START"] = s["ab_start"]
        exp["NPU_SET_ACC_FORMAT"] = s["acc_format"]
        if is_ew and is_binary(op) and has_ifm2_tensor(op):
            exp["NPU_SET_IFM2_IB_START"] = s["ib_start2"]
    ifm_prec_mask = 0xFFFF
    if isinstance(op, NpuConv2DOperation):
        name, param = "NPU_OP_CONV", 0
    elif isinstance(op, NpuConvDepthWiseOperation):
        name, param = "NPU_OP_DEPTHWISE", 0
    elif isinstance(op, NpuPoolingOperation):
        name, param = "NPU_OP_POOL", POOL_MODE[op.sub_op_type]
    else:
        name, param = "NPU_OP_ELEMENTWISE", EW_MODE[op.sub_op_type]
        ifm_prec_mask = 0x00FF  # the operand-to-scale field is checked separately
        if is_binary(op):
            exp["NPU_SET_IFM2_ZERO_POINT"] = u16(zero_point(op.ifm2))
            exp["NPU_SET_IFM2_PRECISION"] = ifm_precision(op.ifm2)
            bc = 0
            if op.reversed_operands:
                bc |= 1 << 6
            if op.ifm2_scalar is not None:
                bc |= 1 << 7
                exp["NPU_SET_IFM2_SCALAR"] = u16(ref_quantise(op.ifm2_scalar, op.ifm2.quantization))
            else:
                tmp = {}
                fm_regs("IFM2", op.ifm2, False, tmp)
                exp.update(tmp)
                if op.ifm.shape.height != op.ifm2.shape.height:
                    bc |= 1
                if op.ifm.shape.width != op.ifm2.shape.width:
                    bc |= 2
                if op.ifm.shape.depth != op.ifm2.shape.depth:
                    bc |= 4
            exp["NPU_SET_IFM2_BROADCAST"] = bc
    exp["NPU_SET_IFM_PRECISION"] = (ifm_precision(op.ifm), ifm_prec_mask)
    return name, param, exp


def expected_dma(op):
    exp = {
        "NPU_SET_DMA0_SRC_REGION": op.src.region,
        "NPU_SET_DMA0_SRC": addr_value(op.src.address),
        "NPU_SET_DMA0_DST_REGION": op.dest.region,
        "NPU_SET_DMA0_DST": addr_value(op.dest.address),
        "NPU_SET_DMA0_LEN": addr_value(op.src.length),
    }
    return "NPU_OP_DMA_START", op.channel * 16 + op.mode, exp


# ---------------------------------------------------------------------------------------------------------------------
# Scaling checks (tolerant: compares the real value encoded by scale/shift with the real value wanted)
# ---------------------------------------------------------------------------------------------------------------------
def scale_reg(regs, name):
    v = regs.get(name)
    if v is None:
        return None
    return v & 0xFFFFFFFF, (v >> 32) & 0xFFFF


def rel_close(a, b, tol):
    a = Fraction(a)
    b = Fraction(b)
    if b == 0:
        return a == 0
    return abs(a - b) <= abs(b) * Fraction(tol)


def check_scaling(op, regs):
    """Returns list of problems found with the scaling registers of the operation"""
    probs = []

    def q(fm):
        return None if fm is None or fm.quantization is None else fm.quantization.scale_f32

    if isinstance(op, NpuElementWiseOperation):
        ofm = scale_reg(regs, "NPU_SET_OFM_SCALE")
        if ofm is None:
            return ["OFM_SCALE never written"]
        scale, shift = ofm
        if shift > 63:
            probs.append(f"OFM_SCALE shift {shift} does not fit 6 bits")
        s1, s2, so = q(op.ifm), q(op.ifm2) if op.ifm2 is not None else None, q(op.ofm)
        if op.activation is not None and op.activation.op_type in (NpuActivationOp.TANH, NpuActivationOp.SIGMOID):
            so = 1 / 0x3000
        t = op.sub_op_type
        if t in (NpuElementWiseOp.MUL, NpuElementWiseOp.ADD, NpuElementWiseOp.SUB):
            if op.rescale is not None and (t != NpuElementWiseOp.MUL or op.rescale):
                if (scale, shift) != (int(op.rescale[0]) & 0xFFFFFFFF, int(op.rescale[1]) & 0xFFFF):
                    probs.append(f"explicit rescale {op.rescale} not used, OFM_SCALE={scale, shift}")
                want = None
            elif None in (s1, s2, so):
                if (scale, shift) != (1, 0):
                    probs.append(f"unit scaling expected, OFM_SCALE={scale, shift}")
                want = None
            else:
                want = True
            if t == NpuElementWiseOp.MUL:
                if want:
                    target = Fraction(float(s1)) * Fraction(float(s2)) / Fraction(float(so))
                    got = Fraction(scale, 1 << shift)
                    # float32 product/quotient: allow for 3 float32 roundings
                    if not rel_close(got, target, 2.0**-21):
                        probs.append(f"MUL OFM_SCALE {scale}>>{shift} = {float(got)} but wanted {float(target)}")
            else:
                opa = scale_reg(regs, "NPU_SET_OPA_SCALE")
                opb = scale_reg(regs, "NPU_SET_OPB_SCALE")
                if opa is None or opb is None:
                    probs.append("OPA/OPB scale never written")
                elif want:
                    mode = (regs.get("NPU_SET_IFM_PRECISION", 0) >> 8) & 3
                    got_out = Fraction(scale, 1 << shift)
                    smax = max(float(s1), float(s2))
                    smin = min(float(s1), float(s2))
                    if mode == 0:
                        # both operands multiplied by 16-bit scales
                        for nm, (sc, sh), sin in (("OPA", opa, s1), ("OPB", opb, s2)):
                            if sc > 0xFFFF:
                                probs.append(f"{nm}_SCALE {sc} does not fit 16 bits in 16-bit scale mode")
                            got = Fraction(sc) * got_out
                            target = Fraction(float(sin)) / Fraction(float(so))
                            if not rel_close(got, target, 2.0**-12):
                                probs.append(f"ADD/SUB gain of {nm}: {float(got)} wanted {float(target)}")
                    else:
                        sc, sh = opa
                        if sh > 63:
                            probs.append(f"OPA shift {sh} does not fit 6 bits")
                        input_shift = 20 if op.ifm.data_type.size_in_bits() == 8 else 15
                        got = Fraction(sc, 1 << sh) * got_out
                        target = Fraction(smin) / Fraction(float(so))
                        if not rel_close(got, target, 2.0**-20):
                            probs.append(f"ADD/SUB gain of scaled operand: {float(got)} wanted {float(target)}")
                        got_other = Fraction(1 << input_shift) * got_out / 2
                        target_other = Fraction(smax) / Fraction(float(so))
                        if not rel_close(got_other, target_other, 2.0**-20):
                            probs.append(
                                f"ADD/SUB gain of unscaled operand: {float(got_other)} wanted {float(target_other)}"
                            )
                        # which operand is scaled: the one with the smaller scale; OPa is the first hardware operand
                        first, second = (s2, s1) if op.reversed_operands else (s1, s2)
                        if float(first) != float(second):
                            want_mode = 1 if float(first) < float(second) else 2
                            if mode != want_mode:
                                probs.append(f"operand to scale is {mode}, wanted {want_mode}")
        elif t in (NpuElementWiseOp.LRELU, NpuElementWiseOp.ABS):
            got = Fraction(scale, 1 << shift)
            so = q(op.ofm)
            if so is not None and not rel_close(got, Fraction(float(so)), 2.0**-29):
                probs.append(f"{t.name} OFM_SCALE {float(got)} wanted {so}")
        else:
            if (scale, shift) != (1, 0):
                probs.append(f"{t.name}: unit OFM_SCALE expected, got {scale, shift}")
    elif isinstance(op, NpuPoolingOperation) and global_scale(op):
        ofm = scale_reg(regs, "NPU_SET_OFM_SCALE")
        if ofm is None:
            return ["OFM_SCALE never written"]
        scale, shift = ofm
        if shift > 63:
            probs.append(f"OFM_SCALE shift {shift} does not fit 6 bits")
        si, so = q(op.ifm), q(op.ofm)
        n = op.kernel.width * op.kernel.height
        act_lut = op.activation is not None and op.activation.op_type in (NpuActivationOp.TANH, NpuActivationOp.SIGMOID)
        got = Fraction(scale, 1 << shift)
        if act_lut:
            if op.ifm.data_type != NpuDataType.INT16:
                target = Fraction(0x3000) * Fraction(float(si)) / n
                if not rel_close(got, target, 2.0**-13):
                    probs.append(f"pool tanh/sigmoid scale {float(got)} wanted {float(target)}")
        elif op.fused_quantize:
            target = Fraction(float(si)) / Fraction(float(so))
            if not rel_close(got, target, 2.0**-29):
                probs.append(f"fused quantize scale {float(got)} wanted {float(target)}")
        elif is_explicit_scaling(op.rescale):
            if (scale, shift) != (op.rescale.multiplier[0], op.rescale.shift[0]):
                probs.append("explicit pooling scale not used")
        elif False:
            target = Fraction(float(si)) / Fraction(float(so))
            if not rel_close(got, target, 2.0**-29):
                probs.append(f"fused quantize scale {float(got)} wanted {float(target)}")
        elif op.rescale is not None:
            target = Fraction(float(op.rescale)) / n
            if not rel_close(got, target, 2.0**-13):
                probs.append(f"pool rescale {float(got)} wanted {float(target)}")
        elif si is not None and so is not None:
            target = Fraction(float(si)) / Fraction(float(so)) / n
            tol = 2.0**-13
            if not rel_close(got, target, tol):
                probs.append(f"avgpool scale {float(got)} wanted {float(target)} (scale={scale}, shift={shift})")
        else:
            if (scale, shift) != (1, 0):
                probs.append(f"unit scale expected for unquantised pooling, got {scale, shift}")
    return probs


# ---------------------------------------------------------------------------------------------------------------------
# Memory footprints and wait checking
# ---------------------------------------------------------------------------------------------------------------------
def fm_ranges(fm):
    """(region, start, end) per tile in use; a bounding range per tile"""
    es = fm.data_type.size_in_bytes()
    sc, sy, sx = ref_strides(fm)
    h, w, c = fm.shape
    h0, h1, w0 = fm.tiles.height_0, fm.tiles.height_1, fm.tiles.width_0

    def addr(base, y, x, ch):
        if fm.layout == NpuLayout.NHWC:
            return base + y * sy + x * sx + ch * es
        return base + y * sy + x * 16 * es + (ch // 16) * sc + (ch % 16) * es

    res = []

    def tile(idx, rows, cols):
        if rows > 0 and cols > 0:
            base = fm.tiles.addresses[idx]
            res.append((fm.region, addr(base, 0, 0, 0), addr(base, rows - 1, cols - 1, c - 1) + es))

    tile(0, min(h, h0), min(w, w0))
    if w > w0:
        tile(1, min(h, h1), w - w0)
    if h > h0:
        tile(2, h - h0, min(w, w0))
    if w > w0 and h > h1:
        tile(3, h - h1, w - w0)
    return res


def op_accesses(op, accelerator):
    """Returns (reads, writes), lists of (region, start, end)"""
    if isinstance(op, NpuDmaOperation):
        return (
            [(op.src.region, op.src.address, op.src.address + op.src.length)],
            [(op.dest.region, op.dest.address, op.dest.address + op.src.length)],
        )
    reads = fm_ranges(op.ifm)
    if op.ifm2 is not None and op.ifm2_scalar is None:
        reads += fm_ranges(op.ifm2)
    for r in list(op.weights) + list(op.biases):
        reads.append((r.region, r.address, r.address + r.length))
    hw = HW[accelerator]
    writes = fm_ranges(op.ofm)
    lut_banks = max(2 if uses_lut(op) else 0, 2 if hw["banks"] > 16 else 0)
    lut_start = (hw["banks"] - lut_banks) * BANK_BYTES
    if uses_lut(op):
        reads.append((MEM2MEM, lut_start, lut_start + 2048))
    # the operation uses (writes) the SHRAM below the LUT
    writes.append((MEM2MEM, 0, lut_start))
    return reads, writes


def _overlap(a, b):
    return any(r1[0] == r2[0] and r1[1] < r2[2] and r2[1] < r1[2] for r1 in a for r2 in b)


def conflicts(acc1, acc2):
    r1, w1 = acc1
    r2, w2 = acc2
    return _overlap(w1, r2) or _overlap(r1, w2) or _overlap(w1, w2)


def check_waits(ops, events, accelerator):
    """Simulates the DMA and kernel queues and checks that conflicting operations are never outstanding together"""
    probs = []
    max_dma = 2 if HW[accelerator]["u65"] else 1
    max_kernel = 2
    out_dma = []
    out_kernel = []
    for idx, (op, ev) in enumerate(zip(ops, events)):
        for name, count in ev.waits:
            if name == "NPU_OP_DMA_WAIT":
                out_dma = out_dma[len(out_dma) - count :] if count < len(out_dma) else out_dma
                if count == 0:
                    out_dma = []
            else:
                out_kernel = out_kernel[len(out_kernel) - count :] if count < len(out_kernel) else out_kernel
                if count == 0:
                    out_kernel = []
        acc = op_accesses(op, accelerator)
        if isinstance(op, NpuDmaOperation):
            for j, other in out_kernel:
                if conflicts(other, acc):
                    probs.append(f"op {idx} (DMA) started while conflicting kernel op {j} may still be running")
            out_dma.append((idx, acc))
            out_dma = out_dma[-max_dma:]
        else:
            for j, other in out_dma:
                if conflicts(other, acc):
                    probs.append(f"op {idx} ({ev.name}) started while conflicting DMA op {j} may still be running")
            out_kernel.append((idx, acc))
            out_kernel = out_kernel[-max_kernel:]
    return probs


# ---------------------------------------------------------------------------------------------------------------------
# Alignment rules
# ---------------------------------------------------------------------------------------------------------------------
def check_alignment_rules(op, accelerator):
    probs = []
    if isinstance(op, NpuDmaOperation):
        u65 = HW[accelerator]["u65"]
        if not u65:
            if op.src.address % 16 or op.dest.address % 16 or op.src.length % 16:
                probs.append("DMA address/length not 16-byte aligned")
        else:
            if op.src.region == MEM2MEM and op.src.address % 16:
                probs.append("DMA internal source not aligned")
            if op.dest.region == MEM2MEM and (op.dest.address % 16 or op.src.length % 16):
                probs.append("DMA internal destination/length not aligned")
        return probs
    fms = [("IFM", op.ifm), ("OFM", op.ofm)]
    if op.ifm2 is not None and op.ifm2_scalar is None:
        fms.append(("IFM2", op.ifm2))
    for name, fm in fms:
        es = fm.data_type.size_in_bytes()
        sc, sy, sx = ref_strides(fm)
        al = 16 if fm.layout == NpuLayout.NHCWB16 else es
        for a in fm.tiles.addresses:
            if a % al:
                probs.append(f"{name} address {a:#x} not {al}-byte aligned")
        if fm.layout == NpuLayout.NHCWB16:
            if sc % 16 or sy % 16:
                probs.append(f"{name} NHCWB16 strides {sc, sy} not 16-byte multiples")
        else:
            if sy % es or sx % es:
                probs.append(f"{name} NHWC strides {sy, sx} not element-size multiples")
    for r in op.weights:
        if r.address % 16 or r.length % 16:
            probs.append(f"weights {r} not 16-byte aligned")
    for r in op.biases:
        if r.length % 16:
            probs.append(f"scales length {r} not a 16-byte multiple")
    return probs


# ---------------------------------------------------------------------------------------------------------------------
# Top level check
# ---------------------------------------------------------------------------------------------------------------------
def check_stream(ops, accelerator, words, with_shram=True, with_scaling=True, with_waits=True):
    """Returns a list of problems (empty if the stream encodes exactly the given operations)"""
    events, probs = decode(words)
    probs = list(probs)
    if len(events) != len(ops):
        probs.append(f"{len(ops)} operations given but {len(events)} NPU_OP commands emitted")
        return probs
    for idx, (op, ev) in enumerate(zip(ops, events)):
        if isinstance(op, NpuDmaOperation):
            name, param, exp = expected_dma(op)
        else:
            name, param, exp = expected_block_op(op, accelerator, with_shram)
        if ev.name != name or ev.param != param:
            probs.append(f"op {idx}: emitted {ev.name}({ev.param}) but expected {name}({param})")
        for reg, want in exp.items():
            mask = None
            if isinstance(want, tuple):
                want, mask = want
            got = ev.regs.get(reg)
            if got is None:
                probs.append(f"op {idx} {name}: register {reg} never written (expected {want})")
                continue
            if mask is not None:
                got &= mask
                want &= mask
            if got != want:
                probs.append(f"op {idx} {name}: {reg} = {got} ({got:#x}) but the operation needs {want} ({want:#x})")
        if with_scaling and not isinstance(op, NpuDmaOperation):
            probs += [f"op {idx} {name}: {p}" for p in check_scaling(op, ev.regs)]
        probs += [f"op {idx} {name}: accepted although {p}" for p in check_alignment_rules(op, accelerator)]
    if with_waits:
        probs += check_waits(ops, events, accelerator)
    if HW[accelerator]["u65"]:
        for ev in events:
            if ev.regs.get("NPU_SET_PARALLEL_MODE") != HW[accelerator]["cores"] - 1:
                probs.append("PARALLEL_MODE not set to cores - 1")
                break
    return probs

"""
Observation 3 (unmodified tree): the number of bytes a DMA operation transfers is src.length (NPU_SET_DMA0_LEN, and
check_dma_op validates src.length), but the memory that the DMA is recorded as *writing* for the wait calculation is
(dest.address, dest.length) (get_dma_memory_accesses). If dest.length is smaller than src.length (nothing checks that the
two agree; dest.length is otherwise unused) a following operation that reads the tail of the transferred data is started
without NPU_OP_DMA_WAIT: the wait that must precede the operation it guards is missing.
Prints OBSERVED and exits 1 if the wait is missing.
"""
import os
import sys

sys.path.insert(0, os.getcwd())
sys.path.insert(0, os.path.dirname(os.path.abspath(__file__)))

import c06_oracle as O  # noqa: E402
from ethosu.vela.api import *  # noqa: E402,F401,F403
from ethosu.vela.api import npu_generate_register_command_stream  # noqa: E402


def fm(shape, region, address):
    f = NpuFeatureMap()
    f.data_type = NpuDataType.INT8
    f.shape = shape
    f.region = region
    f.quantization = NpuQuantization(1.0, 0)
    f.tiles = NpuTileBox(height_0=shape.height, height_1=shape.height, width_0=shape.width, addresses=[address, 0, 0, 0])
    return f


def conv(weights):
    op = NpuConv2DOperation()
    op.ifm = fm(NpuShape3D(8, 8, 16), 1, 0x10000)
    op.ofm = fm(NpuShape3D(8, 8, 16), 1, 0x20000)
    op.kernel = NpuKernel(1, 1)
    op.padding = NpuPadding(0, 0, 0, 0)
    op.weights = [weights]
    op.biases = [NpuAddressRange(0, 0x100, 160)]
    op.block_config = NpuShape3D(4, 4, 16)
    return op


acc = NpuAccelerator.Ethos_U55_128
# 1024 bytes are copied to region 1, 0x1000..0x1400; the destination range says 16 bytes
dma = NpuDmaOperation(NpuAddressRange(0, 0x4000, 1024), NpuAddressRange(1, 0x1000, 16))
op = conv(NpuAddressRange(1, 0x1200, 256))  # weights inside the copied data
words = npu_generate_register_command_stream([dma, op], acc)
events, problems = O.decode(words)
print("DMA0_LEN =", events[0].regs["NPU_SET_DMA0_LEN"], "waits before the convolution:", events[1].waits)
probs = O.check_waits([dma, op], events, acc)
if probs:
    print("OBSERVED:", probs)
    sys.exit(1)
print("not observed")

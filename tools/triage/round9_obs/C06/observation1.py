"""
Observation 1 (unmodified tree): an INT32 binary elementwise operation with an IFM2 scalar whose quantised value does
not fit the 16-bit NPU_SET_IFM2_SCALAR register is accepted and the value is silently truncated to its low 16 bits.

generate_elementwise_op only asserts that the quantised scalar is within the range of the IFM2 *data type* (for INT32
that is +-2^31); cmd0_with_param then masks the parameter with 0xFFFF. The stream decodes to a different scalar than the
operation it was given ("every field fits its register without truncation" is violated).
Prints OBSERVED and exits 1 if the truncation happens.
"""
import os
import sys

sys.path.insert(0, os.getcwd())
sys.path.insert(0, os.path.dirname(os.path.abspath(__file__)))

import c06_oracle as O  # noqa: E402
from ethosu.vela.api import *  # noqa: E402,F401,F403
from ethosu.vela.api import npu_find_block_configs, npu_generate_register_command_stream  # noqa: E402


def fm(shape, region, address, dtype):
    f = NpuFeatureMap()
    f.data_type = dtype
    f.shape = shape
    f.region = region
    f.quantization = NpuQuantization(1.0, 0)
    f.tiles = NpuTileBox(height_0=shape.height, height_1=shape.height, width_0=shape.width, addresses=[address, 0, 0, 0])
    return f


op = NpuElementWiseOperation(NpuElementWiseOp.ADD)
shape = NpuShape3D(4, 4, 8)
op.ifm = fm(shape, 1, 0, NpuDataType.INT32)
op.ofm = fm(shape, 1, 0x1000, NpuDataType.INT32)
op.ifm2 = NpuFeatureMap()
op.ifm2.data_type = NpuDataType.INT32
op.ifm2.shape = NpuShape3D(1, 1, 1)
op.ifm2.quantization = NpuQuantization(1.0, 0)
op.ifm2_scalar = 100000.0  # needs 18 bits
acc = NpuAccelerator.Ethos_U55_128
op.block_config = npu_find_block_configs(op, acc)[0]
words = npu_generate_register_command_stream([op], acc)
events, problems = O.decode(words)
got = events[0].regs["NPU_SET_IFM2_SCALAR"]
print(f"ifm2_scalar of the operation: {int(op.ifm2_scalar)}; NPU_SET_IFM2_SCALAR in the stream: {got} ({got:#x})")
if got != int(op.ifm2_scalar):
    print("OBSERVED: scalar silently truncated to 16 bits (100000 & 0xFFFF = 34464, i.e. -31072 as int16)")
    sys.exit(1)
print("not observed")

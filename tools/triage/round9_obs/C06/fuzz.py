"""Random exploration of npu_generate_register_command_stream against the reference model in c06_oracle.py"""
import os
import random
import sys
import traceback

sys.path.insert(0, os.getcwd())
sys.path.insert(0, os.path.dirname(os.path.abspath(__file__)))

import c06_oracle as O  # noqa: E402
from ethosu.vela.api import *  # noqa: E402,F401,F403
from ethosu.vela.api import npu_find_block_configs  # noqa: E402
from ethosu.vela.api import npu_generate_register_command_stream  # noqa: E402
from ethosu.vela.errors import VelaError  # noqa: E402
from ethosu.vela.operation import ExplicitScaling  # noqa: E402

ACCS = list(NpuAccelerator)


def rnd_quant(rng, dtype, allow_none=True):
    r = rng.random()
    if allow_none and r < 0.07:
        return None
    if allow_none and r < 0.12:
        return NpuQuantization(None, 0)
    scale = rng.choice([1.0, 0.5, 0.25, 2.0**-7, 0.007843138, 0.20392157, 0.0039, 0.1, 0.05, 1.5, 3.0, 2.0**-11, 2.0**-12])
    if rng.random() < 0.3:
        scale = float(2.0 ** rng.uniform(-14, 3))
    if dtype in (NpuDataType.INT16, NpuDataType.INT32):
        zp = 0
    elif dtype == NpuDataType.INT8:
        zp = rng.randint(-128, 127)
    else:
        zp = rng.randint(0, 255)
    return NpuQuantization(scale, zp)


class Mem:
    """Simple bump allocator per region so that feature maps do not overlap unless wanted"""

    def __init__(self, rng, u65):
        self.rng = rng
        self.next = {}
        self.u65 = u65

    def alloc(self, region, size, align=16):
        base = self.next.get(region)
        if base is None:
            base = self.rng.choice([0, 0x40, 0x1000, 0x10000])
            if self.u65 and self.rng.random() < 0.15:
                base = (1 << 32) + 0x100 * self.rng.randint(0, 1 << 20)
        base = O.round_up(base, align)
        self.next[region] = base + size + self.rng.choice([0, 0, 16, 48, 1024])
        return base


def make_fm(rng, mem, shape, dtype, layout=None, region=None, quant="rnd", tiles=True):
    fm = NpuFeatureMap()
    fm.data_type = dtype
    fm.shape = shape
    fm.layout = layout if layout is not None else rng.choice([NpuLayout.NHWC, NpuLayout.NHCWB16])
    fm.region = rng.randint(0, 7) if region is None else region
    fm.quantization = rnd_quant(rng, dtype) if quant == "rnd" else quant
    es = dtype.size_in_bytes()
    h, w, c = shape
    if rng.random() < 0.15 and fm.layout == NpuLayout.NHWC:
        # explicit (padded) strides
        sx = (c + rng.randint(0, 3)) * es
        sy = (w + rng.randint(0, 2)) * sx
        fm.strides = NpuShape3D(height=sy, width=sx, depth=es)
    sc, sy, sx = O.ref_strides(fm)
    al = 16 if fm.layout == NpuLayout.NHCWB16 else es

    def tile_size(rows, cols):
        if fm.layout == NpuLayout.NHWC:
            return rows * sy + cols * sx + 64
        return rows * sy + O.ceil_div(c, 16) * sc + cols * 16 * es + 64

    kind = rng.random() if tiles else 1.0
    if kind < 0.12 and h > 1:
        h0 = rng.randint(1, h - 1)
        a0 = mem.alloc(fm.region, tile_size(h0, w), 16)
        a2 = mem.alloc(fm.region, tile_size(h - h0, w), 16)
        fm.tiles = NpuTileBox(height_0=h0, height_1=h0, width_0=w, addresses=[a0, 0, a2, 0])
    elif kind < 0.2 and w > 1:
        w0 = rng.randint(1, w - 1)
        a0 = mem.alloc(fm.region, tile_size(h, w0), 16)
        a1 = mem.alloc(fm.region, tile_size(h, w - w0), 16)
        fm.tiles = NpuTileBox(height_0=h, height_1=h, width_0=w0, addresses=[a0, a1, 0, 0])
    elif kind < 0.27 and w > 1 and h > 2:
        w0 = rng.randint(1, w - 1)
        h0 = rng.randint(1, h - 1)
        h1 = rng.randint(1, h - 1)
        a = [
            mem.alloc(fm.region, tile_size(h0, w0), 16),
            mem.alloc(fm.region, tile_size(h1, w - w0), 16),
            mem.alloc(fm.region, tile_size(h - h0, w0), 16),
            mem.alloc(fm.region, tile_size(h - h1, w - w0), 16),
        ]
        fm.tiles = NpuTileBox(height_0=h0, height_1=h1, width_0=w0, addresses=a)
    else:
        a0 = mem.alloc(fm.region, tile_size(h, w), 16 if rng.random() < 0.7 else al)
        h1 = rng.choice([h, h, 0]) if rng.random() < 0.3 else h
        fm.tiles = NpuTileBox(height_0=h, height_1=h1, width_0=w, addresses=[a0, 0, 0, 0])
    return fm


def rnd_activation(rng, ofm):
    r = rng.random()
    if r < 0.35:
        return None
    if r < 0.7:
        act = NpuActivation(NpuActivationOp.NONE_OR_RELU)
        if rng.random() < 0.7:
            act.min = rng.choice([0.0, -1.0, 0.5, -0.5, -6.0, 1.5, 2.5, -2.5])
        if rng.random() < 0.6:
            act.max = rng.choice([6.0, 1.0, 0.5, 127.0, 2.5, 3.5, 1000.0, 100000.0])
        return act
    if r < 0.8:
        return NpuActivation(NpuActivationOp.TANH)
    if r < 0.9:
        return NpuActivation(NpuActivationOp.SIGMOID)
    act = NpuActivation(NpuActivationOp.TABLE_LOOKUP)
    act.lookup_table_index = rng.randint(0, 7)
    return act


def rnd_ranges(rng, mem, cores, size_choices=(16, 64, 208, 960, 7696)):
    n = rng.choice([1, cores])
    region = rng.randint(0, 7)
    res = []
    for _ in range(n):
        ln = rng.choice(size_choices)
        res.append(NpuAddressRange(region, mem.alloc(region, ln, 16), ln))
    return res


def rnd_dtype_conv(rng):
    return rng.choice([NpuDataType.UINT8, NpuDataType.INT8, NpuDataType.INT16])


def rnd_kernel(rng, pooling=False):
    w = rng.randint(1, 8 if rng.random() < 0.9 else 20)
    h = rng.randint(1, 8 if rng.random() < 0.9 else 20)
    sx = rng.choice([1, 1, 2, 3])
    sy = rng.choice([1, 1, 2, 3])
    dx = 1 if pooling else rng.choice([1, 1, 2])
    dy = 1 if pooling else rng.choice([1, 1, 2])
    return NpuKernel(w, h, sx, sy, dx, dy)


def conv_like(rng, mem, acc, kind):
    cores = O.HW[acc]["cores"]
    dtype = rnd_dtype_conv(rng)
    k = rnd_kernel(rng, pooling=(kind == "pool"))
    oh, ow = rng.randint(1, 20), rng.randint(1, 20)
    oc = rng.choice([1, 3, 8, 16, 17, 32, 46, 64, 96])
    upscale = rng.choice([NpuResamplingMode.NONE] * 6 + [NpuResamplingMode.NEAREST, NpuResamplingMode.TRANSPOSE])
    kw = (k.width - 1) * k.dilation_x + 1
    kh = (k.height - 1) * k.dilation_y + 1
    pt, pl = rng.randint(0, kh - 1) if rng.random() < 0.5 else 0, rng.randint(0, kw - 1) if rng.random() < 0.5 else 0
    pb, pr = rng.randint(0, kh - 1) if rng.random() < 0.5 else 0, rng.randint(0, kw - 1) if rng.random() < 0.5 else 0
    ih = max(1, (oh - 1) * k.stride_y + kh - pt - pb)
    iw = max(1, (ow - 1) * k.stride_x + kw - pl - pr)
    if upscale != NpuResamplingMode.NONE:
        ih, iw = max(1, (ih + 1) // 2), max(1, (iw + 1) // 2)
    if kind == "conv":
        op = NpuConv2DOperation()
        ic = rng.choice([1, 3, 8, 16, 24, 32, 46, 64])
        op.block_traversal = rng.choice(list(NpuBlockTraversal))
    elif kind == "dw":
        op = NpuConvDepthWiseOperation()
        ic = oc
    else:
        sub = rng.choice(list(NpuPoolingOp))
        op = NpuPoolingOperation(sub)
        ic = oc
        if sub == NpuPoolingOp.REDUCE_SUM:
            ic = rng.choice([1, 3, 8, 16, 24, 32, 46])
            oc = 1
            if rng.random() < 0.3:
                dtype = NpuDataType.INT32
        r = rng.random()
        if r < 0.1:
            op.rescale = rng.choice([1.0, 2.0, 0.5, 3.3])
        elif r < 0.2:
            op.rescale = ExplicitScaling(False, [rng.randint(0, 40)], [rng.randint(1, (1 << 31) - 1)])
        elif r < 0.3:
            op.fused_quantize = True
    ifm_layout = None
    if kind == "pool" and op.sub_op_type == NpuPoolingOp.REDUCE_SUM:
        ifm_layout = NpuLayout.NHWC
    op.ifm = make_fm(rng, mem, NpuShape3D(ih, iw, ic), dtype, layout=ifm_layout)
    odtype = dtype
    if kind == "pool" and op.sub_op_type == NpuPoolingOp.REDUCE_SUM:
        odtype = rng.choice([NpuDataType.INT32, dtype])
    op.ofm = make_fm(rng, mem, NpuShape3D(oh, ow, oc), odtype)
    if kind == "pool":
        if op.fused_quantize or (op.activation is not None):
            pass
        if op.fused_quantize:
            op.ifm.quantization = rnd_quant(rng, dtype, allow_none=False)
            op.ofm.quantization = rnd_quant(rng, odtype, allow_none=False)
    op.kernel = k
    op.padding = NpuPadding(pt, pl, pb, pr)
    op.ifm_upscale = upscale
    op.rounding_mode = rng.choice(list(NpuRoundingMode))
    if kind != "pool":
        op.weights = rnd_ranges(rng, mem, cores)
        if rng.random() < 0.9:
            op.biases = rnd_ranges(rng, mem, cores, (16, 80, 160, 464, 960))
    op.activation = rnd_activation(rng, op.ofm)
    if op.activation is not None and op.activation.op_type in (NpuActivationOp.TANH, NpuActivationOp.SIGMOID):
        if op.ifm.quantization is None or op.ifm.quantization.scale_f32 is None:
            op.ifm.quantization = rnd_quant(rng, dtype, allow_none=False)
    return op


def elementwise(rng, mem, acc):
    sub = rng.choice(list(NpuElementWiseOp))
    op = NpuElementWiseOperation(sub)
    if sub in (NpuElementWiseOp.CLZ, NpuElementWiseOp.SHL, NpuElementWiseOp.SHR):
        dtype = NpuDataType.INT32
    else:
        dtype = rng.choice([NpuDataType.UINT8, NpuDataType.INT8, NpuDataType.INT16, NpuDataType.INT32])
    h, w, c = rng.randint(1, 20), rng.randint(1, 20), rng.choice([1, 3, 8, 16, 17, 32, 46])
    op.ifm = make_fm(rng, mem, NpuShape3D(h, w, c), dtype)
    odtype = dtype
    op.ofm = make_fm(rng, mem, NpuShape3D(h, w, c), odtype)
    if sub in (NpuElementWiseOp.LRELU, NpuElementWiseOp.ABS):
        op.ofm.quantization = rnd_quant(rng, odtype, allow_none=False)
    if O.is_binary(op):
        if rng.random() < 0.3:
            op.ifm2 = NpuFeatureMap()
            op.ifm2.data_type = dtype
            op.ifm2.quantization = rnd_quant(rng, dtype)
            op.ifm2.shape = NpuShape3D(1, 1, 1)
            q = op.ifm2.quantization
            scale = 1.0 if q is None or q.scale_f32 is None else q.scale_f32
            zp = 0 if q is None else q.zero_point
            # pick a scalar that is representable
            qv = rng.randint(dtype.min_value() if dtype != NpuDataType.INT32 else -30000, min(dtype.max_value(), 30000))
            op.ifm2_scalar = float((qv - zp) * scale) if rng.random() < 0.8 else float((qv - zp) * scale + 0.5 * scale)
            import numpy as np

            got = O.ref_quantise(op.ifm2_scalar, q)
            if not (dtype.min_value() <= got <= dtype.max_value()) or not (-32768 <= got <= 65535):
                op.ifm2_scalar = float(-zp * scale)
        else:
            sh = NpuShape3D(
                h if rng.random() < 0.7 else 1, w if rng.random() < 0.7 else 1, c if rng.random() < 0.7 else 1
            )
            op.ifm2 = make_fm(rng, mem, sh, dtype)
        op.reversed_operands = rng.random() < 0.3
        if sub in (NpuElementWiseOp.ADD, NpuElementWiseOp.SUB, NpuElementWiseOp.MUL) and rng.random() < 0.15:
            op.rescale = (rng.randint(1, (1 << 31) - 1), rng.randint(0, 40))
        if rng.random() < 0.3 and op.ifm.quantization is not None:
            op.ifm2.quantization = op.ifm.quantization if dtype != NpuDataType.UINT8 else op.ifm.quantization
    op.rounding_mode = rng.choice(list(NpuRoundingMode))
    op.activation = rnd_activation(rng, op.ofm)
    return op


def rnd_dma(rng, mem, acc, ops):
    u65 = O.HW[acc]["u65"]
    ln = rng.choice([16, 96, 208, 1024, 2048])
    # with some probability aim at a range used by one of the other operations
    targets = []
    for op in ops:
        if isinstance(op, NpuDmaOperation):
            continue
        for r in op.weights + op.biases:
            targets.append(r)
        for fm in (op.ifm, op.ofm):
            a = fm.tiles.addresses[0]
            targets.append(NpuAddressRange(fm.region, a - a % 16, 256))
    if targets and rng.random() < 0.6:
        t = rng.choice(targets)
        dest = NpuAddressRange(t.region, t.address, O.round_up(max(16, min(t.length, 2048)), 16))
        ln = dest.length
    elif rng.random() < 0.2:
        lut_banks = max(2, 2 if O.HW[acc]["banks"] > 16 else 0)
        dest = NpuAddressRange(O.MEM2MEM, (O.HW[acc]["banks"] - lut_banks) * 1024 + 256 * rng.randint(0, 7), 256)
        ln = 256
    else:
        region = rng.randint(0, 7)
        dest = NpuAddressRange(region, mem.alloc(region, ln, 16), ln)
    if targets and rng.random() < 0.3:
        t = rng.choice(targets)
        src = NpuAddressRange(t.region, t.address, ln)
    else:
        sregion = rng.randint(0, 7)
        src = NpuAddressRange(sregion, mem.alloc(sregion, ln, 16), ln)
    return NpuDmaOperation(src, dest)


def make_ops(rng, acc):
    mem = Mem(rng, O.HW[acc]["u65"])
    n = rng.randint(1, 6)
    ops = []
    for _ in range(n):
        r = rng.random()
        if r < 0.22:
            op = conv_like(rng, mem, acc, "conv")
        elif r < 0.38:
            op = conv_like(rng, mem, acc, "dw")
        elif r < 0.58:
            op = conv_like(rng, mem, acc, "pool")
        elif r < 0.82:
            op = elementwise(rng, mem, acc)
        else:
            op = None
        ops.append(op)
    # reuse feature maps between neighbours sometimes (ofm of i -> ifm of i+1 when shapes permit is too restrictive;
    # just share memory of some feature maps to create dependencies)
    ops = [op for op in ops]
    res = []
    for op in ops:
        if op is None:
            res.append(None)
        else:
            res.append(op)
    real = [op for op in res if op is not None]
    out = []
    for op in res:
        if op is None:
            out.append(rnd_dma(rng, mem, acc, real))
        else:
            out.append(op)
    return out


def pick_block_config(rng, op, acc):
    cfgs = npu_find_block_configs(op, acc)
    return rng.choice(cfgs)


def run_one(seed, verbose=False):
    rng = random.Random(seed)
    acc = rng.choice(ACCS)
    ops = make_ops(rng, acc)
    for op in ops:
        if not isinstance(op, NpuDmaOperation):
            try:
                op.block_config = pick_block_config(rng, op, acc)
            except AssertionError:
                return None, None, None, "noblock"
    try:
        words = npu_generate_register_command_stream(ops, acc)
    except VelaError as e:
        return acc, ops, None, f"VelaError {e}"
    except AssertionError as e:
        return acc, ops, None, f"AssertionError {e} {traceback.format_exc(limit=3)}"
    probs = O.check_stream(ops, acc, words)
    return acc, ops, words, probs


def describe(op):
    if isinstance(op, NpuDmaOperation):
        return f"DMA {op.src} -> {op.dest}"
    s = type(op).__name__
    if hasattr(op, "sub_op_type"):
        s += f"/{op.sub_op_type.name}"
    for nm in ("ifm", "ifm2", "ofm"):
        fm = getattr(op, nm)
        if fm is not None:
            s += f"\n     {nm}: {fm.shape} {fm.data_type} {fm.layout} r{fm.region} {fm.tiles} q={fm.quantization} strides={fm.strides}"
    s += f"\n     scalar={op.ifm2_scalar} kernel={None if op.kernel is None else vars(op.kernel)} pad={op.padding} blk={op.block_config}"
    s += f" act={None if op.activation is None else vars(op.activation)} upscale={op.ifm_upscale.name} rounding={op.rounding_mode.name}"
    s += f" rescale={getattr(op, 'rescale', None)} fq={op.fused_quantize} rev={getattr(op, 'reversed_operands', None)}"
    s += f"\n     weights={op.weights} biases={op.biases}"
    if isinstance(op, NpuConv2DOperation):
        s += f" trav={op.block_traversal.name}"
    return s


if __name__ == "__main__":
    start = int(sys.argv[1]) if len(sys.argv) > 1 else 0
    count = int(sys.argv[2]) if len(sys.argv) > 2 else 1000
    from collections import Counter

    stats = Counter()
    shown = Counter()
    for seed in range(start, start + count):
        try:
            acc, ops, words, probs = run_one(seed)
        except Exception:
            print("SEED", seed, "crashed in harness/generator:")
            traceback.print_exc(limit=6)
            stats["crash"] += 1
            continue
        if isinstance(probs, str):
            stats[probs.split()[0]] += 1
            key = probs[:60]
            if shown[key] < 2 and not probs.startswith("noblock"):
                shown[key] += 1
                print("SEED", seed, acc, probs[:300])
            continue
        if probs:
            stats["violations"] += 1
            import re

            key = re.sub(r"[0-9]+", "N", probs[0])[:80]
            if shown[key] < 3:
                shown[key] += 1
                print("SEED", seed, acc)
                for p in probs[:6]:
                    print("   ", p)
                if os.environ.get("FUZZ_VERBOSE"):
                    for i, op in enumerate(ops):
                        print("  ", i, describe(op))
        else:
            stats["ok"] += 1
    print(dict(stats))

"""
Observation 2 (unmodified tree): a feature map that uses a single tile and follows the documentation of the public API
(api.py, NpuTileBox: "height_1: The height of tile 1, 0 if unused"; NpuFeatureMap: "In the normal case when only 1
tile is used, height_0 == self.shape.height, height_1 is 0, width_0 == self.shape.width") makes generate_tiles emit
tiles.height_1 - 1 = -1, which cmd0_with_param masks to 0xFFFF: NPU_SET_IFM_HEIGHT1_M1 / NPU_SET_OFM_HEIGHT1_M1 = 65535
(tile 1 height 65536). A negative value is truncated into the register instead of being rejected or written as 0.
Prints OBSERVED and exits 1 if that happens.
"""
import os
import sys

sys.path.insert(0, os.getcwd())
sys.path.insert(0, os.path.dirname(os.path.abspath(__file__)))

import c06_oracle as O  # noqa: E402
from ethosu.vela.api import *  # noqa: E402,F401,F403
from ethosu.vela.api import npu_find_block_configs, npu_generate_register_command_stream  # noqa: E402


def fm(shape, region, address):
    f = NpuFeatureMap()
    f.data_type = NpuDataType.INT8
    f.shape = shape
    f.region = region
    f.quantization = NpuQuantization(1.0, 0)
    # exactly as documented for the one-tile case
    f.tiles = NpuTileBox(height_0=shape.height, height_1=0, width_0=shape.width, addresses=[address, 0, 0, 0])
    return f


op = NpuPoolingOperation(NpuPoolingOp.MAX)
op.ifm = fm(NpuShape3D(8, 8, 16), 1, 0)
op.ofm = fm(NpuShape3D(4, 4, 16), 1, 0x1000)
op.kernel = NpuKernel(2, 2, 2, 2)
op.padding = NpuPadding(0, 0, 0, 0)
acc = NpuAccelerator.Ethos_U55_128
op.block_config = npu_find_block_configs(op, acc)[0]
words = npu_generate_register_command_stream([op], acc)
events, problems = O.decode(words)
regs = events[0].regs
print("IFM_HEIGHT1_M1 =", regs["NPU_SET_IFM_HEIGHT1_M1"], " OFM_HEIGHT1_M1 =", regs["NPU_SET_OFM_HEIGHT1_M1"])
if regs["NPU_SET_IFM_HEIGHT1_M1"] == 0xFFFF or regs["NPU_SET_OFM_HEIGHT1_M1"] == 0xFFFF:
    print("OBSERVED: height_1 = 0 (documented value for an unused tile) is encoded as -1 & 0xFFFF = 65535")
    sys.exit(1)
print("not observed")

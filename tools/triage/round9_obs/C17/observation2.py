"""Observation 2 (unmodified tree, adjacent to C17: where the command stream tensors are in the output file).
With --enable-debug-db and a model that is split into two (or more) Ethos-U operators, the 'cmdstream' table of
<model>_debug.xml records the file offsets of the command stream tensors against the wrong streams:
vela.process() pairs stream id k with the k-th SMALLEST file offset (enumerate(sorted(file_offsets))), but the
flatbuffer is written back to front, so the command stream of the first Ethos-U operator is at the LARGER offset.
The payloads themselves are framed correctly.

Run: cd /tmp/seed9/C17 && /venv/bin/python out/observation2.py   (exit 1 == the inconsistency is present)
"""
import os
import re
import sys

sys.path.insert(0, os.getcwd())
sys.path.insert(0, os.path.dirname(os.path.abspath(__file__)))

import c17_common as c  # noqa: E402


def main():
    accel = "ethos-u55-128"
    model = c.model_npu_cpu_npu(n_first=1, n_second=2)  # ADD | ROUND (CPU) | ADD ADD  -> main_split_1, main_split_2
    rc, path, log = c.quiet_run_vela(model, accel, ["--enable-debug-db"])
    assert rc == 0 and path, log
    problems, tensors = c.check_output_tflite(path, accel)
    assert not problems, problems
    # stream ids are handed out in the order in which the NPU subgraphs are compiled: main_split_1 -> 0, main_split_2 -> 1
    actual = {int(re.search(r"_split_(\d+)_", name).group(1)) - 1: off for name, shape, off, data in tensors}
    xml = open(path.replace("_vela.tflite", "_debug.xml")).read()
    table = re.search(r'<table name="cmdstream"><!\[CDATA\[(.*?)\]\]>', xml, re.S).group(1).strip().splitlines()[1:]
    recorded = {int(r.split(",")[0]): int(r.split(",")[1]) for r in table}
    print("file offsets of the command stream data  :", actual)
    print("file offsets recorded in the debug database:", recorded)
    if recorded != actual:
        print("INCONSISTENT: the debug database attributes the command streams to the wrong file offsets")
        return 1
    print("consistent")
    return 0


if __name__ == "__main__":
    sys.exit(main())

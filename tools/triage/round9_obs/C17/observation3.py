"""Observation 3 (unmodified tree): no output model - hence no command stream tensor - is produced for a model that
already contains an Ethos-U operator (Vela supports those: CustomType.ExistingNpuOp, see mark_tensors.py) AND still has
operators that Vela places on the NPU.  The old and the new Ethos-U operator each bring a tensor with purpose Scratch
and TFLiteSerialiser.serialise_subgraph stops with "AssertionError: Multiple scratch tensors" (an uncaught exception, not
a VelaError).  A model that only contains the already compiled operator (nothing new to offload) is passed through
correctly, its command stream tensor byte for byte.

Run: cd /tmp/seed9/C17 && /venv/bin/python out/observation3.py   (exit 1 == the failure is present)
"""
import os
import sys

sys.path.insert(0, os.getcwd())
sys.path.insert(0, os.path.dirname(os.path.abspath(__file__)))

import c17_common as c  # noqa: E402


def main():
    accel = "ethos-u55-128"
    rc, path, log = c.quiet_run_vela(c.model_add_chain(2), accel)
    assert rc == 0 and path
    with open(path, "rb") as f:
        compiled = f.read()
    problems, first = c.check_output_tflite(path, accel)
    assert not problems
    # 1. pass through: recompile the compiled model as it is
    rc, path2, log = c.quiet_run_vela(compiled, accel)
    problems2, second = c.check_output_tflite(path2, accel)
    print("recompiling the compiled model: rc", rc, "problems", problems2, "payload preserved:", first[0][3] == second[0][3])
    # 2. the compiled model followed by two more int8 ADD operators
    extended = c.extend_compiled_model(compiled, n_new=2)
    try:
        rc, path3, log = c.quiet_run_vela(extended, accel)
    except AssertionError as e:
        print("compiled model + 2 new ADDs: AssertionError:", e)
        return 1
    problems3, third = c.check_output_tflite(path3, accel)
    print("compiled model + 2 new ADDs: rc", rc, "problems", problems3, [(n, s) for n, s, o, d in third])
    return 1 if problems3 or rc else 0


if __name__ == "__main__":
    sys.exit(main())

"""Observation 4 (unmodified tree, borderline / probably by design): a model that already contains an Ethos-U operator
is passed through unchanged even when it is (re)compiled for a different accelerator: the written model then contains a
command stream tensor whose configuration action does not match the accelerator given on the command line, and Vela
neither rejects the model nor warns about the mismatch.

Run: cd /tmp/seed9/C17 && /venv/bin/python out/observation4.py   (exit 1 == mismatch present)
"""
import os
import sys

sys.path.insert(0, os.getcwd())
sys.path.insert(0, os.path.dirname(os.path.abspath(__file__)))

import c17_common as c  # noqa: E402


def main():
    rc, path, log = c.quiet_run_vela(c.model_add_chain(2), "ethos-u55-128")
    assert rc == 0 and path
    with open(path, "rb") as f:
        compiled = f.read()
    rc, path2, log = c.quiet_run_vela(compiled, "ethos-u65-512")
    print("recompiling an ethos-u55-128 model with --accelerator-config ethos-u65-512: rc", rc)
    print("mentions of a mismatch in the log:", [ln for ln in log.splitlines() if "accelerator" in ln.lower() or "mismatch" in ln.lower()])
    problems, tensors = c.check_output_tflite(path2, "ethos-u65-512")
    for p in problems:
        print("  ", p)
    return 1 if problems else 0


if __name__ == "__main__":
    sys.exit(main())

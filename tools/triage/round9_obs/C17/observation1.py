"""Observation 1 (unmodified tree): the public API npu_create_driver_payload only enforces the driver limit (2^24 words =
64 MiB).  A command stream of 16 MiB or more - beyond the hardware limit that register_command_stream_generator.
generate_command_stream enforces ("exceeds the hardware limit of 16 MiB", emit.size_in_bytes() >= 1 << 24) - is accepted
and framed without any error when it is handed to the payload API directly (the API is documented for streams that an
external consumer generated or post-processed itself).  The property says: "Streams beyond the hardware or driver size
limit are rejected with an error."

Run: cd /tmp/seed9/C17 && /venv/bin/python out/observation1.py   (exit 1 == the violation is present)
"""
import os
import sys

sys.path.insert(0, os.getcwd())
sys.path.insert(0, os.path.dirname(os.path.abspath(__file__)))

import c17_common as c  # noqa: E402
from ethosu.vela.api import npu_create_driver_payload, NpuAccelerator  # noqa: E402

HW_LIMIT_BYTES = 1 << 24  # 16 MiB: command stream size that generate_command_stream refuses


def main():
    bad = []
    for n_words in (HW_LIMIT_BYTES // 4 - 1, HW_LIMIT_BYTES // 4, HW_LIMIT_BYTES // 4 + 1, 3 * HW_LIMIT_BYTES // 4):
        words = [0x00010000] * n_words
        beyond = 4 * n_words >= HW_LIMIT_BYTES
        try:
            payload = npu_create_driver_payload(words, NpuAccelerator.Ethos_U55_128)
            problems = c.check_payload(payload, "ethos-u55-128", words)
            print(f"{n_words} words ({4 * n_words / 2**20:.2f} MiB): accepted, framing problems: {problems}")
            if beyond:
                bad.append(n_words)
        except Exception as e:  # noqa: BLE001
            print(f"{n_words} words: rejected with {type(e).__name__}")
    if bad:
        print("VIOLATION: streams beyond the 16 MiB hardware limit were accepted:", bad)
        return 1
    print("no violation")
    return 0


if __name__ == "__main__":
    sys.exit(main())

"""Helpers shared by the C17 demos / observations.

 * an independent oracle for the driver payload layout (written from the Ethos-U driver's point of view)
 * a tiny TensorFlow Lite flatbuffer builder (uses the generated schema classes only)
 * helpers that run the Vela command line driver in-process and pull the command stream tensors out of its outputs
"""
import contextlib
import io
import os
import struct
import sys
import tempfile

import flatbuffers
import numpy as np

ROOT = os.path.dirname(os.path.dirname(os.path.abspath(__file__)))
if ROOT not in sys.path:
    sys.path.insert(0, ROOT)

ACCELERATORS = {
    # name: (product, macs per clock cycle of the whole NPU, SHRAM in KiB of the whole NPU)
    "ethos-u55-32": (0, 32, 16),
    "ethos-u55-64": (0, 64, 16),
    "ethos-u55-128": (0, 128, 24),
    "ethos-u55-256": (0, 256, 48),
    "ethos-u65-256": (1, 256, 48),
    "ethos-u65-512": (1, 512, 96),
}
ARCH_VERSION = (1, 0, 6)

DA_CONFIG = 0x01
DA_CMDSTREAM = 0x02
DA_NOP = 0x05


def expected_config_words(accel_name):
    product, macs, shram_kb = ACCELERATORS[accel_name]
    log2_macs = macs.bit_length() - 1
    assert 1 << log2_macs == macs
    config = log2_macs | (0 << 4) | (shram_kb << 8) | (product << 28)
    major, minor, patch = ARCH_VERSION
    idw = (patch << 16) | (minor << 20) | (major << 28)
    return config, idw


def check_payload(payload, accel_name, words=None, what="payload"):
    """Walks the payload the way the driver does.  Returns a list of problems (empty list == fine)."""
    problems = []
    payload = bytes(payload)
    if len(payload) % 4 != 0:
        return [f"{what}: length {len(payload)} is not a whole number of 32-bit words"]
    if payload[:4] != b"COP1":
        return [f"{what}: does not start with the COP1 tag but with {payload[:4]!r}"]
    n = len(payload) // 4
    w = struct.unpack(f"<{n}I", payload)
    pos = 1
    seen_config = False
    stream = None
    while pos < n:
        word = w[pos]
        cmd, reserved, param = word & 0xFF, (word >> 8) & 0xFF, word >> 16
        if cmd == DA_CONFIG:
            if pos + 2 >= n:
                return problems + [f"{what}: truncated configuration action"]
            exp_cfg, exp_id = expected_config_words(accel_name)
            if w[pos + 1] != exp_cfg:
                problems.append(
                    f"{what}: configuration word 0x{w[pos + 1]:08x} does not describe {accel_name} "
                    f"(expected 0x{exp_cfg:08x}: product/macs/shram)"
                )
            if w[pos + 2] != exp_id:
                problems.append(f"{what}: id word 0x{w[pos + 2]:08x}, expected 0x{exp_id:08x}")
            if reserved != 0 or param != ((1 << 4) | 0):
                problems.append(f"{what}: configuration action tag 0x{word:08x} unexpected")
            seen_config = True
            pos += 3
        elif cmd == DA_NOP:
            if word != DA_NOP:
                problems.append(f"{what}: NOP action with payload 0x{word:08x}")
            pos += 1
        elif cmd == DA_CMDSTREAM:
            length = (reserved << 16) | param
            start = pos + 1
            if (start * 4) % 16 != 0:
                problems.append(f"{what}: command words start at byte offset {start * 4}, not 16-byte aligned")
            if not seen_config:
                problems.append(f"{what}: command stream action before the configuration action")
            if start + length != n:
                problems.append(
                    f"{what}: header declares {length} command words but {n - start} words follow the header"
                )
            stream = w[start : start + length]
            pos = n
        else:
            problems.append(f"{what}: unknown driver action 0x{word:08x} at word {pos}")
            break
    if stream is None:
        problems.append(f"{what}: no command stream action found")
    elif words is not None:
        if list(stream) != list(words):
            first = next((i for i, (a, b) in enumerate(zip(stream, words)) if a != b), min(len(stream), len(words)))
            problems.append(
                f"{what}: command words differ from the given stream (lengths {len(stream)} vs {len(words)}, "
                f"first difference at word {first})"
            )
    return problems


# ----------------------------------------------------------------------------------------------------------------
# tiny TFLite writer
# ----------------------------------------------------------------------------------------------------------------
def build_tflite(tensors, operators, inputs, outputs):
    return build_tflite_multi([dict(name="main", tensors=tensors, operators=operators, inputs=inputs, outputs=outputs)])


def build_tflite_multi(subgraphs):
    """subgraphs: list of dict(name, tensors, operators, inputs, outputs)
    tensors: list of dict(name, shape, dtype(np), data=None|ndarray, scale, zp)
    operators: list of dict(code=BuiltinOperator int, inputs=[..], outputs=[..], options=(BuiltinOptions int, fn(builder)->off)|None)
    """
    from ethosu.vela.tflite import Buffer, Model, Operator, OperatorCode, QuantizationParameters, SubGraph, Tensor
    from ethosu.vela.tflite.TensorType import TensorType

    type_map = {
        np.dtype(np.int8): TensorType.INT8,
        np.dtype(np.uint8): TensorType.UINT8,
        np.dtype(np.int16): TensorType.INT16,
        np.dtype(np.int32): TensorType.INT32,
        np.dtype(np.float32): TensorType.FLOAT32,
        np.dtype(np.bool_): TensorType.BOOL,
    }
    b = flatbuffers.Builder(1024)

    def vec_i32(vals):
        b.StartVector(4, len(vals), 4)
        for v in reversed(vals):
            b.PrependInt32(int(v))
        return b.EndVector()

    def vec_f32(vals):
        b.StartVector(4, len(vals), 4)
        for v in reversed(vals):
            b.PrependFloat32(float(v))
        return b.EndVector()

    def vec_i64(vals):
        b.StartVector(8, len(vals), 8)
        for v in reversed(vals):
            b.PrependInt64(int(v))
        return b.EndVector()

    def vec_off(offs):
        b.StartVector(4, len(offs), 4)
        for o in reversed(offs):
            b.PrependUOffsetTRelative(o)
        return b.EndVector()

    # buffers: 0 is the empty one
    buffer_datas = [None]
    codes = []
    for sg in subgraphs:
        for op in sg["operators"]:
            if op["code"] not in codes:
                codes.append(op["code"])
    sg_offs = []
    for sg in subgraphs:
        tensor_offs = []
        for t in sg["tensors"]:
            if t.get("data") is not None:
                buffer_datas.append(np.ascontiguousarray(t["data"], dtype=t["dtype"]).tobytes())
                buf_idx = len(buffer_datas) - 1
            else:
                buf_idx = 0
            name = b.CreateString(t["name"])
            shape = vec_i32(t["shape"])
            q = None
            if t.get("scale") is not None:
                scales = np.atleast_1d(t["scale"])
                zps = np.atleast_1d(t.get("zp", 0))
                s_off = vec_f32(list(scales))
                z_off = vec_i64(list(zps))
                QuantizationParameters.QuantizationParametersStart(b)
                QuantizationParameters.QuantizationParametersAddScale(b, s_off)
                QuantizationParameters.QuantizationParametersAddZeroPoint(b, z_off)
                q = QuantizationParameters.QuantizationParametersEnd(b)
            Tensor.TensorStart(b)
            Tensor.TensorAddShape(b, shape)
            Tensor.TensorAddType(b, type_map[np.dtype(t["dtype"])])
            Tensor.TensorAddBuffer(b, buf_idx)
            Tensor.TensorAddName(b, name)
            if q is not None:
                Tensor.TensorAddQuantization(b, q)
            tensor_offs.append(Tensor.TensorEnd(b))

        op_offs = []
        for op in sg["operators"]:
            ins = vec_i32(op["inputs"])
            outs = vec_i32(op["outputs"])
            opt = None
            if op.get("options") is not None:
                opt_type, fn = op["options"]
                opt = fn(b)
            Operator.OperatorStart(b)
            Operator.OperatorAddOpcodeIndex(b, codes.index(op["code"]))
            Operator.OperatorAddInputs(b, ins)
            Operator.OperatorAddOutputs(b, outs)
            if opt is not None:
                Operator.OperatorAddBuiltinOptionsType(b, opt_type)
                Operator.OperatorAddBuiltinOptions(b, opt)
            op_offs.append(Operator.OperatorEnd(b))

        t_vec = vec_off(tensor_offs)
        i_vec = vec_i32(sg["inputs"])
        o_vec = vec_i32(sg["outputs"])
        ops_vec = vec_off(op_offs)
        sg_name = b.CreateString(sg.get("name", "main"))
        SubGraph.SubGraphStart(b)
        SubGraph.SubGraphAddTensors(b, t_vec)
        SubGraph.SubGraphAddInputs(b, i_vec)
        SubGraph.SubGraphAddOutputs(b, o_vec)
        SubGraph.SubGraphAddOperators(b, ops_vec)
        SubGraph.SubGraphAddName(b, sg_name)
        sg_offs.append(SubGraph.SubGraphEnd(b))
    sgs_vec = vec_off(sg_offs)

    code_offs = []
    for c in codes:
        OperatorCode.OperatorCodeStart(b)
        OperatorCode.OperatorCodeAddDeprecatedBuiltinCode(b, c if c < 127 else 127)
        OperatorCode.OperatorCodeAddBuiltinCode(b, c)
        OperatorCode.OperatorCodeAddVersion(b, 1)
        code_offs.append(OperatorCode.OperatorCodeEnd(b))
    codes_vec = vec_off(code_offs)

    buf_offs = []
    for data in buffer_datas:
        d_off = None
        if data is not None:
            d_off = b.CreateByteVector(data)
        Buffer.BufferStart(b)
        if d_off is not None:
            Buffer.BufferAddData(b, d_off)
        buf_offs.append(Buffer.BufferEnd(b))
    bufs_vec = vec_off(buf_offs)
    desc = b.CreateString("c17 test model")
    Model.ModelStart(b)
    Model.ModelAddVersion(b, 3)
    Model.ModelAddOperatorCodes(b, codes_vec)
    Model.ModelAddSubgraphs(b, sgs_vec)
    Model.ModelAddDescription(b, desc)
    Model.ModelAddBuffers(b, bufs_vec)
    model = Model.ModelEnd(b)
    b.Finish(model, b"TFL3")
    return bytes(b.Output())


def _add_options(b):
    from ethosu.vela.tflite import AddOptions

    AddOptions.AddOptionsStart(b)
    AddOptions.AddOptionsAddFusedActivationFunction(b, 0)
    return AddOptions.AddOptionsEnd(b)


def _conv_options(b):
    from ethosu.vela.tflite import Conv2DOptions

    Conv2DOptions.Conv2DOptionsStart(b)
    Conv2DOptions.Conv2DOptionsAddPadding(b, 0)  # SAME
    Conv2DOptions.Conv2DOptionsAddStrideW(b, 1)
    Conv2DOptions.Conv2DOptionsAddStrideH(b, 1)
    Conv2DOptions.Conv2DOptionsAddDilationWFactor(b, 1)
    Conv2DOptions.Conv2DOptionsAddDilationHFactor(b, 1)
    Conv2DOptions.Conv2DOptionsAddFusedActivationFunction(b, 0)
    return Conv2DOptions.Conv2DOptionsEnd(b)


def model_add_chain(n_ops=1, shape=(1, 8, 8, 16), seed=1, vary=False):
    """x -> ADD(const) -> ADD(const) ... ; all int8: every operator runs on the NPU.
    vary=True gives every tensor its own quantisation so that the operators need more register writes."""
    from ethosu.vela.tflite.BuiltinOperator import BuiltinOperator
    from ethosu.vela.tflite.BuiltinOptions import BuiltinOptions

    rng = np.random.default_rng(seed)
    tensors = [dict(name="input", shape=list(shape), dtype=np.int8, scale=0.05, zp=0)]
    ops = []
    prev = 0
    for i in range(n_ops):
        tensors.append(
            dict(
                name=f"const{i}",
                shape=list(shape),
                dtype=np.int8,
                data=rng.integers(-100, 100, size=shape),
                scale=float(rng.uniform(0.01, 0.09)) if vary else 0.05,
                zp=int(rng.integers(-20, 20)) if vary else 0,
            )
        )
        c = len(tensors) - 1
        tensors.append(
            dict(
                name=f"act{i}",
                shape=list(shape),
                dtype=np.int8,
                scale=float(rng.uniform(0.05, 0.2)) if vary else 0.1,
                zp=int(rng.integers(-20, 20)) if vary else 0,
            )
        )
        o = len(tensors) - 1
        ops.append(
            dict(code=BuiltinOperator.ADD, inputs=[prev, c], outputs=[o], options=(BuiltinOptions.AddOptions, _add_options))
        )
        prev = o
    return build_tflite(tensors, ops, [0], [prev])


def model_conv(shape=(1, 8, 8, 16), ofm_depth=16, kernel=3, seed=2):
    from ethosu.vela.tflite.BuiltinOperator import BuiltinOperator
    from ethosu.vela.tflite.BuiltinOptions import BuiltinOptions

    rng = np.random.default_rng(seed)
    wshape = (ofm_depth, kernel, kernel, shape[3])
    tensors = [
        dict(name="input", shape=list(shape), dtype=np.int8, scale=0.05, zp=0),
        dict(name="weights", shape=list(wshape), dtype=np.int8, data=rng.integers(-127, 127, size=wshape), scale=0.01, zp=0),
        dict(name="bias", shape=[ofm_depth], dtype=np.int32, data=rng.integers(-1000, 1000, size=(ofm_depth,)), scale=0.0005, zp=0),
        dict(name="output", shape=[shape[0], shape[1], shape[2], ofm_depth], dtype=np.int8, scale=0.1, zp=0),
    ]
    ops = [
        dict(code=BuiltinOperator.CONV_2D, inputs=[0, 1, 2], outputs=[3], options=(BuiltinOptions.Conv2DOptions, _conv_options))
    ]
    return build_tflite(tensors, ops, [0], [3])


def model_npu_cpu_npu(shape=(1, 8, 8, 16), n_first=1, n_second=3, seed=3):
    """ADD x n_first (NPU) -> FLOOR-like CPU-only operator chain -> ADD x n_second (NPU): gives two Ethos-U operators."""
    from ethosu.vela.tflite.BuiltinOperator import BuiltinOperator
    from ethosu.vela.tflite.BuiltinOptions import BuiltinOptions

    rng = np.random.default_rng(seed)
    tensors = [dict(name="input", shape=list(shape), dtype=np.int8, scale=0.05, zp=0)]
    ops = []
    prev = 0

    def add(i):
        nonlocal prev
        tensors.append(
            dict(name=f"const{i}", shape=list(shape), dtype=np.int8, data=rng.integers(-100, 100, size=shape), scale=0.05, zp=0)
        )
        c = len(tensors) - 1
        tensors.append(dict(name=f"act{i}", shape=list(shape), dtype=np.int8, scale=0.1, zp=0))
        o = len(tensors) - 1
        ops.append(
            dict(code=BuiltinOperator.ADD, inputs=[prev, c], outputs=[o], options=(BuiltinOptions.AddOptions, _add_options))
        )
        prev = o

    for i in range(n_first):
        add(i)
    # CPU-only operator: ROUND is not supported by the NPU
    tensors.append(dict(name="cpu_act", shape=list(shape), dtype=np.int8, scale=0.1, zp=0))
    o = len(tensors) - 1
    ops.append(dict(code=BuiltinOperator.ROUND, inputs=[prev], outputs=[o], options=None))
    prev = o
    for i in range(n_first, n_first + n_second):
        add(i)
    return build_tflite(tensors, ops, [0], [prev])


# ----------------------------------------------------------------------------------------------------------------
# running vela and reading its output
# ----------------------------------------------------------------------------------------------------------------
def run_vela(model_bytes, accel_name, extra_args=(), name="model"):
    """Runs the command line driver in-process.  Returns (return code, output directory, captured stdout)."""
    from ethosu.vela import vela

    tmp = tempfile.mkdtemp(prefix="c17_")
    model_path = os.path.join(tmp, name + ".tflite")
    with open(model_path, "wb") as f:
        f.write(model_bytes)
    out_dir = os.path.join(tmp, "out")
    args = [model_path, "--accelerator-config", accel_name, "--output-dir", out_dir] + list(extra_args)
    buf = io.StringIO()
    with contextlib.redirect_stdout(buf):
        rc = vela.main(args)
    return rc, out_dir, buf.getvalue()


def read_command_stream_tensors(tflite_bytes):
    """Returns a list of (tensor name, declared shape, file offset of the data, data bytes) for every tensor that is the
    first input of an 'ethos-u' custom operator."""
    from ethosu.vela.tflite.Model import Model

    buf = bytearray(tflite_bytes)
    model = Model.GetRootAs(buf, 0)
    res = []
    for s in range(model.SubgraphsLength()):
        sg = model.Subgraphs(s)
        for o in range(sg.OperatorsLength()):
            op = sg.Operators(o)
            code = model.OperatorCodes(op.OpcodeIndex())
            if code.CustomCode() != b"ethos-u":
                continue
            t = sg.Tensors(op.Inputs(0))
            b = model.Buffers(t.Buffer())
            n = b.DataLength()
            data = bytes(b.DataAsNumpy()) if n else b""
            # file offset of the data: vector start
            off = None
            if n:
                o_ = b._tab.Offset(4)
                off = b._tab.Vector(o_)
            shape = [t.Shape(i) for i in range(t.ShapeLength())]
            res.append((t.Name().decode(), shape, off, data))
    return res


def check_output_tflite(path, accel_name):
    with open(path, "rb") as f:
        data = f.read()
    problems = []
    tensors = read_command_stream_tensors(data)
    if not tensors:
        problems.append("no Ethos-U operator in the output file")
    for name, shape, off, payload in tensors:
        if off is None or off % 16 != 0:
            problems.append(f"{name}: buffer data at file offset {off} is not 16-byte aligned")
        if shape != [len(payload)]:
            problems.append(f"{name}: tensor shape {shape} but buffer holds {len(payload)} bytes")
        problems += check_payload(payload, accel_name, what=name)
    return problems, tensors


def model_while(shape=(1, 8, 8, 16), n_body=2, n_main=1, seed=5):
    """main: ADD (NPU) -> WHILE(cond: LESS(i, 3); body: i+1, x -> ADD chain (NPU)) : Ethos-U operators in two subgraphs."""
    from ethosu.vela.tflite.BuiltinOperator import BuiltinOperator
    from ethosu.vela.tflite.BuiltinOptions import BuiltinOptions
    from ethosu.vela.tflite import WhileOptions, LessOptions

    rng = np.random.default_rng(seed)

    def while_opts(b):
        WhileOptions.WhileOptionsStart(b)
        WhileOptions.WhileOptionsAddCondSubgraphIndex(b, 1)
        WhileOptions.WhileOptionsAddBodySubgraphIndex(b, 2)
        return WhileOptions.WhileOptionsEnd(b)

    def less_opts(b):
        LessOptions.LessOptionsStart(b)
        return LessOptions.LessOptionsEnd(b)

    def const(i, prefix):
        return dict(name=f"{prefix}const{i}", shape=list(shape), dtype=np.int8, data=rng.integers(-100, 100, size=shape), scale=0.05, zp=0)

    # main
    mt = [
        dict(name="counter", shape=[1], dtype=np.int32),
        dict(name="x", shape=list(shape), dtype=np.int8, scale=0.05, zp=0),
    ]
    mops = []
    prev = 1
    for i in range(n_main):
        mt.append(const(i, "m_"))
        mt.append(dict(name=f"m_act{i}", shape=list(shape), dtype=np.int8, scale=0.05, zp=0))
        mops.append(dict(code=BuiltinOperator.ADD, inputs=[prev, len(mt) - 2], outputs=[len(mt) - 1], options=(BuiltinOptions.AddOptions, _add_options)))
        prev = len(mt) - 1
    mt.append(dict(name="counter_out", shape=[1], dtype=np.int32))
    mt.append(dict(name="x_out", shape=list(shape), dtype=np.int8, scale=0.05, zp=0))
    mops.append(dict(code=BuiltinOperator.WHILE, inputs=[0, prev], outputs=[len(mt) - 2, len(mt) - 1], options=(BuiltinOptions.WhileOptions, while_opts)))
    main = dict(name="main", tensors=mt, operators=mops, inputs=[0, 1], outputs=[len(mt) - 2, len(mt) - 1])
    # cond
    ct = [
        dict(name="c_counter", shape=[1], dtype=np.int32),
        dict(name="c_x", shape=list(shape), dtype=np.int8, scale=0.05, zp=0),
        dict(name="c_limit", shape=[1], dtype=np.int32, data=np.array([3])),
        dict(name="c_res", shape=[1], dtype=np.bool_),
    ]
    cond = dict(name="cond", tensors=ct, operators=[dict(code=BuiltinOperator.LESS, inputs=[0, 2], outputs=[3], options=(BuiltinOptions.LessOptions, less_opts))], inputs=[0, 1], outputs=[3])
    # body
    bt = [
        dict(name="b_counter", shape=[1], dtype=np.int32),
        dict(name="b_x", shape=list(shape), dtype=np.int8, scale=0.05, zp=0),
        dict(name="b_one", shape=[1], dtype=np.int32, data=np.array([1])),
        dict(name="b_counter_out", shape=[1], dtype=np.int32),
    ]
    bops = [dict(code=BuiltinOperator.ADD, inputs=[0, 2], outputs=[3], options=(BuiltinOptions.AddOptions, _add_options))]
    prev = 1
    for i in range(n_body):
        bt.append(const(i, "b_"))
        bt.append(dict(name=f"b_act{i}", shape=list(shape), dtype=np.int8, scale=0.05, zp=0))
        bops.append(dict(code=BuiltinOperator.ADD, inputs=[prev, len(bt) - 2], outputs=[len(bt) - 1], options=(BuiltinOptions.AddOptions, _add_options)))
        prev = len(bt) - 1
    body = dict(name="body", tensors=bt, operators=bops, inputs=[0, 1], outputs=[3, prev])
    return build_tflite_multi([main, cond, body])


def quiet_run_vela(model_bytes, accel_name, extra_args=(), name="model"):
    """run_vela with stdout silenced at file descriptor level.  Returns (rc, path of the output .tflite or None, log)."""
    import glob

    sys.stdout.flush()
    devnull = os.open(os.devnull, os.O_WRONLY)
    saved = os.dup(1)
    os.dup2(devnull, 1)
    try:
        rc, out_dir, log = run_vela(model_bytes, accel_name, extra_args, name)
    finally:
        sys.stdout.flush()
        os.dup2(saved, 1)
        os.close(saved)
        os.close(devnull)
    files = glob.glob(os.path.join(out_dir, "*_vela.tflite"))
    return rc, (files[0] if files else None), log


# ----------------------------------------------------------------------------------------------------------------
# tiny TOSA writer (MAX_POOL2D chains only) - gives access to the raw (.npz) output path
# ----------------------------------------------------------------------------------------------------------------
def model_tosa_chain(n_ops=1, shape=(1, 8, 8, 16), kind="add"):
    """kind: "add" (x = x + x, INT32) or "maxpool" (INT8; needs the padding attribute the reader does not find)."""
    from ethosu.vela.tosa import PoolAttribute, TosaBasicBlock, TosaGraph, TosaOperator, TosaRegion, TosaTensor, Version

    b = flatbuffers.Builder(1024)

    def vec_i32(vals):
        b.StartVector(4, len(vals), 4)
        for v in reversed(vals):
            b.PrependInt32(int(v))
        return b.EndVector()

    def vec_off(offs):
        b.StartVector(4, len(offs), 4)
        for o in reversed(offs):
            b.PrependUOffsetTRelative(o)
        return b.EndVector()

    names = ["input"] + [f"act{i}" for i in range(n_ops)]
    tens_offs = []
    for n in names:
        nm = b.CreateString(n)
        shp = vec_i32(shape)
        TosaTensor.TosaTensorStart(b)
        TosaTensor.TosaTensorAddName(b, nm)
        TosaTensor.TosaTensorAddShape(b, shp)
        TosaTensor.TosaTensorAddType(b, 4 if kind == "maxpool" else 6)  # INT8 / INT32
        tens_offs.append(TosaTensor.TosaTensorEnd(b))
    op_offs = []
    for i in range(n_ops):
        if kind == "maxpool":
            pad = vec_i32([1, 1, 1, 1])
            kernel = vec_i32([3, 3])
            stride = vec_i32([1, 1])
            PoolAttribute.PoolAttributeStart(b)
            PoolAttribute.PoolAttributeAddPad(b, pad)
            PoolAttribute.PoolAttributeAddKernel(b, kernel)
            PoolAttribute.PoolAttributeAddStride(b, stride)
            PoolAttribute.PoolAttributeAddInputZp(b, 0)
            PoolAttribute.PoolAttributeAddOutputZp(b, 0)
            attr = PoolAttribute.PoolAttributeEnd(b)
            ins = vec_off([b.CreateString(names[i])])
        else:
            attr = None
            ins = vec_off([b.CreateString(names[i]), b.CreateString(names[0])])
        outs = vec_off([b.CreateString(names[i + 1])])
        TosaOperator.TosaOperatorStart(b)
        TosaOperator.TosaOperatorAddOp(b, 8 if kind == "maxpool" else 14)  # MAX_POOL2D / ADD
        if attr is not None:
            TosaOperator.TosaOperatorAddAttributeType(b, 1)  # PoolAttribute
            TosaOperator.TosaOperatorAddAttribute(b, attr)
        TosaOperator.TosaOperatorAddInputs(b, ins)
        TosaOperator.TosaOperatorAddOutputs(b, outs)
        op_offs.append(TosaOperator.TosaOperatorEnd(b))
    ops_vec = vec_off(op_offs)
    t_vec = vec_off(tens_offs)
    in_vec = vec_off([b.CreateString(names[0])])
    out_vec = vec_off([b.CreateString(names[-1])])
    bname = b.CreateString("main")
    TosaBasicBlock.TosaBasicBlockStart(b)
    TosaBasicBlock.TosaBasicBlockAddName(b, bname)
    TosaBasicBlock.TosaBasicBlockAddOperators(b, ops_vec)
    TosaBasicBlock.TosaBasicBlockAddTensors(b, t_vec)
    TosaBasicBlock.TosaBasicBlockAddInputs(b, in_vec)
    TosaBasicBlock.TosaBasicBlockAddOutputs(b, out_vec)
    block = TosaBasicBlock.TosaBasicBlockEnd(b)
    blocks = vec_off([block])
    rname = b.CreateString("main")
    TosaRegion.TosaRegionStart(b)
    TosaRegion.TosaRegionAddName(b, rname)
    TosaRegion.TosaRegionAddBlocks(b, blocks)
    region = TosaRegion.TosaRegionEnd(b)
    regions = vec_off([region])
    Version.VersionStart(b)
    Version.VersionAdd_Major(b, 0)
    Version.VersionAdd_Minor(b, 80)
    Version.VersionAdd_Patch(b, 0)
    Version.VersionAdd_Draft(b, False)
    ver = Version.VersionEnd(b)
    TosaGraph.TosaGraphStart(b)
    TosaGraph.TosaGraphAddVersion(b, ver)
    TosaGraph.TosaGraphAddRegions(b, regions)
    g = TosaGraph.TosaGraphEnd(b)
    b.Finish(g, b"TOSA")
    return bytes(b.Output())


def quiet_run_vela_tosa(model_bytes, accel_name, extra_args=()):
    """Compiles a .tosa model; returns (rc, list of .npz files, log)."""
    import glob
    from ethosu.vela import vela

    # the generated TOSA schema classes import each other as top level package 'tosa' (from tosa.Version import ...)
    vela_dir = os.path.join(ROOT, "ethosu", "vela")
    if vela_dir not in sys.path:
        sys.path.append(vela_dir)
    tmp = tempfile.mkdtemp(prefix="c17_")
    model_path = os.path.join(tmp, "model.tosa")
    with open(model_path, "wb") as f:
        f.write(model_bytes)
    out_dir = os.path.join(tmp, "out")
    args = [model_path, "--accelerator-config", accel_name, "--output-dir", out_dir] + list(extra_args)
    sys.stdout.flush()
    devnull = os.open(os.devnull, os.O_WRONLY)
    saved = os.dup(1)
    os.dup2(devnull, 1)
    buf = io.StringIO()
    try:
        with contextlib.redirect_stdout(buf):
            rc = vela.main(args)
    finally:
        sys.stdout.flush()
        os.dup2(saved, 1)
        os.close(saved)
        os.close(devnull)
    return rc, sorted(glob.glob(os.path.join(out_dir, "*.npz"))), buf.getvalue()


def extend_compiled_model(vela_tflite_bytes, n_new=2, seed=9):
    """Takes a model written by Vela (single subgraph) and appends n_new int8 ADD operators to its (first) output: the
    result is a legal TFLite model that already contains Ethos-U operators and, in addition, operators that Vela can
    still place on the NPU."""
    from ethosu.vela.tflite import Buffer, Model, Operator, OperatorCode, QuantizationParameters, SubGraph, Tensor
    from ethosu.vela.tflite.BuiltinOperator import BuiltinOperator
    from ethosu.vela.tflite.BuiltinOptions import BuiltinOptions
    from ethosu.vela.tflite.TensorType import TensorType

    rng = np.random.default_rng(seed)
    src = Model.Model.GetRootAs(bytearray(vela_tflite_bytes), 0)
    assert src.SubgraphsLength() == 1
    ssg = src.Subgraphs(0)
    b = flatbuffers.Builder(1024)

    def vec_i32(vals):
        b.StartVector(4, len(vals), 4)
        for v in reversed(vals):
            b.PrependInt32(int(v))
        return b.EndVector()

    def vec_f32(vals):
        b.StartVector(4, len(vals), 4)
        for v in reversed(vals):
            b.PrependFloat32(float(v))
        return b.EndVector()

    def vec_i64(vals):
        b.StartVector(8, len(vals), 8)
        for v in reversed(vals):
            b.PrependInt64(int(v))
        return b.EndVector()

    def vec_off(offs):
        b.StartVector(4, len(offs), 4)
        for o in reversed(offs):
            b.PrependUOffsetTRelative(o)
        return b.EndVector()

    def aligned_bytes(data):
        b.StartVector(1, len(data), 16)
        b.head = b.head - len(data)
        b.Bytes[b.head : b.head + len(data)] = data
        return b.EndVector()

    buffers = [None]
    tensor_offs = []

    def add_tensor(name, shape, ttype, data, scale, zp):
        if data is not None:
            buffers.append(bytes(data))
            bi = len(buffers) - 1
        else:
            bi = 0
        nm = b.CreateString(name)
        sh = vec_i32(shape)
        q = None
        if scale is not None:
            s_off = vec_f32(scale)
            z_off = vec_i64(zp)
            QuantizationParameters.QuantizationParametersStart(b)
            QuantizationParameters.QuantizationParametersAddScale(b, s_off)
            QuantizationParameters.QuantizationParametersAddZeroPoint(b, z_off)
            q = QuantizationParameters.QuantizationParametersEnd(b)
        Tensor.TensorStart(b)
        Tensor.TensorAddShape(b, sh)
        Tensor.TensorAddType(b, ttype)
        Tensor.TensorAddBuffer(b, bi)
        Tensor.TensorAddName(b, nm)
        if q is not None:
            Tensor.TensorAddQuantization(b, q)
        tensor_offs.append(Tensor.TensorEnd(b))
        return len(tensor_offs) - 1

    for i in range(ssg.TensorsLength()):
        t = ssg.Tensors(i)
        buf = src.Buffers(t.Buffer())
        data = bytes(buf.DataAsNumpy()) if buf.DataLength() else None
        q = t.Quantization()
        scale = zp = None
        if q is not None and q.ScaleLength():
            scale = [q.Scale(j) for j in range(q.ScaleLength())]
            zp = [q.ZeroPoint(j) for j in range(q.ZeroPointLength())]
        add_tensor(t.Name().decode(), [t.Shape(j) for j in range(t.ShapeLength())], t.Type(), data, scale, zp)

    # operator codes: copy, then ADD
    code_offs = []
    for i in range(src.OperatorCodesLength()):
        oc = src.OperatorCodes(i)
        cc = b.CreateString(oc.CustomCode().decode()) if oc.CustomCode() is not None else None
        OperatorCode.OperatorCodeStart(b)
        OperatorCode.OperatorCodeAddDeprecatedBuiltinCode(b, oc.DeprecatedBuiltinCode())
        OperatorCode.OperatorCodeAddBuiltinCode(b, oc.BuiltinCode())
        OperatorCode.OperatorCodeAddVersion(b, oc.Version())
        if cc is not None:
            OperatorCode.OperatorCodeAddCustomCode(b, cc)
        code_offs.append(OperatorCode.OperatorCodeEnd(b))
    add_code = None
    for i in range(src.OperatorCodesLength()):
        if src.OperatorCodes(i).BuiltinCode() == BuiltinOperator.ADD:
            add_code = i
    if add_code is None:
        OperatorCode.OperatorCodeStart(b)
        OperatorCode.OperatorCodeAddDeprecatedBuiltinCode(b, BuiltinOperator.ADD)
        OperatorCode.OperatorCodeAddBuiltinCode(b, BuiltinOperator.ADD)
        OperatorCode.OperatorCodeAddVersion(b, 1)
        code_offs.append(OperatorCode.OperatorCodeEnd(b))
        add_code = len(code_offs) - 1

    op_offs = []
    for i in range(ssg.OperatorsLength()):
        o = ssg.Operators(i)
        ins = vec_i32([o.Inputs(j) for j in range(o.InputsLength())])
        outs = vec_i32([o.Outputs(j) for j in range(o.OutputsLength())])
        co = None
        if o.CustomOptionsLength():
            co = b.CreateByteVector(bytes(o.CustomOptionsAsNumpy()))
        Operator.OperatorStart(b)
        Operator.OperatorAddOpcodeIndex(b, o.OpcodeIndex())
        Operator.OperatorAddInputs(b, ins)
        Operator.OperatorAddOutputs(b, outs)
        if co is not None:
            Operator.OperatorAddCustomOptions(b, co)
            Operator.OperatorAddCustomOptionsFormat(b, o.CustomOptionsFormat())
        op_offs.append(Operator.OperatorEnd(b))

    prev = ssg.Outputs(0)
    pt = ssg.Tensors(prev)
    shape = [pt.Shape(j) for j in range(pt.ShapeLength())]
    for i in range(n_new):
        cidx = add_tensor(f"new_const{i}", shape, TensorType.INT8, rng.integers(-100, 100, size=shape).astype(np.int8).tobytes(), [0.05], [0])
        oidx = add_tensor(f"new_act{i}", shape, TensorType.INT8, None, [0.1], [0])
        ins = vec_i32([prev, cidx])
        outs = vec_i32([oidx])
        opt = _add_options(b)
        Operator.OperatorStart(b)
        Operator.OperatorAddOpcodeIndex(b, add_code)
        Operator.OperatorAddInputs(b, ins)
        Operator.OperatorAddOutputs(b, outs)
        Operator.OperatorAddBuiltinOptionsType(b, BuiltinOptions.AddOptions)
        Operator.OperatorAddBuiltinOptions(b, opt)
        op_offs.append(Operator.OperatorEnd(b))
        prev = oidx

    t_vec = vec_off(tensor_offs)
    i_vec = vec_i32([ssg.Inputs(j) for j in range(ssg.InputsLength())])
    o_vec = vec_i32([prev])
    ops_vec = vec_off(op_offs)
    sg_name = b.CreateString(ssg.Name().decode())
    SubGraph.SubGraphStart(b)
    SubGraph.SubGraphAddTensors(b, t_vec)
    SubGraph.SubGraphAddInputs(b, i_vec)
    SubGraph.SubGraphAddOutputs(b, o_vec)
    SubGraph.SubGraphAddOperators(b, ops_vec)
    SubGraph.SubGraphAddName(b, sg_name)
    sgs_vec = vec_off([SubGraph.SubGraphEnd(b)])
    codes_vec = vec_off(code_offs)
    buf_offs = []
    for data in buffers:
        d_off = aligned_bytes(data) if data is not None else None
        Buffer.BufferStart(b)
        if d_off is not None:
            Buffer.BufferAddData(b, d_off)
        buf_offs.append(Buffer.BufferEnd(b))
    bufs_vec = vec_off(buf_offs)
    desc = b.CreateString("partly compiled model")
    Model.ModelStart(b)
    Model.ModelAddVersion(b, 3)
    Model.ModelAddOperatorCodes(b, codes_vec)
    Model.ModelAddSubgraphs(b, sgs_vec)
    Model.ModelAddDescription(b, desc)
    Model.ModelAddBuffers(b, bufs_vec)
    b.Finish(Model.ModelEnd(b), b"TFL3")
    return bytes(b.Output())

"""Observation on the UNMODIFIED tree (inconsistency, hardware relevance unverified).

api.npu_find_block_configs intends to offer only even OFM block heights/widths when the IFM is upscaled
('2 if ifm_resampling_mode != NONE else 1' as minimum and step), the scheduler's search
(architecture_allocator.find_block_config) has no such rule: on accelerators whose micro-block is 1 high or 1 wide
(Ethos-U55-32/64/128) compiled networks contain upscaling operations (IFM_UPSCALE != 0) with odd OFM_BLK_HEIGHT /
OFM_BLK_WIDTH. If the even-block rule of the query reflects a hardware restriction, these emitted configurations are
invalid; if not, the query is needlessly restrictive. Prints the odd blocks found; exits 1 if there are any."""
import os
import sys

sys.path.insert(0, os.getcwd())
sys.path.insert(0, os.path.dirname(os.path.abspath(__file__)))

import c15_models as m  # noqa: E402
import c15_oracle as orc  # noqa: E402


def models():
    mod = m.Model(6, 6, 16)
    mod.transpose_conv(16, 3, 3, 2, True)
    yield "transpose conv 3x3 stride 2, 6x6x16 -> 12x12x16", mod
    mod = m.Model(5, 7, 16)
    mod.resize("nearest", 2)
    yield "resize nearest x2, 5x7x16 -> 10x14x16", mod
    mod = m.Model(3, 5, 8)
    mod.resize("bilinear", 2)
    yield "resize bilinear x2, 3x5x8 -> 6x10x8", mod


found = []
for name, mod in models():
    data = mod.serialise()
    for acc in ("ethos-u55-32", "ethos-u55-64", "ethos-u55-128"):
        streams, _ = m.compile_model(data, acc)
        for stream in streams:
            for v in orc.iterate_ops(stream):
                if v.upscale_mode != 0 and (v.blk[0] % 2 or v.blk[1] % 2):
                    found.append(f"{name} on {acc}: IFM_UPSCALE={v.upscale_mode} OFM block (h,w,d)={v.blk} ofm={v.ofm}")
for f in found:
    print(f)
print(f"{len(found)} upscaling operations with an odd OFM block")
sys.exit(1 if found else 0)

"""Broad sweep of the public block-config query + generator against the oracle (exploration tool)."""
import itertools
import os
import random
import sys

sys.path.insert(0, os.getcwd())
sys.path.insert(0, os.path.dirname(os.path.abspath(__file__)))

import c15_ops as o  # noqa: E402
from c15_ops import NpuBlockTraversal, NpuElementWiseOp, NpuKernel, NpuPoolingOp, NpuResamplingMode  # noqa: E402


def gen_cases(rng, n):
    for _ in range(n):
        kind = rng.choice(["conv", "dw", "max", "avg", "rsum", "ew"])
        oh = rng.choice([1, 1, 2, 3, 4, 5, 7, 8, 16, 33])
        ow = rng.choice([1, 2, 3, 4, 5, 8, 9, 16, 31, 64, 70])
        od = rng.choice([1, 3, 4, 8, 9, 16, 17, 24, 32, 40, 64, 130])
        idepth = rng.choice([1, 3, 8, 9, 16, 17, 32, 33, 64])
        kw, kh = rng.choice([1, 1, 2, 3, 5, 7, 9]), rng.choice([1, 1, 2, 3, 5, 7, 9])
        sx, sy = rng.choice([1, 1, 2, 3]), rng.choice([1, 1, 2, 3])
        dx, dy = rng.choice([1, 1, 1, 2]), rng.choice([1, 1, 1, 2])
        lut = rng.random() < 0.3
        quant = rng.random() < 0.8
        if kind == "conv":
            bits = rng.choice([8, 8, 16])
            trav = rng.choice([NpuBlockTraversal.DEPTH_FIRST, NpuBlockTraversal.PART_KERNEL_FIRST])
            ups = rng.choice([NpuResamplingMode.NONE] * 3 + [NpuResamplingMode.NEAREST, NpuResamplingMode.TRANSPOSE])
            desc = f"conv o={oh}x{ow}x{od} id={idepth} k={kw}x{kh} s={sx},{sy} d={dx},{dy} b={bits} {trav.name} lut={lut} {ups.name} q={quant}"
            yield desc, (lambda: o.conv_op(oh, ow, od, idepth, NpuKernel(kw, kh, sx, sy, dx, dy), bits, trav, lut, ups, quant))
        elif kind == "dw":
            bits = rng.choice([8, 8, 16])
            desc = f"dw o={oh}x{ow}x{od} k={kw}x{kh} s={sx},{sy} d={dx},{dy} b={bits} lut={lut} q={quant}"
            yield desc, (lambda: o.depthwise_op(oh, ow, od, NpuKernel(kw, kh, sx, sy, dx, dy), bits, lut, quant))
        elif kind in ("max", "avg", "rsum"):
            pk = {"max": NpuPoolingOp.MAX, "avg": NpuPoolingOp.AVERAGE, "rsum": NpuPoolingOp.REDUCE_SUM}[kind]
            bits = rng.choice([8, 16, 32] if kind == "rsum" else [8, 8, 16])
            ups = rng.choice([NpuResamplingMode.NONE] * 3 + [NpuResamplingMode.NEAREST])
            if kind == "rsum":
                kw2 = kh2 = 1
                ups = NpuResamplingMode.NONE
            else:
                kw2, kh2 = kw, kh
            desc = f"{kind} o={oh}x{ow}x{od} id={idepth} k={kw2}x{kh2} s={sx},{sy} b={bits} lut={lut} {ups.name} q={quant}"
            yield desc, (lambda: o.pool_op(pk, oh, ow, od, NpuKernel(kw2, kh2, sx, sy), bits, lut, ups, idepth, quant))
        else:
            ek = rng.choice([NpuElementWiseOp.ADD, NpuElementWiseOp.MUL, NpuElementWiseOp.MIN, NpuElementWiseOp.MAX,
                             NpuElementWiseOp.ABS, NpuElementWiseOp.LRELU, NpuElementWiseOp.CLZ, NpuElementWiseOp.SHR])
            if ek in (NpuElementWiseOp.ABS, NpuElementWiseOp.LRELU, NpuElementWiseOp.CLZ):
                ifm2 = None
            else:
                ifm2 = rng.choice(["full", "full", "bcast_h", "bcast_w", "bcast_c", "scalar"])
            bits = 32 if ek in (NpuElementWiseOp.CLZ, NpuElementWiseOp.SHR) else rng.choice([8, 16, 32])
            desc = f"ew {ek.name} {oh}x{ow}x{od} b={bits} ifm2={ifm2} lut={lut} q={quant}"
            yield desc, (lambda: o.ew_op(ek, oh, ow, od, bits, ifm2, lut, quant))


def main():
    seed = int(sys.argv[1]) if len(sys.argv) > 1 else 1
    n = int(sys.argv[2]) if len(sys.argv) > 2 else 200
    rng = random.Random(seed)
    nbad = 0
    nerr = 0
    total = 0
    for desc, mk in gen_cases(rng, n):
        for acc in o.ALL_ACCELERATORS:
            try:
                ncfg, problems = o.check_api(mk(), acc, max_configs=25)
            except Exception as e:  # other generator restrictions (kernel size etc.)
                nerr += 1
                if "-v" in sys.argv:
                    print("ERR", acc.name, desc, repr(e)[:150])
                continue
            total += 1
            if problems:
                nbad += 1
                print("BAD", desc)
                for p in problems[:3]:
                    print("    ", p)
    print(f"cases={total} bad={nbad} errors={nerr}")


main()

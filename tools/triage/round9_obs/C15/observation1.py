"""Observation on the UNMODIFIED tree (lookup table partition addressing, lut.py).

When a LUT DMA is dropped because an equivalent table is already resident in SHRAM, the table index of the operation is
recomputed by lut.get_lut_index() as (address - lut_base) // storage_size(table), while a freshly placed table gets
(address - lut_base) // 256. For the 1 KB tables of the int8 softmax (256 x uint32) the two differ: a table placed in the
second half of the LUT partition is index 4 when placed, but index 1 when reused - the reusing operation then reads from
the middle of the *other* table.

Network: softmax(beta=1) -> softmax(beta=0.5) -> softmax(beta=0.5)   (tables A, B, B), Ethos-U55-128.
Oracle (registers only): the table selected by ACTIVATION (slot * 256 bytes above the LUT base) must be the start of a
table that a DMA has copied into the LUT partition.  Exits 1 and prints the mismatch if the defect is present."""
import os
import sys

sys.path.insert(0, os.getcwd())
sys.path.insert(0, os.path.dirname(os.path.abspath(__file__)))

import c15_models as m  # noqa: E402
import c15_oracle as orc  # noqa: E402


def main():
    mod = m.Model(1, 8, 16)
    mod.softmax(1.0)
    mod.softmax(0.5)
    mod.softmax(0.5)
    acc, key = "ethos-u55-128", "Ethos_U55_128"
    streams, _ = m.compile_model(mod.serialise(), acc)
    lut_base = (orc.ACCELERATORS[key][2] - 2) * orc.BANK_BYTES
    problems = []
    for stream in streams:
        tables = {}  # start offset in the LUT partition -> length

        def on_dma(region, address, length):
            if region == orc.DMA_REGION_SHRAM:
                # a new table evicts everything it overlaps
                for start in [s for s, ln in tables.items() if s < address - lut_base + length and address - lut_base < s + ln]:
                    del tables[start]
                tables[address - lut_base] = length
                print(f"  DMA of a {length} byte table to LUT offset {address - lut_base} (slot {(address - lut_base) // 256})")

        for v in orc.iterate_ops(stream, on_dma):
            if v.uses_lut:
                offset = v.lut_slot * 256
                print(f"  operation uses table slot {v.lut_slot} (LUT offset {offset}); resident tables start at {sorted(tables)}")
                if offset not in tables:
                    problems.append(
                        f"operation selects table slot {v.lut_slot} = LUT offset {offset}, which is not the start of any "
                        f"resident table {sorted(tables.items())}"
                    )
    if problems:
        print("VIOLATION on unmodified tree:")
        for p in problems:
            print("  ", p)
        return 1
    print("no mismatch")
    return 0


sys.exit(main())

"""Helpers that build public-API NPU operations and push them through npu_find_block_configs /
npu_generate_register_command_stream, checking the result with the register-level oracle in c15_oracle."""
import os
import sys

HERE = os.path.dirname(os.path.abspath(__file__))
if HERE not in sys.path:
    sys.path.insert(0, HERE)

import c15_oracle  # noqa: E402

from ethosu.vela import api  # noqa: E402
from ethosu.vela.api import NpuAccelerator  # noqa: E402
from ethosu.vela.api import NpuActivation  # noqa: E402
from ethosu.vela.api import NpuActivationOp  # noqa: E402
from ethosu.vela.api import NpuAddressRange  # noqa: E402
from ethosu.vela.api import NpuBlockTraversal  # noqa: E402
from ethosu.vela.api import NpuConv2DOperation  # noqa: E402
from ethosu.vela.api import NpuConvDepthWiseOperation  # noqa: E402
from ethosu.vela.api import NpuDataType  # noqa: E402
from ethosu.vela.api import NpuElementWiseOp  # noqa: E402
from ethosu.vela.api import NpuElementWiseOperation  # noqa: E402
from ethosu.vela.api import NpuFeatureMap  # noqa: E402
from ethosu.vela.api import NpuKernel  # noqa: E402
from ethosu.vela.api import NpuLayout  # noqa: E402
from ethosu.vela.api import NpuPadding  # noqa: E402
from ethosu.vela.api import NpuPoolingOp  # noqa: E402
from ethosu.vela.api import NpuPoolingOperation  # noqa: E402
from ethosu.vela.api import NpuQuantization  # noqa: E402
from ethosu.vela.api import NpuResamplingMode  # noqa: E402
from ethosu.vela.api import NpuShape3D  # noqa: E402
from ethosu.vela.api import NpuTileBox  # noqa: E402

ALL_ACCELERATORS = [
    NpuAccelerator.Ethos_U55_32,
    NpuAccelerator.Ethos_U55_64,
    NpuAccelerator.Ethos_U55_128,
    NpuAccelerator.Ethos_U55_256,
    NpuAccelerator.Ethos_U65_256,
    NpuAccelerator.Ethos_U65_512,
]

DTYPES = {8: NpuDataType.INT8, 16: NpuDataType.INT16, 32: NpuDataType.INT32}


def fm(h, w, d, bits=8, address=0, quant=NpuQuantization(scale_f32=0.5, zero_point=0), region=1):
    f = NpuFeatureMap()
    f.data_type = DTYPES[bits]
    f.shape = NpuShape3D(height=h, width=w, depth=d)
    f.tiles = NpuTileBox(width_0=w, height_0=h, height_1=h, addresses=[address, 0, 0, 0])
    f.region = region
    f.layout = NpuLayout.NHWC
    f.quantization = quant
    return f


def _ifm_hw(oh, ow, kernel, upscale):
    h = (oh - 1) * kernel.stride_y + (kernel.height - 1) * kernel.dilation_y + 1
    w = (ow - 1) * kernel.stride_x + (kernel.width - 1) * kernel.dilation_x + 1
    if upscale != NpuResamplingMode.NONE:
        h, w = (h + 1) // 2, (w + 1) // 2
    return max(h, 1), max(w, 1)


def lut_activation(index=0):
    act = NpuActivation(NpuActivationOp.TABLE_LOOKUP)
    act.lookup_table_index = index
    return act


def conv_op(oh, ow, od, idepth, kernel, bits=8, traversal=NpuBlockTraversal.DEPTH_FIRST, lut=False,
            upscale=NpuResamplingMode.NONE, quant=True):
    op = NpuConv2DOperation()
    q = NpuQuantization(scale_f32=0.5, zero_point=0) if quant else None
    ih, iw = _ifm_hw(oh, ow, kernel, upscale)
    op.ifm = fm(ih, iw, idepth, bits, 0, q)
    op.ofm = fm(oh, ow, od, bits, 0x100000, q)
    op.kernel = kernel
    op.weights = [NpuAddressRange(region=0, address=0, length=1600)]
    op.biases = [NpuAddressRange(region=0, address=32000, length=160)]
    op.padding = NpuPadding(top=0, left=0, bottom=0, right=0)
    op.block_traversal = traversal
    op.ifm_upscale = upscale
    if lut:
        op.activation = lut_activation()
    return op


def depthwise_op(oh, ow, d, kernel, bits=8, lut=False, quant=True):
    op = NpuConvDepthWiseOperation()
    q = NpuQuantization(scale_f32=0.5, zero_point=0) if quant else None
    ih, iw = _ifm_hw(oh, ow, kernel, NpuResamplingMode.NONE)
    op.ifm = fm(ih, iw, d, bits, 0, q)
    op.ofm = fm(oh, ow, d, bits, 0x100000, q)
    op.kernel = kernel
    op.weights = [NpuAddressRange(region=0, address=0, length=1600)]
    op.biases = [NpuAddressRange(region=0, address=32000, length=160)]
    op.padding = NpuPadding(top=0, left=0, bottom=0, right=0)
    if lut:
        op.activation = lut_activation()
    return op


def pool_op(kind, oh, ow, d, kernel, bits=8, lut=False, upscale=NpuResamplingMode.NONE, idepth=None, quant=True):
    op = NpuPoolingOperation(kind)
    q = NpuQuantization(scale_f32=0.5, zero_point=0) if quant else None
    ih, iw = _ifm_hw(oh, ow, kernel, upscale)
    if kind == NpuPoolingOp.REDUCE_SUM:
        op.ifm = fm(ih, iw, idepth or d, bits, 0, q)
        op.ofm = fm(oh, ow, 1, 32 if bits == 32 else bits, 0x100000, q)
    else:
        op.ifm = fm(ih, iw, d, bits, 0, q)
        op.ofm = fm(oh, ow, d, bits, 0x100000, q)
    op.kernel = kernel
    op.padding = NpuPadding(top=0, left=0, bottom=0, right=0)
    op.ifm_upscale = upscale
    if lut:
        op.activation = lut_activation()
    return op


def ew_op(kind, h, w, d, bits=8, ifm2="full", lut=False, quant=True):
    """ifm2: 'full', 'bcast_h', 'bcast_w', 'bcast_c', 'scalar' or None (unary)"""
    op = NpuElementWiseOperation(kind)
    q = NpuQuantization(scale_f32=0.5, zero_point=0) if quant else None
    op.ifm = fm(h, w, d, bits, 0, q)
    op.ofm = fm(h, w, d, bits, 0x100000, q)
    if ifm2 == "full":
        op.ifm2 = fm(h, w, d, bits, 0x200000, q)
    elif ifm2 == "bcast_h":
        op.ifm2 = fm(1, w, d, bits, 0x200000, q)
    elif ifm2 == "bcast_w":
        op.ifm2 = fm(h, 1, d, bits, 0x200000, q)
    elif ifm2 == "bcast_c":
        op.ifm2 = fm(h, w, 1, bits, 0x200000, q)
    elif ifm2 == "scalar":
        op.ifm2 = fm(0, 0, 0, bits, 0, q)
        op.ifm2_scalar = 3.0
    if lut:
        op.activation = lut_activation()
    return op


def expected_acc_bits(op):
    """Accumulator width the operation needs: 16 bit IFM with scaling and not a (max/average) pooling -> 40 bit"""
    if isinstance(op, NpuElementWiseOperation):
        return None
    fms = [f for f in (op.ifm, op.ifm2, op.ofm) if f is not None]
    scaled = all(f.quantization is not None and f.quantization.scale_f32 is not None for f in fms)
    is_pool = isinstance(op, NpuPoolingOperation) and op.sub_op_type != NpuPoolingOp.REDUCE_SUM
    if op.ifm.data_type.size_in_bits() == 16 and scaled and not is_pool:
        return 40
    return 32


def check_api(op, accelerator, max_configs=None, step=1):
    """Queries the block configs for op, generates a command stream for each (or every step-th) offered config and runs
    the oracle on it. Returns (number of configs offered, list of problems)."""
    problems = []
    try:
        configs = api.npu_find_block_configs(op, accelerator)
    except AssertionError as e:
        return 0, [f"npu_find_block_configs asserted: {e!r}"]
    todo = configs[::step]
    if max_configs is not None and len(todo) > max_configs:
        stride = len(todo) / max_configs
        todo = [todo[int(i * stride)] for i in range(max_configs)] + [todo[-1]]
    for cfg in todo:
        op.block_config = cfg
        try:
            stream = api.npu_generate_register_command_stream([op], accelerator)
        except AssertionError as e:
            problems.append(f"{accelerator.name}: offered config {tuple(cfg)} rejected by the generator: {e}")
            continue
        bad, count = c15_oracle.check_stream(accelerator.name, stream, expected_acc_bits(op), track_lut=False)
        if count != 1:
            problems.append(f"{accelerator.name}: expected one operation in the stream, found {count}")
        for desc, why in bad:
            problems.append(f"{accelerator.name}: offered config {tuple(cfg)}: {'; '.join(why)} [{desc}]")
    return len(configs), problems


def view_from_npu_op(op):
    """Describes an api.NpuBlockOperation (with block_config set) in the terms used by c15_oracle.required_banks"""
    from types import SimpleNamespace

    v = SimpleNamespace()
    v.blk = (op.block_config.height, op.block_config.width, op.block_config.depth)
    v.ofm = (op.ofm.shape.height, op.ofm.shape.width, op.ofm.shape.depth)
    v.ifm_depth = op.ifm.shape.depth
    v.ifm_bits = op.ifm.data_type.size_in_bits()
    v.upscale_mode = {"NONE": 0, "NEAREST": 1, "TRANSPOSE": 2}[op.ifm_upscale.name]
    v.is_ew = isinstance(op, NpuElementWiseOperation)
    k = op.kernel
    if v.is_ew or k is None:
        v.kw = v.kh = v.sx = v.sy = 1
    else:
        v.kw = (k.width - 1) * k.dilation_x + 1
        v.kh = (k.height - 1) * k.dilation_y + 1
        v.sx, v.sy = k.stride_x, k.stride_y
    v.part_kernel = isinstance(op, NpuConv2DOperation) and op.block_traversal == NpuBlockTraversal.PART_KERNEL_FIRST
    v.uses_lut = op.activation is not None and op.activation.op_type == NpuActivationOp.TABLE_LOOKUP
    v.acc_bits = expected_acc_bits(op) or 32
    v.ew_unary = v.is_ew and op.ifm2 is None
    v.ew_scalar = v.is_ew and op.ifm2_scalar is not None
    is_pool = isinstance(op, NpuPoolingOperation) and op.sub_op_type != NpuPoolingOp.REDUCE_SUM
    v.equal_depth = v.is_ew or isinstance(op, NpuConvDepthWiseOperation) or is_pool
    return v


def check_selected_ops(accel_name, npu_ops):
    """Checks the block configurations the compiler selected for a list of api operations (DMA operations are skipped).
    Returns list of problem strings."""
    from ethosu.vela.api import NpuBlockOperation

    problems = []
    for op in npu_ops:
        if not isinstance(op, NpuBlockOperation):
            continue
        v = view_from_npu_op(op)
        for why in c15_oracle.check_selected_block(accel_name, v):
            problems.append(f"{type(op).__name__} '{op.name}' ifm_bits={v.ifm_bits} ofm={v.ofm}: {why}")
    return problems

"""Independent oracle for property C15 (block configurations / shared buffer layout are valid for the hardware).

The oracle works on an emitted register command stream (list of 32 bit words). It keeps the register state while
walking the stream and, at every NPU_OP_CONV / DEPTHWISE / POOL / ELEMENTWISE, re-derives from the *registers only*
what the hardware is going to put into the shared buffer (SHRAM) and checks that the programmed partition
(IFM_IB_END, IFM2_IB_START, AB_START, ACC_FORMAT, OFM_BLK_*) can hold it.

Nothing in here imports the allocator, the architecture tables or the command stream generator of Vela; only the
numeric register ids are hard coded (Ethos-U55/U65 command ids).
"""
import math

# accelerator name -> (ofm ublock (w, h, d), ifm ublock depth, shram banks,
#                      granules [IFM8, IFM16, IFM8_EW, IFM16_EW, IFM32, ACC16, ACC32, ACC40])
ACCELERATORS = {
    "Ethos_U55_32": ((1, 1, 4), 8, 16, [2, 2, 2, 2, 4, 4, 4, 4]),
    "Ethos_U55_64": ((1, 1, 8), 8, 16, [2, 2, 2, 2, 4, 4, 4, 8]),
    "Ethos_U55_128": ((2, 1, 8), 8, 24, [4, 4, 4, 4, 8, 4, 8, 12]),
    "Ethos_U55_256": ((2, 2, 8), 8, 48, [8, 8, 8, 8, 16, 8, 16, 20]),
    "Ethos_U65_256": ((2, 2, 8), 8, 48, [8, 8, 8, 8, 16, 8, 16, 20]),
    "Ethos_U65_512": ((2, 2, 8), 8, 48, [8, 8, 8, 8, 16, 8, 16, 20]),
}
MAX_BLOCK_HWD = (32, 64, 128)
BANK_BYTES = 1024
OUTPUT_BANKS = 2  # banks 0..1 are the OFM output staging area, the IFM buffer starts at bank 2
SUBKERNEL_MAX = 8

# cmd0 ids
OP_CONV, OP_DEPTHWISE, OP_POOL, OP_ELEMENTWISE = 0x002, 0x003, 0x005, 0x006
IFM_DEPTH_M1, IFM_PRECISION, IFM_UPSCALE, IFM_IB_END = 0x104, 0x105, 0x107, 0x10D
OFM_WIDTH_M1, OFM_HEIGHT_M1, OFM_DEPTH_M1 = 0x111, 0x112, 0x113
OFM_BLK_WIDTH_M1, OFM_BLK_HEIGHT_M1, OFM_BLK_DEPTH_M1 = 0x115, 0x116, 0x117
KERNEL_WIDTH_M1, KERNEL_HEIGHT_M1, KERNEL_STRIDE = 0x120, 0x121, 0x122
ACC_FORMAT, ACTIVATION, AB_START = 0x124, 0x125, 0x12D
IFM2_BROADCAST, IFM2_IB_START = 0x180, 0x18D
OP_DMA_START, DMA0_DST_REGION = 0x010, 0x131
# cmd1 ids (commands with a 32 bit payload)
DMA0_DST, DMA0_LEN = 0x031, 0x032
DMA_REGION_SHRAM = (1 << 8) | 3  # "internal" destination: the shared buffer itself
LUT_SLOT_BYTES = 256

POOL_REDUCE_SUM = 2
EW_UNARY_MODES = (5, 6, 7)  # LRELU, ABS, CLZ
ACC_BITS = {0: 32, 1: 40, 2: 16}
ACC_GRANULE_INDEX = {16: 5, 32: 6, 40: 7}


def _rup(a, b):
    return -(-a // b) * b


def _cdiv(a, b):
    return -(-a // b)


class OpView:
    """Everything the hardware knows about one block operation, decoded from the register state"""

    def __init__(self, opcode, op_param, regs):
        r = regs.get
        self.opcode = opcode
        self.op_param = op_param
        self.blk = (r(OFM_BLK_HEIGHT_M1, 0) + 1, r(OFM_BLK_WIDTH_M1, 0) + 1, r(OFM_BLK_DEPTH_M1, 0) + 1)
        self.ofm = (r(OFM_HEIGHT_M1, 0) + 1, r(OFM_WIDTH_M1, 0) + 1, r(OFM_DEPTH_M1, 0) + 1)
        self.ifm_depth = r(IFM_DEPTH_M1, 0) + 1
        self.ifm_bits = {0: 8, 1: 16, 2: 32}[(r(IFM_PRECISION, 0) >> 2) & 3]
        self.upscale_mode = r(IFM_UPSCALE, 0) & 3  # 0 none, 1 nearest, 2 zeros (transpose)
        self.is_ew = opcode == OP_ELEMENTWISE
        if self.is_ew:
            self.kw = self.kh = self.sx = self.sy = 1
            self.part_kernel = False
        else:
            ks = r(KERNEL_STRIDE, 0)
            self.kw = r(KERNEL_WIDTH_M1, 0) + 1  # dilated size
            self.kh = r(KERNEL_HEIGHT_M1, 0) + 1
            self.sx = ((ks & 1) | (((ks >> 6) & 7) << 1)) + 1
            self.sy = (((ks >> 1) & 1) | (((ks >> 9) & 7) << 1)) + 1
            self.part_kernel = bool(ks & 4) and opcode == OP_CONV
        self.uses_lut = (r(ACTIVATION, 0) & 0x1F) >= 16
        self.lut_slot = r(ACTIVATION, 0) & 0x7
        self.acc_bits = ACC_BITS.get(r(ACC_FORMAT, 0) & 3)
        self.ib_end = r(IFM_IB_END)
        self.ab_start = r(AB_START)
        self.ifm2_ib_start = r(IFM2_IB_START)
        self.ew_unary = self.is_ew and op_param in EW_UNARY_MODES
        self.ew_scalar = self.is_ew and not self.ew_unary and bool(r(IFM2_BROADCAST, 0) & 0x80)
        self.equal_depth = self.is_ew or opcode == OP_DEPTHWISE or (opcode == OP_POOL and op_param != POOL_REDUCE_SUM)

    def describe(self):
        kind = {OP_CONV: "CONV", OP_DEPTHWISE: "DEPTHWISE", OP_POOL: "POOL", OP_ELEMENTWISE: "ELEMENTWISE"}[self.opcode]
        return (
            f"{kind}({self.op_param}) ofm={self.ofm} ifm_depth={self.ifm_depth} ifm_bits={self.ifm_bits} "
            f"kernel(dilated)={self.kh}x{self.kw} stride={self.sy}x{self.sx} upscale={self.upscale_mode} "
            f"lut={self.uses_lut} part_kernel={self.part_kernel} scalar={self.ew_scalar} unary={self.ew_unary} "
            f"blk(h,w,d)={self.blk} IB_END={self.ib_end} IFM2_IB_START={self.ifm2_ib_start} AB_START={self.ab_start} "
            f"acc_bits={self.acc_bits}"
        )


def required_banks(accel, v):
    """Returns (ifm_banks, acc_banks, usable_end) that the hardware needs for the operation described by v"""
    (ub_w, ub_h, ub_d), ifm_ub_d, total_banks, gran = ACCELERATORS[accel]
    bh, bw, bd = v.blk
    upscale = 1 if v.upscale_mode == 0 else 2
    nearest = 1 if v.upscale_mode == 1 else 0
    ifm_h = _rup(int(math.ceil(((bh - 1) * v.sy + min(v.kh, SUBKERNEL_MAX) + nearest) / upscale)), ub_h)
    ifm_w = _rup(int(math.ceil(((bw - 1) * v.sx + min(v.kw, SUBKERNEL_MAX) + nearest) / upscale)), ub_w)
    if v.equal_depth:
        ifm_d = bd
    elif v.ifm_bits == 16:
        ifm_d = _rup(min(v.ifm_depth, 16), 4)
    else:
        ifm_d = _rup(min(v.ifm_depth, 16 if v.part_kernel else 32), ifm_ub_d)
    ifm_bytes = ifm_h * ifm_w * _rup(_cdiv(ifm_d * v.ifm_bits, 8), 8)
    if v.is_ew:
        ifm_gran = gran[4] if v.ifm_bits == 32 else gran[2 if v.ifm_bits == 8 else 3]
    else:
        ifm_gran = gran[4] if v.ifm_bits == 32 else gran[0 if v.ifm_bits == 8 else 1]
    ifm_banks = _rup(2 * _cdiv(ifm_bytes, BANK_BYTES), ifm_gran)
    acc_banks = 0
    if not v.is_ew:
        acc_h = bh
        if v.ofm[0] == 1 and v.kh == 1 and ub_h == 2:
            acc_h = 1  # 256/512 MAC engines only keep one accumulator row for 1-D operations
        acc_bytes = acc_h * bw * _rup(bd, 8) * v.acc_bits // 8
        acc_banks = _rup(2 * _cdiv(acc_bytes, BANK_BYTES), gran[ACC_GRANULE_INDEX[v.acc_bits]])
    end_reserved = 2 if (v.uses_lut or total_banks > 16) else 0
    return ifm_banks, acc_banks, total_banks - end_reserved


def check_op(accel, v, expect_acc_bits=None):
    """Returns a list of violations (strings) for one operation"""
    (ub_w, ub_h, ub_d), _, total_banks, _ = ACCELERATORS[accel]
    bad = []
    for name, val, ub, mx in zip("hwd", v.blk, (ub_h, ub_w, ub_d), MAX_BLOCK_HWD):
        if val <= 0 or val % ub != 0:
            bad.append(f"OFM block {name}={val} is not a positive multiple of the micro-block ({ub})")
        if val > mx:
            bad.append(f"OFM block {name}={val} exceeds the maximum block size ({mx})")
    if v.acc_bits is None:
        bad.append("invalid ACC_FORMAT")
        return bad
    if v.ib_end is None or v.ab_start is None:
        bad.append("IFM_IB_END / AB_START were never programmed")
        return bad
    if expect_acc_bits is not None and not v.is_ew and v.acc_bits != expect_acc_bits:
        bad.append(f"ACC_FORMAT selects {v.acc_bits} bit accumulators, the operation needs {expect_acc_bits} bit")
    ifm_banks, acc_banks, usable_end = required_banks(accel, v)
    need = f"(needs ifm={ifm_banks} acc={acc_banks} banks, usable end bank={usable_end})"
    if v.is_ew and not v.ew_unary and not v.ew_scalar:
        if v.ifm2_ib_start is None:
            bad.append("IFM2_IB_START was never programmed for a binary elementwise operation")
        else:
            if OUTPUT_BANKS + ifm_banks > v.ifm2_ib_start:
                bad.append(f"IFM buffer [2,{v.ifm2_ib_start}) too small for the double buffered IFM block {need}")
            if v.ifm2_ib_start + ifm_banks > v.ib_end:
                bad.append(
                    f"IFM2 buffer [{v.ifm2_ib_start},{v.ib_end}) too small for the double buffered IFM2 block {need}"
                )
    else:
        if OUTPUT_BANKS + ifm_banks > v.ib_end:
            bad.append(f"IFM buffer [2,{v.ib_end}) too small for the double buffered IFM block {need}")
    if v.ib_end > v.ab_start:
        bad.append(f"IFM buffer end {v.ib_end} overlaps the accumulators starting at {v.ab_start}")
    if v.ab_start + acc_banks > usable_end:
        bad.append(
            f"accumulators [{v.ab_start},{v.ab_start + acc_banks}) do not fit below bank {usable_end} "
            f"(of {total_banks}; LUT/reserved banks above) {need}"
        )
    return bad


def iterate_ops(stream, dma_callback=None):
    """Walks a command stream; yields OpView for every block operation.
    dma_callback(dst_region, dst_address, length) is called for every DMA operation."""
    regs = {}
    payload_regs = {}
    i = 0
    n = len(stream)
    while i < n:
        word = int(stream[i]) & 0xFFFFFFFF
        code = word & 0xFFFF
        param = word >> 16
        if code & 0x4000:
            payload_regs[code & 0x3FF] = (param << 32) | (int(stream[i + 1]) & 0xFFFFFFFF)
            i += 2
            continue
        i += 1
        cmd = code & 0x3FF
        if cmd in (OP_CONV, OP_DEPTHWISE, OP_POOL, OP_ELEMENTWISE):
            yield OpView(cmd, param, regs)
        elif cmd == OP_DMA_START:
            if dma_callback is not None:
                dma_callback(regs.get(DMA0_DST_REGION), payload_regs.get(DMA0_DST, 0), payload_regs.get(DMA0_LEN, 0))
        elif cmd >= 0x100:
            regs[cmd] = param


def check_stream(accel, stream, expect_acc_bits=None, track_lut=True):
    """Returns list of (op description, [violations]) for every invalid operation in the stream, and the op count.

    Besides the per operation partition check this (track_lut=True; only meaningful for complete streams that contain
    the table DMAs) follows the contents of the lookup table partition (the last two banks): a table is usable by an operation only if it was copied there (DMA to the shared buffer) after the last
    operation whose own IFM/IFM2/accumulator partitions covered those banks."""
    total_banks = ACCELERATORS[accel][2]
    lut_base = (total_banks - 2) * BANK_BYTES
    loaded_slots = set()
    res = []
    count = 0

    def on_dma(region, address, length):
        if region != DMA_REGION_SHRAM:
            return
        if address < lut_base or address + length > total_banks * BANK_BYTES:
            res.append((f"DMA to shared buffer [{address},{address + length})", ["table copied outside the LUT banks"]))
            return
        first = (address - lut_base) // LUT_SLOT_BYTES
        last = (address + length - 1 - lut_base) // LUT_SLOT_BYTES
        loaded_slots.update(range(first, last + 1))

    for v in iterate_ops(stream, on_dma):
        count += 1
        bad = check_op(accel, v, expect_acc_bits)
        if v.acc_bits is not None and v.ib_end is not None and v.ab_start is not None:
            _, acc_banks, _ = required_banks(accel, v)
            if not track_lut:
                pass
            elif v.uses_lut:
                slot = regs_slot = v.lut_slot
                if slot not in loaded_slots:
                    bad.append(
                        f"uses lookup table slot {regs_slot} but no table has been copied there since an earlier "
                        f"operation used the LUT banks [{total_banks - 2},{total_banks}) for its own buffers"
                    )
            elif max(v.ib_end, v.ab_start + acc_banks) > total_banks - 2:
                # the operation's own partitions cover the LUT banks: whatever table was there is gone
                loaded_slots.clear()
        if bad:
            res.append((v.describe(), bad))
    return res, count


def check_selected_block(accel, v):
    """Checks a block configuration that has been *selected* for an operation (no partition registers known yet):
    v needs the attributes used by required_banks() (acc_bits = accumulator width the operation needs).
    Returns a list of violations: block shape invalid, or no partition of the shared buffer can hold its buffers."""
    (ub_w, ub_h, ub_d), _, total_banks, _ = ACCELERATORS[accel]
    bad = []
    for name, val, ub, mx in zip("hwd", v.blk, (ub_h, ub_w, ub_d), MAX_BLOCK_HWD):
        if val <= 0 or val % ub != 0:
            bad.append(f"OFM block {name}={val} is not a positive multiple of the micro-block ({ub})")
        if val > mx:
            bad.append(f"OFM block {name}={val} exceeds the maximum block size ({mx})")
    ifm_banks, acc_banks, usable_end = required_banks(accel, v)
    if v.is_ew:
        need = OUTPUT_BANKS + ifm_banks * (1 if (v.ew_unary or v.ew_scalar) else 2)
    else:
        need = OUTPUT_BANKS + ifm_banks + acc_banks
    if need > usable_end:
        bad.append(
            f"block {v.blk} needs {need} banks (2 output + ifm {ifm_banks} + acc {acc_banks} at {v.acc_bits} bit) but only "
            f"{usable_end} of {total_banks} banks are usable"
        )
    return bad

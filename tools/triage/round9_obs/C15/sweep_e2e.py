"""End-to-end sweep (exploration tool): random small networks -> vela.main -> register-level oracle."""
import os
import random
import sys
import traceback

sys.path.insert(0, os.getcwd())
sys.path.insert(0, os.path.dirname(os.path.abspath(__file__)))

import c15_models as m  # noqa: E402
import c15_oracle as orc  # noqa: E402

ACCS = ["ethos-u55-32", "ethos-u55-64", "ethos-u55-128", "ethos-u55-256", "ethos-u65-256", "ethos-u65-512"]


def accel_key(a):
    return "Ethos_" + a.split("-", 1)[1].upper().replace("-", "_")


def random_model(rng):
    bits = rng.choice([8, 8, 8, 16])
    h = rng.choice([1, 2, 4, 7, 8, 16, 24, 33])
    w = rng.choice([1, 4, 8, 9, 16, 32, 40])
    c = rng.choice([1, 3, 8, 16, 17, 32, 40])
    mod = m.Model(h, w, c, bits)
    desc = [f"in {h}x{w}x{c} b{bits}"]
    for _ in range(rng.randint(1, 4)):
        n, ch, cw, cc = (mod.cur.shape + [1, 1, 1, 1])[:4] if len(mod.cur.shape) == 4 else (1, 1, 1, mod.cur.shape[-1])
        if len(mod.cur.shape) != 4:
            break
        kind = rng.choice(["conv", "conv", "dw", "max", "avg", "add", "mul", "addc", "adds", "tanh", "sigmoid", "leaky",
                           "resize", "tconv", "fc", "softmax", "mean", "hardswish", "minc"])
        try:
            if kind == "conv":
                kh, kw = rng.choice([1, 1, 2, 3, 5, 7]), rng.choice([1, 1, 2, 3, 5, 7])
                sh, sw = rng.choice([1, 1, 2, 3]), rng.choice([1, 1, 2, 3])
                dh, dw = (rng.choice([1, 2]), rng.choice([1, 2])) if sh == sw == 1 else (1, 1)
                oc = rng.choice([1, 4, 8, 16, 24, 33, 64])
                same = rng.random() < 0.5
                act = rng.choice([None, None, Op_relu(), Op_tanh()])
                mod.conv(oc, kh, kw, sh, sw, dh, dw, same, act)
                desc.append(f"conv oc{oc} k{kh}x{kw} s{sh}x{sw} d{dh}x{dw} same={same} act={act}")
            elif kind == "dw":
                kh, kw = rng.choice([1, 2, 3, 5]), rng.choice([1, 2, 3, 5])
                sh = sw = rng.choice([1, 1, 2])
                same = rng.random() < 0.5
                mod.depthwise(kh, kw, sh, sw, 1, 1, same)
                desc.append(f"dw k{kh}x{kw} s{sh} same={same}")
            elif kind in ("max", "avg"):
                kh, kw = rng.choice([1, 2, 3]), rng.choice([1, 2, 3])
                sh, sw = rng.choice([1, 2]), rng.choice([1, 2])
                same = rng.random() < 0.5
                mod.pool(kind, kh, kw, sh, sw, same)
                desc.append(f"{kind} k{kh}x{kw} s{sh}x{sw} same={same}")
            elif kind in ("add", "mul"):
                mod.binary(kind, "self", rng.choice([None, None, Op_relu(), Op_tanh()]))
                desc.append(kind)
            elif kind == "addc":
                shape = rng.choice([[1, 1, 1, cc], [1, 1, cw, cc], [1, ch, cw, cc], [1, 1, 1, 1]])
                mod.binary("add", "const", None, 0.5, shape)
                desc.append(f"add const{shape}")
            elif kind == "minc":
                shape = rng.choice([[1, 1, 1, cc], [1, ch, cw, cc], []])
                mod.binary("min", "const", None, 0.5, shape)
                desc.append(f"min const{shape}")
            elif kind == "adds":
                mod.binary(rng.choice(["add", "mul", "sub"]), "const", None, 0.5, [])
                desc.append("binary scalar")
            elif kind in ("tanh", "sigmoid", "leaky", "hardswish"):
                if kind == "hardswish" and bits != 8:
                    continue
                mod.unary(kind)
                desc.append(kind)
            elif kind == "resize":
                if ch * cw > 600:
                    continue
                rk = rng.choice(["nearest", "bilinear"])
                ac = rng.random() < 0.3
                hp = (not ac) and rng.random() < 0.3
                f = rng.choice([2, 2, 4])
                mod.resize(rk, f, ac, hp)
                desc.append(f"resize {rk} x{f} ac={ac} hp={hp}")
            elif kind == "tconv":
                if ch * cw > 600:
                    continue
                k = rng.choice([2, 3, 4])
                oc = rng.choice([4, 8, 16])
                same = rng.random() < 0.5
                mod.transpose_conv(oc, k, k, 2, same)
                desc.append(f"tconv oc{oc} k{k} same={same}")
            elif kind == "fc":
                if ch * cw != 1:
                    continue
                oc = rng.choice([8, 10, 64])
                mod.fully_connected(oc)
                desc.append(f"fc {oc}")
            elif kind == "softmax":
                mod.softmax()
                desc.append("softmax")
            elif kind == "mean":
                mod.mean()
                desc.append("mean")
        except AssertionError:
            continue
    return mod, "; ".join(desc)


def Op_relu():
    from ethosu.vela.operation import Op

    return Op.Relu


def Op_tanh():
    from ethosu.vela.operation import Op

    return Op.Tanh


def main():
    seed = int(sys.argv[1]) if len(sys.argv) > 1 else 1
    n = int(sys.argv[2]) if len(sys.argv) > 2 else 20
    rng = random.Random(seed)
    nops = nbad = nerr = 0
    for i in range(n):
        mod, desc = random_model(rng)
        if not mod.ops:
            continue
        data = mod.serialise()
        for acc in ACCS:
            extra = rng.choice([[], [], ["--optimise", "Size"], ["--arena-cache-size", "30000"]])
            try:
                streams, out = m.compile_model(data, acc, extra)
            except BaseException as e:
                if isinstance(e, KeyboardInterrupt):
                    raise
                tb = traceback.format_exc()
                if "does not fit" in tb or "block_config" in tb:
                    nbad += 1
                    print("BAD(assert)", acc, extra, desc, "\n    ", repr(e)[:200])
                else:
                    nerr += 1
                    if "-v" in sys.argv:
                        print("ERR", acc, desc, repr(e)[:200], tb.strip().splitlines()[-3:])
                continue
            for s in streams:
                bad, count = orc.check_stream(accel_key(acc), s)
                nops += count
                for d, why in bad:
                    nbad += 1
                    print("BAD", acc, extra, desc, "\n    ", why, "\n    ", d)
    print(f"ops checked={nops} bad={nbad} errors={nerr}")


main()

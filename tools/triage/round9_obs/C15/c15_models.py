"""Builds small .tflite models in memory with Vela's own classes, compiles them with the top level driver and returns
the register command streams of the compiled network (read back from the written *_vela.tflite)."""
import contextlib
import io
import os
import struct
import sys
import tempfile

import numpy as np

from ethosu.vela import vela
from ethosu.vela.data_type import DataType
from ethosu.vela.nn_graph import Graph
from ethosu.vela.nn_graph import Pass
from ethosu.vela.nn_graph import PassPlacement
from ethosu.vela.nn_graph import Subgraph
from ethosu.vela.operation import Op
from ethosu.vela.operation import Operation
from ethosu.vela.operation import Padding
from ethosu.vela.tensor import create_const_tensor
from ethosu.vela.tensor import QuantizationParameters
from ethosu.vela.tensor import Tensor
from ethosu.vela.tflite_writer import write_tflite_buffer

DT = {8: DataType.int8, 16: DataType.int16, 32: DataType.int32}


def quant(scale=0.5, zp=0):
    qp = QuantizationParameters()
    qp.scale_f32 = np.float32(scale)
    qp.zero_point = zp
    return qp


class Model:
    """Sequential model builder: every add_* call appends an operator that consumes the current tensor"""

    def __init__(self, h, w, c, bits=8, scale=0.5):
        self.bits = bits
        self.ops = []
        self.count = 0
        self.input = self._act([1, h, w, c], scale, "input")
        self.cur = self.input

    def _act(self, shape, scale=0.5, name=None, bits=None):
        self.count += 1
        t = Tensor(list(shape), DT[bits or self.bits], name or f"t{self.count}")
        t.quantization = quant(scale, 0)
        return t

    def _add(self, op, ofm):
        op.set_output_tensor(ofm)
        self.ops.append(op)
        self.cur = ofm
        return ofm

    def conv(self, oc, kh, kw, sh=1, sw=1, dh=1, dw=1, same=False, act=None, oscale=0.5, bias=True):
        n, h, w, c = self.cur.shape
        self.count += 1
        name = f"conv{self.count}"
        wshape = [oc, kh, kw, c]
        rng = np.random.RandomState(self.count)
        wt = create_const_tensor(
            name + "_w", wshape, DataType.int8, rng.randint(-5, 6, wshape), quantization=quant(0.25, 0)
        )
        bias_dt = DataType.int64 if self.bits == 16 else DataType.int32
        bt = create_const_tensor(name + "_b", [oc], bias_dt, np.zeros([oc]), quantization=quant(0.125, 0))
        op = Operation(Op.Conv2DBias, name)
        op.inputs = [self.cur, wt, bt if bias else None]
        for t in op.inputs:
            if t is not None:
                t.consumer_list.append(op)
        op.attrs = {
            "padding": Padding.SAME if same else Padding.VALID,
            "stride_w": sw,
            "stride_h": sh,
            "dilation_w_factor": dw,
            "dilation_h_factor": dh,
            "fused_activation_function": act,
        }
        ekh, ekw = (kh - 1) * dh + 1, (kw - 1) * dw + 1
        if same:
            oh, ow = -(-h // sh), -(-w // sw)
        else:
            oh, ow = (h - ekh) // sh + 1, (w - ekw) // sw + 1
        assert oh > 0 and ow > 0
        return self._add(op, self._act([1, oh, ow, oc], oscale))

    def depthwise(self, kh, kw, sh=1, sw=1, dh=1, dw=1, same=False, act=None):
        n, h, w, c = self.cur.shape
        self.count += 1
        name = f"dw{self.count}"
        wshape = [1, kh, kw, c]
        rng = np.random.RandomState(self.count)
        wt = create_const_tensor(
            name + "_w", wshape, DataType.int8, rng.randint(-5, 6, wshape), quantization=quant(0.25, 0)
        )
        bias_dt = DataType.int64 if self.bits == 16 else DataType.int32
        bt = create_const_tensor(name + "_b", [c], bias_dt, np.zeros([c]), quantization=quant(0.125, 0))
        op = Operation(Op.DepthwiseConv2DBias, name)
        op.inputs = [self.cur, wt, bt]
        for t in op.inputs:
            t.consumer_list.append(op)
        op.attrs = {
            "padding": Padding.SAME if same else Padding.VALID,
            "stride_w": sw,
            "stride_h": sh,
            "dilation_w_factor": dw,
            "dilation_h_factor": dh,
            "depth_multiplier": 1,
            "fused_activation_function": act,
        }
        ekh, ekw = (kh - 1) * dh + 1, (kw - 1) * dw + 1
        if same:
            oh, ow = -(-h // sh), -(-w // sw)
        else:
            oh, ow = (h - ekh) // sh + 1, (w - ekw) // sw + 1
        assert oh > 0 and ow > 0
        return self._add(op, self._act([1, oh, ow, c]))

    def pool(self, kind, kh, kw, sh=1, sw=1, same=False):
        n, h, w, c = self.cur.shape
        self.count += 1
        op = Operation({"max": Op.MaxPool, "avg": Op.AvgPool}[kind], f"{kind}pool{self.count}")
        op.inputs = [self.cur]
        self.cur.consumer_list.append(op)
        op.attrs = {
            "padding": Padding.SAME if same else Padding.VALID,
            "stride_w": sw,
            "stride_h": sh,
            "filter_width": kw,
            "filter_height": kh,
            "fused_activation_function": None,
        }
        if same:
            oh, ow = -(-h // sh), -(-w // sw)
        else:
            oh, ow = (h - kh) // sh + 1, (w - kw) // sw + 1
        assert oh > 0 and ow > 0
        return self._add(op, self._act([1, oh, ow, c]))

    def binary(self, kind, other="self", act=None, oscale=0.5, const_shape=None, const_value=3):
        """other: 'self' (x op x), or 'const' with const_shape ([] for a scalar)"""
        self.count += 1
        optype = {"add": Op.Add, "mul": Op.Mul, "sub": Op.Sub, "min": Op.Minimum, "max": Op.Maximum}[kind]
        op = Operation(optype, f"{kind}{self.count}")
        if other == "self":
            second = self.cur
        else:
            shape = list(const_shape)
            second = create_const_tensor(
                op.name + "_c", shape, DT[self.bits], np.full(shape, const_value), quantization=quant(0.5, 0)
            )
        op.inputs = [self.cur, second]
        for t in (self.cur, second):
            t.consumer_list.append(op)
        op.attrs = {"fused_activation_function": act}
        if kind in ("add", "sub"):
            op.attrs["pot_scale_int16"] = False
        return self._add(op, self._act(self.cur.shape, oscale))

    def unary(self, kind, oscale=0.5):
        self.count += 1
        optype = {
            "tanh": Op.Tanh,
            "sigmoid": Op.Sigmoid,
            "abs": Op.Abs,
            "leaky": Op.LeakyRelu,
            "hardswish": Op.HardSwish,
        }[kind]
        op = Operation(optype, f"{kind}{self.count}")
        op.inputs = [self.cur]
        self.cur.consumer_list.append(op)
        op.attrs = {}
        if kind == "leaky":
            op.attrs["alpha"] = 0.125
        if kind == "tanh":
            oscale = 1.0 / 128 if self.bits == 8 else 1.0 / 32768
        if kind == "sigmoid":
            oscale = 1.0 / 256 if self.bits == 8 else 1.0 / 32768
        t = self._act(self.cur.shape, oscale)
        if kind == "sigmoid" and self.bits == 8:
            t.quantization.zero_point = -128
        return self._add(op, t)

    def resize(self, kind, factor=2, align_corners=False, half_pixel=False):
        n, h, w, c = self.cur.shape
        self.count += 1
        optype = {"nearest": Op.ResizeNearestNeighbor, "bilinear": Op.ResizeBilinear}[kind]
        op = Operation(optype, f"resize{self.count}")
        if align_corners:
            oh, ow = (h - 1) * factor + 1, (w - 1) * factor + 1
        else:
            oh, ow = h * factor, w * factor
        size = create_const_tensor(op.name + "_size", [2], DataType.int32, np.array([oh, ow]))
        op.inputs = [self.cur, size]
        for t in op.inputs:
            t.consumer_list.append(op)
        op.attrs = {"align_corners": align_corners, "half_pixel_centers": half_pixel}
        t = self._act([1, oh, ow, c])
        t.quantization = self.cur.quantization.clone()
        return self._add(op, t)

    def transpose_conv(self, oc, kh, kw, stride=2, same=True):
        n, h, w, c = self.cur.shape
        self.count += 1
        name = f"tconv{self.count}"
        if same:
            oh, ow = h * stride, w * stride
        else:
            oh, ow = (h - 1) * stride + kh, (w - 1) * stride + kw
        wshape = [oc, kh, kw, c]
        rng = np.random.RandomState(self.count)
        wt = create_const_tensor(
            name + "_w", wshape, DataType.int8, rng.randint(-5, 6, wshape), quantization=quant(0.25, 0)
        )
        oshape = create_const_tensor(name + "_oshape", [4], DataType.int32, np.array([1, oh, ow, oc]))
        bias_dt = DataType.int64 if self.bits == 16 else DataType.int32
        bt = create_const_tensor(name + "_b", [oc], bias_dt, np.zeros([oc]), quantization=quant(0.125, 0))
        op = Operation(Op.Conv2DBackpropInput, name)
        op.inputs = [oshape, wt, self.cur, bt]
        for t in op.inputs:
            t.consumer_list.append(op)
        op.attrs = {
            "padding": Padding.SAME if same else Padding.VALID,
            "stride_w": stride,
            "stride_h": stride,
            "fused_activation_function": None,
        }
        return self._add(op, self._act([1, oh, ow, oc]))

    def fully_connected(self, oc):
        shape = self.cur.shape
        ic = shape[-1]
        self.count += 1
        name = f"fc{self.count}"
        rng = np.random.RandomState(self.count)
        wt = create_const_tensor(
            name + "_w", [oc, ic], DataType.int8, rng.randint(-5, 6, [oc, ic]), quantization=quant(0.25, 0)
        )
        bias_dt = DataType.int64 if self.bits == 16 else DataType.int32
        bt = create_const_tensor(name + "_b", [oc], bias_dt, np.zeros([oc]), quantization=quant(0.125, 0))
        op = Operation(Op.FullyConnected, name)
        op.inputs = [self.cur, wt, bt]
        for t in op.inputs:
            t.consumer_list.append(op)
        op.attrs = {"fused_activation_function": None, "weights_format": 0, "keep_num_dims": False}
        batch = int(np.prod(shape[:-1]))
        return self._add(op, self._act([batch, oc]))

    def softmax(self, beta=1.0):
        self.count += 1
        op = Operation(Op.Softmax, f"softmax{self.count}")
        op.inputs = [self.cur]
        self.cur.consumer_list.append(op)
        op.attrs = {"beta": beta}
        t = self._act(self.cur.shape, 1.0 / 256 if self.bits == 8 else 1.0 / 32768)
        if self.bits == 8:
            t.quantization.zero_point = -128
        return self._add(op, t)

    def mean(self, axes=(1, 2), keep_dims=True):
        n, h, w, c = self.cur.shape
        self.count += 1
        op = Operation(Op.Mean, f"mean{self.count}")
        ax = create_const_tensor(op.name + "_axis", [len(axes)], DataType.int32, np.array(list(axes)))
        op.inputs = [self.cur, ax]
        for t in op.inputs:
            t.consumer_list.append(op)
        op.attrs = {"keep_dims": keep_dims}
        return self._add(op, self._act([1, 1, 1, c]))

    def serialise(self) -> bytes:
        nng = Graph("model")
        sg = Subgraph("main", PassPlacement.Cpu)
        sg.input_tensors = [self.input]
        sg.original_inputs = [self.input]
        sg.output_tensors = [self.cur]
        ps = Pass("all", PassPlacement.Cpu, False, None)
        ps.ops = list(self.ops)
        sg.passes = [ps]
        nng.subgraphs.append(sg)
        return bytes(write_tflite_buffer(nng))


def compile_model(model_bytes, accelerator, extra_args=(), selected_ops=None):
    """Runs the Vela driver; returns (list of command streams (lists of 32 bit words), captured stdout).
    If selected_ops is a list, the api operations (with the block configuration the scheduler selected) that are handed
    to the register command stream generator are appended to it, also when the generator then fails."""
    from ethosu.vela import high_level_command_to_npu_op as hl

    original = hl.generate_command_stream

    def capture(npu_op_list, *args, **kwargs):
        if selected_ops is not None:
            selected_ops.extend(npu_op_list)
        return original(npu_op_list, *args, **kwargs)

    hl.generate_command_stream = capture
    try:
        return _compile_model(model_bytes, accelerator, extra_args)
    finally:
        hl.generate_command_stream = original


def _compile_model(model_bytes, accelerator, extra_args=()):
    with tempfile.TemporaryDirectory() as tmp:
        path = os.path.join(tmp, "m.tflite")
        with open(path, "wb") as f:
            f.write(model_bytes)
        args = ["--accelerator-config", accelerator, "--output-dir", tmp] + list(extra_args) + [path]
        log = os.path.join(tmp, "stdout.txt")
        sys.stdout.flush()
        saved = os.dup(1)
        fd = os.open(log, os.O_WRONLY | os.O_CREAT | os.O_TRUNC)
        os.dup2(fd, 1)
        try:
            with contextlib.redirect_stdout(io.TextIOWrapper(os.fdopen(os.dup(1), "wb"), write_through=True)):
                vela.main(args)
        finally:
            os.dup2(saved, 1)
            os.close(saved)
            os.close(fd)
        with open(log) as f:
            out_text = f.read()
        with open(os.path.join(tmp, "m_vela.tflite"), "rb") as f:
            compiled = f.read()
    return extract_command_streams(compiled), out_text


def extract_command_streams(tflite_bytes):
    """Finds the ethos-u custom operators in a compiled file and returns their register command streams"""
    from ethosu.vela.tflite import Model as TflModel

    model = TflModel.Model.GetRootAsModel(bytearray(tflite_bytes), 0)
    streams = []
    for si in range(model.SubgraphsLength()):
        sg = model.Subgraphs(si)
        for oi in range(sg.OperatorsLength()):
            op = sg.Operators(oi)
            code = model.OperatorCodes(op.OpcodeIndex())
            if code.CustomCode() != b"ethos-u":
                continue
            tens = sg.Tensors(op.Inputs(0))
            buf = model.Buffers(tens.Buffer()).DataAsNumpy()
            words = list(struct.unpack("<{}I".format(len(buf) // 4), bytes(buf)))
            assert words[0] == struct.unpack("<I", b"COP1")[0]
            i = 1
            while i < len(words):
                tag = words[i] & 0xFF
                if tag == 0x01:  # config: two payload words
                    i += 3
                elif tag == 0x05:  # NOP
                    i += 1
                elif tag == 0x02:  # command stream
                    length = ((words[i] >> 8) & 0xFF) << 16 | (words[i] >> 16)
                    streams.append(words[i + 1 : i + 1 + length])
                    i += 1 + length
                else:
                    raise AssertionError(f"unexpected driver action {words[i]:#x}")
    return streams

"""Observation on the UNMODIFIED tree, NOT a C15 matter (found by the end-to-end sweep): a RESIZE_NEAREST_NEIGHBOR with
align_corners=True (e.g. 8x4 -> 15x7) makes the compiler crash in the graph optimiser with
'ValueError: cannot reshape array of size 4 into shape (2,2,32,32)' on every accelerator. Exits 1 if it crashes."""
import os
import sys

sys.path.insert(0, os.getcwd())
sys.path.insert(0, os.path.dirname(os.path.abspath(__file__)))

import c15_models as m  # noqa: E402

mod = m.Model(8, 4, 32)
mod.resize("nearest", 2, align_corners=True, half_pixel=False)
try:
    m.compile_model(mod.serialise(), "ethos-u55-128")
except ValueError as e:
    print("crash on unmodified tree:", repr(e))
    sys.exit(1)
print("compiled")
sys.exit(0)

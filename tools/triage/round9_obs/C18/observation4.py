"""Observation 4 (unmodified tree): OPTIONS.md says "All sections and key/value pairs are case-sensitive" and gives
ranges ({float 0.0 to 1.0} for clock scales); ConfigParser lower-cases option names, so differently spelled keys are
accepted as the documented ones, and numeric options outside the documented ranges are accepted unchecked."""
import os
import sys
import tempfile

sys.path.insert(0, os.getcwd())
sys.path.insert(0, os.path.dirname(os.path.abspath(__file__)))
import c18_util as u  # noqa: E402

tmp = tempfile.mkdtemp(prefix="c18_obs4_")
cfg = os.path.join(tmp, "c.ini")
open(cfg, "w").write(
    "[System_Config.S]\nCORE_CLOCK=-5\naxi0_port=Sram\nAXI1_PORT=Dram\ndram_CLOCK_scale=7.5\nDRAM_BURST_LENGTH=-3\n"
    "sram_clock_scale=nan\nDram_read_latency=-9\n[Memory_Mode.M]\nCONST_MEM_AREA=Axi1\nARENA_mem_area=Axi1\n"
)
got = u.actual_resolve([cfg], "ethos-u65-256", "S", "M", None)
want = u.reference_resolve([open(cfg).read()], "ethos-u65-256", "S", "M", None)  # case-sensitive reading of the file
print("resolved:", {k: got[k] for k in ("core_clock", "axi1_port", "Dram_clock_scale", "Dram_burst_length", "Sram_clock_scale", "Dram_read_latency", "const_mem_area", "arena_mem_area")})
d = {k: v for k, v in u.diff(want, got).items() if "bytes_per" not in k}
print("differences to a case-sensitive reading (documented, actual):", d)
print("VIOLATION OBSERVED: wrongly spelled keys were used and out-of-range numbers accepted" if d else "not observed")
sys.exit(1 if d else 0)

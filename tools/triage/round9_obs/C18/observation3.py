"""Observation 3 (unmodified tree): the 'internal-default' configuration used by the command line differs from the
documented one and depends on whether --config is present.  OPTIONS.md: internal-default = Ethos-U65 Client-Server
(DRAM 12 GB/s) for Ethos-U65 and Ethos-U55 High-End Embedded (500 MHz, Sram + OffChipFlash) for Ethos-U55.
 * `vela net.tflite` (no --config) builds Imx93ArchitectureFeatures: Ethos-U65 High-End (Dram_clock_scale 0.234375),
   for Ethos-U55 accelerators as well (1 GHz, axi1_port=Dram).
 * `vela net.tflite --config Arm/vela.ini` (still internal-default for both selections) uses the documented defaults."""
import os
import sys
import tempfile

sys.path.insert(0, os.getcwd())
sys.path.insert(0, os.path.dirname(os.path.abspath(__file__)))
import c18_util as u  # noqa: E402

tmp = tempfile.mkdtemp(prefix="c18_obs3_")
net = u.build_model(os.path.join(tmp, "net.tflite"))
bad = []
for acc in ("ethos-u65-256", "ethos-u55-128"):
    want = u.reference_resolve(None, acc, "internal-default", "internal-default", 384 * 1024)
    for extra in ([], ["--config", "Arm/vela.ini"]):
        rc, out = u.run_vela([net, "--accelerator-config", acc, "--verbose-config", "--output-dir", os.path.join(tmp, "o")] + extra, cwd=tmp)
        s = u.parse_verbose_config(out)
        area = want["axi1_port"]
        shown = (s.get("core_clock"), s.get("axi1_port"), s.get(s.get("axi1_port", "") + "_clock_scales"))
        doc = (str(want["core_clock"]), area, str(want[area + "_clock_scale"]))
        print(f"{acc} {' '.join(extra) or '(no --config)':24s} exit {rc}: core_clock, axi1_port, its clock scale = {shown}; documented {doc}")
        if shown != doc:
            bad.append(f"{acc} {' '.join(extra) or '(no --config)'}: {shown} != documented {doc}")
print("VIOLATION OBSERVED:\n - " + "\n - ".join(bad) if bad else "not observed")
sys.exit(1 if bad else 0)

"""Observation 2 (unmodified tree): a [DEFAULT] section (standard ConfigParser feature of the documented ".ini file
format") beats the value a section inherits from its parent: has_option(child, key) is true because of [DEFAULT], so
_read_config() overwrites the parent's explicit value with the [DEFAULT] one."""
import os
import sys
import tempfile

sys.path.insert(0, os.getcwd())
sys.path.insert(0, os.path.dirname(os.path.abspath(__file__)))
import c18_util as u  # noqa: E402

tmp = tempfile.mkdtemp(prefix="c18_obs2_")
cfg = os.path.join(tmp, "d.ini")
open(cfg, "w").write(
    "[DEFAULT]\narena_cache_size=1000\nDram_read_latency=1\n"
    "[System_Config.Parent]\naxi0_port=Sram\naxi1_port=Dram\nDram_read_latency=500\n"
    "[System_Config.Child]\ninherit=System_Config.Parent\ncore_clock=1e9\n"
    "[Memory_Mode.Parent]\nconst_mem_area=Axi1\narena_mem_area=Axi1\narena_cache_size=2000\n"
    "[Memory_Mode.Child]\ninherit=Memory_Mode.Parent\n"
)
got = u.actual_resolve([cfg], "ethos-u65-256", "Child", "Child", None)
print("Memory_Mode.Child inherits arena_cache_size=2000 from its parent; resolved:", got["arena_cache_size"])
print("System_Config.Child inherits Dram_read_latency=500 from its parent; resolved:", got["Dram_read_latency"])
bad = got["arena_cache_size"] != 2000 or got["Dram_read_latency"] != 500
print("VIOLATION OBSERVED: the [DEFAULT] fallback replaced the inherited values" if bad else "not observed")
sys.exit(1 if bad else 0)

import os, random, sys, tempfile
sys.path.insert(0, os.path.dirname(os.path.abspath(__file__)))
import c18_util as u

rnd = random.Random(int(sys.argv[1]) if len(sys.argv) > 1 else 0)
N = int(sys.argv[2]) if len(sys.argv) > 2 else 2000
tmp = tempfile.mkdtemp()
ACCS = ["ethos-u55-32", "ethos-u55-64", "ethos-u55-128", "ethos-u55-256", "ethos-u65-256", "ethos-u65-512"]

CLEAN = [False]
def pick(rnd, good, badl):
    return rnd.choice(good) if CLEAN[0] else rnd.choice(good * 4 + badl)

def rand_sys_section(rnd, names, idx):
    d = {}
    if rnd.random() < 0.6: d["core_clock"] = pick(rnd, ["200e6", "500e6", "1e9", "123456789", "0.5", "1e6"], ["abc"])
    for p in ("axi0_port", "axi1_port"):
        if rnd.random() < 0.7:
            d[p] = pick(rnd, ["Sram", "Sram", "Dram", "OffChipFlash", "OnChipFlash"], ["Shram", "Unknown", "sram", "Size", "Flash"])
    for a in u.AREAS:
        if rnd.random() < 0.4: d[a + "_clock_scale"] = rnd.choice(["1.0", "0.5", "0.0625", "0.3", "0.234375", "0.75", "2"])
        if rnd.random() < 0.4: d[a + "_burst_length"] = pick(rnd, ["32", "64", "128", "1", "16"], ["x", "1.5"])
        if rnd.random() < 0.4: d[a + "_read_latency"] = rnd.choice(["32", "64", "500", "0", "7"])
        if rnd.random() < 0.4: d[a + "_write_latency"] = rnd.choice(["32", "64", "250", "0", "9"])
    return d

def rand_mem_section(rnd):
    d = {}
    for k in ("const_mem_area", "arena_mem_area", "cache_mem_area"):
        if rnd.random() < 0.7: d[k] = pick(rnd, ["Axi0", "Axi1"], ["axi0", "Axi2", "Sram"])
    if rnd.random() < 0.5:
        d["arena_cache_size"] = pick(rnd, ["0", "1024", "393216", "524288", str(1 << 32), "4294967295"], [str((1 << 32) + 1), str(1 << 40), str((1 << 40) + 1), "-1", "1e6", "0x100"])
    return d

bad = 0
acc_n = 0
for it in range(N):
    CLEAN[0] = rnd.random() < 0.75
    nsys, nmem = rnd.randint(1, 4), rnd.randint(1, 4)
    secs = {}
    for part, n, gen in (("System_Config", nsys, lambda: rand_sys_section(rnd, None, None)), ("Memory_Mode", nmem, lambda: rand_mem_section(rnd))):
        names = [f"{part}.N{i}" for i in range(n)]
        for i, nm in enumerate(names):
            d = gen()
            r = rnd.random()
            if r < 0.5 and i > 0:
                d["inherit"] = names[rnd.randrange(i)]  # acyclic
            elif CLEAN[0]:
                pass
            elif r < 0.58:
                d["inherit"] = rnd.choice(names)  # maybe loop / self
            elif r < 0.62:
                d["inherit"] = part + ".Missing"
            secs[nm] = d
    # split over 1 or 2 files
    files = [dict(), dict()] if rnd.random() < 0.3 else [dict()]
    for nm, d in secs.items():
        rnd.choice(files)[nm] = d
    texts = []
    paths = []
    for fi, f in enumerate(files):
        t = "; generated\n"
        for nm, d in f.items():
            t += f"[{nm}]\n" + "".join(f"{k}={v}\n" for k, v in d.items()) + "\n"
        texts.append(t)
        p = os.path.join(tmp, f"c{it}_{fi}.ini")
        open(p, "w").write(t)
        paths.append(p)
    acc = rnd.choice(ACCS)
    sc = rnd.choice([f"N{rnd.randrange(nsys)}"] * 6 + ["internal-default"] + ([] if CLEAN[0] else ["Nope"]))
    mm = rnd.choice([f"N{rnd.randrange(nmem)}"] * 6 + ["internal-default"] + ([] if CLEAN[0] else ["Nope"]))
    cli = rnd.choice([None, None, None, 0, 4096, 393216, 1 << 32] + ([] if CLEAN[0] else [(1 << 32) + 1, 1 << 40, (1 << 40) + 1, -1]))
    try:
        exp = u.reference_resolve(texts, acc, sc, mm, cli)
    except u.Rejected as e:
        exp = ("REJECT", str(e))
    try:
        act = u.actual_resolve(paths, acc, sc, mm, cli)
    except u.Rejected as e:
        act = ("REJECT", str(e))
    except Exception as e:
        act = ("CRASH", repr(e))
    if isinstance(exp, tuple) or isinstance(act, tuple):
        ok = isinstance(exp, tuple) and isinstance(act, tuple) and act[0] == "REJECT"
        d = None
    else:
        d = u.diff(exp, act)
        acc_n += 1
        ok = not d
    if not ok:
        bad += 1
        if bad <= 15:
            print("=" * 80)
            print("iter", it, acc, sc, mm, cli)
            for t in texts: print(t)
            print("expected:", exp if isinstance(exp, tuple) else "ok")
            print("actual:", act if isinstance(act, tuple) else "ok")
            print("diff:", d)
    for p in paths: os.remove(p)
print("mismatches", bad, "of", N, "accepted", acc_n)

"""Observation 1 (unmodified tree): through the command line the arena_cache_size of a memory mode section never takes
effect, because --arena-cache-size has the non-None default 393216 and ArchitectureFeatures treats every non-None value
as a CLI override.  OPTIONS.md: "If specified, this option overrides the memory mode attribute with the same name in a
Vela configuration file" / the child section's "arena_cache_size" overrides the parent's.
Also: an out-of-range value in the file (arena_cache_size=-77) is silently replaced instead of rejected."""
import os
import sys
import tempfile

sys.path.insert(0, os.getcwd())
sys.path.insert(0, os.path.dirname(os.path.abspath(__file__)))
import c18_util as u  # noqa: E402

tmp = tempfile.mkdtemp(prefix="c18_obs1_")
net = u.build_model(os.path.join(tmp, "net.tflite"))
bad = []
rc, out = u.run_vela(
    [net, "--config", "Arm/vela.ini", "--system-config", "Ethos_U65_High_End", "--memory-mode", "Dedicated_Sram_512KB",
     "--verbose-config", "--output-dir", os.path.join(tmp, "o1")], cwd=tmp)
shown = u.parse_verbose_config(out).get("arena_cache_size")
print("Dedicated_Sram_512KB (arena_cache_size=524288 in Arm/vela.ini), no --arena-cache-size given ->", shown)
if not str(shown).startswith("524288"):
    bad.append(f"expected 524288 from the configuration file, vela used {shown}")
cfg = os.path.join(tmp, "neg.ini")
open(cfg, "w").write("[System_Config.S]\naxi1_port=Dram\n[Memory_Mode.M]\nconst_mem_area=Axi1\narena_mem_area=Axi1\narena_cache_size=-77\n")
rc, out = u.run_vela([net, "--config", cfg, "--system-config", "S", "--memory-mode", "M", "--verbose-config",
                      "--output-dir", os.path.join(tmp, "o2")], cwd=tmp)
print("arena_cache_size=-77 in the file -> exit status", rc, u.parse_verbose_config(out).get("arena_cache_size"))
if rc == 0:
    bad.append("out-of-range arena_cache_size=-77 in the file was silently replaced (exit status 0)")
print("VIOLATION OBSERVED:\n - " + "\n - ".join(bad) if bad else "not observed")
sys.exit(1 if bad else 0)

"""Helpers shared by the C18 demos / observations (kept next to them in out/)."""
import os
import re
import subprocess
import sys
import tempfile

ROOT = os.path.dirname(os.path.dirname(os.path.abspath(__file__)))
if ROOT not in sys.path:
    sys.path.insert(0, ROOT)

PY = sys.executable


def build_model(path):
    """Writes a tiny int8 elementwise ADD network to `path` using Vela's own classes."""
    import numpy as np
    from ethosu.vela.data_type import DataType
    from ethosu.vela.nn_graph import Graph, Subgraph
    from ethosu.vela.operation import Op, Operation
    from ethosu.vela.tensor import QuantizationParameters, Tensor, create_const_tensor
    from ethosu.vela import tflite_writer

    def qp():
        q = QuantizationParameters()
        q.scale_f32 = np.float32(0.5)
        q.zero_point = 0
        q.quant_min = -128
        q.quant_max = 127
        return q

    shape = [1, 8, 8, 16]
    ifm = Tensor(shape, DataType.int8, "ifm")
    ifm.quantization = qp()
    ph = Operation(Op.Placeholder, "ifm_ph")
    ph.set_output_tensor(ifm)
    ifm2 = create_const_tensor("ifm2", shape, DataType.int8, np.ones(shape, np.int8), quantization=qp())
    ofm = Tensor(shape, DataType.int8, "ofm")
    ofm.quantization = qp()
    op = Operation(Op.Add, "add")
    op.add_input_tensor(ifm)
    op.add_input_tensor(ifm2)
    op.set_output_tensor(ofm)
    op.set_ifm_ofm_shapes()
    sg = Subgraph("main")
    sg.input_tensors = [ifm]
    sg.original_inputs = [ifm]
    sg.output_tensors = [ofm]
    from ethosu.vela.nn_graph import Pass, PassPlacement
    from ethosu.vela.operation import NpuBlockType
    ps = Pass("add", PassPlacement.Cpu, False, NpuBlockType.Default)
    ps.ops = [op]
    ps.primary_op = op
    ps.inputs = [ifm, ifm2]
    ps.outputs = [ofm]
    sg.passes = [ps]
    nng = Graph("net")
    nng.subgraphs.append(sg)
    tflite_writer.write_tflite(nng, path)
    return path


def run_vela(args, cwd, timeout=300):
    """Runs `vela <args>` (ethosu.vela.vela.main from the worktree) in directory cwd.
    Returns (exit_status, stdout+stderr)."""
    code = (
        "import sys; sys.path.insert(0, %r)\n"
        "from ethosu.vela import vela\n"
        "sys.exit(vela.main(%r))\n" % (ROOT, list(args))
    )
    p = subprocess.run([PY, "-c", code], cwd=cwd, stdout=subprocess.PIPE, stderr=subprocess.STDOUT, text=True, timeout=timeout)
    return p.returncode, p.stdout


def parse_verbose_config(text):
    """Parses the `--verbose-config` block into a flat dict of strings."""
    res = {}
    for line in text.splitlines():
        m = re.match(r"^   (\w+) = (.*)$", line)
        if m:
            res[m.group(1)] = m.group(2).strip()
    return res


# ----------------------------------------------------------------------------------------------------------------------
# Independent reference model of the documented configuration rules (OPTIONS.md, "Configuration File" / "Memory Modes")
# ----------------------------------------------------------------------------------------------------------------------
class Rejected(Exception):
    pass


AREAS = ("Sram", "Dram", "OnChipFlash", "OffChipFlash")
PORTS = ("Axi0", "Axi1")


def parse_ini(text, sections=None):
    """Minimal .ini reader: [section] headers and key=value lines; ';' / '#' comment lines. Later values win."""
    sections = {} if sections is None else sections
    cur = None
    for raw in text.splitlines():
        line = raw.strip()
        if not line or line[0] in ";#":
            continue
        if line.startswith("[") and line.endswith("]"):
            cur = sections.setdefault(line[1:-1], {})
            continue
        key, _, val = line.partition("=")
        cur[key.strip()] = val.strip()
    return sections


def ref_lookup(sections, section, key, default):
    """A section overrides what it inherits (transitively) from its parent; unknown parents and loops are rejected."""
    seen = []
    chain = []
    cur = section
    while True:
        if cur not in sections:
            raise Rejected(f"unknown section {cur}")
        if cur in seen:
            raise Rejected(f"inheritance loop at {cur}")
        seen.append(cur)
        chain.append(cur)
        if "inherit" not in sections[cur]:
            break
        cur = sections[cur]["inherit"]
    for name in chain:  # nearest section first
        if key in sections[name]:
            return sections[name][key]
    return default


def _num(kind, text):
    try:
        return kind(text)
    except ValueError:
        raise Rejected(f"not a number: {text!r}")


def reference_resolve(ini_texts, accelerator, system_config, memory_mode, cli_size):
    """Returns the dict of architecture parameters the documented rules give, or raises Rejected."""
    u65 = accelerator.startswith("ethos-u65")
    max_addr = 1 << (40 if u65 else 32)
    sections = None
    if ini_texts is not None:
        sections = {}
        for text in ini_texts:
            parse_ini(text, sections)
    scale = {a: 1.0 for a in AREAS}
    burst = {a: 1 for a in AREAS}
    rlat = {a: 0 for a in AREAS}
    wlat = {a: 0 for a in AREAS}
    core_clock, axi = 1.0, {"Axi0": "Sram", "Axi1": "Sram"}
    sec = "System_Config." + system_config
    if sections is not None and sec in sections:
        core_clock = _num(float, ref_lookup(sections, sec, "core_clock", "1"))
        for port in PORTS:
            name = ref_lookup(sections, sec, port.lower() + "_port", "Sram")
            if name not in AREAS:
                raise Rejected(f"bad memory area {name}")
            axi[port] = name
        for area in (axi["Axi0"], axi["Axi1"]):
            scale[area] = _num(float, ref_lookup(sections, sec, area + "_clock_scale", str(scale[area])))
            burst[area] = _num(int, ref_lookup(sections, sec, area + "_burst_length", str(burst[area])))
            rlat[area] = _num(int, ref_lookup(sections, sec, area + "_read_latency", str(rlat[area])))
            wlat[area] = _num(int, ref_lookup(sections, sec, area + "_write_latency", str(wlat[area])))
    elif system_config == "internal-default":
        if u65:  # Ethos-U65 Client-Server
            core_clock, axi = 1e9, {"Axi0": "Sram", "Axi1": "Dram"}
            scale.update(Sram=1.0, Dram=0.75), burst.update(Sram=32, Dram=128)
            rlat.update(Sram=32, Dram=500), wlat.update(Sram=32, Dram=250)
        else:  # Ethos-U55 High-End Embedded
            core_clock, axi = 500e6, {"Axi0": "Sram", "Axi1": "OffChipFlash"}
            scale.update(Sram=1.0, OffChipFlash=0.125), burst.update(Sram=32, OffChipFlash=128)
            rlat.update(Sram=32, OffChipFlash=64), wlat.update(Sram=32, OffChipFlash=64)
    else:
        raise Rejected(f"unknown system config {system_config}")

    const, arena, cache, size = "Axi0", "Axi0", "Axi0", max_addr
    sec = "Memory_Mode." + memory_mode
    if sections is not None and sec in sections:
        const = ref_lookup(sections, sec, "const_mem_area", const)
        arena = ref_lookup(sections, sec, "arena_mem_area", arena)
        cache = ref_lookup(sections, sec, "cache_mem_area", cache)
        for p in (const, arena, cache):
            if p not in PORTS:
                raise Rejected(f"bad port {p}")
        size = _num(int, ref_lookup(sections, sec, "arena_cache_size", str(size)))
    elif memory_mode == "internal-default":
        if u65:  # Dedicated Sram
            const, arena, cache, size = "Axi1", "Axi1", "Axi0", 384 * 1024
        else:  # Shared Sram
            const, arena, cache, size = "Axi1", "Axi0", "Axi0", max_addr
    else:
        raise Rejected(f"unknown memory mode {memory_mode}")

    # Sram Only mode: constants live in a second Sram region that is labelled OnChipFlash
    if axi[const] == "Sram" and const == arena == cache:
        const = "Axi1" if const == "Axi0" else "Axi0"
        axi[const] = "OnChipFlash"
        scale["OnChipFlash"], burst["OnChipFlash"] = scale["Sram"], burst["Sram"]
        rlat["OnChipFlash"], wlat["OnChipFlash"] = rlat["Sram"], wlat["Sram"]
    if cli_size is not None:
        size = cli_size
    if axi[const] not in ("Dram", "OnChipFlash", "OffChipFlash"):
        raise Rejected("const_mem_area mapping")
    if axi[arena] not in ("Sram", "Dram"):
        raise Rejected("arena_mem_area mapping")
    if axi[cache] != "Sram":
        raise Rejected("cache_mem_area mapping")
    if size < 0 or size > max_addr:
        raise Rejected("arena_cache_size out of range")
    width = 16 if u65 else 8  # bytes per cycle of an AXI port
    res = {
        "core_clock": core_clock,
        "axi0_port": axi["Axi0"],
        "axi1_port": axi["Axi1"],
        "const_mem_area": const,
        "arena_mem_area": arena,
        "cache_mem_area": cache,
        "arena_cache_size": size,
        "permanent_storage_mem_area": axi[const],
        "feature_map_storage_mem_area": axi[arena],
        "fast_storage_mem_area": axi[cache],
    }
    for a in AREAS:
        res[a + "_clock_scale"] = scale[a]
        res[a + "_burst_length"] = burst[a]
        res[a + "_read_latency"] = rlat[a]
        res[a + "_write_latency"] = wlat[a]
        res[a + "_bytes_per_cycle"] = width * scale[a]
        res[a + "_bytes_per_second"] = width * scale[a] * core_clock
    return res


def actual_resolve(config_files, accelerator, system_config, memory_mode, cli_size, cls=None):
    """Builds the ArchitectureFeatures object and returns the same dict (or raises Rejected for a Vela error)."""
    from ethosu.vela import architecture_features as af
    from ethosu.vela.errors import VelaError
    from ethosu.vela.tensor import BandwidthDirection, MemArea
    import contextlib
    import io

    cls = cls or af.ArchitectureFeatures
    try:
        with contextlib.redirect_stdout(io.StringIO()):
            arch = cls(
                vela_config_files=config_files,
                accelerator_config=accelerator,
                system_config=system_config,
                memory_mode=memory_mode,
                max_blockdep=af.ArchitectureFeatures.MAX_BLOCKDEP,
                verbose_config=False,
                arena_cache_size=cli_size,
            )
    except VelaError as ex:
        raise Rejected(ex.data)
    res = {
        "core_clock": float(arch.core_clock),
        "axi0_port": arch.axi0_port.name,
        "axi1_port": arch.axi1_port.name,
        "const_mem_area": arch.const_mem_area.name,
        "arena_mem_area": arch.arena_mem_area.name,
        "cache_mem_area": arch.cache_mem_area.name,
        "arena_cache_size": int(arch.arena_cache_size),
        "permanent_storage_mem_area": arch.permanent_storage_mem_area.name,
        "feature_map_storage_mem_area": arch.feature_map_storage_mem_area.name,
        "fast_storage_mem_area": arch.fast_storage_mem_area.name,
    }
    for a in AREAS:
        m = MemArea[a]
        res[a + "_clock_scale"] = float(arch.memory_clock_scales[m])
        res[a + "_burst_length"] = int(arch.memory_burst_length[m])
        res[a + "_read_latency"] = int(arch.memory_latency[m][BandwidthDirection.Read])
        res[a + "_write_latency"] = int(arch.memory_latency[m][BandwidthDirection.Write])
        res[a + "_bytes_per_cycle"] = float(arch.memory_bandwidths_per_cycle[m])
        res[a + "_bytes_per_second"] = float(arch.memory_bandwidths_per_second[m])
    return res


def diff(expected, actual):
    return {k: (expected[k], actual.get(k)) for k in expected if expected[k] != actual.get(k)}

# Observation 3 (UNMODIFIED tree): two equivalent tensors (same equivalence_id) whose mem_type differs but lies in the
# same target set (e.g. {Scratch, Scratch_fast}, the set used when spilling is disabled) are put into ONE live range,
# but only the first tensor is in LiveRange.tensors and Tensor.address is keyed by (equivalence_id, mem_type): after
# allocation the second tensor has no address at all instead of sharing the address of its equivalent.
import os
import sys

sys.path.insert(0, os.getcwd())

from ethosu.vela import greedy_allocation  # noqa: E402
from ethosu.vela import tensor_allocation  # noqa: E402
from ethosu.vela.data_type import DataType  # noqa: E402
from ethosu.vela.live_range import LiveRangeGraph  # noqa: E402
from ethosu.vela.tensor import MemArea  # noqa: E402
from ethosu.vela.tensor import MemType  # noqa: E402
from ethosu.vela.tensor import Tensor  # noqa: E402
from ethosu.vela.tensor import TensorPurpose  # noqa: E402


def fm(name, size, mem_type):
    tens = Tensor([size], DataType.uint8, name)
    tens.mem_area = MemArea.Sram
    tens.mem_type = mem_type
    tens.purpose = TensorPurpose.FeatureMap
    return tens


bad = 0
for allocator in ("Greedy", "LinearAlloc", "HillClimb"):
    graph = LiveRangeGraph()
    a = fm("a", 64, MemType.Scratch)
    a2 = a.clone()
    a2.mem_type = MemType.Scratch_fast
    b = fm("b", 32, MemType.Scratch)
    for tens, time in ((a, 0), (a2, 2), (b, 1)):
        graph.get_or_create_range(tens, 16).mark_usage(time)
    if allocator == "Greedy":
        greedy_allocation.allocate_live_ranges(graph, 16)
    elif allocator == "LinearAlloc":
        tensor_allocation.linear_allocate_live_ranges(graph, 16)
    else:
        tensor_allocation.hillclimb_allocate_live_ranges(graph, 16, None, 1 << 20)
    print(allocator, "a:", a.address, " a_clone (equivalent, Scratch_fast):", a2.address, " b:", b.address)
    if a2.address != a.address:
        bad += 1
sys.exit(1 if bad else 0)

# Helper for the C05 demos / observations: builds live-range graphs from plain tuples, runs the three tensor
# allocators through their public entry points and checks the result with an independent oracle.
import os
import sys

ROOT = os.path.dirname(os.path.dirname(os.path.abspath(__file__)))
if ROOT not in sys.path:
    sys.path.insert(0, ROOT)

from ethosu.vela import greedy_allocation  # noqa: E402
from ethosu.vela import hillclimb_allocation  # noqa: E402
from ethosu.vela import tensor_allocation  # noqa: E402
from ethosu.vela.data_type import DataType  # noqa: E402
from ethosu.vela.live_range import LiveRangeGraph  # noqa: E402
from ethosu.vela.tensor import MemArea  # noqa: E402
from ethosu.vela.tensor import MemType  # noqa: E402
from ethosu.vela.tensor import Tensor  # noqa: E402
from ethosu.vela.tensor import TensorPurpose  # noqa: E402


def rup(a, b):
    return -(-a // b) * b


def make_graph(specs):
    """specs: list of (start_time, end_time, size, alignment). Returns (graph, tensors)"""
    graph = LiveRangeGraph()
    tensors = []
    for i, (start, end, size, align) in enumerate(specs):
        tens = Tensor([size], DataType.uint8, f"t{i}")
        if size % tens.alignment != 0:
            # Tensor.storage_size() pads to the tensor's own storage quantum (16); only lift that for odd sizes
            tens.alignment = 1
        tens.mem_area = MemArea.Sram
        tens.mem_type = MemType.Scratch
        tens.purpose = TensorPurpose.FeatureMap
        rng = graph.get_or_create_range(tens, align)
        assert rng.size == size
        rng.start_time = start
        rng.end_time = end
        tensors.append(tens)
    return graph, tensors


def check(specs, addresses, total, pad, what):
    """Independent oracle. pad(i) is the padding quantum the allocator may add to range i in its total."""
    problems = []
    n = len(specs)
    for i in range(n):
        a = addresses[i]
        if a is None or a < 0:
            problems.append(f"{what}: range {i} {specs[i]} has no valid address ({a})")
            continue
        if a % specs[i][3] != 0:
            problems.append(f"{what}: range {i} {specs[i]} at address {a} is not aligned to {specs[i][3]}")
    if problems:
        return problems
    for i in range(n):
        si, ei, zi, _ = specs[i]
        for j in range(i + 1, n):
            sj, ej, zj, _ = specs[j]
            if max(si, sj) <= min(ei, ej):
                if max(addresses[i], addresses[j]) < min(addresses[i] + zi, addresses[j] + zj):
                    problems.append(
                        f"{what}: ranges {i} {specs[i]} @ {addresses[i]} and {j} {specs[j]} @ {addresses[j]}"
                        " are live together and overlap"
                    )
    top = max(addresses[i] + specs[i][2] for i in range(n))
    padded_top = max(addresses[i] + rup(specs[i][2], pad(i)) for i in range(n))
    if total < top or total > padded_top:
        problems.append(f"{what}: reported total {total}, highest end address {top} (with padding {padded_top})")
    peak = 0
    for t in set(s[0] for s in specs):
        peak = max(peak, sum(s[2] for s in specs if s[0] <= t <= s[1]))
    if total < peak:
        problems.append(f"{what}: reported total {total} is below the peak of live sizes {peak}")
    return problems


def run_greedy(specs, granularity=16):
    graph, tensors = make_graph(specs)
    total = greedy_allocation.allocate_live_ranges(graph, granularity)
    addresses = [t.address for t in tensors]
    return addresses, total, check(specs, addresses, total, lambda i: specs[i][3], "Greedy")


def run_linear(specs, granularity=16):
    graph, tensors = make_graph(specs)
    total = tensor_allocation.linear_allocate_live_ranges(graph, granularity)
    addresses = [t.address for t in tensors]
    return addresses, total, check(specs, addresses, total, lambda i: max(granularity, specs[i][3]), "LinearAlloc")


def run_hillclimb(specs, granularity=16, max_iterations=None, mem_limit=1 << 32):
    graph, tensors = make_graph(specs)
    total = tensor_allocation.hillclimb_allocate_live_ranges(graph, granularity, max_iterations, mem_limit)
    addresses = [t.address for t in tensors]
    return addresses, total, check(specs, addresses, total, lambda i: 1, "HillClimb")


def run_hillclimb_raw(specs, max_iterations=None, mem_limit=1 << 32):
    graph, _ = make_graph(specs)
    addresses = hillclimb_allocation.allocate_live_ranges(graph.lrs, max_iterations, mem_limit)
    total = max(a + s[2] for a, s in zip(addresses, specs))
    return addresses, total, check(specs, addresses, total, lambda i: 1, "HillClimb(raw)")

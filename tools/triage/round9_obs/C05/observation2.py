# Observation 2 (UNMODIFIED tree): a tensor that is equivalent to an already registered tensor (same equivalence_id,
# e.g. a Tensor.clone()) but has a LARGER storage size joins the existing live range without any size check
# (LiveRangeGraph.get_or_create_range; fuse_ranges/add_tensor would assert). The range keeps the size of the first
# tensor, the clone shares its address, and with all three allocators the clone's bytes overlap the next buffer.
import os
import sys

sys.path.insert(0, os.getcwd())

from ethosu.vela import greedy_allocation  # noqa: E402
from ethosu.vela import tensor_allocation  # noqa: E402
from ethosu.vela.data_type import DataType  # noqa: E402
from ethosu.vela.live_range import LiveRangeGraph  # noqa: E402
from ethosu.vela.tensor import MemArea  # noqa: E402
from ethosu.vela.tensor import MemType  # noqa: E402
from ethosu.vela.tensor import Tensor  # noqa: E402
from ethosu.vela.tensor import TensorPurpose  # noqa: E402


def fm(name, size):
    tens = Tensor([size], DataType.uint8, name)
    tens.mem_area = MemArea.Sram
    tens.mem_type = MemType.Scratch
    tens.purpose = TensorPurpose.FeatureMap
    return tens


bad = 0
for allocator in ("Greedy", "LinearAlloc", "HillClimb"):
    graph = LiveRangeGraph()
    a = fm("a", 32)
    a_clone = a.clone()
    a_clone.storage_shape = [96]  # e.g. the clone got another format / storage rounding
    b = fm("b", 32)
    for tens in (a, a_clone, b):
        graph.get_or_create_range(tens, 16).mark_usage(0)
    if allocator == "Greedy":
        greedy_allocation.allocate_live_ranges(graph, 16)
    elif allocator == "LinearAlloc":
        tensor_allocation.linear_allocate_live_ranges(graph, 16)
    else:
        tensor_allocation.hillclimb_allocate_live_ranges(graph, 16, None, 1 << 20)
    layout = [(t.name, t.address, t.address + t.storage_size()) for t in (a, a_clone, b)]
    print(allocator, layout)
    if a_clone.address + a_clone.storage_size() > b.address >= a_clone.address:
        print("  -> a_clone and b are live together and overlap")
        bad += 1
sys.exit(1 if bad else 0)

# Observation 5 (UNMODIFIED tree, degenerate input): a live range that is never alive (no mark_usage: start_time
# 99999999999, end_time -1, the state LiveRange() starts in) crashes the HillClimb allocator with
# 'ValueError: empty range in randrange(0, 0)' as soon as it is larger than the peak of the live sizes: it has no
# neighbours and no predecessor, becomes the bottleneck at address 0 and attempt_bottleneck_fix has a single swap
# candidate. Greedy and LinearAlloc handle the same set. (The wrapper hillclimb_allocate_live_ranges also raises
# ValueError for a graph without live ranges, where Greedy and LinearAlloc return 0.)
import os
import sys

sys.path.insert(0, os.getcwd())
sys.path.insert(0, os.path.dirname(os.path.abspath(__file__)))

import c05_oracle as oracle  # noqa: E402
from ethosu.vela import hillclimb_allocation  # noqa: E402

graph, tensors = oracle.make_graph([(0, 1, 16, 16), (0, 1, 32, 16)])
graph.lrs[1].start_time = 99999999999
graph.lrs[1].end_time = -1
try:
    print(hillclimb_allocation.allocate_live_ranges(graph.lrs, None, 1 << 20))
except ValueError as e:
    print("HillClimb raised ValueError:", e)
    sys.exit(1)
sys.exit(0)

# Observation 1 (UNMODIFIED tree): the Greedy allocator overlaps two live buffers when a live range of size 0 is
# among the live ranges. (Tensor.storage_size() never returns 0, so this needs a range whose size was set directly or
# with LiveRange.set_buffer_size(0), the way the unit tests build their ranges.)
#
# The empty range is placed at the start address of a live allocation (an empty gap "fits"), sorts behind it in
# current_allocs, and 'current_offset = start_addr + lr.size' then moves the scan position back to that start address:
# the space of the live allocation is taken for a gap.
import os
import sys

sys.path.insert(0, os.getcwd())
sys.path.insert(0, os.path.dirname(os.path.abspath(__file__)))

import c05_oracle as oracle  # noqa: E402
from ethosu.vela import greedy_allocation  # noqa: E402

specs = [(0, 9, 100, 16), (0, 9, 88, 16), (0, 1, 50, 16), (1, 9, 16, 16), (2, 9, 60, 16)]
graph, tensors = oracle.make_graph(specs)
graph.lrs[3].set_buffer_size(0)
specs[3] = (1, 9, 0, 16)
total = greedy_allocation.allocate_live_ranges(graph, 16)
addresses = [t.address for t in tensors]
print("addresses", addresses, "total", total)
problems = oracle.check(specs, addresses, total, lambda i: 16, "Greedy")
print("\n".join(problems) if problems else "no violation")
sys.exit(1 if problems else 0)

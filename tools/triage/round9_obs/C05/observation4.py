# Observation 4 (UNMODIFIED tree): the HillClimb search does not honour an iteration limit below 500.
# HillClimbAllocator.search continues while 'i - last_improvement_iteration < MIN_ITERATIONS_IMPROVE' (500) whatever
# max_iterations says, so --hillclimb-max-iterations 0 / 1 / 10 / 100 all run 500 trial allocations (when the first
# allocation is not provably optimal). The number of trials is bounded by max(max_iterations, 500 after the last
# improvement), not by max_iterations.
import contextlib
import io
import os
import sys

sys.path.insert(0, os.getcwd())
sys.path.insert(0, os.path.dirname(os.path.abspath(__file__)))

import c05_oracle as oracle  # noqa: E402
from ethosu.vela import hillclimb_allocation  # noqa: E402

# two 8 byte buffers with 16 byte alignment: the best layout needs 24 bytes, more than the 16 byte "optimal" target
specs = [(0, 1, 8, 16), (0, 1, 8, 16)]
bad = 0
for max_iterations in (0, 1, 10, 100, 600):
    graph, _ = oracle.make_graph(specs)
    trials = [0]
    original = hillclimb_allocation.HillClimbAllocator.allocate_indices

    def counting(self, indices, original=original, trials=trials):
        trials[0] += 1
        return original(self, indices)

    hillclimb_allocation.HillClimbAllocator.allocate_indices = counting
    try:
        with contextlib.redirect_stdout(io.StringIO()):
            hillclimb_allocation.allocate_live_ranges(graph.lrs, max_iterations, 1 << 20)
    finally:
        hillclimb_allocation.HillClimbAllocator.allocate_indices = original
    print(f"max_iterations={max_iterations}: {trials[0] - 1} search iterations")
    if trials[0] - 1 > max_iterations:
        bad += 1
sys.exit(1 if bad else 0)

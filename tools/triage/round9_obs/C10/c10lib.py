"""Helper for the C10 demonstrations: builds small .tflite models with Vela's own classes, compiles them with the
Vela pipeline and checks the emitted stripes with an independent model of the receptive field / rolling buffers."""
import contextlib
import io
import os
import sys
import tempfile
import types

import numpy as np

from ethosu.vela import architecture_features
from ethosu.vela import compiler_driver
from ethosu.vela import model_reader
from ethosu.vela import scheduler
from ethosu.vela import tflite_writer
from ethosu.vela.data_type import DataType
from ethosu.vela.nn_graph import Graph
from ethosu.vela.nn_graph import PassPlacement
from ethosu.vela.nn_graph import Subgraph
from ethosu.vela.operation import Op
from ethosu.vela.operation import Operation
from ethosu.vela.operation import Padding
from ethosu.vela.tensor import create_const_tensor
from ethosu.vela.tensor import QuantizationParameters
from ethosu.vela.tensor import Tensor


def _qp(scale=0.05, zp=0):
    qp = QuantizationParameters()
    qp.scale_f32 = np.float32(scale)
    qp.zero_point = np.int64(zp)
    qp.quant_min = -128
    qp.quant_max = 127
    return qp


def _out_size(i, k, s, d, padding):
    kd = (k - 1) * d + 1
    if padding == "SAME":
        return (i + s - 1) // s
    return (i - kd + s) // s


class ModelBuilder:
    """Sequential int8 network builder (layers are appended to the current tensor)"""

    def __init__(self, h, w, c, seed=0, dtype=DataType.int8):
        self.rng = np.random.RandomState(seed)
        self.ops = []
        self.n = 0
        self.dtype = dtype
        self.bias_dtype = DataType.int64 if dtype == DataType.int16 else DataType.int32
        self.inp = Tensor([1, h, w, c], dtype, "input")
        self.inp.quantization = self._act_qp()
        self.cur = self.inp

    def _act_qp(self):
        qp = _qp()
        if self.dtype == DataType.int16:
            qp.quant_min = -32768
            qp.quant_max = 32767
        return qp

    def _name(self, base):
        self.n += 1
        return f"{base}_{self.n}"

    def _fm(self, shape, name):
        t = Tensor(list(shape), self.dtype, name)
        t.quantization = self._act_qp()
        return t

    def _add(self, op, out):
        op.set_output_tensor(out)
        self.ops.append(op)
        self.cur = out
        return out

    def conv(self, oc, k=(3, 3), s=(1, 1), d=(1, 1), padding="SAME", ifm=None):
        ifm = ifm or self.cur
        name = self._name("conv")
        _, h, w, c = ifm.shape
        oh = _out_size(h, k[0], s[0], d[0], padding)
        ow = _out_size(w, k[1], s[1], d[1], padding)
        wshape = [oc, k[0], k[1], c]  # OHWI as stored in a .tflite file
        wq = _qp(0.01)
        wq.scale_f32 = np.full((oc,), 0.01, dtype=np.float32)
        wq.zero_point = np.zeros((oc,), dtype=np.int64)
        wq.quant_dim = 0
        wt = create_const_tensor(
            name + "_w", wshape, DataType.int8, self.rng.randint(-20, 20, size=wshape), quantization=wq
        )
        bq = _qp(0.0005)
        bq.scale_f32 = np.full((oc,), 0.0005, dtype=np.float32)
        bq.zero_point = np.zeros((oc,), dtype=np.int64)
        bq.quant_dim = 0
        bt = create_const_tensor(
            name + "_b", [oc], self.bias_dtype, (np.arange(oc) * 7 + 1000 * self.n).astype(np.int64 if self.dtype == DataType.int16 else np.int32), quantization=bq
        )
        op = Operation(Op.Conv2DBias, name)
        op.inputs = [ifm, wt, bt]
        for t in op.inputs:
            t.consumer_list.append(op)
        op.attrs = {
            "padding": Padding.SAME if padding == "SAME" else Padding.VALID,
            "stride_w": s[1],
            "stride_h": s[0],
            "dilation_w_factor": d[1],
            "dilation_h_factor": d[0],
            "fused_activation_function": None,
        }
        return self._add(op, self._fm([1, oh, ow, oc], name + "_out"))

    def dwconv(self, k=(3, 3), s=(1, 1), d=(1, 1), padding="SAME", ifm=None):
        ifm = ifm or self.cur
        name = self._name("dw")
        _, h, w, c = ifm.shape
        oh = _out_size(h, k[0], s[0], d[0], padding)
        ow = _out_size(w, k[1], s[1], d[1], padding)
        wshape = [1, k[0], k[1], c]
        wq = _qp(0.01)
        wq.scale_f32 = np.full((c,), 0.01, dtype=np.float32)
        wq.zero_point = np.zeros((c,), dtype=np.int64)
        wq.quant_dim = 3
        wt = create_const_tensor(
            name + "_w", wshape, DataType.int8, self.rng.randint(-20, 20, size=wshape), quantization=wq
        )
        bq = _qp(0.0005)
        bq.scale_f32 = np.full((c,), 0.0005, dtype=np.float32)
        bq.zero_point = np.zeros((c,), dtype=np.int64)
        bq.quant_dim = 0
        bt = create_const_tensor(
            name + "_b", [c], self.bias_dtype, (np.arange(c) * 7 + 1000 * self.n).astype(np.int64 if self.dtype == DataType.int16 else np.int32), quantization=bq
        )
        op = Operation(Op.DepthwiseConv2DBias, name)
        op.inputs = [ifm, wt, bt]
        for t in op.inputs:
            t.consumer_list.append(op)
        op.attrs = {
            "padding": Padding.SAME if padding == "SAME" else Padding.VALID,
            "stride_w": s[1],
            "stride_h": s[0],
            "dilation_w_factor": d[1],
            "dilation_h_factor": d[0],
            "depth_multiplier": 1,
            "fused_activation_function": None,
        }
        return self._add(op, self._fm([1, oh, ow, c], name + "_out"))

    def pool(self, kind="max", k=(2, 2), s=(2, 2), padding="VALID", ifm=None):
        ifm = ifm or self.cur
        name = self._name(kind + "pool")
        _, h, w, c = ifm.shape
        oh = _out_size(h, k[0], s[0], 1, padding)
        ow = _out_size(w, k[1], s[1], 1, padding)
        op = Operation(Op.MaxPool if kind == "max" else Op.AvgPool, name)
        op.inputs = [ifm]
        ifm.consumer_list.append(op)
        op.attrs = {
            "padding": Padding.SAME if padding == "SAME" else Padding.VALID,
            "stride_w": s[1],
            "stride_h": s[0],
            "filter_width": k[1],
            "filter_height": k[0],
            "fused_activation_function": None,
        }
        return self._add(op, self._fm([1, oh, ow, c], name + "_out"))

    def resize_nn(self, factor=2, ifm=None):
        ifm = ifm or self.cur
        name = self._name("resize")
        _, h, w, c = ifm.shape
        size = create_const_tensor(name + "_size", [2], DataType.int32, np.array([h * factor, w * factor], np.int32))
        op = Operation(Op.ResizeNearestNeighbor, name)
        op.inputs = [ifm, size]
        for t in op.inputs:
            t.consumer_list.append(op)
        op.attrs = {"align_corners": False, "half_pixel_centers": False}
        return self._add(op, self._fm([1, h * factor, w * factor, c], name + "_out"))

    def add_const(self, ifm=None):
        ifm = ifm or self.cur
        name = self._name("add")
        shape = list(ifm.shape)
        ct = create_const_tensor(
            name + "_c", [1, 1, 1, shape[3]], DataType.int8, self.rng.randint(-20, 20, size=[1, 1, 1, shape[3]]),
            quantization=_qp(),
        )
        op = Operation(Op.Add, name)
        op.inputs = [ifm, ct]
        for t in op.inputs:
            t.consumer_list.append(op)
        op.attrs = {"fused_activation_function": None}
        return self._add(op, self._fm(shape, name + "_out"))

    def add(self, a, b):
        name = self._name("add")
        op = Operation(Op.Add, name)
        op.inputs = [a, b]
        for t in op.inputs:
            t.consumer_list.append(op)
        op.attrs = {"fused_activation_function": None}
        return self._add(op, self._fm(list(a.shape), name + "_out"))

    def reshape(self, new_shape, ifm=None):
        ifm = ifm or self.cur
        name = self._name("reshape")
        shp = create_const_tensor(name + "_shape", [len(new_shape)], DataType.int32, np.array(new_shape, np.int32))
        op = Operation(Op.Reshape, name)
        op.inputs = [ifm, shp]
        for t in op.inputs:
            t.consumer_list.append(op)
        op.attrs = {"new_shape": list(new_shape)}
        out = self._fm(list(new_shape), name + "_out")
        out.quantization = ifm.quantization
        return self._add(op, out)

    def slice(self, begin, size, ifm=None):
        ifm = ifm or self.cur
        name = self._name("slice")
        b = create_const_tensor(name + "_begin", [4], DataType.int32, np.array(begin, np.int32))
        sz = create_const_tensor(name + "_size", [4], DataType.int32, np.array(size, np.int32))
        op = Operation(Op.Slice, name)
        op.inputs = [ifm, b, sz]
        for t in op.inputs:
            t.consumer_list.append(op)
        op.attrs = {}
        out = self._fm(list(size), name + "_out")
        out.quantization = ifm.quantization
        return self._add(op, out)

    def binary_const_first(self, kind=Op.Sub, ifm=None, const_shape=None):
        ifm = ifm or self.cur
        name = self._name("bin")
        shape = list(ifm.shape)
        cshape = const_shape or [1, 1, 1, shape[3]]
        ct = create_const_tensor(
            name + "_c", cshape, DataType.int8, self.rng.randint(-20, 20, size=cshape), quantization=_qp()
        )
        op = Operation(kind, name)
        op.inputs = [ct, ifm]
        for t in op.inputs:
            t.consumer_list.append(op)
        op.attrs = {"fused_activation_function": None}
        return self._add(op, self._fm(shape, name + "_out"))

    def resize_bilinear(self, factor=2, align_corners=False, half_pixel_centers=False, ifm=None):
        ifm = ifm or self.cur
        name = self._name("bilinear")
        _, h, w, c = ifm.shape
        oh, ow = (h * factor, w * factor)
        if align_corners:
            oh, ow = (h - 1) * factor + 1, (w - 1) * factor + 1
        size = create_const_tensor(name + "_size", [2], DataType.int32, np.array([oh, ow], np.int32))
        op = Operation(Op.ResizeBilinear, name)
        op.inputs = [ifm, size]
        for t in op.inputs:
            t.consumer_list.append(op)
        op.attrs = {"align_corners": align_corners, "half_pixel_centers": half_pixel_centers}
        return self._add(op, self._fm([1, oh, ow, c], name + "_out"))

    def pad(self, top, bottom, left, right, ifm=None):
        ifm = ifm or self.cur
        name = self._name("pad")
        _, h, w, c = ifm.shape
        pads = create_const_tensor(
            name + "_pads", [4, 2], DataType.int32, np.array([[0, 0], [top, bottom], [left, right], [0, 0]], np.int32)
        )
        op = Operation(Op.Pad, name)
        op.inputs = [ifm, pads]
        for t in op.inputs:
            t.consumer_list.append(op)
        op.attrs = {}
        out = self._fm([1, h + top + bottom, w + left + right, c], name + "_out")
        out.quantization = ifm.quantization
        return self._add(op, out)

    def transpose_conv(self, oc, k=(3, 3), s=(2, 2), padding="SAME", ifm=None):
        ifm = ifm or self.cur
        name = self._name("tconv")
        _, h, w, c = ifm.shape
        if padding == "SAME":
            oh, ow = h * s[0], w * s[1]
        else:
            oh, ow = (h - 1) * s[0] + k[0], (w - 1) * s[1] + k[1]
        wshape = [oc, k[0], k[1], c]
        wq = _qp(0.01)
        wq.scale_f32 = np.full((oc,), 0.01, dtype=np.float32)
        wq.zero_point = np.zeros((oc,), dtype=np.int64)
        wq.quant_dim = 0
        wt = create_const_tensor(name + "_w", wshape, DataType.int8, self.rng.randint(-20, 20, size=wshape), quantization=wq)
        bq = _qp(0.0005)
        bq.scale_f32 = np.full((oc,), 0.0005, dtype=np.float32)
        bq.zero_point = np.zeros((oc,), dtype=np.int64)
        bq.quant_dim = 0
        bt = create_const_tensor(
            name + "_b", [oc], self.bias_dtype, (np.arange(oc) * 7 + 1000 * self.n).astype(np.int64 if self.dtype == DataType.int16 else np.int32), quantization=bq
        )
        oshape = create_const_tensor(name + "_oshape", [4], DataType.int32, np.array([1, oh, ow, oc], np.int32))
        op = Operation(Op.Conv2DBackpropInput, name)
        op.inputs = [oshape, wt, ifm, bt]
        for t in op.inputs:
            t.consumer_list.append(op)
        op.attrs = {
            "padding": Padding.SAME if padding == "SAME" else Padding.VALID,
            "stride_w": s[1],
            "stride_h": s[0],
            "fused_activation_function": None,
        }
        return self._add(op, self._fm([1, oh, ow, oc], name + "_out"))

    def concat(self, tensors, axis=3):
        name = self._name("concat")
        shape = list(tensors[0].shape)
        shape[axis] = sum(t.shape[axis] for t in tensors)
        op = Operation(Op.ConcatTFLite, name)
        op.inputs = list(tensors)
        for t in op.inputs:
            t.consumer_list.append(op)
        op.attrs = {"axis": axis, "fused_activation_function": None}
        return self._add(op, self._fm(shape, name + "_out"))

    def to_tflite(self, outputs=None):
        outputs = outputs or [self.cur]
        sg = Subgraph("main", PassPlacement.Cpu)
        sg.original_inputs = [self.inp]
        sg.input_tensors = [self.inp]
        sg.output_tensors = list(outputs)
        sg.virtual_outputs = []
        sg.passes = [types.SimpleNamespace(ops=list(self.ops))]
        nng = Graph("c10", 1)
        nng.subgraphs = [sg]
        nng.metadata = []
        with contextlib.redirect_stdout(io.StringIO()):
            buf = tflite_writer.write_tflite_buffer(nng)
        return bytes(buf)


class Compiled:
    def __init__(self, nng, arch):
        self.nng = nng
        self.arch = arch
        self.npu_sgs = [sg for sg in nng.subgraphs if sg.placement == PassPlacement.Npu]


def compile_tflite(
    buf,
    accelerator="ethos-u55-128",
    system_config=architecture_features.ArchitectureFeatures.DEFAULT_CONFIG,
    memory_mode=architecture_features.ArchitectureFeatures.DEFAULT_CONFIG,
    arena_cache_size=None,
    optimise="Performance",
    quiet=True,
):
    """Runs the Vela pipeline (model reader + compiler driver) on a .tflite buffer and returns the compiled graph"""
    from ethosu.vela.vela import CompressedWeightCache, DebugDatabase, TensorAddressMap

    DebugDatabase.clean_db()
    TensorAddressMap.clear_address_map()
    CompressedWeightCache.clear()
    tmpdir = tempfile.mkdtemp(prefix="c10_")
    path = os.path.join(tmpdir, "model.tflite")
    with open(path, "wb") as f:
        f.write(buf)
    uses_ini = (
        system_config != architecture_features.ArchitectureFeatures.DEFAULT_CONFIG
        or memory_mode != architecture_features.ArchitectureFeatures.DEFAULT_CONFIG
    )
    ini = os.path.join(os.path.dirname(os.path.abspath(architecture_features.__file__)), "..", "config_files", "Arm", "vela.ini")
    arch = architecture_features.ArchitectureFeatures(
        vela_config_files=[os.path.normpath(ini)] if uses_ini else None,
        system_config=system_config,
        memory_mode=memory_mode,
        accelerator_config=accelerator,
        max_blockdep=architecture_features.ArchitectureFeatures.MAX_BLOCKDEP,
        verbose_config=False,
        arena_cache_size=arena_cache_size,
    )
    compiler_options = compiler_driver.CompilerOptions(output_dir=tmpdir)
    strategy = (
        scheduler.OptimizationStrategy.Performance if optimise == "Performance" else scheduler.OptimizationStrategy.Size
    )
    scheduler_options = scheduler.SchedulerOptions(
        optimization_strategy=strategy, sram_target=arch.arena_cache_size, verbose_schedule=False
    )
    out = io.StringIO()
    ctx = contextlib.redirect_stdout(out) if quiet else contextlib.nullcontext()
    with ctx:
        nng, network_type = model_reader.read_model(path, model_reader.ModelReaderOptions())
        compiler_driver.compiler_driver(
            nng, arch, compiler_options, scheduler_options, network_type, os.path.join(tmpdir, "model")
        )
    return Compiled(nng, arch)


# ----------------------------------------------------------------------------------------------------------------------
# Capturing the NPU operations / register command streams of a compilation
# ----------------------------------------------------------------------------------------------------------------------
from ethosu.vela import high_level_command_to_npu_op as _hl2npu  # noqa: E402
from ethosu.vela.api import NpuDmaOperation  # noqa: E402
from ethosu.vela.ethos_u55_regs.ethos_u55_regs import cmd0, cmd1  # noqa: E402
from ethosu.vela.high_level_command_stream import NpuStripe  # noqa: E402
from ethosu.vela.operation import NpuBlockType  # noqa: E402
from ethosu.vela.tensor import TensorFormat, TensorSubPurpose  # noqa: E402

_CMD0 = {c.value: c.name for c in cmd0}
_CMD1 = {c.value: c.name for c in cmd1}


class Capture:
    """Records (npu_op_list, npu_op_to_cmd, register stream) for every subgraph that is compiled while active"""

    def __init__(self):
        self.records = []

    def __enter__(self):
        self._orig = _hl2npu.generate_command_stream

        def wrapper(npu_op_list, arch, verbose, mem_limits, add_to_debug_db=None, npu_op_to_cmd=None):
            stream = self._orig(npu_op_list, arch, verbose, mem_limits, add_to_debug_db, npu_op_to_cmd)
            self.records.append((list(npu_op_list), dict(npu_op_to_cmd or {}), list(stream)))
            return stream

        _hl2npu.generate_command_stream = wrapper
        return self

    def __exit__(self, *exc):
        _hl2npu.generate_command_stream = self._orig
        return False


def decode_stream(words):
    """Decodes a register command stream into a list of (op_name, param, register snapshot) per NPU_OP_* command"""
    regs = {}
    ops = []
    i = 0
    while i < len(words):
        w = int(words[i])
        code = w & 0xFFFF
        param = (w >> 16) & 0xFFFF
        if code & 0x4000:
            name = _CMD1[code & 0x3FF]
            payload = int(words[i + 1])
            i += 2
            regs[name] = payload | (param << 32)
        else:
            name = _CMD0[code & 0x3FF]
            i += 1
            if name.startswith("NPU_OP_"):
                if name in ("NPU_OP_CONV", "NPU_OP_DEPTHWISE", "NPU_OP_POOL", "NPU_OP_ELEMENTWISE", "NPU_OP_DMA_START"):
                    ops.append((name, param, dict(regs)))
            else:
                regs[name] = param
    return ops


def _signed16(v):
    return v - 0x10000 if v & 0x8000 else v


class Violation(Exception):
    pass


def _same_or_valid_pads(padding, in_size, k_dilated, stride, out_size):
    if padding == Padding.VALID:
        return 0, 0
    total = max((out_size - 1) * stride + k_dilated - in_size, 0)
    return total // 2, total - total // 2


class StreamChecker:
    """Independent model: every stripe is checked at register level against the receptive field of its OFM region and the
    rolling buffers are simulated row by row (keyed by the physical row address)"""

    def __init__(self, strict_ifm_end=False):
        self.problems = []
        self.stats = {"ops": 0, "striped_ops": 0, "depth_sliced_ops": 0, "rolling_reads": 0, "cascades": 0}

    def problem(self, msg):
        self.problems.append(msg)

    # -- helpers -------------------------------------------------------------------------------------------------
    @staticmethod
    def _fm_rows(regs, prefix, n_rows):
        """Physical start addresses of the n_rows rows of a feature map described by BASE0/BASE2/HEIGHT0/STRIDE_Y"""
        base0 = regs[f"NPU_SET_{prefix}_BASE0"]
        base2 = regs[f"NPU_SET_{prefix}_BASE2"]
        h0 = regs[f"NPU_SET_{prefix}_HEIGHT0_M1"] + 1
        sy = regs[f"NPU_SET_{prefix}_STRIDE_Y"]
        rows = []
        for i in range(n_rows):
            if i < h0:
                rows.append(base0 + i * sy)
            else:
                rows.append(base2 + (i - h0) * sy)
        return rows

    @staticmethod
    def _split_row_offset(tens, off_in_row, regs, prefix):
        """Splits the offset of an address inside a row into (x, c)"""
        es = tens.dtype.size_in_bytes()
        if tens.format == TensorFormat.NHCWB16:
            sc = regs[f"NPU_SET_{prefix}_STRIDE_C"]
            brick = off_in_row // sc
            rem = off_in_row % sc
            x = rem // (16 * es)
            c = brick * 16 + (rem % (16 * es)) // es
        else:
            sx = regs[f"NPU_SET_{prefix}_STRIDE_X"]
            x = off_in_row // sx
            c = (off_in_row % sx) // es
        return x, c

    def check_subgraph(self, sg, record, arch=None):
        npu_ops, op_to_cmd, stream = record
        decoded = decode_stream(stream)
        blk_ops = [(n, p, r) for (n, p, r) in decoded if n != "NPU_OP_DMA_START"]
        blk_npu_ops = [o for o in npu_ops if not isinstance(o, NpuDmaOperation)]
        if len(blk_ops) != len(blk_npu_ops):
            self.problem(f"{len(blk_npu_ops)} NPU operations but {len(blk_ops)} NPU_OP commands in the stream")
            return
        self.stats["cascades"] += len(sg.schedule.cascades)
        self.arch = arch
        # constant data (encoded weights and scales) by (region, address)
        self.const_mem = []
        if arch is not None:
            seen = set()
            for cost in sg.schedule.cost_map.values():
                for t in (cost.npu_weights_tensor, cost.npu_scales_tensor):
                    if t is not None and id(t) not in seen and getattr(t, "buffer", None) is not None:
                        seen.add(id(t))
                        self.const_mem.append((_hl2npu.get_region(t.mem_type, arch), int(t.address), bytes(t.buffer)))
        self.sram = {}  # (region, address) -> bytes copied there by a DMA
        # memory model: (region, row address) -> (tensor, logical row, [(c0, c1)...])
        mem = {}
        written_tensors = set()
        per_op = {}
        order = []
        blk_iter = iter(blk_npu_ops)
        for opname, _, regs in decoded:
            if opname == "NPU_OP_DMA_START":
                self._simulate_dma(regs)
                continue
            npu_op = next(blk_iter)
            cmd = op_to_cmd[npu_op]
            assert isinstance(cmd, NpuStripe)
            ps = cmd.ps
            if ps not in per_op:
                per_op[ps] = []
                order.append(ps)
            per_op[ps].append((cmd, regs, opname))
            try:
                self._check_stripe(cmd, regs, opname, mem, written_tensors)
                if arch is not None:
                    self._check_scales(cmd, regs)
            except Violation as e:
                self.problem(str(e))
        for ps in order:
            self._check_partition(ps, per_op[ps])

    # -- weights / scales of a depth slice ---------------------------------------------------------------------------
    def _read_const(self, region, addr, length):
        for reg, base, data in self.const_mem:
            if reg == region and base <= addr and addr + length <= base + len(data):
                return data[addr - base : addr - base + length]
        return None

    def _read(self, region, addr, length):
        for (reg, base), data in self.sram.items():
            if reg == region and base <= addr and addr + length <= base + len(data):
                return data[addr - base : addr - base + length]
        return self._read_const(region, addr, length)

    def _simulate_dma(self, regs):
        src = self._read(regs["NPU_SET_DMA0_SRC_REGION"], regs["NPU_SET_DMA0_SRC"], regs["NPU_SET_DMA0_LEN"])
        if src is None:
            return
        dst_region, dst = regs["NPU_SET_DMA0_DST_REGION"], regs["NPU_SET_DMA0_DST"]
        # a new transfer replaces whatever overlapped it
        for key in [k for k, d in self.sram.items() if k[0] == dst_region and k[1] < dst + len(src) and dst < k[1] + len(d)]:
            old = self.sram.pop(key)
            if key[1] < dst:
                self.sram[(dst_region, key[1])] = old[: dst - key[1]]
            if key[1] + len(old) > dst + len(src):
                self.sram[(dst_region, dst + len(src))] = old[dst + len(src) - key[1] :]
        self.sram[(dst_region, dst)] = src

    def _check_scales(self, cmd, regs):
        op = cmd.ps.primary_op
        if op.type.npu_block_type not in (NpuBlockType.ConvolutionMxN, NpuBlockType.ConvolutionDepthWise):
            return
        if op.bias is None or op.bias.values is None:
            return
        name = f"{op.name}[ofm {list(map(int, cmd.ofm_box.start_coord))}-{list(map(int, cmd.ofm_box.end_coord))}]"
        w_off = op.write_offset.as_list() if op.write_offset is not None else [0, 0, 0, 0]
        c0 = int(cmd.ofm_box.start_coord[3]) - w_off[3]
        c1 = int(cmd.ofm_box.end_coord[3]) - w_off[3]
        biases = [int(b) for b in np.asarray(op.bias.values).flatten()]
        ncores = self.arch.ncores
        for core in range(ncores):
            want = biases[c0 + core : c1 : ncores]
            sfx = "" if core == 0 else "1"
            region = regs.get("NPU_SET_SCALE_REGION")
            base = regs.get(f"NPU_SET_SCALE{sfx}_BASE")
            length = regs.get(f"NPU_SET_SCALE{sfx}_LENGTH")
            if base is None or length is None:
                raise Violation(f"{name}: no scale/bias stream set up for core {core}")
            if length < 10 * len(want):
                raise Violation(
                    f"{name}: the scale stream of core {core} is {length} bytes, {len(want)} channels need {10 * len(want)}"
                )
            data = self._read(region, base, length)
            if data is None:
                raise Violation(f"{name}: the scale stream at region {region} address {base:#x} is not initialised data")
            got = []
            for i in range(len(want)):
                v = int.from_bytes(data[10 * i : 10 * i + 5], "little")
                if v & (1 << 39):
                    v -= 1 << 40
                got.append(v)
            self.stats["scale_checks"] = self.stats.get("scale_checks", 0) + 1
            if got != want:
                bad = [i for i in range(len(want)) if got[i] != want[i]][0]
                raise Violation(
                    f"{name}: core {core} reads the bias {got[bad]} for channel {c0 + core + bad * ncores}, the operator's bias"
                    f" for that channel is {want[bad]} (the scale stream does not belong to channels {c0}..{c1})"
                )
            w_len = regs.get(f"NPU_SET_WEIGHT{sfx}_LENGTH", 0)
            if w_len == 0 and len(want) > 0:
                raise Violation(f"{name}: core {core} has no weight stream")
            w_base = regs.get(f"NPU_SET_WEIGHT{sfx}_BASE")
            if self._read(regs.get("NPU_SET_WEIGHT_REGION"), w_base, w_len) is None:
                raise Violation(
                    f"{name}: the weight stream of core {core} ({w_len} bytes at {w_base:#x}) is not completely covered by"
                    f" constant data or by the data one DMA transferred"
                )
            self.stats["weight_range_checks"] = self.stats.get("weight_range_checks", 0) + 1

    # -- partition of the OFM --------------------------------------------------------------------------------------
    def _check_partition(self, ps, stripes):
        op = ps.primary_op
        self.stats["ops"] += 1
        full = ps.ofm_shapes[0].as_list()
        if op.write_offset is not None:
            start = op.write_offset.as_list()
            end = [a + b for a, b in zip(start, op.write_shape.as_list())]
        else:
            start = [0, 0, 0, 0]
            end = list(full)
        boxes = [(list(map(int, c.ofm_box.start_coord)), list(map(int, c.ofm_box.end_coord))) for c, _, _ in stripes]
        if len(boxes) > 1:
            if len({(b[0][1], b[1][1]) for b in boxes}) > 1:
                self.stats["striped_ops"] += 1
            if len({(b[0][3], b[1][3]) for b in boxes}) > 1:
                self.stats["depth_sliced_ops"] += 1
        vol = 0
        for s, e in boxes:
            for d in range(4):
                if not (start[d] <= s[d] < e[d] <= end[d]):
                    self.problem(f"{op.name}: OFM stripe {s}-{e} is empty or outside the region {start}-{end} written by the op")
            vol += int(np.prod([e[d] - s[d] for d in range(4)]))
        for i in range(len(boxes)):
            for j in range(i + 1, len(boxes)):
                if all(boxes[i][0][d] < boxes[j][1][d] and boxes[j][0][d] < boxes[i][1][d] for d in range(4)):
                    self.problem(f"{op.name}: OFM stripes {boxes[i]} and {boxes[j]} overlap")
        want = int(np.prod([end[d] - start[d] for d in range(4)]))
        if vol != want:
            self.problem(f"{op.name}: OFM stripes cover {vol} elements, the operator writes {want} (gap or overlap)")

    # -- one stripe ------------------------------------------------------------------------------------------------
    def _check_stripe(self, cmd, regs, opname, mem, written_tensors):
        ps = cmd.ps
        op = ps.primary_op
        name = f"{op.name}[ofm {list(map(int, cmd.ofm_box.start_coord))}-{list(map(int, cmd.ofm_box.end_coord))}]"
        ofm_t = cmd.ofm_tensor
        ifm_t = cmd.ifm_tensor
        o_s = list(map(int, cmd.ofm_box.start_coord))
        o_e = list(map(int, cmd.ofm_box.end_coord))
        oh, ow, od = o_e[1] - o_s[1], o_e[2] - o_s[2], o_e[3] - o_s[3]
        # OFM registers agree with the OFM region
        if (regs["NPU_SET_OFM_HEIGHT_M1"] + 1, regs["NPU_SET_OFM_WIDTH_M1"] + 1, regs["NPU_SET_OFM_DEPTH_M1"] + 1) != (
            oh,
            ow,
            od,
        ):
            raise Violation(f"{name}: OFM size registers do not match the OFM stripe")
        transposed_ofm = op.original_type == Op.Transpose
        ofm_region = regs["NPU_SET_OFM_REGION"]
        ofm_rows = self._fm_rows(regs, "OFM", oh)
        sy = regs["NPU_SET_OFM_STRIDE_Y"]
        if not transposed_ofm and list(op.ofm_stride_multiplier or [1, 1, 1]) == [1, 1, 1] and not any(op.tile_base_offsets_ofm):
            rolling = ofm_t.sub_purpose != TensorSubPurpose.Standard
            pending = []
            # the first row address also carries the x / c offset of the stripe
            for i, addr in enumerate(ofm_rows):
                y = o_s[1] + i
                off = addr - ofm_t.address
                if off < 0:
                    raise Violation(f"{name}: OFM row {y} lies below the tensor ({off})")
                prow = off // sy
                x, c = self._split_row_offset(ofm_t, off % sy, regs, "OFM")
                if (x, c) != (o_s[2], o_s[3]):
                    raise Violation(f"{name}: OFM row {y} is written at x={x}, c={c}, expected x={o_s[2]}, c={o_s[3]}")
                if not rolling and prow != y:
                    raise Violation(f"{name}: OFM row {y} is written to row {prow} of the (not rolling) tensor")
                if rolling and prow >= ofm_t.storage_shape[1]:
                    raise Violation(
                        f"{name}: OFM row {y} is written to row {prow} of a rolling buffer of {ofm_t.storage_shape[1]} rows"
                    )
                pending.append(((ofm_region, ofm_t.address + prow * sy), y))
        else:
            pending = None
        try:
            self._check_stripe_inputs(cmd, regs, opname, mem, written_tensors, name, o_s, o_e)
        finally:
            # the OFM rows are written after the inputs of the stripe were read
            if pending is not None:
                for key, y in pending:
                    old = mem.get(key)
                    if old is not None and old[0] is ofm_t and old[1] == y:
                        old[2].append((o_s[3], o_e[3]))
                    else:
                        mem[key] = (ofm_t, y, [(o_s[3], o_e[3])])
                written_tensors.add(ofm_t)

    def _check_stripe_inputs(self, cmd, regs, opname, mem, written_tensors, name, o_s, o_e):
        ps = cmd.ps
        op = ps.primary_op
        ifm_t = cmd.ifm_tensor
        if op.type.npu_block_type == NpuBlockType.ElementWise:
            self._check_elementwise_ifm(cmd, regs, name, mem, written_tensors)
            return
        if op.type.npu_block_type not in (
            NpuBlockType.ConvolutionMxN,
            NpuBlockType.ConvolutionDepthWise,
            NpuBlockType.Pooling,
        ):
            return
        if op.type == Op.Conv2DBackpropInputSwitchedBias:
            self._check_transpose_conv(cmd, regs, name, o_s, o_e)
            return
        if any(op.tile_base_offsets_ifm[0]):
            return
        if op.attrs.get("padding", None) == Padding.TILE:
            return
        # --- the operator as the model describes it
        kernel = op.kernel
        s_y, s_x = kernel.stride.y, kernel.stride.x
        kd_h = (kernel.height - 1) * kernel.dilation.y + 1
        kd_w = (kernel.width - 1) * kernel.dilation.x + 1
        ifm_shape = ps.ifm_shapes[0]
        roff = op.read_offsets[0]
        rshape = op.read_shapes[0]
        win_h, win_w = ifm_shape.height, ifm_shape.width
        off_h = off_w = off_c = 0
        if roff is not None:
            off_h, off_w, off_c = roff.height, roff.width, roff.depth
            win_h, win_w = rshape.height, rshape.width
        upscale = 2 if op.ifm_resampling_mode.name == "NEAREST" else 1
        if op.write_offset is not None:
            w_off = op.write_offset.as_list()
            out_full = op.write_shape.as_list()
        else:
            w_off = [0, 0, 0, 0]
            out_full = ps.ofm_shapes[0].as_list()
        ptype = op.attrs.get("padding", None)
        e_top, e_left, e_bottom, e_right = op.attrs["explicit_padding"]
        if ptype in (Padding.SAME, Padding.VALID) and op.original_type not in (Op.ResizeBilinear,):
            top, bottom = _same_or_valid_pads(ptype, win_h * upscale, kd_h, s_y, out_full[1])
            left, right = _same_or_valid_pads(ptype, win_w * upscale, kd_w, s_x, out_full[2])
            if (top, left) != (e_top, e_left):
                # cannot interpret this operator's padding independently - use the padding Vela derived for the whole op
                top, left, bottom, right = e_top, e_left, e_bottom, e_right
        else:
            top, left, bottom, right = e_top, e_left, e_bottom, e_right
        # --- registers
        r_top = regs["NPU_SET_IFM_PAD_TOP"]
        r_bottom = regs["NPU_SET_IFM_PAD_BOTTOM"]
        r_left = regs["NPU_SET_IFM_PAD_LEFT"]
        r_right = regs["NPU_SET_IFM_PAD_RIGHT"]
        k_h_reg = regs["NPU_SET_KERNEL_HEIGHT_M1"] + 1
        k_w_reg = regs["NPU_SET_KERNEL_WIDTH_M1"] + 1
        if (k_h_reg, k_w_reg) != (kd_h, kd_w):
            raise Violation(f"{name}: kernel registers {k_h_reg}x{k_w_reg} differ from the dilated kernel {kd_h}x{kd_w}")
        # --- receptive field of the OFM rows (coordinates in the upscaled IFM window)
        ry0 = o_s[1] - w_off[1]
        ry1 = o_e[1] - w_off[1]
        h_up = win_h * upscale
        u0 = ry0 * s_y - top
        u1 = (ry1 - 1) * s_y + kd_h - top
        exp_top = max(0, -u0)
        exp_bottom = max(0, u1 - h_up)
        u0c, u1c = max(u0, 0), min(u1, h_up)
        if u0c % upscale != 0:
            raise Violation(
                f"{name}: the stripe starts at row {u0c} of the {upscale}x upscaled IFM, which is not the first row of an IFM row"
            )
        exp_y0 = u0c // upscale + off_h
        exp_y1 = -(-u1c // upscale) + off_h
        if r_top != exp_top:
            raise Violation(f"{name}: IFM_PAD_TOP is {r_top}, the receptive field needs {exp_top}")
        if r_bottom != exp_bottom:
            raise Violation(f"{name}: IFM_PAD_BOTTOM is {r_bottom}, the receptive field needs {exp_bottom}")
        rx0 = o_s[2] - w_off[2]
        rx1 = o_e[2] - w_off[2]
        w_up = win_w * upscale
        v0 = rx0 * s_x - left
        v1 = (rx1 - 1) * s_x + kd_w - left
        exp_left = max(0, -v0)
        exp_right = max(0, v1 - w_up)
        if (r_left, r_right) != (exp_left, exp_right):
            raise Violation(
                f"{name}: IFM_PAD_LEFT/RIGHT are {r_left}/{r_right}, the receptive field needs {exp_left}/{exp_right}"
            )
        exp_x0 = max(v0, 0) // upscale + off_w
        exp_x1 = -(-min(v1, w_up) // upscale) + off_w
        # --- the IFM box of the command
        i_s = list(map(int, cmd.ifm_box.start_coord))
        i_e = list(map(int, cmd.ifm_box.end_coord))
        if i_s[1] != exp_y0 or i_e[1] < exp_y1:
            raise Violation(f"{name}: IFM box rows {i_s[1]}..{i_e[1]} but the receptive field is rows {exp_y0}..{exp_y1}")
        if i_e[1] > off_h + win_h:
            raise Violation(f"{name}: IFM box rows {i_s[1]}..{i_e[1]} exceed the IFM window of {win_h} rows at {off_h}")
        if i_s[2] != exp_x0 or i_e[2] < exp_x1 or i_e[2] > off_w + win_w:
            raise Violation(f"{name}: IFM box columns {i_s[2]}..{i_e[2]} but the receptive field is {exp_x0}..{exp_x1}")
        if op.type.npu_block_type == NpuBlockType.ConvolutionMxN:
            exp_c0 = off_c
            exp_c1 = off_c + (rshape.depth if roff is not None else ifm_shape.depth)
        else:
            exp_c0 = o_s[3] - w_off[3] + off_c
            exp_c1 = o_e[3] - w_off[3] + off_c
        if (i_s[3], i_e[3]) != (exp_c0, exp_c1):
            raise Violation(f"{name}: IFM box channels {i_s[3]}..{i_e[3]}, expected {exp_c0}..{exp_c1}")
        if regs["NPU_SET_IFM_DEPTH_M1"] + 1 != exp_c1 - exp_c0:
            raise Violation(f"{name}: IFM_DEPTH is {regs['NPU_SET_IFM_DEPTH_M1'] + 1}, expected {exp_c1 - exp_c0}")
        # --- the rows the hardware reads
        n_rows = exp_y1 - exp_y0
        self._check_ifm_rows(name, ifm_t, regs, "IFM", exp_y0, n_rows, exp_x0, exp_c0, exp_c1, mem, written_tensors)

    def _check_transpose_conv(self, cmd, regs, name, o_s, o_e):
        """A transposed convolution is never striped in height: the one stripe (per depth slice) covers all OFM rows and
        its receptive field is the whole IFM (read window)"""
        ps = cmd.ps
        op = ps.primary_op
        ifm_shape = ps.ifm_shapes[0]
        roff, rshape = op.read_offsets[0], op.read_shapes[0]
        off_h = off_w = 0
        win_h, win_w = ifm_shape.height, ifm_shape.width
        if roff is not None:
            off_h, off_w = roff.height, roff.width
            win_h, win_w = rshape.height, rshape.width
        full = op.write_shape.as_list() if op.write_offset is not None else ps.ofm_shapes[0].as_list()
        if o_e[1] - o_s[1] != full[1] or o_e[2] - o_s[2] != full[2]:
            return
        i_s = list(map(int, cmd.ifm_box.start_coord))
        i_e = list(map(int, cmd.ifm_box.end_coord))
        if (i_s[1], i_e[1], i_s[2], i_e[2]) != (off_h, off_h + win_h, off_w, off_w + win_w):
            raise Violation(
                f"{name}: transposed convolution over all OFM rows/columns has the IFM box rows {i_s[1]}..{i_e[1]}, columns"
                f" {i_s[2]}..{i_e[2]}; its receptive field is the whole IFM window rows {off_h}..{off_h + win_h}, columns"
                f" {off_w}..{off_w + win_w}"
            )
        h0 = regs["NPU_SET_IFM_HEIGHT0_M1"] + 1
        w0 = regs["NPU_SET_IFM_WIDTH0_M1"] + 1
        if h0 < win_h or w0 < win_w:
            raise Violation(
                f"{name}: IFM tile 0 is {h0} rows x {w0} columns but the {win_h}x{win_w} IFM is not a rolling buffer (the other"
                f" tile base addresses are {regs['NPU_SET_IFM_BASE1']:#x}/{regs['NPU_SET_IFM_BASE2']:#x})"
            )

    def _check_ifm_rows(self, name, tens, regs, prefix, y0, n_rows, x0, c0, c1, mem, written_tensors):
        region = regs[f"NPU_SET_{prefix}_REGION"]
        sy = regs[f"NPU_SET_{prefix}_STRIDE_Y"]
        rows = self._fm_rows(regs, prefix, n_rows)
        rolling = tens.sub_purpose != TensorSubPurpose.Standard
        for i, addr in enumerate(rows):
            y = y0 + i
            off = addr - tens.address
            if off < 0:
                raise Violation(f"{name}: {prefix} row {y} is read from below the tensor")
            prow = off // sy
            x, c = self._split_row_offset(tens, off % sy, regs, prefix)
            if (x, c) != (x0, c0):
                raise Violation(f"{name}: {prefix} row {y} is read at x={x}, c={c}, expected x={x0}, c={c0}")
            if not rolling and prow != y:
                raise Violation(f"{name}: {prefix} row {y} is read from row {prow} of the (not rolling) tensor {tens.name}")
            if rolling:
                self.stats["rolling_reads"] += 1
                if prow >= tens.storage_shape[1]:
                    raise Violation(f"{name}: {prefix} row {y} is read from row {prow}, outside the rolling buffer")
            if tens in written_tensors:
                entry = mem.get((region, tens.address + prow * sy))
                if entry is None or entry[0] is not tens or entry[1] != y:
                    have = "nothing" if entry is None else f"row {entry[1]} of {entry[0].name}"
                    raise Violation(
                        f"{name}: reads row {y} of {tens.name} but its location (buffer row {prow}) holds {have}"
                    )
                covered = sorted(entry[2])
                pos = c0
                for a, b in covered:
                    if a <= pos < b:
                        pos = b
                if pos < c1:
                    raise Violation(f"{name}: reads channels {c0}..{c1} of row {y} of {tens.name}, only {covered} written")

    def _check_elementwise_ifm(self, cmd, regs, name, mem, written_tensors):
        ps = cmd.ps
        op = ps.primary_op
        if any(op.tile_base_offsets_ifm[0]) or op.read_offsets[0] is not None or op.read_offsets[1] is not None:
            return
        o_s = list(map(int, cmd.ofm_box.start_coord))
        o_e = list(map(int, cmd.ofm_box.end_coord))
        w_off = op.write_offset.as_list() if op.write_offset is not None else [0, 0, 0, 0]
        for tens, box, prefix in ((cmd.ifm_tensor, cmd.ifm_box, "IFM"), (cmd.ifm2_tensor, cmd.ifm2_box, "IFM2")):
            if tens is None or tens.shape == [] or not box.start_coord:
                continue
            if prefix == "IFM2" and regs.get("NPU_SET_IFM2_BROADCAST", 0) & 0x80:
                continue  # scalar
            shp = list(tens.shape)
            shp = [1] * (4 - len(shp)) + shp
            if int(np.prod(shp)) != int(np.prod(ps.ifm_shapes[0 if prefix == "IFM" else 1].as_list())):
                continue
            shp = ps.ifm_shapes[0 if prefix == "IFM" else 1].as_list()
            exp_s = []
            exp_e = []
            for d in range(4):
                if shp[d] == 1 and (o_e[d] - o_s[d] > 1 or o_s[d] - w_off[d] > 0):
                    exp_s.append(0)
                    exp_e.append(1)
                else:
                    exp_s.append(o_s[d] - w_off[d])
                    exp_e.append(o_e[d] - w_off[d])
            b_s = list(map(int, box.start_coord))
            b_e = list(map(int, box.end_coord))
            if b_s != exp_s or b_e != exp_e:
                raise Violation(f"{name}: {prefix} box {b_s}-{b_e}, the elementwise operator needs {exp_s}-{exp_e}")
            self._check_ifm_rows(
                name, tens, regs, prefix, exp_s[1], exp_e[1] - exp_s[1], exp_s[2], exp_s[3], exp_e[3], mem, written_tensors
            )


def compile_and_check(buf, **kwargs):
    """Compiles a .tflite buffer and checks all NPU subgraphs. Returns (compiled, checker)"""
    with Capture() as cap:
        compiled = compile_tflite(buf, **kwargs)
    checker = StreamChecker()
    if len(cap.records) != len(compiled.npu_sgs):
        # subgraphs without a command stream are not recorded
        pass
    sgs = [sg for sg in compiled.npu_sgs if len(sg.high_level_command_stream) > 0]
    for sg, rec in zip(sgs, cap.records):
        checker.check_subgraph(sg, rec, compiled.arch)
    return compiled, checker

import os, sys, random, traceback
sys.path.insert(0, os.getcwd()); sys.path.insert(0, os.path.join(os.getcwd(), "out"))
import c10lib

def rand_model(rng):
    h = rng.choice([8, 12, 16, 17, 24, 31, 32, 40, 48])
    w = rng.choice([8, 9, 16, 24, 32])
    c = rng.choice([3, 8, 16, 24, 32])
    from ethosu.vela.data_type import DataType
    mb = c10lib.ModelBuilder(h, w, c, seed=rng.randrange(1000), dtype=DataType.int16 if os.environ.get('I16') else DataType.int8)
    desc = [f"in {h}x{w}x{c}"]
    n = rng.randint(2, 6)
    for i in range(n):
        _, ch, cw, cc = mb.cur.shape
        kind = rng.choice(["conv", "conv", "dw", "maxpool", "avgpool", "resize", "addc", "bil", "bilac", "padconv", "padavg", "padmax", "tconv", "slice", "branch", "revsub"])
        pad = rng.choice(["SAME", "SAME", "VALID"])
        kh = rng.choice([1, 1, 2, 3, 3, 4, 5, 7]); kw = rng.choice([1, 2, 3, 3, 5])
        sh = rng.choice([1, 1, 1, 2, 2, 3]); sw = rng.choice([1, 1, 2])
        dh = rng.choice([1, 1, 1, 2]); dw_ = rng.choice([1, 1, 2])
        if sh > 1 or sw > 1: dh = dw_ = 1
        kdh = (kh-1)*dh+1; kdw = (kw-1)*dw_+1
        if pad == "VALID" and (kdh > ch or kdw > cw): pad = "SAME"
        if kind == "conv":
            oc = rng.choice([8, 16, 24, 32, 48, 64])
            mb.conv(oc, (kh, kw), (sh, sw), (dh, dw_), pad); desc.append(f"conv{oc} k{kh}x{kw} s{sh}x{sw} d{dh}x{dw_} {pad}")
        elif kind == "dw":
            mb.dwconv((kh, kw), (sh, sw), (dh, dw_), pad); desc.append(f"dw k{kh}x{kw} s{sh}x{sw} d{dh}x{dw_} {pad}")
        elif kind in ("maxpool", "avgpool"):
            kh = min(kh, 8); 
            if pad == "VALID" and (kh > ch or kw > cw): pad = "SAME"
            mb.pool(kind[:3], (kh, kw), (sh, sw), pad); desc.append(f"{kind} k{kh}x{kw} s{sh}x{sw} {pad}")
        elif kind == "resize":
            if ch * cw > 40 * 40: continue
            mb.resize_nn(2); desc.append("resize2")
        elif kind == "addc":
            mb.add_const(); desc.append("addc")
        elif kind in ("bil", "bilac"):
            if ch * cw > 40 * 40 or ch < 2 or cw < 2: continue
            mb.resize_bilinear(2, align_corners=(kind == "bilac")); desc.append(kind)
        elif kind in ("padconv", "padavg", "padmax"):
            kh = rng.choice([2, 3, 3, 4, 5]); kw = rng.choice([2, 3, 3, 5])
            pt = rng.randint(0, kh // 2); pb = rng.randint(0, kh // 2); pl = rng.randint(0, kw // 2); pr = rng.randint(0, kw // 2)
            if kind == "padavg":
                pt = rng.choice([0, kh // 2]); pb = rng.choice([0, kh // 2]); pl = rng.choice([0, kw // 2]); pr = rng.choice([0, kw // 2])
            if ch + pt + pb < kh or cw + pl + pr < kw: continue
            mb.pad(pt, pb, pl, pr)
            if kind == "padconv":
                oc = rng.choice([8, 16, 32]); mb.conv(oc, (kh, kw), (sh, sw), (1, 1), "VALID")
            elif kind == "padavg":
                mb.pool("avg", (kh, kw), (sh, sw), "VALID")
            else:
                mb.pool("max", (kh, kw), (sh, sw), "VALID")
            desc.append(f"{kind} k{kh}x{kw} s{sh}x{sw} p{pt},{pb},{pl},{pr}")
        elif kind == "tconv":
            if ch * cw > 32 * 32: continue
            p = rng.choice(["SAME", "VALID"]); k = rng.choice([(2, 2), (3, 3), (4, 4), (3, 2)])
            oc = rng.choice([8, 16, 32]); mb.transpose_conv(oc, k, (2, 2), p); desc.append(f"tconv{oc} k{k} {p}")
        elif kind == "slice":
            if ch < 6 or cw < 6: continue
            b = [0, rng.randint(0, 3), rng.randint(0, 3), 0]; sz = [1, ch - b[1] - rng.randint(0, 2), cw - b[2] - rng.randint(0, 2), cc]
            mb.slice(b, sz); desc.append(f"slice {b} {sz}")
        elif kind == "branch":
            x = mb.cur
            a = mb.conv(cc, (kh, kw), (1, 1), (1, 1), "SAME", ifm=x)
            b = mb.conv(cc, (3, 3), (1, 1), (1, 1), "SAME", ifm=x)
            axis = rng.choice([1, 2, 3, "add"])
            if axis == "add": mb.add(a, b)
            else: mb.concat([a, b], axis=axis)
            desc.append(f"branch k{kh}x{kw} {axis}")
        elif kind == "revsub":
            from ethosu.vela.operation import Op
            mb.binary_const_first(Op.Sub); desc.append("revsub")
        _, ch, cw, cc = mb.cur.shape
        if ch < 2 or cw < 2: break
    return mb, desc

ACCS = os.environ.get("ACCS", "ethos-u55-32,ethos-u55-64,ethos-u55-128,ethos-u55-256,ethos-u65-256,ethos-u65-512").split(",")
def main():
    if sys.argv[1] == "list":
        seeds = [int(x) for x in sys.argv[2:]]
    else:
        seed0 = int(sys.argv[1]); n = int(sys.argv[2]); seeds = range(seed0, seed0 + n)
    for seed in seeds:
        rng = random.Random(seed)
        try:
            mb, desc = rand_model(rng)
            buf = mb.to_tflite()
        except Exception as e:
            print(seed, "BUILD-ERR", repr(e)); continue
        acc = rng.choice(ACCS)
        arena = rng.choice([1500, 3000, 6000, 12000, 24000, 48000, 96000, 200000])
        opt = rng.choice(["Performance", "Performance", "Size"])
        kw = dict(accelerator=acc, arena_cache_size=arena, optimise=opt)
        if acc.startswith("ethos-u65") and rng.random() < 0.5:
            kw["memory_mode"] = "Dedicated_Sram"; kw["system_config"] = "Ethos_U65_High_End"
        try:
            c, chk = c10lib.compile_and_check(buf, **kw)
        except Exception as e:
            print(seed, "COMPILE-ERR", acc, arena, opt, desc, repr(e)[:300]); continue
        tag = "OK" if not chk.problems else "PROBLEM"
        print(seed, tag, acc, arena, opt, kw.get("memory_mode", ""), desc, chk.stats)
        for p in chk.problems[:4]: print("    ", p)
        sys.stdout.flush()
main()

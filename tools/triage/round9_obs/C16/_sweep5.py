import os, sys, traceback
sys.path.insert(0, os.path.dirname(os.path.abspath(__file__)))
import c16zoo as z
from c16lib import compile_and_list, list_ops, DataType, Padding, Op
I8, U8, I16, I32, I64 = DataType.int8, DataType.uint8, DataType.int16, DataType.int32, DataType.int64
S, V = Padding.SAME, Padding.VALID
ACC = sys.argv[1] if len(sys.argv) > 1 else "ethos-u55-128"
bad = 0
def run(label, expect, mk):
    global bad
    try:
        data = mk()
        src = list_ops(data)
        ops, log = compile_and_list(data, ACC)
        got = "npu" if ops == ["ethos-u"] else ("cpu" if ops == src else "mixed:" + ",".join(ops))
        flag = "" if got == expect else "   <<<<<< MISMATCH (expected %s)" % expect
        warn = [l.strip() for l in log.splitlines() if l.startswith(" - ")]
        print(f"{label:60s} {got:6s} {warn[:1] if warn else ''}{flag}")
        if flag: bad += 1
    except Exception as e:
        bad += 1
        tb = traceback.extract_tb(e.__traceback__)[-1]
        print(f"{label:60s} EXC {type(e).__name__}: {str(e)[:100]} @{os.path.basename(tb.filename)}:{tb.lineno}   <<<<<< (expected {expect})")


# --- resize
for kind in ("bilinear", "nn"):
    run(f"{kind} 2x", "npu", lambda: z.resize(kind, (1,4,4,8), (8,8)))
    run(f"{kind} 4x", "npu", lambda: z.resize(kind, (1,4,4,8), (16,16)))
    run(f"{kind} 8x", "npu", lambda: z.resize(kind, (1,4,4,8), (32,32)))
    run(f"{kind} 16x", "cpu", lambda: z.resize(kind, (1,4,4,8), (64,64)))
    run(f"{kind} 3x", "cpu", lambda: z.resize(kind, (1,4,4,8), (12,12)))
    run(f"{kind} 2x h 4x w", "cpu", lambda: z.resize(kind, (1,4,4,8), (8,16)))
    run(f"{kind} 1x1 -> 7x5", "npu", lambda: z.resize(kind, (1,1,1,8), (7,5)))
    run(f"{kind} same size", "npu", lambda: z.resize(kind, (1,4,4,8), (4,4)))
    run(f"{kind} align 4->7 (2x)", "npu", lambda: z.resize(kind, (1,4,4,8), (7,7), align_corners=True))
    run(f"{kind} align 4->13 (4x)", "npu", lambda: z.resize(kind, (1,4,4,8), (13,13), align_corners=True))
    run(f"{kind} align 4->8", "cpu", lambda: z.resize(kind, (1,4,4,8), (8,8), align_corners=True))
    run(f"{kind} align 1x4 -> 1x7", "cpu", lambda: z.resize(kind, (1,1,4,8), (1,7), align_corners=True))
    run(f"{kind} hpc 2x", "npu", lambda: z.resize(kind, (1,4,4,8), (8,8), half_pixel_centers=True))
    run(f"{kind} hpc 4x", "cpu" if kind=="bilinear" else "npu", lambda: z.resize(kind, (1,4,4,8), (16,16), half_pixel_centers=True))
    run(f"{kind} align+hpc", "cpu", lambda: z.resize(kind, (1,4,4,8), (7,7), align_corners=True, half_pixel_centers=True))
    run(f"{kind} size tensor mismatch", "cpu", lambda: z.resize(kind, (1,4,4,8), (8,8), size=(9,9)))
    run(f"{kind} 1xW: [1,1,4,8]->[1,2,8,8]", "npu", lambda: z.resize(kind, (1,1,4,8), (2,8)))
    run(f"{kind} int16 2x", "npu", lambda: z.resize(kind, (1,4,4,8), (8,8), dtype=I16))
    run(f"{kind} uint8 2x", "npu", lambda: z.resize(kind, (1,4,4,8), (8,8), dtype=U8))
# --- transpose conv
run("tconv 2x2 SAME", "npu", lambda: z.transpose_conv())
run("tconv 1x1 SAME", "npu", lambda: z.transpose_conv(stride=(1,1)))
run("tconv 2x2 VALID", "npu", lambda: z.transpose_conv(padding=V))
run("tconv 3x3", "cpu", lambda: z.transpose_conv(stride=(3,3)))
run("tconv 1x2 (h1,w2) ih>1", "cpu", lambda: z.transpose_conv(stride=(1,2)))
run("tconv h1,w2 ih=1 kh=1", "npu", lambda: z.transpose_conv(ifm_shape=(1,1,4,4), k=(1,3), stride=(1,2)))
run("tconv h2,w1", "cpu", lambda: z.transpose_conv(stride=(2,1)))
run("tconv SAME wrong ofm", "cpu", lambda: z.transpose_conv(ofm_hw=(9,9)))
run("tconv VALID wrong ofm", "cpu", lambda: z.transpose_conv(padding=V, ofm_hw=(8,8)))
run("tconv nobias", "npu", lambda: z.transpose_conv(bias=False))
run("tconv int16", "npu", lambda: z.transpose_conv(dtype=I16))
# --- pad
run("pad hw", "npu", lambda: z.pad())
run("pad c", "npu", lambda: z.pad(paddings=((0,0),(0,0),(0,0),(1,1))))
run("pad batch", "npu", lambda: z.pad(paddings=((1,1),(0,0),(0,0),(0,0))))
run("pad 3D [3,2]", "npu", lambda: z.pad(ifm_shape=(8,8,4), paddings=((1,1),(1,1),(0,0))))
run("pad 2D [2,2]", "cpu", lambda: z.pad(ifm_shape=(8,4), paddings=((1,1),(1,1))))
run("pad int64 paddings", "npu", lambda: z.pad(pad_dtype=I64))
run("pad int16 ifm", "npu", lambda: z.pad(dtype=I16))
# --- strided slice
run("ss basic", "npu", lambda: z.strided_slice())
run("ss stride 2", "cpu", lambda: z.strided_slice(end=(1,8,8,4), strides=(1,2,1,1), oshape=(1,4,8,4)))
run("ss end<=begin", "cpu", lambda: z.strided_slice(begin=(0,4,0,0), end=(1,4,8,4), oshape=(1,1,8,4)))
run("ss negative end", "npu", lambda: z.strided_slice(begin=(0,0,0,0), end=(1,-4,8,4), oshape=(1,4,8,4)))
run("ss shrink axis", "npu", lambda: z.strided_slice(begin=(0,2,0,0), end=(1,3,8,4), oshape=(1,8,4), masks={"shrink_axis_mask": 2}))
run("ss ellipsis", "cpu", lambda: z.strided_slice(masks={"ellipsis_mask": 1}))
run("ss new+shrink", "cpu", lambda: z.strided_slice(masks={"new_axis_mask": 1, "shrink_axis_mask": 2}))
run("ss offset True", "cpu", lambda: z.strided_slice(masks={"offset": True}))
run("ss batch 2 ifm (excluded)", "npu", lambda: z.strided_slice(ifm_shape=(2,8,8,4), begin=(0,0,0,0), end=(1,8,8,4)))
# --- transpose
run("tr 4D 0213", "npu", lambda: z.transpose((1,4,6,8),(0,2,1,3)))
run("tr 4D 0132 h=1", "npu", lambda: z.transpose((1,1,6,8),(0,1,3,2)))
run("tr 4D 0132 h=4", "cpu", lambda: z.transpose((1,4,6,8),(0,1,3,2)))
run("tr 4D 0321 w=1", "npu", lambda: z.transpose((1,4,1,8),(0,3,2,1)))
run("tr 4D 0321 w=2", "cpu", lambda: z.transpose((1,4,2,8),(0,3,2,1)))
run("tr 4D 0312", "cpu", lambda: z.transpose((1,4,6,8),(0,3,1,2)))
run("tr 4D batch2 0213", "cpu", lambda: z.transpose((2,4,6,8),(0,2,1,3)))
run("tr 3D 102", "npu", lambda: z.transpose((4,6,8),(1,0,2)))
run("tr 3D 021 h=1", "npu", lambda: z.transpose((1,6,8),(0,2,1)))
run("tr 3D 021 h=4", "cpu", lambda: z.transpose((4,6,8),(0,2,1)))
run("tr 3D 210 w=1", "npu", lambda: z.transpose((4,1,8),(2,1,0)))
run("tr 3D 210 w=2", "cpu", lambda: z.transpose((4,2,8),(2,1,0)))
run("tr 2D 10", "npu", lambda: z.transpose((6,8),(1,0)))
run("tr 2D 01 identity", "npu", lambda: z.transpose((6,8),(0,1)))
run("tr 4D identity 0123", "cpu", lambda: z.transpose((1,4,6,8),(0,1,2,3)))
run("tr int32 4D 0213", "npu", lambda: z.transpose((1,4,6,8),(0,2,1,3), dtype=I32))
run("tr int16 0213", "npu", lambda: z.transpose((1,4,6,8),(0,2,1,3), dtype=I16))
# --- reshape
run("reshape ok", "npu", lambda: z.reshape())
run("reshape quant mismatch", "cpu", lambda: z.reshape(oscale=0.25))
run("reshape batch 2", "npu", lambda: z.reshape((2,4,4,8),(2,128)))

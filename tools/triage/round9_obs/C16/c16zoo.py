# Small model zoo for the C16 demos / observations: every function returns the bytes of a .tflite model
import math
import os
import sys

sys.path.insert(0, os.path.dirname(os.path.abspath(__file__)))
from c16lib import *  # noqa: E402,F401,F403
from c16lib import build_model, const, fm, mkop, np, DataType, Op, Padding  # noqa: E402
from ethosu.vela.operation import create_activation_function  # noqa: E402


def _out_hw(ih, iw, kh, kw, sh, sw, dh, dw, padding):
    if padding == Padding.SAME:
        return math.ceil(ih / sh), math.ceil(iw / sw)
    return math.ceil((ih - (kh - 1) * dh) / sh), math.ceil((iw - (kw - 1) * dw) / sw)


def _faf(op, faf):
    if faf is not None:
        op.activation = create_activation_function(faf)


def conv2d(
    ifm_shape=(1, 8, 8, 4),
    k=(3, 3),
    oc=8,
    stride=(1, 1),
    dil=(1, 1),
    padding=Padding.SAME,
    dtype=DataType.int8,
    wdtype=None,
    wval=1,
    wzp=0,
    bias_dtype=DataType.int32,
    bias_val=0,
    faf=None,
    ofm_hw=None,
    groups=1,
    per_channel=False,
):
    ih, iw, ic = ifm_shape[1:]
    oh, ow = ofm_hw if ofm_hw else _out_hw(ih, iw, k[0], k[1], stride[0], stride[1], dil[0], dil[1], padding)
    ifm = fm("ifm", ifm_shape, dtype, 0.5, 0)
    ofm = fm("ofm", (ifm_shape[0], oh, ow, oc), dtype, 0.5, 0)
    wdtype = wdtype or (DataType.uint8 if dtype == DataType.uint8 else DataType.int8)
    wshape = (oc, k[0], k[1], ic // groups)
    wscale = [0.1] * oc if per_channel else 0.1
    wz = [wzp] * oc if per_channel else wzp
    w = const("w", wshape, wdtype, np.full(wshape, wval), wscale, wz)
    if per_channel:
        w.quantization.quant_dim = 0
    inputs = [ifm, w]
    if bias_dtype is not None:
        inputs.append(const("b", (oc,), bias_dtype, np.full((oc,), bias_val), 0.05, 0))
    op = mkop(
        Op.Conv2DBias,
        "conv",
        inputs,
        ofm,
        {
            "padding": padding,
            "stride_h": stride[0],
            "stride_w": stride[1],
            "strides": (1, stride[0], stride[1], 1),
            "dilation_h_factor": dil[0],
            "dilation_w_factor": dil[1],
            "dilation": (1, dil[0], dil[1], 1),
        },
    )
    _faf(op, faf)
    return build_model([op], [ifm], [ofm])


def depthwise(
    ifm_shape=(1, 8, 8, 4),
    k=(3, 3),
    mult=1,
    stride=(1, 1),
    dil=(1, 1),
    padding=Padding.SAME,
    dtype=DataType.int8,
    wval=1,
    bias_dtype=DataType.int32,
    oc=None,
):
    ih, iw, ic = ifm_shape[1:]
    oc = oc if oc is not None else ic * mult
    oh, ow = _out_hw(ih, iw, k[0], k[1], stride[0], stride[1], dil[0], dil[1], padding)
    ifm = fm("ifm", ifm_shape, dtype, 0.5, 0)
    ofm = fm("ofm", (1, oh, ow, oc), dtype, 0.5, 0)
    wdtype = DataType.uint8 if dtype == DataType.uint8 else DataType.int8
    wshape = (1, k[0], k[1], oc)
    w = const("w", wshape, wdtype, np.full(wshape, wval), 0.1, 0)
    b = const("b", (oc,), bias_dtype, np.zeros(oc), 0.05, 0)
    op = mkop(
        Op.DepthwiseConv2DBias,
        "dw",
        [ifm, w, b],
        ofm,
        {
            "padding": padding,
            "depth_multiplier": mult,
            "stride_h": stride[0],
            "stride_w": stride[1],
            "strides": (1, stride[0], stride[1], 1),
            "dilation_h_factor": dil[0],
            "dilation_w_factor": dil[1],
            "dilation": (1, dil[0], dil[1], 1),
        },
    )
    return build_model([op], [ifm], [ofm])


def pool(
    kind="avg",
    ifm_shape=(1, 8, 8, 4),
    k=(2, 2),
    stride=(1, 1),
    padding=Padding.SAME,
    dtype=DataType.int8,
    ofm_dtype=None,
    faf=None,
    ofm_hw=None,
):
    ih, iw, ic = ifm_shape[1:]
    oh, ow = ofm_hw if ofm_hw else _out_hw(ih, iw, k[0], k[1], stride[0], stride[1], 1, 1, padding)
    ifm = fm("ifm", ifm_shape, dtype, 0.5, 0)
    ofm = fm("ofm", (ifm_shape[0], oh, ow, ic), ofm_dtype or dtype, 0.5, 0)
    op = mkop(
        Op.AvgPool if kind == "avg" else Op.MaxPool,
        "pool",
        [ifm],
        ofm,
        {
            "padding": padding,
            "filter_height": k[0],
            "filter_width": k[1],
            "ksize": (1, k[0], k[1], 1),
            "stride_h": stride[0],
            "stride_w": stride[1],
            "strides": (1, stride[0], stride[1], 1),
        },
    )
    _faf(op, faf)
    return build_model([op], [ifm], [ofm])


_binary = {"add": Op.Add, "sub": Op.Sub, "mul": Op.Mul, "min": Op.Minimum, "max": Op.Maximum, "sqdiff": Op.SquaredDifference}


def binary(
    kind="add",
    shape1=(1, 4, 4, 8),
    shape2=(1, 4, 4, 8),
    oshape=None,
    dtype=DataType.int8,
    dtype2=None,
    odtype=None,
    scales=(0.5, 0.5, 0.5),
    zps=(0, 0, 0),
    const2=False,
    faf=None,
):
    if oshape is None:
        r = max(len(shape1), len(shape2))
        s1 = (1,) * (r - len(shape1)) + tuple(shape1)
        s2 = (1,) * (r - len(shape2)) + tuple(shape2)
        oshape = tuple(max(a, b) for a, b in zip(s1, s2))
    a = fm("a", shape1, dtype, scales[0], zps[0])
    if const2:
        b = const("b", shape2, dtype2 or dtype, np.ones(shape2), scales[1], zps[1])
    else:
        b = fm("b", shape2, dtype2 or dtype, scales[1], zps[1])
    o = fm("o", oshape, odtype or dtype, scales[2], zps[2])
    op = mkop(_binary[kind], kind, [a, b], o, {})
    _faf(op, faf)
    return build_model([op], [a] if const2 else [a, b], [o])


_unary = {
    "relu": Op.Relu,
    "relu6": Op.Relu6,
    "relu_n1": Op.ReluN1To1,
    "tanh": Op.Tanh,
    "sigmoid": Op.Sigmoid,
    "abs": Op.Abs,
    "hardswish": Op.HardSwish,
    "leaky": Op.LeakyRelu,
    "exp": Op.Exp,
    "log": Op.Log,
    "sqrt": Op.Sqrt,
    "rsqrt": Op.Rsqrt,
    "gelu": Op.Gelu,
    "quantize": Op.Quantize,
    "softmax": Op.Softmax,
}


def unary(kind="relu", shape=(1, 4, 4, 8), dtype=DataType.int8, odtype=None, iscale=0.5, oscale=0.5, izp=0, ozp=0, oshape=None):
    a = fm("a", shape, dtype, iscale, izp)
    o = fm("o", oshape or shape, odtype or dtype, oscale, ozp)
    attrs = {}
    if kind == "leaky":
        attrs["alpha"] = 0.125
    if kind == "softmax":
        attrs["beta"] = 1.0
    if kind == "gelu":
        attrs["approximate"] = False
    op = mkop(_unary[kind], kind, [a], o, attrs)
    return build_model([op], [a], [o])


def fully_connected(ifm_shape=(1, 16), oc=8, dtype=DataType.int8, bias_dtype=DataType.int32, wdtype=None, bias_val=0, const_w=True):
    ifm = fm("ifm", ifm_shape, dtype, 0.5, 0)
    ofm = fm("ofm", tuple(ifm_shape[:-1]) + (oc,), dtype, 0.5, 0)
    wshape = (oc, ifm_shape[-1])
    wdtype = wdtype or (DataType.uint8 if dtype == DataType.uint8 else DataType.int8)
    if const_w:
        w = const("w", wshape, wdtype, np.ones(wshape), 0.1, 0)
    else:
        w = fm("w", wshape, wdtype, 0.1, 0)
    inputs = [ifm, w]
    if bias_dtype is not None:
        inputs.append(const("b", (oc,), bias_dtype, np.full((oc,), bias_val), 0.05, 0))
    op = mkop(Op.FullyConnected, "fc", inputs, ofm, {"weights_format": 0, "keep_num_dims": False, "asymmetric_quantize_inputs": False})
    return build_model([op], [ifm] if const_w else [ifm, w], [ofm])


def mean(ifm_shape=(1, 8, 8, 4), axis=(1, 2), keep_dims=True, dtype=DataType.int8, axis_dtype=DataType.int32, scalar_axis=False):
    ifm = fm("ifm", ifm_shape, dtype, 0.5, 0)
    axes = [axis] if np.ndim(axis) == 0 else list(axis)
    norm = [a + len(ifm_shape) if a < 0 else a for a in axes]
    if keep_dims:
        oshape = [1 if i in norm else d for i, d in enumerate(ifm_shape)]
    else:
        oshape = [d for i, d in enumerate(ifm_shape) if i not in norm]
    ofm = fm("ofm", oshape, dtype, 0.5, 0)
    if scalar_axis:
        ax = const("axis", (), axis_dtype, axes[0], quant=False)
    else:
        ax = const("axis", (len(axes),), axis_dtype, axes, quant=False)
    op = mkop(Op.Mean, "mean", [ifm, ax], ofm, {"keep_dims": keep_dims})
    return build_model([op], [ifm], [ofm])


def pad(ifm_shape=(1, 8, 8, 4), paddings=((0, 0), (1, 1), (1, 1), (0, 0)), dtype=DataType.int8, pad_dtype=DataType.int32):
    ifm = fm("ifm", ifm_shape, dtype, 0.5, 0)
    p = np.array(paddings)
    n = len(ifm_shape)
    pfull = p[-n:] if len(p) >= n else p
    oshape = [d + int(pfull[i][0]) + int(pfull[i][1]) for i, d in enumerate(ifm_shape)]
    ofm = fm("ofm", oshape, dtype, 0.5, 0)
    pt = const("paddings", p.shape, pad_dtype, p, quant=False)
    op = mkop(Op.Pad, "pad", [ifm, pt], ofm, {})
    return build_model([op], [ifm], [ofm])


def resize(kind="bilinear", ifm_shape=(1, 4, 4, 8), ofm_hw=(8, 8), align_corners=False, half_pixel_centers=False, dtype=DataType.int8, size=None):
    ifm = fm("ifm", ifm_shape, dtype, 0.5, 0)
    ofm = fm("ofm", (1, ofm_hw[0], ofm_hw[1], ifm_shape[3]), dtype, 0.5, 0)
    sz = const("size", (2,), DataType.int32, list(size or ofm_hw), quant=False)
    op = mkop(
        Op.ResizeBilinear if kind == "bilinear" else Op.ResizeNearestNeighbor,
        "resize",
        [ifm, sz],
        ofm,
        {"align_corners": align_corners, "half_pixel_centers": half_pixel_centers},
    )
    return build_model([op], [ifm], [ofm])


def transpose_conv(ifm_shape=(1, 4, 4, 4), k=(3, 3), oc=8, stride=(2, 2), padding=Padding.SAME, dtype=DataType.int8, ofm_hw=None, bias=True):
    ih, iw, ic = ifm_shape[1:]
    if ofm_hw is None:
        if padding == Padding.SAME:
            ofm_hw = (ih * stride[0], iw * stride[1])
        else:
            ofm_hw = (ih * stride[0] + max(k[0] - stride[0], 0), iw * stride[1] + max(k[1] - stride[1], 0))
    ifm = fm("ifm", ifm_shape, dtype, 0.5, 0)
    oshape = (1, ofm_hw[0], ofm_hw[1], oc)
    ofm = fm("ofm", oshape, dtype, 0.5, 0)
    wshape = (oc, k[0], k[1], ic)
    w = const("w", wshape, DataType.int8, np.ones(wshape), 0.1, 0)
    os_t = const("oshape", (4,), DataType.int32, list(oshape), quant=False)
    inputs = [os_t, w, ifm]
    if bias:
        inputs.append(const("b", (oc,), DataType.int32, np.zeros(oc), 0.05, 0))
    op = mkop(
        Op.Conv2DBackpropInput,
        "tconv",
        inputs,
        ofm,
        {"padding": padding, "stride_h": stride[0], "stride_w": stride[1], "strides": (1, stride[0], stride[1], 1)},
    )
    return build_model([op], [ifm], [ofm])


def reshape(ifm_shape=(1, 4, 4, 8), new_shape=(1, 16, 8), dtype=DataType.int8, oscale=0.5):
    ifm = fm("ifm", ifm_shape, dtype, 0.5, 0)
    ofm = fm("ofm", new_shape, dtype, oscale, 0)
    sh = const("shape", (len(new_shape),), DataType.int32, list(new_shape), quant=False)
    op = mkop(Op.Reshape, "reshape", [ifm, sh], ofm, {"new_shape": list(new_shape)})
    return build_model([op], [ifm], [ofm])


def concat(shapes=((1, 4, 4, 8), (1, 4, 4, 8)), axis=3, dtype=DataType.int8, oshape=None):
    ins = [fm(f"in{i}", s, dtype, 0.5, 0) for i, s in enumerate(shapes)]
    if oshape is None:
        oshape = list(shapes[0])
        oshape[axis] = sum(s[axis] for s in shapes)
    ofm = fm("ofm", oshape, dtype, 0.5, 0)
    op = mkop(Op.ConcatTFLite, "concat", ins, ofm, {"axis": axis})
    return build_model([op], ins, [ofm])


def strided_slice(ifm_shape=(1, 8, 8, 4), begin=(0, 0, 0, 0), end=(1, 4, 8, 4), strides=(1, 1, 1, 1), dtype=DataType.int8, oshape=None, masks=None):
    ifm = fm("ifm", ifm_shape, dtype, 0.5, 0)
    if oshape is None:
        oshape = [e - b for b, e in zip(begin, end)]
    ofm = fm("ofm", oshape, dtype, 0.5, 0)
    n = len(begin)
    bt = const("begin", (n,), DataType.int32, list(begin), quant=False)
    et = const("end", (n,), DataType.int32, list(end), quant=False)
    st = const("strides", (n,), DataType.int32, list(strides), quant=False)
    attrs = {"begin_mask": 0, "end_mask": 0, "ellipsis_mask": 0, "new_axis_mask": 0, "shrink_axis_mask": 0, "offset": False}
    attrs.update(masks or {})
    op = mkop(Op.StridedSlice, "ss", [ifm, bt, et, st], ofm, attrs)
    return build_model([op], [ifm], [ofm])


def argmax(ifm_shape=(1, 4, 4, 8), axis=3, dtype=DataType.int8, odtype=DataType.int32):
    ifm = fm("ifm", ifm_shape, dtype, 0.5, 0)
    ax = axis + len(ifm_shape) if axis < 0 else axis
    oshape = [d for i, d in enumerate(ifm_shape) if i != ax]
    ofm = fm("ofm", oshape, odtype, quant=False)
    at = const("axis", (), DataType.int32, axis, quant=False)
    op = mkop(Op.ArgMax, "argmax", [ifm, at], ofm, {"output_type": odtype})
    return build_model([op], [ifm], [ofm])


def transpose(ifm_shape=(1, 4, 6, 8), perm=(0, 2, 1, 3), dtype=DataType.int8):
    ifm = fm("ifm", ifm_shape, dtype, 0.5, 0)
    oshape = [ifm_shape[p] for p in perm]
    ofm = fm("ofm", oshape, dtype, 0.5, 0)
    pt = const("perm", (len(perm),), DataType.int32, list(perm), quant=False)
    op = mkop(Op.Transpose, "transpose", [ifm, pt], ofm, {})
    return build_model([op], [ifm], [ofm])


def stb_conv_bts(
    ifm_shape=(1, 8, 8, 4), block=(2, 2), k=(3, 3), oc=8, dtype=DataType.int8, const_weights=True, wval=1, conv_padding=Padding.VALID
):
    # SPACE_TO_BATCH_ND -> CONV_2D -> BATCH_TO_SPACE_ND, the TFLite converter's form of a dilated convolution
    ih, iw, ic = ifm_shape[1:]
    bh, bw = block
    ph = (k[0] - 1) * bh
    pw = (k[1] - 1) * bw
    # pad so that the padded extent is a multiple of the block
    def pads(extent, total, b):
        before = total // 2
        after = total - before
        extra = (-(extent + total)) % b
        return before, after + extra, extra

    pt, pb, eh = pads(ih, ph, bh)
    pl, pr, ew = pads(iw, pw, bw)
    sh, sw = (ih + pt + pb) // bh, (iw + pl + pr) // bw
    ifm = fm("ifm", ifm_shape, dtype, 0.5, 0)
    s2b_out = fm("s2b", (bh * bw, sh, sw, ic), dtype, 0.5, 0)
    blk = const("block", (2,), DataType.int32, [bh, bw], quant=False)
    padt = const("s2b_pad", (2, 2), DataType.int32, [[pt, pb], [pl, pr]], quant=False)
    s2b = mkop(Op.SpaceToBatchND, "s2b_op", [ifm, blk, padt], s2b_out, {})
    ch, cw = _out_hw(sh, sw, k[0], k[1], 1, 1, 1, 1, conv_padding)
    conv_out = fm("convout", (bh * bw, ch, cw, oc), dtype, 0.5, 0)
    wshape = (oc, k[0], k[1], ic)
    if const_weights:
        w = const("w", wshape, DataType.int8, np.full(wshape, wval), 0.1, 0)
    else:
        w = fm("w", wshape, DataType.int8, 0.1, 0)
    b = const("b", (oc,), DataType.int32, np.zeros(oc), 0.05, 0)
    conv = mkop(
        Op.Conv2DBias,
        "conv",
        [s2b_out, w, b],
        conv_out,
        {
            "padding": conv_padding,
            "stride_h": 1,
            "stride_w": 1,
            "strides": (1, 1, 1, 1),
            "dilation_h_factor": 1,
            "dilation_w_factor": 1,
            "dilation": (1, 1, 1, 1),
        },
    )
    blk2 = const("block2", (2,), DataType.int32, [bh, bw], quant=False)
    crops = const("crops", (2, 2), DataType.int32, [[0, eh], [0, ew]], quant=False)
    ofm = fm("ofm", (1, ih, iw, oc), dtype, 0.5, 0)
    b2s = mkop(Op.BatchToSpaceND, "b2s_op", [conv_out, blk2, crops], ofm, {})
    return build_model([s2b, conv, b2s], [ifm] if const_weights else [ifm, w], [ofm])


def split(ifm_shape=(1, 4, 4, 8), axis=3, num=2, dtype=DataType.int8, axis_1d=False):
    ifm = fm("ifm", ifm_shape, dtype, 0.5, 0)
    ax = axis + len(ifm_shape) if axis < 0 else axis
    oshape = list(ifm_shape)
    oshape[ax] //= num
    outs = [fm(f"out{i}", oshape, dtype, 0.5, 0) for i in range(num)]
    at = const("axis", (1,) if axis_1d else (), DataType.int32, [axis] if axis_1d else axis, quant=False)
    op = mkop(Op.Split, "split", [at, ifm], outs, {"num_splits": num})
    return build_model([op], [ifm], outs)


def split_v(ifm_shape=(1, 4, 4, 8), axis=3, sizes=(2, 6), dtype=DataType.int8, out_sizes=None):
    ifm = fm("ifm", ifm_shape, dtype, 0.5, 0)
    ax = axis + len(ifm_shape) if axis < 0 else axis
    outs = []
    for i, s in enumerate(out_sizes or sizes):
        oshape = list(ifm_shape)
        oshape[ax] = s
        outs.append(fm(f"out{i}", oshape, dtype, 0.5, 0))
    st = const("sizes", (len(sizes),), DataType.int32, list(sizes), quant=False)
    at = const("axis", (), DataType.int32, axis, quant=False)
    op = mkop(Op.SplitV, "splitv", [ifm, st, at], outs, {"num_splits": len(sizes)})
    return build_model([op], [ifm], outs)


def slice_op(ifm_shape=(1, 8, 8, 4), begin=(0, 2, 0, 0), size=(1, 4, 8, 4), dtype=DataType.int8, oshape=None):
    ifm = fm("ifm", ifm_shape, dtype, 0.5, 0)
    ofm = fm("ofm", oshape or size, dtype, 0.5, 0)
    bt = const("begin", (len(begin),), DataType.int32, list(begin), quant=False)
    st = const("size", (len(size),), DataType.int32, list(size), quant=False)
    op = mkop(Op.Slice, "slice", [ifm, bt, st], ofm, {})
    return build_model([op], [ifm], [ofm])


def squeeze(ifm_shape=(1, 1, 8, 4), oshape=(8, 4), dims=(0, 1), dtype=DataType.int8):
    ifm = fm("ifm", ifm_shape, dtype, 0.5, 0)
    ofm = fm("ofm", oshape, dtype, 0.5, 0)
    op = mkop(Op.Squeeze, "squeeze", [ifm], ofm, {"squeeze_dims": list(dims)})
    return build_model([op], [ifm], [ofm])


def expand_dims(ifm_shape=(8, 4), oshape=(1, 8, 4), axis=0, dtype=DataType.int8):
    ifm = fm("ifm", ifm_shape, dtype, 0.5, 0)
    ofm = fm("ofm", oshape, dtype, 0.5, 0)
    at = const("axis", (), DataType.int32, axis, quant=False)
    op = mkop(Op.ExpandDims, "expand", [ifm, at], ofm, {})
    return build_model([op], [ifm], [ofm])


def pack(shape=(4, 8), n=2, axis=0, dtype=DataType.int8):
    ins = [fm(f"in{i}", shape, dtype, 0.5, 0) for i in range(n)]
    ax = axis + len(shape) + 1 if axis < 0 else axis
    oshape = list(shape[:ax]) + [n] + list(shape[ax:])
    ofm = fm("ofm", oshape, dtype, 0.5, 0)
    op = mkop(Op.Pack, "pack", ins, ofm, {"axis": axis, "values_count": n})
    return build_model([op], ins, [ofm])


def unpack(shape=(2, 4, 8), axis=0, dtype=DataType.int8):
    ifm = fm("ifm", shape, dtype, 0.5, 0)
    ax = axis + len(shape) if axis < 0 else axis
    oshape = [d for i, d in enumerate(shape) if i != ax]
    outs = [fm(f"out{i}", oshape, dtype, 0.5, 0) for i in range(shape[ax])]
    op = mkop(Op.Unpack, "unpack", [ifm], outs, {"axis": axis, "num": shape[ax]})
    return build_model([op], [ifm], outs)


def prelu(ifm_shape=(1, 4, 4, 8), alpha_shape=(1, 1, 8), alpha_vals=None, dtype=DataType.int8, const_alpha=True):
    ifm = fm("ifm", ifm_shape, dtype, 0.5, 0)
    ofm = fm("ofm", ifm_shape, dtype, 0.5, 0)
    if const_alpha:
        vals = alpha_vals if alpha_vals is not None else np.arange(np.prod(alpha_shape)) % 5 + 1
        alpha = const("alpha", alpha_shape, dtype, vals, 0.1, 0)
    else:
        alpha = fm("alpha", alpha_shape, dtype, 0.1, 0)
    op = mkop(Op.Prelu, "prelu", [ifm, alpha], ofm, {})
    return build_model([op], [ifm] if const_alpha else [ifm, alpha], [ofm])


def chain(ops, inputs, outputs):
    return build_model(ops, inputs, outputs)

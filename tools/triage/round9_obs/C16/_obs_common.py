# shared by the observation scripts
import os
import sys
import traceback

sys.path.insert(0, os.getcwd())
sys.path.insert(0, os.path.dirname(os.path.abspath(__file__)))

from c16lib import *  # noqa: E402,F401,F403
from c16lib import compile_model, list_ops  # noqa: E402

problems = []


def placement(model, accelerator="ethos-u55-128"):
    # "npu" / "cpu" / other operator list / "crash: ..."
    src = list_ops(model)
    try:
        out, log = compile_model(model, accelerator)
    except Exception as e:
        where = traceback.extract_tb(e.__traceback__)[-1]
        return f"crash: {type(e).__name__} at {os.path.basename(where.filename)}:{where.lineno}", None, ""
    ops = list_ops(out)
    if ops == ["ethos-u"]:
        return "npu", out, log
    if ops == src:
        return "cpu", out, log
    return str(ops), out, log


def expect(label, model, expected, why):
    got, out, log = placement(model)
    status = "ok" if got == expected else "VIOLATION"
    print(f"[{status}] {label}: expected {expected} ({why}); got {got}")
    if got != expected:
        problems.append(label)
    return got, out, log


def finish():
    if problems:
        print(f"{len(problems)} violation(s) of C16 on this tree")
        sys.exit(1)
    print("no violation")
    sys.exit(0)

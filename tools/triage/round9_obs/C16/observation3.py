# Observation 3 (unmodified tree): "The sum of the weights cannot exceed 8323072" is evaluated over different sets of weights
# for CONV_2D and DEPTHWISE_CONV_2D.
#
# constraint_weights_limit sums |w - zero_point| over axes (0, 1, 2) of the weight tensor. For CONV_2D the tensor is HWIO
# at that point: one sum per output channel. For DEPTHWISE_CONV_2D the reader has produced H x W x C x 1: the one sum runs
# over all channels of the layer. A 3x3 depthwise convolution with 8192 channels and weights of 127 has 1143 per channel
# (each output value accumulates 9 products) but is rejected; a CONV_2D with the same weight tensor total, spread over its
# output channels, is accepted. Whichever reading of the documented rule is meant, one of the two placements contradicts it.
from _obs_common import *  # noqa: F401,F403
import c16zoo as zoo

assert "The sum of the weights cannot exceed 8323072" in report_section(generated_report(), "DEPTHWISE_CONV_2D")
total = 3 * 3 * 8192 * 127
print("weight total of both layers:", total, "(limit 8323072)")
got_dw, _, log = expect(
    "DEPTHWISE_CONV_2D 3x3, 8192 channels, weights 127 (sum per channel 1143)",
    zoo.depthwise(ifm_shape=(1, 4, 4, 8192), k=(3, 3), wval=127),
    "npu",
    "per-channel reading of the rule, as applied to CONV_2D",
)
got_conv, _, _ = expect(
    "CONV_2D 3x3x64 -> 128 channels, weights 127 (sum per output channel 73152, total 9363456)",
    zoo.conv2d(ifm_shape=(1, 4, 4, 64), k=(3, 3), oc=128, wval=127),
    "npu",
    "per-channel reading of the rule",
)
print("the two operators are treated differently:", got_dw != got_conv)
finish()

# Observation 7 (unmodified tree): a SHAPE operator that violates a generic constraint does not stay on the CPU.
#
# convert_shape_op_to_constant_tensor runs before the supported operator check and folds every semantically valid SHAPE into
# a constant. A SHAPE of a float32 tensor ("Tensors must be of type: int16, int32, int8, uint8") or of a tensor with a
# dimension of 70000 ("Tensor dimensions must be in the range [1, 65535]") therefore disappears; its (constant) result is
# produced by an Ethos-U operator instead.
from _obs_common import *  # noqa: F401,F403


def shape_model(dtype, shape):
    ifm = fm("ifm", shape, dtype, quant=(dtype != DataType.float32))
    ofm = fm("ofm", (len(shape),), DataType.int32, quant=False)
    op = mkop(Op.Shape, "shape", [ifm], ofm, {"out_type": DataType.int32})
    return build_model([op], [ifm], [ofm])


generic = report_section(generated_report(), "Generic")
assert "Tensors must be of type: int16, int32, int8, uint8" in generic and "range [1, 65535]" in generic
expect("SHAPE of a float32 tensor", shape_model(DataType.float32, (1, 4, 4, 8)), "cpu", "Tensors must be of type: int16, int32, int8, uint8")
expect("SHAPE of an int8 tensor [1,1,70000,1]", shape_model(DataType.int8, (1, 1, 70000, 1)), "cpu", "Tensor dimensions must be in the range [1, 65535]")
expect("SHAPE of an int8 tensor (control)", shape_model(DataType.int8, (1, 4, 4, 8)), "npu", "control")
finish()

# Observation 2 (unmodified tree): the stride-width rule that is enforced differs from the rule in the report.
#
# Report (CONV_2D and AVERAGE_POOL_2D): "Stride w must be between 1 and 3 when ofm height is greater than 1 or stride w
# must be divisible by 2 or 3 and ifm width must be divisible by stride_w/2 or stride_w/3".
# Enforced (constraint_stride_width_no_upper_limit via utils.calc_resize_factor): any stride width that divides the IFM
# width is accepted, e.g. 5 or 7, which are neither in [1, 3] nor divisible by 2 or 3.
from _obs_common import *  # noqa: F401,F403
import c16zoo as zoo

text = report_section(generated_report(), "CONV_2D")
assert "stride w must be divisible by 2 or 3" in text
why = "stride w is not in [1, 3] and not divisible by 2 or 3"
V = Padding.VALID
expect("CONV_2D stride w 5, IFM width 10", zoo.conv2d(ifm_shape=(1, 12, 10, 4), stride=(1, 5), padding=V, k=(1, 5)), "cpu", why)
expect("CONV_2D stride w 7, IFM width 14", zoo.conv2d(ifm_shape=(1, 12, 14, 4), stride=(1, 7), padding=V, k=(1, 7)), "cpu", why)
expect("CONV_2D stride w 5, IFM width 11", zoo.conv2d(ifm_shape=(1, 12, 11, 4), stride=(1, 5), padding=V, k=(1, 5)), "cpu", why)
expect("AVERAGE_POOL_2D stride w 5, IFM width 10", zoo.pool("avg", (1, 12, 10, 4), k=(2, 5), stride=(1, 5), padding=V), "cpu", why)
finish()

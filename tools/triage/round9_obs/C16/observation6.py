# Observation 6 (unmodified tree): RESIZE_NEAREST_NEIGHBOR with align_corners=True and more than one channel satisfies every
# listed constraint ("W and H scaling must be equal and OFM W-1 and H-1 must be 2x/4x/8x IFM W-1 and H-1, if align_corners
# is True") but aborts the compilation: convert_resizenn_ac_to_depthwise_conv builds upscale*upscale weight values and
# reshapes them to [upscale, upscale, depth, depth] (ValueError for depth > 1).
from _obs_common import *  # noqa: F401,F403
import c16zoo as zoo

why = "all listed constraints are satisfied"
expect("4x4x1 -> 7x7, align_corners (control, depth 1)", zoo.resize("nn", (1, 4, 4, 1), (7, 7), align_corners=True), "npu", why)
expect("4x4x8 -> 7x7, align_corners", zoo.resize("nn", (1, 4, 4, 8), (7, 7), align_corners=True), "npu", why)
expect("4x4x8 -> 13x13, align_corners", zoo.resize("nn", (1, 4, 4, 8), (13, 13), align_corners=True), "npu", why)
expect("RESIZE_BILINEAR 4x4x8 -> 7x7, align_corners (control)", zoo.resize("bilinear", (1, 4, 4, 8), (7, 7), align_corners=True), "npu", why)
finish()

import os, sys, traceback
sys.path.insert(0, os.path.dirname(os.path.abspath(__file__)))
import c16zoo as z
from c16lib import compile_and_list, list_ops, DataType, Padding, Op, np
I8, U8, I16, I32, I64 = DataType.int8, DataType.uint8, DataType.int16, DataType.int32, DataType.int64
S, V = Padding.SAME, Padding.VALID
ACC = sys.argv[1] if len(sys.argv) > 1 else "ethos-u55-128"
bad = 0
def run(label, expect, mk):
    global bad
    try:
        data = mk()
        src = list_ops(data)
        ops, log = compile_and_list(data, ACC)
        got = "npu" if ops == ["ethos-u"] else ("cpu" if ops == src else "mixed:" + ",".join(ops))
        flag = "" if got == expect else "   <<<<<< MISMATCH (expected %s)" % expect
        warn = [l.strip() for l in log.splitlines() if l.startswith(" - ")]
        print(f"{label:60s} {got:6s} {warn[:1] if warn else ''}{flag}")
        if flag: bad += 1
    except Exception as e:
        bad += 1
        tb = traceback.extract_tb(e.__traceback__)[-1]
        print(f"{label:60s} EXC {type(e).__name__}: {str(e)[:100]} @{os.path.basename(tb.filename)}:{tb.lineno}   <<<<<< (expected {expect})")


run("split 2", "npu", lambda: z.split())
run("split axis -1", "npu", lambda: z.split(axis=-1))
run("split axis 1D tensor", "npu", lambda: z.split(axis_1d=True))
run("split 3 of 9 axis1", "npu", lambda: z.split((1,9,4,8), axis=1, num=3))
run("split batch2 axis3 (excluded)", "npu", lambda: z.split((2,4,4,8)))
run("split axis0 batch2", "npu", lambda: z.split((2,4,4,8), axis=0))
run("split 1 (nop)", "npu", lambda: z.split(num=1))
run("splitv", "npu", lambda: z.split_v())
run("splitv infer", "npu", lambda: z.split_v(sizes=(2,-1), out_sizes=(2,6)))
run("splitv two infer", "cpu", lambda: z.split_v(sizes=(-1,-1), out_sizes=(2,6)))
run("splitv axis1", "npu", lambda: z.split_v((1,8,4,8), axis=1, sizes=(3,5)))
run("slice", "npu", lambda: z.slice_op())
run("slice size -1", "npu", lambda: z.slice_op(size=(1,-1,8,4), oshape=(1,6,8,4)))
run("slice batch2 ifm", "npu", lambda: z.slice_op((2,8,8,4), begin=(1,0,0,0), size=(1,8,8,4)))
run("squeeze", "npu", lambda: z.squeeze())
run("squeeze batch: [2,1,8,4]->[2,8,4]", "npu", lambda: z.squeeze((2,1,8,4),(2,8,4),(1,)))
run("expand_dims", "npu", lambda: z.expand_dims())
run("expand_dims batch2 [2,8,4,4]? -> rank", "cpu", lambda: z.expand_dims((2,8,4),(2,1,8,4),1))
run("pack axis0", "npu", lambda: z.pack())
run("pack axis -1", "npu", lambda: z.pack(axis=-1))
run("pack 3 inputs axis1", "npu", lambda: z.pack((4,8), 3, 1))
run("pack 4D->? rank3 inputs", "npu", lambda: z.pack((4,4,8), 2, 0))
run("unpack axis0", "npu", lambda: z.unpack())
run("unpack axis -1", "npu", lambda: z.unpack((4,8,2), axis=-1))
run("unpack axis1", "npu", lambda: z.unpack((4,2,8), axis=1))
run("unpack 4D axis0 batch2 (excluded)", "npu", lambda: z.unpack((2,4,4,8), axis=0))
run("prelu mixed alpha", "npu", lambda: z.prelu())
run("prelu const equal alpha", "npu", lambda: z.prelu(alpha_vals=np.full((1,1,8),2)))
run("prelu zero alpha", "npu", lambda: z.prelu(alpha_vals=np.zeros((1,1,8))))
run("prelu negative alpha", "npu", lambda: z.prelu(alpha_vals=-np.ones((1,1,8))))
run("prelu alpha>=1", "npu", lambda: z.prelu(alpha_vals=np.arange(8).reshape(1,1,8)*5))
run("prelu nonconst alpha", "npu", lambda: z.prelu(const_alpha=False))
run("prelu uint8", "npu", lambda: z.prelu(dtype=U8))
run("prelu int16", "npu", lambda: z.prelu(dtype=I16))
run("prelu batch2", "cpu", lambda: z.prelu((2,4,4,8)))

import os, sys, traceback
sys.path.insert(0, os.path.dirname(os.path.abspath(__file__)))
import c16zoo as z
from c16lib import compile_and_list, list_ops, DataType, Padding

def run(label, data, acc="ethos-u55-128"):
    try:
        src = list_ops(data)
        ops, log = compile_and_list(data, acc)
        warn = [l for l in log.splitlines() if l.startswith("Warning") or l.startswith(" - ")]
        print(f"{label:55s} {src} -> {ops}  {warn[:2] if warn else ''}")
    except Exception as e:
        print(f"{label:55s} EXC {type(e).__name__}: {str(e)[:150]}")

run("conv default", z.conv2d())
run("conv int16 b64", z.conv2d(dtype=DataType.int16, bias_dtype=DataType.int64))
run("conv uint8", z.conv2d(dtype=DataType.uint8))
run("conv nobias", z.conv2d(bias_dtype=None))
run("conv relu", z.conv2d(faf=z.Op.Relu))
run("dw", z.depthwise())
run("dw mult2 ic1", z.depthwise(ifm_shape=(1,8,8,1), mult=2))
run("avg", z.pool("avg"))
run("max", z.pool("max"))
for k in ("add","sub","mul","min","max","sqdiff"):
    run(k, z.binary(k))
run("add bcast", z.binary("add", (1,4,4,8), (1,1,1,8)))
run("add const", z.binary("add", (1,4,4,8), (8,), const2=True))
for k in z._unary:
    run(k, z.unary(k))
run("fc", z.fully_connected())
run("mean hw", z.mean())
run("pad", z.pad())
run("resize bil", z.resize())
run("resize nn", z.resize("nn"))
run("tconv", z.transpose_conv())
run("reshape", z.reshape())
run("concat", z.concat())
run("ss", z.strided_slice())
run("argmax", z.argmax())
run("transpose", z.transpose())
run("stb", z.stb_conv_bts())

# Observation 8 (unmodified tree): operators that the report does not list are not "left untouched".
#
# Report: "For any other TFLite operator not listed, will be left untouched and scheduled on the CPU." SPACE_TO_BATCH_ND
# and BATCH_TO_SPACE_ND are not listed, but replace_dilated_convolution removes them when they surround a convolution
# (the same holds for DEQUANTIZE around EXP / LOG in merge_dequant_lut_quant).
from _obs_common import *  # noqa: F401,F403
import c16zoo as zoo

report = generated_report()
print("SPACE_TO_BATCH_ND listed in the report:", "SPACE_TO_BATCH_ND" in report)
assert "will be left untouched and scheduled on the CPU" in report
model = zoo.stb_conv_bts(block=(2, 2))
out, log = compile_model(model)
print(list_ops(model), "->", list_ops(out))
for name in ("SPACE_TO_BATCH_ND", "BATCH_TO_SPACE_ND"):
    if name not in list_ops(out):
        print(f"[VIOLATION] {name} is not listed as supported but is not in the output")
        problems.append(name)
finish()

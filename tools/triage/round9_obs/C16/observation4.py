# Observation 4 (unmodified tree): a constraint is enforced that the report does not list.
#
# tflite_graph_optimiser.check_asymmetric_weights (run right after the supported operator check) places every CONV_2D /
# DEPTHWISE_CONV_2D with int8 or int16 IFM and a weight zero point other than 0 on the CPU (unless
# --force-symmetric-int-weights is given). No line of the generated report mentions weight zero points.
from _obs_common import *  # noqa: F401,F403
import c16zoo as zoo

report = generated_report()
print("report mentions zero points / symmetric weights:", any(w in report.lower() for w in ("zero point", "symmetric")))
got, out, log = expect("CONV_2D int8, weight zero point 3", zoo.conv2d(wzp=3), "npu", "no listed constraint is violated")
print("   compiler output:", [line for line in log.splitlines() if "symmetric" in line])
expect("CONV_2D int8, weight zero point 0 (control)", zoo.conv2d(wzp=0), "npu", "control")
expect("CONV_2D uint8, weight zero point 128 (control)", zoo.conv2d(dtype=DataType.uint8, wzp=128), "npu", "control")
finish()

import os, sys, traceback
sys.path.insert(0, os.path.dirname(os.path.abspath(__file__)))
from c16lib import *
from c16zoo import _faf
I8 = DataType.int8
def conv_op(name, ifm, oc, k=(3,3), stride=(1,1), padding=Padding.SAME, wzp=0, faf=None, oshape=None):
    ic = ifm.shape[3]
    import math
    oh, ow = (math.ceil(ifm.shape[1]/stride[0]), math.ceil(ifm.shape[2]/stride[1])) if padding == Padding.SAME else (math.ceil((ifm.shape[1]-k[0]+1)/stride[0]), math.ceil((ifm.shape[2]-k[1]+1)/stride[1]))
    ofm = fm(name+"_out", oshape or (ifm.shape[0], oh, ow, oc), I8, 0.5, 0)
    w = const(name+"_w", (oc,k[0],k[1],ic), I8, np.ones((oc,k[0],k[1],ic)), 0.1, wzp)
    b = const(name+"_b", (oc,), DataType.int32, np.zeros(oc), 0.05, 0)
    op = mkop(Op.Conv2DBias, name, [ifm, w, b], ofm, {"padding": padding, "stride_h": stride[0], "stride_w": stride[1], "strides": (1,stride[0],stride[1],1), "dilation_h_factor":1, "dilation_w_factor":1, "dilation": (1,1,1,1)})
    _faf(op, faf)
    return op, ofm
def un(optype, name, ifm, oshape=None, attrs=None, scale=0.5):
    ofm = fm(name+"_out", oshape or ifm.shape, ifm.dtype, scale, 0)
    return mkop(optype, name, [ifm], ofm, attrs or {}), ofm
def run(label, ops, ins, outs, expect=None):
    try:
        m = build_model(ops, ins, outs)
        out, log = compile_model(m)
        print(f"{label:50s} {list_ops(m)} -> {list_ops(out)}  {'' if expect is None or list_ops(out)==expect else '<<<<<< expected '+str(expect)}")
    except Exception as e:
        tb = traceback.extract_tb(e.__traceback__)[-1]
        print(f"{label:50s} EXC {type(e).__name__}: {str(e)[:100]} @{os.path.basename(tb.filename)}:{tb.lineno}")

x = fm("x", (1,16,16,4), I8, 0.5, 0)
c1, t1 = conv_op("c1", x, 8, stride=(4,4))     # CPU (stride)
r1, t2 = un(Op.Relu, "r1", t1)
run("cpu conv -> relu", [c1, r1], [x], [t2], ["CONV_2D", "ethos-u"])

x = fm("x", (1,16,16,4), I8, 0.5, 0)
c1, t1 = conv_op("c1", x, 8)
c2, t2 = conv_op("c2", t1, 8, stride=(4,4))
c3, t3 = conv_op("c3", t2, 8)
run("npu conv -> cpu conv -> npu conv", [c1,c2,c3], [x], [t3], ["ethos-u","CONV_2D","ethos-u"])

x = fm("x", (1,16,16,4), I8, 0.5, 0)
c1, t1 = conv_op("c1", x, 8, stride=(4,4))
sh = const("shape", (2,), DataType.int32, [16, 8], quant=False)
t2 = fm("resh_out", (16,8), I8, 0.5, 0)
rs = mkop(Op.Reshape, "resh", [t1, sh], t2, {"new_shape": [16,8]})
r1, t3 = un(Op.Relu, "r1", t2)
run("cpu conv -> reshape -> relu", [c1, rs, r1], [x], [t3], ["CONV_2D", "ethos-u"])

x = fm("x", (1,16,16,4), I8, 0.5, 0)
r0, t0 = un(Op.Relu, "r0", x)
sh = const("shape", (2,), DataType.int32, [256, 4], quant=False)
t2 = fm("resh_out", (256,4), I8, 0.25, 0)  # quant mismatch -> cpu reshape
rs = mkop(Op.Reshape, "resh", [t0, sh], t2, {"new_shape": [256,4]})
r1, t3 = un(Op.Relu, "r1", t2, scale=0.25)
run("relu -> cpu reshape (quant mismatch) -> relu", [r0, rs, r1], [x], [t3], ["ethos-u","RESHAPE","ethos-u"])

x = fm("x", (1,16,16,4), I8, 0.5, 0)
c1, t1 = conv_op("c1", x, 8, wzp=3)   # asymmetric weights -> cpu
r1, t2 = un(Op.Relu, "r1", t1)
run("asym conv -> relu", [c1, r1], [x], [t2], ["CONV_2D", "ethos-u"])

x = fm("x", (1,16,16,4), I8, 0.5, 0)
c1, t1 = conv_op("c1", x, 8, faf=Op.Relu)
r1, t2 = un(Op.Relu6, "r1", t1)
run("conv+relu -> relu6", [c1, r1], [x], [t2], ["ethos-u"])

# pad (cpu because pad tensor int16?) -> conv valid
x = fm("x", (1,16,16,4), I8, 0.5, 0)
pt = const("pads", (4,2), DataType.int16, [[0,0],[1,1],[1,1],[0,0]], quant=False)
tp = fm("pad_out", (1,18,18,4), I8, 0.5, 0)
pd = mkop(Op.Pad, "pad", [x, pt], tp, {})
c1, t1 = conv_op("c1", tp, 8, padding=Padding.VALID)
run("cpu pad(int16 paddings) -> conv valid", [pd, c1], [x], [t1], ["PAD", "ethos-u"])

x = fm("x", (1,16,16,4), I8, 0.5, 0)
pt = const("pads", (4,2), DataType.int32, [[0,0],[1,1],[1,1],[0,0]], quant=False)
tp = fm("pad_out", (1,18,18,4), I8, 0.5, 0)
pd = mkop(Op.Pad, "pad", [x, pt], tp, {})
c1, t1 = conv_op("c1", tp, 8, padding=Padding.VALID, stride=(4,4))
run("pad -> cpu conv valid", [pd, c1], [x], [t1], ["ethos-u", "CONV_2D"])

# mul + max -> leaky, with cpu mul (batch? no) use int32? use mul with different dtype... skip
# concat with a cpu producer
x = fm("x", (1,16,16,4), I8, 0.5, 0)
c1, t1 = conv_op("c1", x, 4, stride=(4,4))
c2, t2 = conv_op("c2", x, 4, stride=(2,2))
mp, t3 = un(Op.MaxPool, "mp", t2, oshape=(1,4,4,4), attrs={"padding": Padding.VALID, "filter_height":2, "filter_width":2, "ksize": (1,2,2,1), "stride_h":2, "stride_w":2, "strides": (1,2,2,1)})
to = fm("cat_out", (1,4,4,8), I8, 0.5, 0)
cat = mkop(Op.ConcatTFLite, "cat", [t1, t3], to, {"axis": 3})
run("cpu conv + npu branch -> concat", [c1, c2, mp, cat], [x], [to], None)

# split with one cpu consumer
x = fm("x", (1,8,8,8), I8, 0.5, 0)
at = const("axis", (), DataType.int32, 3, quant=False)
o1 = fm("s1", (1,8,8,4), I8, 0.5, 0); o2 = fm("s2", (1,8,8,4), I8, 0.5, 0)
sp = mkop(Op.Split, "split", [at, x], [o1, o2], {"num_splits": 2})
c1, t1 = conv_op("c1", o1, 4, stride=(4,4))
r1, t2 = un(Op.Relu, "r1", o2)
run("split -> cpu conv / relu", [sp, c1, r1], [x], [t1, t2], None)

# Observation 9 (unmodified tree): small differences between the text of a listed constraint and the check.
#  - SOFTMAX "Beta value needs to be positive": beta == 0 is accepted (check is beta >= 0)
#  - CONCATENATION "Axis attribute must be in the range [0, <ofm_dimensions>)": axis -1 is accepted (it is normalised first)
from _obs_common import *  # noqa: F401,F403
import c16zoo as zoo

a = fm("a", (1, 4, 4, 8), DataType.int8, 0.5, 0)
o = fm("o", (1, 4, 4, 8), DataType.int8, 1 / 256, -128)
expect("SOFTMAX beta 0.0", build_model([mkop(Op.Softmax, "sm", [a], o, {"beta": 0.0})], [a], [o]), "cpu", "Beta value needs to be positive")
expect("CONCATENATION axis -1", zoo.concat(axis=-1, oshape=(1, 4, 4, 16)), "cpu", "Axis attribute must be in the range [0, <ofm_dimensions>)")
finish()

import os, sys, traceback
sys.path.insert(0, os.path.dirname(os.path.abspath(__file__)))
import c16zoo as z
from c16lib import compile_and_list, list_ops, DataType, Padding, Op
I8, U8, I16, I32, I64 = DataType.int8, DataType.uint8, DataType.int16, DataType.int32, DataType.int64
S, V = Padding.SAME, Padding.VALID
ACC = sys.argv[1] if len(sys.argv) > 1 else "ethos-u55-128"
bad = 0
def run(label, expect, mk):
    global bad
    try:
        data = mk()
        src = list_ops(data)
        ops, log = compile_and_list(data, ACC)
        got = "npu" if ops == ["ethos-u"] else ("cpu" if ops == src else "mixed:" + ",".join(ops))
        flag = "" if got == expect else "   <<<<<< MISMATCH (expected %s)" % expect
        warn = [l.strip() for l in log.splitlines() if l.startswith(" - ")]
        print(f"{label:60s} {got:6s} {warn[:1] if warn else ''}{flag}")
        if flag: bad += 1
    except Exception as e:
        bad += 1
        tb = traceback.extract_tb(e.__traceback__)[-1]
        print(f"{label:60s} EXC {type(e).__name__}: {str(e)[:100]} @{os.path.basename(tb.filename)}:{tb.lineno}   <<<<<< (expected {expect})")


run("pad hw+c", "npu", lambda: z.pad(paddings=((0,0),(1,1),(1,1),(1,1))))
run("pad batch+c", "npu", lambda: z.pad(paddings=((1,1),(0,0),(0,0),(1,1))))
run("pad batch+hw", "npu", lambda: z.pad(paddings=((1,0),(1,1),(1,1),(0,0))))
run("pad 3D c", "npu", lambda: z.pad(ifm_shape=(8,8,4), paddings=((0,0),(0,0),(1,1))))
run("pad 3D h (first dim)", "npu", lambda: z.pad(ifm_shape=(8,8,4), paddings=((1,1),(0,0),(0,0))))
run("pad 3D all", "npu", lambda: z.pad(ifm_shape=(8,8,4), paddings=((1,1),(1,1),(1,1))))
run("pad c only left", "npu", lambda: z.pad(paddings=((0,0),(0,0),(0,0),(2,0))))
run("nn align depth1 4->7", "npu", lambda: z.resize("nn", (1,4,4,1), (7,7), align_corners=True))
run("bilinear align depth1 4->7", "npu", lambda: z.resize("bilinear", (1,4,4,1), (7,7), align_corners=True))

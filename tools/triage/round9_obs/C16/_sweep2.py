import os, sys, traceback
sys.path.insert(0, os.path.dirname(os.path.abspath(__file__)))
import c16zoo as z
from c16lib import compile_and_list, list_ops, DataType, Padding, Op
I8, U8, I16, I32, I64 = DataType.int8, DataType.uint8, DataType.int16, DataType.int32, DataType.int64
S, V = Padding.SAME, Padding.VALID
ACC = sys.argv[1] if len(sys.argv) > 1 else "ethos-u55-128"
bad = 0
def run(label, expect, mk):
    global bad
    try:
        data = mk()
        src = list_ops(data)
        ops, log = compile_and_list(data, ACC)
        got = "npu" if ops == ["ethos-u"] else ("cpu" if ops == src else "mixed:" + ",".join(ops))
        flag = "" if got == expect else "   <<<<<< MISMATCH (expected %s)" % expect
        warn = [l.strip() for l in log.splitlines() if l.startswith(" - ")]
        print(f"{label:60s} {got:6s} {warn[:1] if warn else ''}{flag}")
        if flag: bad += 1
    except Exception as e:
        bad += 1
        tb = traceback.extract_tb(e.__traceback__)[-1]
        print(f"{label:60s} EXC {type(e).__name__}: {str(e)[:100]} @{os.path.basename(tb.filename)}:{tb.lineno}   <<<<<< (expected {expect})")

# --- generic: dims
run("relu [1,1,65535,1]", "npu", lambda: z.unary("relu", (1,1,65535,1)))
run("relu [1,1,65536,1]", "cpu", lambda: z.unary("relu", (1,1,65536,1)))
run("add [1,65535]", "npu", lambda: z.binary("add", (1,65535), (1,65535)))
run("add [65535] 1D", "npu", lambda: z.binary("add", (65535,), (65535,)))
run("add [65536] 1D", "cpu", lambda: z.binary("add", (65536,), (65536,)))
# --- batch
run("add batch2", "cpu", lambda: z.binary("add", (2,4,4,8), (2,4,4,8)))
run("relu batch2", "cpu", lambda: z.unary("relu", (2,4,4,8)))
run("conv batch2", "cpu", lambda: z.conv2d(ifm_shape=(2,8,8,4)))
run("avgpool batch2", "cpu", lambda: z.pool("avg", ifm_shape=(2,8,8,4)))
run("softmax batch2 (excluded)", "npu", lambda: z.unary("softmax", (2,4,4,8)))
run("fc batch4 (excluded)", "npu", lambda: z.fully_connected((4,16)))
run("add rank3 [2,4,8] (batch=1 in 4D)", "npu", lambda: z.binary("add", (2,4,8), (2,4,8)))
run("concat axis0 in0 batch3 in1 batch1", "cpu", lambda: z.concat(((3,4,4,8),(1,4,4,8)), axis=0))
run("concat axis0 in0 batch1 in1 batch3", "cpu", lambda: z.concat(((1,4,4,8),(3,4,4,8)), axis=0))
run("concat axis3 batch2", "cpu", lambda: z.concat(((2,4,4,8),(2,4,4,8)), axis=3))
run("concat single input batch2", "cpu", lambda: z.concat(((2,4,4,8),), axis=3))
run("concat 3 inputs ok", "npu", lambda: z.concat(((1,4,4,8),(1,4,4,8),(1,4,4,8)), axis=3))
# --- dtypes
run("conv int16 bias32", "npu", lambda: z.conv2d(dtype=I16))
run("conv int32 ifm", "cpu", lambda: z.conv2d(dtype=I32))
run("conv w int16", "cpu", lambda: z.conv2d(dtype=I16, wdtype=I16, bias_dtype=I64))
run("conv bias int16", "cpu", lambda: z.conv2d(bias_dtype=I16))
run("add int32", "npu", lambda: z.binary("add", dtype=I32))
run("mul int32", "npu", lambda: z.binary("mul", dtype=I32))
run("min int32", "cpu", lambda: z.binary("min", dtype=I32))
run("relu int32", "cpu", lambda: z.unary("relu", dtype=I32))
run("add int8+int8->int16", "npu", lambda: z.binary("add", odtype=I16))
run("add uint8->int8 (unsigned ifm, ofm other)", "cpu", lambda: z.binary("add", dtype=U8, odtype=I8))
run("add uint8->int32", "npu", lambda: z.binary("add", dtype=U8, odtype=I32))
run("add int8->uint8 (signed->unsigned)", "cpu", lambda: z.binary("add", dtype=I8, odtype=U8))
run("add int8,int16 inputs", "cpu", lambda: z.binary("add", dtype=I8, dtype2=I16))
run("add faf relu, ofm int32", "cpu", lambda: z.binary("add", dtype=I32, faf=Op.Relu))
run("min mismatched quant", "cpu", lambda: z.binary("min", scales=(0.5,0.5,0.25)))
run("min matching quant", "npu", lambda: z.binary("min"))
run("avgpool int8->uint8", "cpu", lambda: z.pool("avg", ofm_dtype=U8))
run("tanh int8->int16 (no doc constraint)", "npu", lambda: z.unary("tanh", odtype=I16))
run("relu int8->int16 (no doc constraint)", "npu", lambda: z.unary("relu", odtype=I16))
run("quantize int8->int16", "npu", lambda: z.unary("quantize", odtype=I16))
run("quantize int8->int32 (int32 not valid for QUANTIZE)", "cpu", lambda: z.unary("quantize", odtype=I32))
run("exp uint8", "cpu", lambda: z.unary("exp", dtype=U8))
run("rsqrt int16", "cpu", lambda: z.unary("rsqrt", dtype=I16))
run("hardswish int16", "cpu", lambda: z.unary("hardswish", dtype=I16))
run("leaky int16", "npu", lambda: z.unary("leaky", dtype=I16))
run("abs int16", "npu", lambda: z.unary("abs", dtype=I16))
run("softmax int16", "npu", lambda: z.unary("softmax", dtype=I16))
run("softmax uint8", "npu", lambda: z.unary("softmax", dtype=U8))
run("softmax int8->int16", "cpu", lambda: z.unary("softmax", odtype=I16))
run("mean int16", "npu", lambda: z.mean(dtype=I16))
run("mean uint8", "npu", lambda: z.mean(dtype=U8))
# --- broadcast
run("add [1,4,4,8]+[1,1,1,8]", "npu", lambda: z.binary("add", (1,4,4,8),(1,1,1,8)))
run("add [1,4,4,8]+[8]", "npu", lambda: z.binary("add", (1,4,4,8),(8,)))
run("add [1,4,1,8]+[1,1,4,8] (both bcast, ofm matches neither)", "cpu", lambda: z.binary("add", (1,4,1,8),(1,1,4,8)))
run("add [1,4,4,8]+[1,4,4,4] invalid bcast", "cpu", lambda: z.binary("add", (1,4,4,8),(1,4,4,4), oshape=(1,4,4,8)))
run("mul [4,8]+[1,4,4,8]", "npu", lambda: z.binary("mul", (4,8),(1,4,4,8)))
run("max [1,4,4,8]+[1,1,1,1]", "npu", lambda: z.binary("max", (1,4,4,8),(1,1,1,1)))
run("add scalar const", "npu", lambda: z.binary("add", (1,4,4,8), (), const2=True))

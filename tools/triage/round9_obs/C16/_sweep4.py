import os, sys, traceback
sys.path.insert(0, os.path.dirname(os.path.abspath(__file__)))
import c16zoo as z
from c16lib import compile_and_list, list_ops, DataType, Padding, Op
I8, U8, I16, I32, I64 = DataType.int8, DataType.uint8, DataType.int16, DataType.int32, DataType.int64
S, V = Padding.SAME, Padding.VALID
ACC = sys.argv[1] if len(sys.argv) > 1 else "ethos-u55-128"
bad = 0
def run(label, expect, mk):
    global bad
    try:
        data = mk()
        src = list_ops(data)
        ops, log = compile_and_list(data, ACC)
        got = "npu" if ops == ["ethos-u"] else ("cpu" if ops == src else "mixed:" + ",".join(ops))
        flag = "" if got == expect else "   <<<<<< MISMATCH (expected %s)" % expect
        warn = [l.strip() for l in log.splitlines() if l.startswith(" - ")]
        print(f"{label:60s} {got:6s} {warn[:1] if warn else ''}{flag}")
        if flag: bad += 1
    except Exception as e:
        bad += 1
        tb = traceback.extract_tb(e.__traceback__)[-1]
        print(f"{label:60s} EXC {type(e).__name__}: {str(e)[:100]} @{os.path.basename(tb.filename)}:{tb.lineno}   <<<<<< (expected {expect})")


# --- avg pool
run("avg SAME k8x8", "npu", lambda: z.pool("avg", (1,16,16,4), k=(8,8)))
run("avg SAME k9x8", "cpu", lambda: z.pool("avg", (1,16,16,4), k=(9,8)))
run("avg SAME k8x9", "cpu", lambda: z.pool("avg", (1,16,16,4), k=(8,9)))
run("avg VALID k256x1", "npu", lambda: z.pool("avg", (1,256,4,4), k=(256,1), padding=V))
run("avg VALID k257x1", "cpu", lambda: z.pool("avg", (1,257,4,4), k=(257,1), padding=V))
run("avg VALID k256x256", "npu", lambda: z.pool("avg", (1,256,256,1), k=(256,256), padding=V))
run("avg VALID k256x257 prod 65792", "cpu", lambda: z.pool("avg", (1,256,257,1), k=(256,257), padding=V))
run("avg VALID k1x65536", "cpu", lambda: z.pool("avg", (1,1,65535,1), k=(1,65536), padding=V) )
run("avg VALID k9x9 ifm 20", "npu", lambda: z.pool("avg", (1,20,20,4), k=(9,9), padding=V))
run("avg stride 3", "npu", lambda: z.pool("avg", (1,12,12,4), k=(3,3), stride=(3,3)))
run("avg stride h4", "cpu", lambda: z.pool("avg", (1,12,12,4), k=(3,3), stride=(4,1)))
run("avg stride w4 VALID ifm_w 12", "npu", lambda: z.pool("avg", (1,12,12,4), k=(2,4), stride=(1,4), padding=V))
run("avg stride w4 SAME ifm_w 12", "cpu", lambda: z.pool("avg", (1,12,12,4), k=(2,4), stride=(1,4), padding=S))
run("avg stride w4 VALID ifm_w 13", "cpu", lambda: z.pool("avg", (1,12,13,4), k=(2,4), stride=(1,4), padding=V))
run("avg stride w5 VALID ifm_w 10 (doc: cpu)", "cpu", lambda: z.pool("avg", (1,12,10,4), k=(2,5), stride=(1,5), padding=V))
run("avg stride w6 VALID ifm_w 9", "npu", lambda: z.pool("avg", (1,12,9,4), k=(2,6), stride=(1,6), padding=V))
run("avg k==ifm==stride 12x12 SAME (fixup)", "npu", lambda: z.pool("avg", (1,12,12,4), k=(12,12), stride=(12,12), padding=S))
run("avg k==ifm==stride 300x300 VALID", "cpu", lambda: z.pool("avg", (1,300,300,1), k=(300,300), stride=(300,300), padding=V))
run("avg int16", "npu", lambda: z.pool("avg", dtype=I16))
run("avg faf relu", "npu", lambda: z.pool("avg", faf=Op.Relu))
# --- max pool
run("max stride 3", "npu", lambda: z.pool("max", (1,12,12,4), k=(3,3), stride=(3,3)))
run("max stride w4", "cpu", lambda: z.pool("max", (1,12,12,4), k=(3,3), stride=(1,4)))
run("max stride h4", "cpu", lambda: z.pool("max", (1,12,12,4), k=(3,3), stride=(4,1)))
run("max SAME k9x9", "npu", lambda: z.pool("max", (1,16,16,4), k=(9,9)))
run("max k256x1", "npu", lambda: z.pool("max", (1,256,4,4), k=(256,1), padding=V))
run("max k257x1", "cpu", lambda: z.pool("max", (1,257,4,4), k=(257,1), padding=V))
run("max k1x300", "npu", lambda: z.pool("max", (1,4,300,4), k=(1,300), padding=V))
run("max k256x257", "cpu", lambda: z.pool("max", (1,256,257,1), k=(256,257), padding=V))
run("max k==ifm==stride 5x5 (fixup)", "npu", lambda: z.pool("max", (1,5,5,4), k=(5,5), stride=(5,5), padding=V))
run("max k==ifm==stride 5x4 ifm 5x4", "npu", lambda: z.pool("max", (1,5,4,4), k=(5,4), stride=(5,4), padding=V))
run("max k 4x5 stride 4x5 ifm 5x4", "cpu", lambda: z.pool("max", (1,5,4,4), k=(4,5), stride=(4,5), padding=S))
# --- mean
run("mean hw 64x64", "npu", lambda: z.mean((1,64,64,4)))
run("mean axis w=4096", "npu", lambda: z.mean((1,2,4096,2), axis=(2,)))
run("mean axis w=4097", "cpu", lambda: z.mean((1,2,4097,2), axis=(2,)))
run("mean axis h=4097 only (w not reduced)", "npu", lambda: z.mean((1,4097,2,2), axis=(1,)))
run("mean axis c=4096 h==1", "npu", lambda: z.mean((1,1,2,4096), axis=(3,)))
run("mean axis c=4097 h==1", "cpu", lambda: z.mean((1,1,2,4097), axis=(3,)))
run("mean axis c, no dim 1", "cpu", lambda: z.mean((1,2,2,8), axis=(3,)))
run("mean int16 prod 65536 (256x256)", "npu", lambda: z.mean((1,256,256,1), dtype=I16))
run("mean int16 prod 65792 (256x257)", "cpu", lambda: z.mean((1,256,257,1), dtype=I16))
run("mean 2D both", "npu", lambda: z.mean((8,16), axis=(0,1)))
run("mean 2D axis0", "npu", lambda: z.mean((8,16), axis=(0,)))
run("mean 3D axis (0,1)", "npu", lambda: z.mean((4,8,16), axis=(0,1)))
run("mean 3D axis 2 none==1", "cpu", lambda: z.mean((4,8,16), axis=(2,)))
run("mean 4D batch2 axis0", "cpu", lambda: z.mean((2,4,4,8), axis=(0,)))
run("mean 4D axis -1 (negative)", "cpu", lambda: z.mean((1,1,4,8), axis=(-1,)))
run("mean keep_dims False", "npu", lambda: z.mean((1,8,8,4), keep_dims=False))
run("mean scalar axis", "npu", lambda: z.mean((1,8,8,4), axis=2, scalar_axis=True))
run("mean 1D", "cpu", lambda: z.mean((16,), axis=(0,)))
# --- argmax
run("argmax depth 127", "npu", lambda: z.argmax((1,4,4,127)))
run("argmax depth 128", "cpu", lambda: z.argmax((1,4,4,128)))
run("argmax axis -1", "npu", lambda: z.argmax((1,4,4,8), axis=-1))
run("argmax axis 2", "cpu", lambda: z.argmax((1,4,4,8), axis=2))
run("argmax int64 out", "npu", lambda: z.argmax(odtype=I64))
run("argmax int16 in", "cpu", lambda: z.argmax(dtype=I16))
run("argmax uint8 in", "npu", lambda: z.argmax(dtype=U8))

# Helper for the C16 demos / observations: builds tiny .tflite models in memory with Vela's own classes, compiles them
# with the full Vela flow (reader -> semantic check -> graph optimiser -> pass packing -> subgraph extraction ->
# scheduler -> writer) and returns the operator list of the optimised model.
import contextlib
import io
import os
import sys

_ROOT = os.path.normpath(os.path.join(os.path.dirname(os.path.abspath(__file__)), ".."))
if _ROOT not in sys.path:
    sys.path.insert(0, _ROOT)

import numpy as np  # noqa: E402

from ethosu.vela import architecture_features  # noqa: E402
from ethosu.vela import compiler_driver  # noqa: E402
from ethosu.vela import model_reader  # noqa: E402
from ethosu.vela import scheduler  # noqa: E402
from ethosu.vela import tflite_writer  # noqa: E402
from ethosu.vela.data_type import DataType  # noqa: E402
from ethosu.vela.debug_database import DebugDatabase  # noqa: E402
from ethosu.vela.nn_graph import Graph  # noqa: E402
from ethosu.vela.nn_graph import Pass  # noqa: E402
from ethosu.vela.nn_graph import PassPlacement  # noqa: E402
from ethosu.vela.nn_graph import Subgraph  # noqa: E402
from ethosu.vela.nn_graph import TensorAllocator  # noqa: E402
from ethosu.vela.operation import NpuBlockType  # noqa: E402
from ethosu.vela.operation import Op  # noqa: E402
from ethosu.vela.operation import Operation  # noqa: E402
from ethosu.vela.operation import Padding  # noqa: E402
from ethosu.vela.tensor import create_const_tensor  # noqa: E402
from ethosu.vela.tensor import QuantizationParameters  # noqa: E402
from ethosu.vela.tensor import Tensor  # noqa: E402
from ethosu.vela.tensor import TensorAddressMap  # noqa: E402
from ethosu.vela.tflite import Model as TflModel  # noqa: E402
from ethosu.vela.tflite_mapping import builtin_operator_name_map  # noqa: E402
from ethosu.vela.weight_compressor import CompressedWeightCache  # noqa: E402

__all__ = [
    "np",
    "DataType",
    "Op",
    "Operation",
    "Padding",
    "Tensor",
    "qp",
    "fm",
    "const",
    "mkop",
    "build_model",
    "compile_model",
    "list_ops",
    "compile_and_list",
    "builtin_options",
    "generated_report",
    "report_section",
    "vela_main_ops",
]


def qp(scale=1.0, zp=0):
    q = QuantizationParameters()
    q.scale_f32 = np.float32(scale) if np.ndim(scale) == 0 else np.array(scale, dtype=np.float32)
    q.zero_point = zp if np.ndim(zp) == 0 else np.array(zp, dtype=np.int64)
    return q


def fm(name, shape, dtype=DataType.int8, scale=1.0, zp=0, quant=True):
    t = Tensor(list(shape), dtype, name)
    if quant:
        t.quantization = qp(scale, zp)
    return t


_np_types = {
    DataType.int8: np.int8,
    DataType.uint8: np.uint8,
    DataType.int16: np.int16,
    DataType.int32: np.int32,
    DataType.int64: np.int64,
}


def const(name, shape, dtype, values, scale=1.0, zp=0, quant=True):
    values = np.array(values, dtype=_np_types[dtype]).reshape(shape)
    t = create_const_tensor(name, list(shape), dtype, values, quantization=qp(scale, zp) if quant else None)
    if not quant:
        t.quantization = None
    return t


def mkop(op_type, name, inputs, output, attrs=None):
    op = Operation(op_type, name)
    for inp in inputs:
        if inp is None:
            op.inputs.append(None)
        else:
            op.add_input_tensor(inp)
    if isinstance(output, (list, tuple)):
        for o in output:
            op.outputs.append(o)
            o.ops = [op]
    else:
        op.set_output_tensor(output)
    if attrs:
        op.attrs.update(attrs)
    return op


def build_model(ops, inputs, outputs):
    # Serialises the list of operators (Vela internal input ordering, TFLite weight layouts) into a .tflite flatbuffer
    nng = Graph("c16", 1)
    sg = Subgraph("main", PassPlacement.Cpu)
    ps = Pass("p", PassPlacement.Cpu, False, NpuBlockType.Default)
    ps.ops = list(ops)
    sg.passes = [ps]
    sg.original_inputs = list(inputs)
    sg.input_tensors = list(inputs)
    sg.output_tensors = list(outputs)
    nng.subgraphs.append(sg)
    for op in ops:
        # the writer only maps the attributes of operators that "run on the NPU" back to the TFLite option names
        op.run_on_npu = True
    with contextlib.redirect_stdout(io.StringIO()):
        return bytes(tflite_writer.write_tflite_buffer(nng))


def _arch(accelerator):
    return architecture_features.ArchitectureFeatures(
        vela_config_files=None,
        system_config=architecture_features.ArchitectureFeatures.DEFAULT_CONFIG,
        memory_mode=architecture_features.ArchitectureFeatures.DEFAULT_CONFIG,
        accelerator_config=accelerator,
        max_blockdep=architecture_features.ArchitectureFeatures.MAX_BLOCKDEP,
        verbose_config=False,
        arena_cache_size=None,
    )


def compile_model(data, accelerator="ethos-u55-128", quiet=True):
    # Returns (optimised flatbuffer bytes, text printed by the compiler)
    DebugDatabase.clean_db()
    TensorAddressMap.clear_address_map()
    CompressedWeightCache.clear()
    arch = _arch(accelerator)
    options = compiler_driver.CompilerOptions(tensor_allocator=TensorAllocator.HillClimb, output_dir="output")
    sched_options = scheduler.SchedulerOptions(
        optimization_strategy=scheduler.OptimizationStrategy.Performance,
        sram_target=arch.arena_cache_size,
        verbose_schedule=False,
    )
    log = io.StringIO()
    with contextlib.redirect_stdout(log) if quiet else contextlib.nullcontext():
        nng, network_type = model_reader.read_tflite_model(bytearray(data), model_reader.ModelReaderOptions())
        compiler_driver.compiler_driver(nng, arch, options, sched_options, network_type, "c16_model")
        buf = bytes(tflite_writer.write_tflite_buffer(nng))
    DebugDatabase.clean_db()
    TensorAddressMap.clear_address_map()
    return buf, log.getvalue()


def list_ops(data):
    # Operator names of the first subgraph of a .tflite flatbuffer ("ethos-u" for the Ethos-U custom operator)
    model = TflModel.Model.GetRootAsModel(bytearray(data), 0)
    sg = model.Subgraphs(0)
    res = []
    for i in range(sg.OperatorsLength()):
        opc = model.OperatorCodes(sg.Operators(i).OpcodeIndex())
        code = max(opc.BuiltinCode(), opc.DeprecatedBuiltinCode())
        name = builtin_operator_name_map[code]
        if name == "CUSTOM":
            name = opc.CustomCode().decode()
        res.append(name)
    return res


def builtin_options(data, op_name, options_cls_name):
    # [{field: value}] of the builtin options table of every operator called op_name (e.g. "CONV_2D", "Conv2DOptions")
    import importlib

    mod = importlib.import_module("ethosu.vela.tflite." + options_cls_name)
    cls = getattr(mod, options_cls_name)
    model = TflModel.Model.GetRootAsModel(bytearray(data), 0)
    sg = model.Subgraphs(0)
    res = []
    for i in range(sg.OperatorsLength()):
        oper = sg.Operators(i)
        opc = model.OperatorCodes(oper.OpcodeIndex())
        code = max(opc.BuiltinCode(), opc.DeprecatedBuiltinCode())
        if builtin_operator_name_map[code] != op_name:
            continue
        tab = oper.BuiltinOptions()
        fields = {}
        if tab is not None:
            obj = cls()
            obj.Init(tab.Bytes, tab.Pos)
            for name in dir(cls):
                if name[0].isupper() and not name.startswith(("Init", "GetRootAs", options_cls_name)) and "Buffer" not in name:
                    try:
                        fields[name] = getattr(obj, name)()
                    except TypeError:
                        pass
        res.append(fields)
    return res


def generated_report():
    # Text of the supported-operators report that `vela --supported-ops-report` writes
    import tempfile

    from ethosu.vela import vela

    cwd = os.getcwd()
    with tempfile.TemporaryDirectory() as tmp:
        os.chdir(tmp)
        try:
            with contextlib.redirect_stdout(io.StringIO()):
                vela.generate_supported_ops()
            with open(os.path.join(tmp, "SUPPORTED_OPS.md")) as f:
                return f.read()
        finally:
            os.chdir(cwd)


def report_section(text, heading):
    # Lines of the section "### TFLite <heading> Constraints" ("Generic" for the generic constraints)
    lines = text.splitlines()
    start = lines.index(f"### TFLite {heading} Constraints")
    res = []
    for line in lines[start + 1 :]:
        if line.startswith("### ") or line.startswith("## "):
            break
        res.append(line)
    return "\n".join(res)


def compile_and_list(data, accelerator="ethos-u55-128"):
    out, log = compile_model(data, accelerator)
    return list_ops(out), log


def vela_main_ops(data, accelerator="ethos-u55-128", extra_args=()):
    # Same thing through the command line driver and real files
    import tempfile

    from ethosu.vela import vela

    with tempfile.TemporaryDirectory() as tmp:
        src = os.path.join(tmp, "m.tflite")
        with open(src, "wb") as f:
            f.write(data)
        log = io.StringIO()
        with contextlib.redirect_stdout(log):
            vela.main([src, "--output-dir", tmp, "--accelerator-config", accelerator] + list(extra_args))
        with open(os.path.join(tmp, "m_vela.tflite"), "rb") as f:
            out = f.read()
    return list_ops(out), log.getvalue()

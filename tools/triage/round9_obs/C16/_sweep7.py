import os, sys, traceback
sys.path.insert(0, os.path.dirname(os.path.abspath(__file__)))
import c16zoo as z
from c16lib import compile_and_list, list_ops, DataType, Padding, Op
I8, U8, I16, I32, I64 = DataType.int8, DataType.uint8, DataType.int16, DataType.int32, DataType.int64
S, V = Padding.SAME, Padding.VALID
ACC = sys.argv[1] if len(sys.argv) > 1 else "ethos-u55-128"
bad = 0
def run(label, expect, mk):
    global bad
    try:
        data = mk()
        src = list_ops(data)
        ops, log = compile_and_list(data, ACC)
        got = "npu" if ops == ["ethos-u"] else ("cpu" if ops == src else "mixed:" + ",".join(ops))
        flag = "" if got == expect else "   <<<<<< MISMATCH (expected %s)" % expect
        warn = [l.strip() for l in log.splitlines() if l.startswith(" - ")]
        print(f"{label:60s} {got:6s} {warn[:1] if warn else ''}{flag}")
        if flag: bad += 1
    except Exception as e:
        bad += 1
        tb = traceback.extract_tb(e.__traceback__)[-1]
        print(f"{label:60s} EXC {type(e).__name__}: {str(e)[:100]} @{os.path.basename(tb.filename)}:{tb.lineno}   <<<<<< (expected {expect})")


run("quantize scalar", "npu", lambda: z.unary("quantize", shape=()))
run("quantize 1D", "npu", lambda: z.unary("quantize", shape=(16,)))
run("quantize uint8->int8", "npu", lambda: z.unary("quantize", dtype=U8, odtype=I8))
run("quantize int16->int8", "npu", lambda: z.unary("quantize", dtype=I16, odtype=I8))
run("relu 1D", "npu", lambda: z.unary("relu", shape=(16,)))
run("relu 2D", "npu", lambda: z.unary("relu", shape=(4,16)))
run("tanh int16", "npu", lambda: z.unary("tanh", dtype=I16))
run("sigmoid int16", "npu", lambda: z.unary("sigmoid", dtype=I16))
run("tanh uint8", "npu", lambda: z.unary("tanh", dtype=U8))
run("softmax 2D", "npu", lambda: z.unary("softmax", shape=(4,16)))
run("softmax 1D", "npu", lambda: z.unary("softmax", shape=(16,)))
run("softmax 3D", "npu", lambda: z.unary("softmax", shape=(2,4,16)))
run("exp int16", "npu", lambda: z.unary("exp", dtype=I16))
run("log int16", "npu", lambda: z.unary("log", dtype=I16))
run("gelu int16", "npu", lambda: z.unary("gelu", dtype=I16))
run("sqrt int16", "npu", lambda: z.unary("sqrt", dtype=I16))
run("leaky uint8", "npu", lambda: z.unary("leaky", dtype=U8))
run("abs uint8", "npu", lambda: z.unary("abs", dtype=U8))
run("sqdiff int16", "npu", lambda: z.binary("sqdiff", dtype=I16))
run("sqdiff uint8", "npu", lambda: z.binary("sqdiff", dtype=U8))
run("sqdiff int32", "cpu", lambda: z.binary("sqdiff", dtype=I32))
run("sub int16", "npu", lambda: z.binary("sub", dtype=I16))
run("mul uint8", "npu", lambda: z.binary("mul", dtype=U8))
run("max int16", "npu", lambda: z.binary("max", dtype=I16))
run("add faf relu6", "npu", lambda: z.binary("add", faf=Op.Relu6))
run("add faf tanh", "npu", lambda: z.binary("add", faf=Op.Tanh))
run("conv faf relu_n1", "npu", lambda: z.conv2d(faf=Op.ReluN1To1))
run("conv faf signbit", "cpu", lambda: z.conv2d(faf=Op.SignBit))
run("maxpool faf relu", "npu", lambda: z.pool("max", faf=Op.Relu))
run("fc int16", "npu", lambda: z.fully_connected(dtype=I16, bias_dtype=I64))
run("fc uint8", "npu", lambda: z.fully_connected(dtype=U8))
run("dw int16", "npu", lambda: z.depthwise(dtype=I16, bias_dtype=I64))
run("dw uint8", "npu", lambda: z.depthwise(dtype=U8))
run("mean int32", "cpu", lambda: z.mean(dtype=I32))
run("concat axis -1", "npu", lambda: z.concat(axis=-1, oshape=(1,4,4,16)))
run("concat rank2", "npu", lambda: z.concat(((4,8),(4,8)), axis=1))
run("concat int16", "npu", lambda: z.concat(dtype=I16))
run("reshape 4D->2D", "npu", lambda: z.reshape((1,4,4,8),(16,8)))

import os, sys, traceback
sys.path.insert(0, os.path.dirname(os.path.abspath(__file__)))
import c16zoo as z
from c16lib import compile_and_list, list_ops, DataType, Padding, Op
I8, U8, I16, I32, I64 = DataType.int8, DataType.uint8, DataType.int16, DataType.int32, DataType.int64
S, V = Padding.SAME, Padding.VALID
ACC = sys.argv[1] if len(sys.argv) > 1 else "ethos-u55-128"
bad = 0
def run(label, expect, mk):
    global bad
    try:
        data = mk()
        src = list_ops(data)
        ops, log = compile_and_list(data, ACC)
        got = "npu" if ops == ["ethos-u"] else ("cpu" if ops == src else "mixed:" + ",".join(ops))
        flag = "" if got == expect else "   <<<<<< MISMATCH (expected %s)" % expect
        warn = [l.strip() for l in log.splitlines() if l.startswith(" - ")]
        print(f"{label:60s} {got:6s} {warn[:1] if warn else ''}{flag}")
        if flag: bad += 1
    except Exception as e:
        bad += 1
        tb = traceback.extract_tb(e.__traceback__)[-1]
        print(f"{label:60s} EXC {type(e).__name__}: {str(e)[:100]} @{os.path.basename(tb.filename)}:{tb.lineno}   <<<<<< (expected {expect})")


# --- conv strides
run("conv stride 3x3", "npu", lambda: z.conv2d(ifm_shape=(1,12,12,4), stride=(3,3)))
run("conv stride h4 (ofm h>1)", "cpu", lambda: z.conv2d(ifm_shape=(1,12,12,4), stride=(4,1)))
run("conv stride h4 ofm h==1", "npu", lambda: z.conv2d(ifm_shape=(1,3,12,4), stride=(4,1), padding=V))
run("conv stride w4 ifm_w 12 (4%2==0, 12%2==0)", "npu", lambda: z.conv2d(ifm_shape=(1,12,12,4), stride=(1,4), padding=V, k=(1,4)))
run("conv stride w4 ifm_w 13 VALID k4", "cpu", lambda: z.conv2d(ifm_shape=(1,12,13,4), stride=(1,4), padding=V, k=(1,4)))
run("conv stride w5 ifm_w 10 (5 not div by 2/3 -> doc says cpu)", "cpu", lambda: z.conv2d(ifm_shape=(1,12,10,4), stride=(1,5), padding=V, k=(1,5)))
run("conv stride w5 ifm_w 11", "cpu", lambda: z.conv2d(ifm_shape=(1,12,11,4), stride=(1,5), padding=V, k=(1,5)))
run("conv stride w7 ifm_w 14", "cpu", lambda: z.conv2d(ifm_shape=(1,12,14,4), stride=(1,7), padding=V, k=(1,7)))
run("conv stride w6 ifm_w 9 (6/2=3 | 9)", "npu", lambda: z.conv2d(ifm_shape=(1,12,9,4), stride=(1,6), padding=V, k=(1,6)))
run("conv stride w6 ifm_w 9 SAME k3", "npu", lambda: z.conv2d(ifm_shape=(1,12,9,4), stride=(1,6), padding=S, k=(3,3)))
run("conv stride w4 ifm_w 12 SAME k3", "npu", lambda: z.conv2d(ifm_shape=(1,12,12,4), stride=(1,4), padding=S, k=(3,3)))
run("conv stride w4 ifm_w 10 SAME k3", "npu", lambda: z.conv2d(ifm_shape=(1,12,10,4), stride=(1,4), padding=S, k=(3,3)))
run("conv stride w4 ifm_w 10 SAME k5", "npu", lambda: z.conv2d(ifm_shape=(1,12,10,4), stride=(1,4), padding=S, k=(5,5)))
run("conv stride w8 ifm_w 16 SAME k3", "npu", lambda: z.conv2d(ifm_shape=(1,12,16,4), stride=(1,8), padding=S, k=(3,3)))
run("conv stride w8 ifm_w 12 SAME k3 (8/2=4 | 12)", "npu", lambda: z.conv2d(ifm_shape=(1,12,12,4), stride=(1,8), padding=S, k=(3,3)))
run("conv stride w9 ifm_w 12 VALID k9 (9/3=3 | 12)", "npu", lambda: z.conv2d(ifm_shape=(1,12,12,4), stride=(1,9), padding=V, k=(1,9)))
run("conv stride w4 ofm_w==1", "npu", lambda: z.conv2d(ifm_shape=(1,12,3,4), stride=(1,4), padding=V, k=(1,3)))
# --- conv dilation / kernel
run("conv k2 dil 63 (h=64)", "npu", lambda: z.conv2d(ifm_shape=(1,70,70,2), k=(2,2), dil=(63,63), oc=2))
run("conv k2 dil 64 (h=65)", "cpu", lambda: z.conv2d(ifm_shape=(1,70,70,2), k=(2,2), dil=(64,64), oc=2))
run("conv k(2,2) dil(63,64): h=64 w=65 prod 4160", "cpu", lambda: z.conv2d(ifm_shape=(1,70,70,2), k=(2,2), dil=(63,64), oc=2))
run("conv k(1,2) dil(1,4095): h=1 w=4096 prod 4096", "npu", lambda: z.conv2d(ifm_shape=(1,2,4100,1), k=(1,2), dil=(1,4095), oc=1, padding=S))
run("conv k(1,2) dil(1,4096): w=4097", "cpu", lambda: z.conv2d(ifm_shape=(1,2,4100,1), k=(1,2), dil=(1,4096), oc=1, padding=S))
run("conv k 64x64", "npu", lambda: z.conv2d(ifm_shape=(1,64,64,1), k=(64,64), oc=1, padding=V))
run("conv k 65x1", "cpu", lambda: z.conv2d(ifm_shape=(1,66,8,1), k=(65,1), oc=1, padding=V))
run("conv k 1x4096", "npu", lambda: z.conv2d(ifm_shape=(1,1,4096,1), k=(1,4096), oc=1, padding=V))
run("conv dil 3 k3", "npu", lambda: z.conv2d(ifm_shape=(1,16,16,4), k=(3,3), dil=(3,3)))
run("conv dil (2,5) k3", "npu", lambda: z.conv2d(ifm_shape=(1,16,16,4), k=(3,3), dil=(2,5)))
# --- weights sum
run("conv 3x3x7226 w=-128... sum 65034*128>limit", "cpu", lambda: z.conv2d(ifm_shape=(1,4,4,7226), k=(3,3), oc=1, wval=-128))
run("conv 3x3x7225 w=-128 sum 65025*128=8323200>limit", "cpu", lambda: z.conv2d(ifm_shape=(1,4,4,7225), k=(3,3), oc=1, wval=-128))
run("conv 1x1x65024 w=-128 sum = 8323072 == limit", "npu", lambda: z.conv2d(ifm_shape=(1,2,2,65024), k=(1,1), oc=1, wval=-128))
run("conv 1x1x65025 w=-128 sum > limit", "cpu", lambda: z.conv2d(ifm_shape=(1,2,2,65025), k=(1,1), oc=1, wval=-128))
run("dw 3x3 C=8192 w=127 (per channel sum 1143)", "npu", lambda: z.depthwise(ifm_shape=(1,4,4,8192), k=(3,3), wval=127))
# --- bias
run("conv int16 bias64 val 2^39-1", "npu", lambda: z.conv2d(dtype=I16, bias_dtype=I64, bias_val=(1<<39)-1))
run("conv int16 bias64 val 2^39", "cpu", lambda: z.conv2d(dtype=I16, bias_dtype=I64, bias_val=(1<<39)))
run("conv int16 bias64 val -2^39", "npu", lambda: z.conv2d(dtype=I16, bias_dtype=I64, bias_val=-(1<<39)))
run("conv int16 bias64 val -2^39-1", "cpu", lambda: z.conv2d(dtype=I16, bias_dtype=I64, bias_val=-(1<<39)-1))
run("conv int8 bias64", "npu", lambda: z.conv2d(dtype=I8, bias_dtype=I64, bias_val=5))
run("fc int16 bias64 2^39", "cpu", lambda: z.fully_connected(dtype=I16, bias_dtype=I64, bias_val=1<<39))
run("fc nobias", "npu", lambda: z.fully_connected(bias_dtype=None))
run("fc nonconst weights", "cpu", lambda: z.fully_connected(const_w=False))
run("fc 3D ifm [2,3,16]", "npu", lambda: z.fully_connected(ifm_shape=(2,3,16)))
run("fc 1D ifm [16]", "cpu", lambda: z.fully_connected(ifm_shape=(16,)))
# --- asymmetric weights / per-channel
run("conv int8 weight zp 3 (no doc constraint)", "npu", lambda: z.conv2d(wzp=3))
run("conv uint8 weight zp 128", "npu", lambda: z.conv2d(dtype=U8, wzp=128))
run("conv per-channel", "npu", lambda: z.conv2d(per_channel=True))
# --- depthwise
run("dw stride 3", "npu", lambda: z.depthwise(ifm_shape=(1,12,12,4), stride=(3,3)))
run("dw stride w4", "cpu", lambda: z.depthwise(ifm_shape=(1,12,12,4), stride=(1,4)))
run("dw stride h4 ofm_h==1", "cpu", lambda: z.depthwise(ifm_shape=(1,3,12,4), stride=(4,1), padding=V))
run("dw mult2 ic2", "cpu", lambda: z.depthwise(ifm_shape=(1,8,8,2), mult=2))
run("dw mult4 ic1 oc4", "npu", lambda: z.depthwise(ifm_shape=(1,8,8,1), mult=4))
run("dw dil 64 k2", "cpu", lambda: z.depthwise(ifm_shape=(1,70,70,2), k=(2,2), dil=(64,64)))
# --- groups
run("conv groups 2", "npu", lambda: z.conv2d(ifm_shape=(1,8,8,8), oc=8, groups=2))
run("conv groups ic 8 kernel ic 3", "cpu", lambda: z.conv2d(ifm_shape=(1,8,8,9), oc=8, groups=3) if False else z.conv2d(ifm_shape=(1,8,8,8), oc=6, groups=1) )
run("conv groups 4 oc 6 (6%4)", "cpu", lambda: z.conv2d(ifm_shape=(1,8,8,8), oc=6, groups=4))

# Helper module for the C03 demos / observations.
#
#  * Net            - builds a small quantised TFLite model in memory with Vela's own graph classes
#  * compile_model  - runs the Vela compiler pipeline (below the command line driver) on the serialised model
#  * check_compiled - executes the emitted NPU operations (the API level operations from which the register command
#                     stream is generated 1:1) on a byte-tagged memory model and reports every byte that an NPU
#                     operation consumes but that was not defined for it (uninitialised, stale, or foreign bytes)
import os
import sys
from collections import namedtuple

import numpy as np

from ethosu.vela import architecture_features
from ethosu.vela import compiler_driver
from ethosu.vela import high_level_command_to_npu_op as hl2npu
from ethosu.vela import model_reader
from ethosu.vela import scheduler
from ethosu.vela import tflite_writer
from ethosu.vela.api import NpuAddressRange
from ethosu.vela.api import NpuDmaOperation
from ethosu.vela.api import NpuLayout
from ethosu.vela.api import NpuElementWiseOperation
from ethosu.vela.data_type import DataType
from ethosu.vela.debug_database import DebugDatabase
from ethosu.vela.high_level_command_stream import DMA
from ethosu.vela.high_level_command_stream import NpuStripe
from ethosu.vela.nn_graph import Graph
from ethosu.vela.nn_graph import PassPlacement
from ethosu.vela.nn_graph import Subgraph
from ethosu.vela.nn_graph import TensorAllocator
from ethosu.vela.operation import Op
from ethosu.vela.operation import Operation
from ethosu.vela.operation import Padding
from ethosu.vela.tensor import create_const_tensor
from ethosu.vela.tensor import MemType
from ethosu.vela.tensor import QuantizationParameters
from ethosu.vela.tensor import Tensor
from ethosu.vela.tensor import TensorAddressMap
from ethosu.vela.tensor import TensorPurpose
from ethosu.vela.weight_compressor import CompressedWeightCache
from ethosu.vela.weight_compressor import WeightKey


# ----------------------------------------------------------------------------------------------------------------------
# Model building
# ----------------------------------------------------------------------------------------------------------------------
def quant(scale=1.0, zp=0):
    qp = QuantizationParameters()
    qp.scale_f32 = np.float32(scale)
    qp.zero_point = zp
    return qp


class _Pass:
    def __init__(self, ops):
        self.ops = ops


class Net:
    """Builds a TFLite flatbuffer out of a handful of quantised operators"""

    def __init__(self, name="net", dtype=DataType.int8, seed=1):
        self.name = name
        self.dtype = dtype
        self.ops = []
        self.inputs = []
        self.rng = np.random.RandomState(seed)
        self.cnt = 0

    def _name(self, base):
        self.cnt += 1
        return f"{base}{self.cnt}"

    def _fm(self, shape, name, dtype=None, scale=1.0, zp=0):
        t = Tensor(list(shape), dtype or self.dtype, name)
        t.quantization = quant(scale, zp)
        return t

    def _np_dtype(self, dtype):
        return {
            DataType.int8: np.int8,
            DataType.uint8: np.uint8,
            DataType.int16: np.int16,
            DataType.int32: np.int32,
            DataType.int64: np.int64,
        }[dtype]

    def input(self, shape, name=None, dtype=None):
        t = self._fm(shape, name or self._name("input"), dtype)
        op = Operation(Op.Placeholder, t.name)
        op.set_output_tensor(t)
        self.inputs.append(t)
        return t

    def const(self, shape, dtype=None, values=None, name=None, scale=1.0, zp=0):
        dtype = dtype or self.dtype
        if values is None:
            values = self.rng.randint(-20, 20, size=shape)
        values = np.array(values).astype(self._np_dtype(dtype)).reshape(shape)
        t = create_const_tensor(name or self._name("const"), list(shape), dtype, values, quantization=quant(scale, zp))
        t.values = values
        return t

    def _add_op(self, op_type, name, inputs, ofm, attrs):
        op = Operation(op_type, name)
        for t in inputs:
            if t is None:
                op.inputs.append(None)
            else:
                op.add_input_tensor(t)
        op.set_output_tensor(ofm)
        op.attrs = dict(attrs)
        self.ops.append(op)
        return op

    @staticmethod
    def _out_hw(h, w, kh, kw, sh, sw, padding, dh=1, dw=1):
        if padding == Padding.SAME:
            return (h + sh - 1) // sh, (w + sw - 1) // sw
        ekh = (kh - 1) * dh + 1
        ekw = (kw - 1) * dw + 1
        return (h - ekh) // sh + 1, (w - ekw) // sw + 1

    def conv2d(
        self, x, out_ch, k=(3, 3), stride=(1, 1), padding=Padding.SAME, dilation=(1, 1), act=None, name=None,
        weights=None, bias=None, out_dtype=None,
    ):
        name = name or self._name("conv")
        n, h, w, c = x.shape
        oh, ow = self._out_hw(h, w, k[0], k[1], stride[0], stride[1], padding, dilation[0], dilation[1])
        if weights is None:
            wq = quant(0.01, 0)
            vals = self.rng.randint(-100, 100, size=(out_ch, k[0], k[1], c)).astype(np.int8)
            weights = create_const_tensor(name + "_w", [out_ch, k[0], k[1], c], DataType.int8, vals, quantization=wq)
            weights.values = vals
        if bias is None:
            bdt = DataType.int64 if x.dtype == DataType.int16 else DataType.int32
            bvals = self.rng.randint(-50, 50, size=(out_ch,))
            bias = self.const([out_ch], bdt, bvals, name=name + "_b", scale=0.01)
        ofm = self._fm([n, oh, ow, out_ch], name, out_dtype or x.dtype)
        attrs = {
            "padding": padding,
            "stride_h": stride[0],
            "stride_w": stride[1],
            "dilation_h_factor": dilation[0],
            "dilation_w_factor": dilation[1],
            "fused_activation_function": act,
        }
        self._add_op(Op.Conv2DBias, name, [x, weights, bias], ofm, attrs)
        return ofm

    def dwconv(self, x, k=(3, 3), stride=(1, 1), padding=Padding.SAME, dilation=(1, 1), act=None, name=None, mult=1):
        name = name or self._name("dw")
        n, h, w, c = x.shape
        oh, ow = self._out_hw(h, w, k[0], k[1], stride[0], stride[1], padding, dilation[0], dilation[1])
        wq = quant(0.01, 0)
        vals = self.rng.randint(-100, 100, size=(1, k[0], k[1], c * mult)).astype(np.int8)
        weights = create_const_tensor(name + "_w", [1, k[0], k[1], c * mult], DataType.int8, vals, quantization=wq)
        weights.values = vals
        bdt = DataType.int64 if x.dtype == DataType.int16 else DataType.int32
        bias = self.const([c * mult], bdt, self.rng.randint(-50, 50, size=(c * mult,)), name=name + "_b", scale=0.01)
        ofm = self._fm([n, oh, ow, c * mult], name, x.dtype)
        attrs = {
            "padding": padding,
            "stride_h": stride[0],
            "stride_w": stride[1],
            "dilation_h_factor": dilation[0],
            "dilation_w_factor": dilation[1],
            "depth_multiplier": mult,
            "fused_activation_function": act,
        }
        self._add_op(Op.DepthwiseConv2DBias, name, [x, weights, bias], ofm, attrs)
        return ofm

    def pool(self, x, kind="max", k=(2, 2), stride=(2, 2), padding=Padding.VALID, act=None, name=None):
        name = name or self._name(kind + "pool")
        n, h, w, c = x.shape
        oh, ow = self._out_hw(h, w, k[0], k[1], stride[0], stride[1], padding)
        ofm = self._fm([n, oh, ow, c], name, x.dtype)
        attrs = {
            "padding": padding,
            "stride_h": stride[0],
            "stride_w": stride[1],
            "filter_height": k[0],
            "filter_width": k[1],
            "fused_activation_function": act,
        }
        self._add_op(Op.MaxPool if kind == "max" else Op.AvgPool, name, [x], ofm, attrs)
        return ofm

    def binary(self, op_type, a, b, name=None, act=None, out_shape=None, out_scale=1.0):
        name = name or self._name(op_type.name.lower())
        shape = out_shape or (a.shape if len(a.shape) >= len(b.shape) and a.shape != [] else b.shape)
        ofm = self._fm(shape, name, a.dtype, scale=out_scale)
        attrs = {"fused_activation_function": act}
        if op_type in (Op.Add, Op.Sub):
            attrs["pot_scale_int16"] = False
        self._add_op(op_type, name, [a, b], ofm, attrs)
        return ofm

    def add(self, a, b, **kw):
        return self.binary(Op.Add, a, b, **kw)

    def mul(self, a, b, **kw):
        return self.binary(Op.Mul, a, b, **kw)

    def unary(self, op_type, x, name=None, attrs=None, out_scale=None):
        name = name or self._name(op_type.name.lower())
        ofm = self._fm(x.shape, name, x.dtype, scale=out_scale if out_scale else 1.0)
        self._add_op(op_type, name, [x], ofm, attrs or {})
        return ofm

    def leaky_relu(self, x, alpha=0.1, **kw):
        return self.unary(Op.LeakyRelu, x, attrs={"alpha": alpha}, **kw)

    def tanh(self, x, **kw):
        name = kw.pop("name", None) or self._name("tanh")
        ofm = self._fm(x.shape, name, x.dtype, scale=1.0 / 128, zp=0)
        self._add_op(Op.Tanh, name, [x], ofm, {})
        return ofm

    def sigmoid(self, x, **kw):
        name = kw.pop("name", None) or self._name("sigmoid")
        ofm = self._fm(x.shape, name, x.dtype, scale=1.0 / 256, zp=-128 if x.dtype == DataType.int8 else 0)
        self._add_op(Op.Sigmoid, name, [x], ofm, {})
        return ofm

    def concat(self, xs, axis=3, name=None, act=None):
        name = name or self._name("concat")
        shape = list(xs[0].shape)
        shape[axis] = sum(x.shape[axis] for x in xs)
        ofm = self._fm(shape, name, xs[0].dtype)
        self._add_op(Op.ConcatTFLite, name, xs, ofm, {"axis": axis, "fused_activation_function": act})
        return ofm

    def reshape(self, x, new_shape, name=None):
        name = name or self._name("reshape")
        ofm = self._fm(new_shape, name, x.dtype)
        shp = self.const([len(new_shape)], DataType.int32, new_shape, name=name + "_shape")
        self._add_op(Op.Reshape, name, [x, shp], ofm, {"new_shape": list(new_shape)})
        return ofm

    def resize_nearest(self, x, out_hw, name=None, align_corners=False, half_pixel_centers=False):
        name = name or self._name("resizenn")
        n, h, w, c = x.shape
        ofm = self._fm([n, out_hw[0], out_hw[1], c], name, x.dtype)
        size = self.const([2], DataType.int32, list(out_hw), name=name + "_size")
        self._add_op(
            Op.ResizeNearestNeighbor,
            name,
            [x, size],
            ofm,
            {"align_corners": align_corners, "half_pixel_centers": half_pixel_centers},
        )
        return ofm

    def strided_slice(self, x, begin, end, name=None):
        name = name or self._name("slice")
        shape = [e - b for b, e in zip(begin, end)]
        ofm = self._fm(shape, name, x.dtype)
        b = self.const([len(begin)], DataType.int32, begin, name=name + "_begin")
        e = self.const([len(end)], DataType.int32, end, name=name + "_end")
        s = self.const([len(end)], DataType.int32, [1] * len(end), name=name + "_strides")
        attrs = {
            "begin_mask": 0,
            "end_mask": 0,
            "ellipsis_mask": 0,
            "new_axis_mask": 0,
            "shrink_axis_mask": 0,
            "offset": False,
        }
        self._add_op(Op.StridedSlice, name, [x, b, e, s], ofm, attrs)
        return ofm

    def pad(self, x, pads, name=None):
        # pads: [[n0,n1],[t,b],[l,r],[c0,c1]]
        name = name or self._name("pad")
        shape = [d + p[0] + p[1] for d, p in zip(x.shape, pads)]
        ofm = self._fm(shape, name, x.dtype)
        p = self.const([len(pads), 2], DataType.int32, pads, name=name + "_paddings")
        self._add_op(Op.Pad, name, [x, p], ofm, {})
        return ofm

    def mirror_pad(self, x, pads, name=None, mode=0):
        name = name or self._name("mirrorpad")
        shape = [d + p[0] + p[1] for d, p in zip(x.shape, pads)]
        ofm = self._fm(shape, name, x.dtype)
        p = self.const([len(pads), 2], DataType.int32, pads, name=name + "_paddings")
        self._add_op(Op.MirrorPad, name, [x, p], ofm, {"mode": mode})
        return ofm

    def custom_cpu(self, x, name=None):
        """An operator that Vela leaves on the CPU"""
        name = name or self._name("cpuop")
        ofm = self._fm(x.shape, name, x.dtype)
        self._add_op(Op.Custom, name, [x], ofm, {"custom_code": "MyCpuOp", "custom_options": [], "custom_type": 0})
        return ofm

    def softmax(self, x, name=None, beta=1.0):
        name = name or self._name("softmax")
        if x.dtype == DataType.int16:
            ofm = self._fm(x.shape, name, x.dtype, scale=1.0 / 32768, zp=0)
        else:
            ofm = self._fm(x.shape, name, x.dtype, scale=1.0 / 256, zp=-128 if x.dtype == DataType.int8 else 0)
        self._add_op(Op.Softmax, name, [x], ofm, {"beta": beta})
        return ofm

    def mean(self, x, axes=(1, 2), keep_dims=True, name=None):
        name = name or self._name("mean")
        shape = [1 if i in axes else d for i, d in enumerate(x.shape)]
        if not keep_dims:
            shape = [d for i, d in enumerate(x.shape) if i not in axes]
        ofm = self._fm(shape, name, x.dtype)
        ax = self.const([len(axes)], DataType.int32, list(axes), name=name + "_axis")
        self._add_op(Op.Mean, name, [x, ax], ofm, {"keep_dims": keep_dims})
        return ofm

    def fully_connected(self, x, out_ch, name=None, act=None):
        name = name or self._name("fc")
        n, i = x.shape
        wq = quant(0.01, 0)
        vals = self.rng.randint(-100, 100, size=(out_ch, i)).astype(np.int8)
        weights = create_const_tensor(name + "_w", [out_ch, i], DataType.int8, vals, quantization=wq)
        weights.values = vals
        bdt = DataType.int64 if x.dtype == DataType.int16 else DataType.int32
        bias = self.const([out_ch], bdt, self.rng.randint(-50, 50, size=(out_ch,)), name=name + "_b", scale=0.01)
        ofm = self._fm([n, out_ch], name, x.dtype)
        attrs = {
            "fused_activation_function": act,
            "weights_format": 0,
            "keep_num_dims": False,
            "asymmetric_quantize_inputs": False,
        }
        self._add_op(Op.FullyConnected, name, [x, weights, bias], ofm, attrs)
        return ofm

    def resize_bilinear(self, x, out_hw, name=None, align_corners=False, half_pixel_centers=False):
        name = name or self._name("resizebl")
        n, h, w, c = x.shape
        ofm = self._fm([n, out_hw[0], out_hw[1], c], name, x.dtype)
        size = self.const([2], DataType.int32, list(out_hw), name=name + "_size")
        self._add_op(
            Op.ResizeBilinear, name, [x, size], ofm, {"align_corners": align_corners, "half_pixel_centers": half_pixel_centers}
        )
        return ofm

    def split(self, x, axis, num, name=None):
        name = name or self._name("split")
        shape = list(x.shape)
        assert shape[axis] % num == 0
        shape[axis] //= num
        ax = self.const([], DataType.int32, axis, name=name + "_axis")
        outs = [self._fm(shape, f"{name}_out{i}", x.dtype) for i in range(num)]
        op = Operation(Op.Split, name)
        op.add_input_tensor(ax)
        op.add_input_tensor(x)
        for o in outs:
            o.ops = [op]
            op.outputs.append(o)
        op.attrs = {"num_splits": num}
        self.ops.append(op)
        return outs

    def transpose_conv(self, x, out_ch, k=(3, 3), stride=(2, 2), padding=Padding.SAME, name=None):
        name = name or self._name("tconv")
        n, h, w, c = x.shape
        if padding == Padding.SAME:
            oh, ow = h * stride[0], w * stride[1]
        else:
            oh, ow = (h - 1) * stride[0] + k[0], (w - 1) * stride[1] + k[1]
        wq = quant(0.01, 0)
        vals = self.rng.randint(-100, 100, size=(out_ch, k[0], k[1], c)).astype(np.int8)
        weights = create_const_tensor(name + "_w", [out_ch, k[0], k[1], c], DataType.int8, vals, quantization=wq)
        weights.values = vals
        bdt = DataType.int64 if x.dtype == DataType.int16 else DataType.int32
        bias = self.const([out_ch], bdt, self.rng.randint(-50, 50, size=(out_ch,)), name=name + "_b", scale=0.01)
        oshape = self.const([4], DataType.int32, [n, oh, ow, out_ch], name=name + "_oshape")
        ofm = self._fm([n, oh, ow, out_ch], name, x.dtype)
        attrs = {"padding": padding, "stride_h": stride[0], "stride_w": stride[1]}
        self._add_op(Op.Conv2DBackpropInput, name, [oshape, weights, x, bias], ofm, attrs)
        return ofm

    def prelu(self, x, name=None):
        name = name or self._name("prelu")
        alpha = self.const([1, 1, x.shape[-1]], x.dtype, None, name=name + "_alpha", scale=0.01)
        ofm = self._fm(x.shape, name, x.dtype)
        self._add_op(Op.Prelu, name, [x, alpha], ofm, {})
        return ofm

    def hardswish(self, x, **kw):
        return self.unary(Op.HardSwish, x, **kw)

    def abs(self, x, **kw):
        return self.unary(Op.Abs, x, **kw)

    def transpose(self, x, perm, name=None):
        name = name or self._name("transpose")
        shape = [x.shape[p] for p in perm]
        ofm = self._fm(shape, name, x.dtype)
        pt = self.const([len(perm)], DataType.int32, list(perm), name=name + "_perm")
        self._add_op(Op.Transpose, name, [x, pt], ofm, {})
        return ofm

    def argmax(self, x, name=None, out_dtype=DataType.int32):
        name = name or self._name("argmax")
        ofm = Tensor(list(x.shape[:-1]), out_dtype, name)
        ax = self.const([], DataType.int32, len(x.shape) - 1, name=name + "_axis")
        self._add_op(Op.ArgMax, name, [x, ax], ofm, {"output_type": out_dtype})
        return ofm

    def pack(self, xs, axis, name=None):
        name = name or self._name("pack")
        shape = list(xs[0].shape)
        shape.insert(axis, len(xs))
        ofm = self._fm(shape, name, xs[0].dtype)
        self._add_op(Op.Pack, name, xs, ofm, {"axis": axis, "values_count": len(xs)})
        return ofm

    def unpack(self, x, axis, name=None):
        name = name or self._name("unpack")
        num = x.shape[axis]
        shape = [d for i, d in enumerate(x.shape) if i != axis]
        outs = [self._fm(shape, f"{name}_out{i}", x.dtype) for i in range(num)]
        op = Operation(Op.Unpack, name)
        op.add_input_tensor(x)
        for o in outs:
            o.ops = [op]
            op.outputs.append(o)
        op.attrs = {"axis": axis, "num": num}
        self.ops.append(op)
        return outs

    def serialise(self, outputs):
        nng = Graph(self.name)
        sg = Subgraph(self.name)
        sg.placement = PassPlacement.Cpu
        sg.input_tensors = list(self.inputs)
        sg.original_inputs = list(self.inputs)
        sg.output_tensors = list(outputs)
        sg.passes = [_Pass([t.ops[0] for t in self.inputs] + list(self.ops))]
        nng.subgraphs.append(sg)
        return bytearray(tflite_writer.write_tflite_buffer(nng))


# ----------------------------------------------------------------------------------------------------------------------
# Compilation
# ----------------------------------------------------------------------------------------------------------------------
Compiled = namedtuple("Compiled", ["nng", "arch", "streams"])


class _Capture:
    """Records (high level command, NPU operation) pairs in emission order, per NPU subgraph"""

    def __init__(self):
        self.orig = hl2npu.convert_command_to_npu_op
        self.pairs = []

    def __enter__(self):
        def wrapper(cmd, arch):
            npu_op = self.orig(cmd, arch)
            self.pairs.append((cmd, npu_op))
            return npu_op

        hl2npu.convert_command_to_npu_op = wrapper
        return self

    def __exit__(self, *exc):
        hl2npu.convert_command_to_npu_op = self.orig


def make_arch(accelerator="ethos-u55-128", config=None, system_config=None, memory_mode=None, arena_cache_size=None):
    default = architecture_features.ArchitectureFeatures.DEFAULT_CONFIG
    if config is None:
        config_files = None
        system_config = system_config or default
        memory_mode = memory_mode or default
    else:
        from ethosu.vela.vela import CONFIG_FILES_PATH

        config_files = [os.path.join(CONFIG_FILES_PATH, config)]
    return architecture_features.ArchitectureFeatures(
        vela_config_files=config_files,
        system_config=system_config,
        memory_mode=memory_mode,
        accelerator_config=accelerator,
        max_blockdep=architecture_features.ArchitectureFeatures.MAX_BLOCKDEP,
        verbose_config=False,
        arena_cache_size=arena_cache_size,
    )


def compile_model(
    data,
    accelerator="ethos-u55-128",
    config=None,
    system_config=None,
    memory_mode=None,
    arena_cache_size=None,
    optimise="Performance",
    allocator=TensorAllocator.HillClimb,
    verbose_schedule=False,
    verbose_hlcs=False,
    verbose_allocation=False,
):
    sys.setrecursionlimit(4000)
    DebugDatabase.clean_db()
    TensorAddressMap.clear_address_map()
    CompressedWeightCache.clear()
    arch = make_arch(accelerator, config, system_config, memory_mode, arena_cache_size)
    compiler_options = compiler_driver.CompilerOptions(
        tensor_allocator=allocator,
        output_dir=os.path.join(os.path.dirname(os.path.abspath(__file__)), "tmp"),
        verbose_high_level_command_stream=verbose_hlcs,
        verbose_allocation=verbose_allocation,
    )
    scheduler_options = scheduler.SchedulerOptions(
        optimization_strategy=scheduler.OptimizationStrategy[optimise],
        sram_target=arch.arena_cache_size,
        verbose_schedule=verbose_schedule,
    )
    nng, network_type = model_reader.read_tflite_model(data, model_reader.ModelReaderOptions())
    with _Capture() as cap:
        compiler_driver.compiler_driver(nng, arch, compiler_options, scheduler_options, network_type, "c03_model")
    # split the captured pairs per NPU subgraph, in the order the subgraphs were processed
    streams = []
    pairs = list(cap.pairs)
    for sg in nng.subgraphs:
        if sg.placement != PassPlacement.Npu:
            continue
        n = sum(1 for cmd in sg.high_level_command_stream if isinstance(cmd, (DMA, NpuStripe)))
        streams.append((sg, pairs[:n]))
        pairs = pairs[n:]
    assert not pairs
    return Compiled(nng, arch, streams)


# ----------------------------------------------------------------------------------------------------------------------
# Byte tagged execution of the emitted operations
# ----------------------------------------------------------------------------------------------------------------------
UNDEF = 0  # the byte has not been defined in this inference
FLASH = 1  # the byte is a byte of the constant image of the output file (coord = its address in the image)
ANY = -1  # coordinate wildcard (writers / readers with a non-standard address mapping)

Violation = namedtuple("Violation", ["sg", "index", "op", "kind", "tensor", "count", "detail"])


class _Mem:
    def __init__(self):
        self.tid = {}
        self.coord = {}

    def _ensure(self, region, size):
        size = int(size)
        cur = self.tid.get(region)
        if cur is None or cur.size < size:
            new_size = max(size, 2 * (cur.size if cur is not None else 0), 1024)
            tid = np.zeros(new_size, np.int32)
            coord = np.zeros(new_size, np.int64)
            if cur is not None:
                tid[: cur.size] = cur
                coord[: cur.size] = self.coord[region]
            self.tid[region] = tid
            self.coord[region] = coord

    def write(self, region, addrs, tid, coords):
        addrs = np.asarray(addrs, np.int64).ravel()
        if addrs.size == 0:
            return
        assert addrs.min() >= 0
        self._ensure(region, addrs.max() + 1)
        self.tid[region][addrs] = tid
        self.coord[region][addrs] = np.asarray(coords, np.int64).ravel()

    def read(self, region, addrs):
        addrs = np.asarray(addrs, np.int64).ravel()
        if addrs.size == 0:
            return np.zeros(0, np.int32), np.zeros(0, np.int64)
        assert addrs.min() >= 0
        self._ensure(region, addrs.max() + 1)
        return self.tid[region][addrs], self.coord[region][addrs]

    def invalidate(self, region, start, end):
        self._ensure(region, end)
        self.tid[region][start:end] = UNDEF


def _elem_size(fm):
    return fm.data_type.size_in_bytes()


def fm_byte_addresses(fm, height, width, depth):
    """Addresses of all bytes of the (height x width x depth) volume described by an NpuFeatureMap, computed as the
    hardware does (tiles, strides, layout); result has shape (height, width, depth, element size)"""
    es = _elem_size(fm)
    y = np.arange(height, dtype=np.int64).reshape(-1, 1, 1)
    x = np.arange(width, dtype=np.int64).reshape(1, -1, 1)
    c = np.arange(depth, dtype=np.int64).reshape(1, 1, -1)
    y, x, c = np.broadcast_arrays(y, x, c)
    y = y.copy()
    x = x.copy()
    tiles = fm.tiles
    t = np.zeros(y.shape, np.int64)
    right = x >= tiles.width_0
    right_low = right & (y >= tiles.height_1)
    left_low = (~right) & (y >= tiles.height_0)
    t[right] = 1
    t[right_low] = 3
    t[left_low] = 2
    y = y - np.where(right_low, tiles.height_1, 0) - np.where(left_low, tiles.height_0, 0)
    x = x - np.where(right, tiles.width_0, 0)
    base = np.array([int(a) for a in tiles.addresses], np.int64)[t]
    brick = 16
    if fm.layout == NpuLayout.NHWC:
        stride_c = brick * es
        stride_x = fm.strides.width
    else:
        stride_c = fm.strides.depth
        stride_x = brick * es
    addr = base + y * fm.strides.height + x * stride_x + (c // brick) * stride_c + (c % brick) * es
    b = np.arange(es, dtype=np.int64).reshape(1, 1, 1, -1)
    return addr[..., None] + b


def _linear_coords(shape4d, start, size, es):
    """Logical byte index (row-major NHWC position in the full shape) for all bytes of the box"""
    n, hh, ww, cc = [int(v) for v in shape4d]
    h = (np.arange(size[1], dtype=np.int64) + int(start[1])).reshape(-1, 1, 1)
    w = (np.arange(size[2], dtype=np.int64) + int(start[2])).reshape(1, -1, 1)
    c = (np.arange(size[3], dtype=np.int64) + int(start[3])).reshape(1, 1, -1)
    lin = ((int(start[0]) * hh + h) * ww + w) * cc + c
    b = np.arange(es, dtype=np.int64).reshape(1, 1, 1, -1)
    return lin[..., None] * es + b


def _const_bytes(tens):
    vals = np.ascontiguousarray(tens.values)
    return np.frombuffer(vals.tobytes(), dtype=np.uint8)


class Checker:
    def __init__(self, compiled, max_report=20):
        self.c = compiled
        self.arch = compiled.arch
        self.nng = compiled.nng
        self.mem = _Mem()
        self.violations = []
        self.classes = {}
        self.parent = {}
        self.class_names = {UNDEF: "<undefined>", FLASH: "<constant image>"}
        self.stats = {"npu_ops": 0, "dma_ops": 0, "bytes_read": 0}
        self.flash = None
        for sg, _ in compiled.streams:
            if getattr(sg, "flash_tensor", None) is not None and sg.flash_tensor.values is not None:
                self.flash = np.asarray(sg.flash_tensor.values, np.uint8)
                break
        if self.flash is not None:
            n = self.flash.size
            self.mem.write(0, np.arange(n), FLASH, np.arange(n))

    # -- tensor classes ------------------------------------------------------------------------------------------------
    def cls(self, tens):
        key = tens.equivalence_id
        if key not in self.classes:
            cid = len(self.classes) + 2
            self.classes[key] = cid
            self.parent[cid] = cid
            self.class_names[cid] = tens.name
        return self.find(self.classes[key])

    def find(self, cid):
        while self.parent.get(cid, cid) != cid:
            cid = self.parent[cid]
        return cid

    def alias(self, a, b):
        ra, rb = self.find(a), self.find(b)
        if ra != rb:
            self.parent[ra] = rb

    def name_of(self, tid):
        return self.class_names.get(int(tid), f"<class {tid}>")

    def report(self, sg, index, op, kind, tens, bad_mask, tid, coord, expect, detail=""):
        count = int(np.count_nonzero(bad_mask))
        if count == 0:
            return
        i = int(np.flatnonzero(bad_mask)[0])
        detail = (
            f"{detail} first bad byte #{i}: found writer '{self.name_of(tid[i])}' pos {int(coord[i])}, "
            f"expected pos {int(expect[i]) if expect is not None else '-'}"
        )
        self.violations.append(
            Violation(sg.name, index, getattr(op, "name", "?"), kind, getattr(tens, "name", "?"), count, detail)
        )

    # -- definitions made outside the NPU --------------------------------------------------------------------------------
    def define_cpu_tensor(self, tens):
        if tens is None or tens.mem_type not in (MemType.Scratch, MemType.Scratch_fast) or tens.address is None:
            return
        es = tens.element_size()
        n = tens.elements() * es
        region = hl2npu.get_region(tens.mem_type, self.arch)
        addrs = np.arange(n, dtype=np.int64) + int(tens.address)
        self.mem.write(region, addrs, self.cls(tens), np.arange(n, dtype=np.int64))

    # -- reads -------------------------------------------------------------------------------------------------------------
    def check_fm_read(self, sg, index, npu_op, fm, tens, op_shape, box, kind, any_coord=False):
        start = list(box.start_coord)
        end = list(box.end_coord)
        while len(start) < 4:
            start.insert(0, 0)
            end.insert(0, 1)
        size = [int(e - s) for s, e in zip(start, end)]
        # An NPU operation has no batch dimension: it processes the (height, width, depth) volume at the box start only
        size[0] = 1
        es = _elem_size(fm)
        addrs = fm_byte_addresses(fm, size[1], size[2], size[3]).ravel()
        expect = _linear_coords(op_shape.as_list(), start, size, es).ravel()
        tid, coord = self.mem.read(fm.region, addrs)
        self.stats["bytes_read"] += addrs.size
        want = self.cls(tens)
        roots = np.array([self.find(int(t)) if t > FLASH else int(t) for t in np.unique(tid)])
        lut = dict(zip(np.unique(tid).tolist(), roots.tolist()))
        rtid = np.vectorize(lut.get, otypes=[np.int32])(tid) if tid.size else tid
        bad = np.zeros(tid.shape, bool)
        is_flash = rtid == FLASH
        if is_flash.any():
            if tens.values is None or self.flash is None:
                bad |= is_flash
            else:
                ref = _const_bytes(tens)
                ok_idx = expect < ref.size
                got = self.flash[np.clip(coord, 0, self.flash.size - 1)]
                exp_val = ref[np.clip(expect, 0, ref.size - 1)]
                bad |= is_flash & (~ok_idx | (got != exp_val))
        not_flash = ~is_flash
        bad |= not_flash & (rtid != want)
        if not any_coord:
            bad |= not_flash & (rtid == want) & (coord != ANY) & (coord != expect)
        self.report(sg, index, npu_op, kind, tens, bad, rtid, coord, expect)

    def check_range_against(self, sg, index, npu_op, rng, ref_bytes, ref_offset, kind, tens):
        """The bytes of an address range must be the bytes ref_bytes[ref_offset:...] of the constant image"""
        length = int(rng.length)
        addrs = np.arange(length, dtype=np.int64) + int(rng.address)
        tid, coord = self.mem.read(rng.region, addrs)
        self.stats["bytes_read"] += length
        ref = np.frombuffer(bytes(ref_bytes), dtype=np.uint8)
        idx = np.arange(length, dtype=np.int64) + int(ref_offset)
        valid = idx < ref.size  # bytes after the end of the stream are alignment padding
        bad = np.zeros(length, bool)
        if self.flash is None:
            bad[:] = True
        else:
            got = self.flash[np.clip(coord, 0, self.flash.size - 1)]
            exp_val = ref[np.clip(idx, 0, ref.size - 1)]
            bad = valid & ((tid != FLASH) | (got != exp_val))
        self.report(sg, index, npu_op, kind, tens, bad, tid, coord, idx)

    # -- one NPU subgraph ----------------------------------------------------------------------------------------------
    def run_npu_subgraph(self, sg, pairs):
        arch = self.arch
        cmd_to_op = {id(cmd): npu_op for cmd, npu_op in pairs}
        lut_region = hl2npu.BASE_PTR_INDEX_MEM2MEM
        for index, cmd in enumerate(sg.high_level_command_stream):
            npu_op = cmd_to_op.get(id(cmd))
            if isinstance(cmd, DMA):
                self.stats["dma_ops"] += 1
                self.run_dma(sg, index, cmd, npu_op)
            elif isinstance(cmd, NpuStripe):
                if npu_op is None:
                    continue
                self.stats["npu_ops"] += 1
                self.run_stripe(sg, index, cmd, npu_op, lut_region)
            else:
                # NOP: source and destination of a memory only operator share their memory
                self.alias(self.cls(cmd.out_tensor), self.cls(cmd.in_tensor))

    def run_dma(self, sg, index, cmd, npu_op):
        src, dest = npu_op.src, npu_op.dest
        length = int(src.length)
        saddr = np.arange(length, dtype=np.int64) + int(src.address)
        daddr = np.arange(length, dtype=np.int64) + int(dest.address)
        tid, coord = self.mem.read(src.region, saddr)
        if cmd.in_tensor.purpose == TensorPurpose.Weights or cmd.out_tensor.purpose == TensorPurpose.LUT:
            # constant data: checked for content when it is consumed
            self.mem.write(dest.region, daddr, tid, coord)
            return
        # feature map copy (memory only operator)
        in_t, out_t = cmd.in_tensor, cmd.out_tensor
        n_valid = min(length, in_t.elements() * in_t.element_size())
        want = self.cls(in_t)
        rt = np.array([self.find(int(t)) if t > FLASH else int(t) for t in tid[:n_valid]], np.int32)
        bad = rt != want
        self.report(sg, index, npu_op, "dma-src", in_t, bad, rt, coord[:n_valid], None)
        new_tid = np.where(tid > FLASH, self.cls(out_t), tid)
        self.mem.write(dest.region, daddr, new_tid, coord)

    def run_stripe(self, sg, index, cmd, npu_op, lut_region):
        ps = cmd.ps
        op = ps.primary_op
        arch = self.arch
        special_ifm = any(v != 0 for offs in op.tile_base_offsets_ifm for v in offs) or (
            op.attrs.get("padding", None) == Padding.TILE
        )
        # IFM
        self.check_fm_read(sg, index, npu_op, npu_op.ifm, cmd.ifm_tensor, ps.ifm_shapes[0], cmd.ifm_box, "ifm", special_ifm)
        # IFM2
        if isinstance(npu_op, NpuElementWiseOperation) and npu_op.ifm2 is not None and npu_op.ifm2_scalar is None:
            self.check_fm_read(
                sg, index, npu_op, npu_op.ifm2, cmd.ifm2_tensor, ps.ifm_shapes[1], cmd.ifm2_box, "ifm2", special_ifm
            )
        # weights and scales
        if cmd.weight_tensor is not None:
            src = cmd.weight_tensor.src_tensor if cmd.weight_tensor.src_tensor is not None else cmd.weight_tensor
            start_channel = cmd.weight_box.start_coord[-1]
            wi = 0
            for core in range(arch.ncores):
                key = WeightKey(core, start_channel)
                if key not in src.encoded_ranges:
                    continue
                wr = src.encoded_ranges[key]
                if wi < len(npu_op.weights):
                    self.check_range_against(
                        sg, index, npu_op, npu_op.weights[wi], src.buffer, wr.offset + wr.weight_offset, "weights", src
                    )
                    if cmd.scale_tensor is not None:
                        sr = cmd.scale_tensor.encoded_ranges[key]
                        self.check_range_against(
                            sg, index, npu_op, npu_op.biases[wi], cmd.scale_tensor.buffer, sr.offset, "scales",
                            cmd.scale_tensor,
                        )
                    else:
                        self.check_range_against(
                            sg, index, npu_op, npu_op.biases[wi], src.buffer, wr.offset, "scales", src
                        )
                wi += 1
            if wi != len(npu_op.weights):
                self.violations.append(
                    Violation(sg.name, index, npu_op.name, "weights", src.name, 1, "unexpected number of weight streams")
                )
        # lookup table
        lut_start = arch.shram_lut_address
        if op.activation_lut is not None and ps.lut_tensor is not None:
            lut_t = ps.lut_tensor
            ref = _const_bytes(lut_t)
            address = lut_start + int(npu_op.activation.lookup_table_index) * 256
            rng = NpuAddressRange(lut_region, address, ref.size)
            self.check_range_against(sg, index, npu_op, rng, ref, 0, "lut", lut_t)
        elif arch.shram_reserved_unused_banks == 0:
            # the accumulators of an operator without a lookup table use the SHRAM banks of the tables
            self.mem.invalidate(lut_region, lut_start, lut_start + arch.shram_lut_size)
        # OFM
        fm = npu_op.ofm
        start = list(cmd.ofm_box.start_coord)
        end = list(cmd.ofm_box.end_coord)
        while len(start) < 4:
            start.insert(0, 0)
            end.insert(0, 1)
        size = [int(e - s) for s, e in zip(start, end)]
        size[0] = 1  # see check_fm_read: only one batch is written
        es = _elem_size(fm)
        special_ofm = (
            list(op.ofm_stride_multiplier) != [1, 1, 1]
            or any(v != 0 for v in op.tile_base_offsets_ofm)
            or (cmd.ofm_tensor.ops and cmd.ofm_tensor.ops[0] is not None and cmd.ofm_tensor.ops[0].original_type == Op.Transpose)
        )
        addrs = fm_byte_addresses(fm, size[1], size[2], size[3]).ravel()
        if special_ofm:
            coords = np.full(addrs.shape, ANY, np.int64)
        else:
            coords = _linear_coords(ps.ofm_shapes[0].as_list(), start, size, es).ravel()
        self.mem.write(fm.region, addrs, self.cls(cmd.ofm_tensor), coords)

    # -- whole network ---------------------------------------------------------------------------------------------------
    def run(self):
        streams = {id(sg): pairs for sg, pairs in self.c.streams}
        root = self.nng.get_root_subgraph()
        self.run_cpu_subgraph(root, streams)
        return self.violations

    def run_cpu_subgraph(self, sg, streams):
        for ps in sg.passes:
            for op in ps.ops:
                if op.type == Op.CustomNpuOp:
                    callee = op.attrs["subgraph"]
                    self.run_npu_subgraph(callee, streams[id(callee)])
                elif op.type in (Op.Const,):
                    continue
                else:
                    for tens in op.outputs:
                        self.define_cpu_tensor(tens)


def check_compiled(compiled):
    chk = Checker(compiled)
    violations = chk.run()
    return violations, chk.stats


def describe(violations, limit=10):
    lines = []
    for v in violations[:limit]:
        lines.append(
            f"  [{v.sg} cmd {v.index}] {v.op}: {v.count} byte(s) of {v.kind} '{v.tensor}' not defined for it; {v.detail}"
        )
    if len(violations) > limit:
        lines.append(f"  ... and {len(violations) - limit} more")
    return "\n".join(lines)

# Runs a fixed corpus of models/configurations through compile + check; prints one JSON line
import os, sys, json, io, contextlib, random, traceback, time
ROOT = os.environ.get("C03_ROOT", os.getcwd())
sys.path.insert(0, ROOT)
sys.path.insert(0, os.path.dirname(os.path.abspath(__file__)))
import c03lib as L
from ethosu.vela.operation import Op, Padding
from ethosu.vela.data_type import DataType
from ethosu.vela.nn_graph import TensorAllocator
from ethosu.vela.errors import VelaError

U55 = dict(accelerator="ethos-u55-128")
U55_64 = dict(accelerator="ethos-u55-64", config="Arm/vela.ini", system_config="Ethos_U55_High_End_Embedded", memory_mode="Shared_Sram")
U65D = dict(accelerator="ethos-u65-256", config="Arm/vela.ini", system_config="Ethos_U65_High_End", memory_mode="Dedicated_Sram")
U65_512D = dict(accelerator="ethos-u65-512", config="Arm/vela.ini", system_config="Ethos_U65_High_End", memory_mode="Dedicated_Sram")
U65 = dict(accelerator="ethos-u65-256")

def chain(dtype=DataType.int8):
    net = L.Net(dtype=dtype)
    x = net.input([1, 40, 24, 8])
    y = net.conv2d(x, 16)
    y = net.conv2d(y, 16)
    y = net.dwconv(y)
    y = net.conv2d(y, 32, stride=(2, 2))
    y = net.conv2d(y, 32, k=(5, 5))
    y = net.pool(y)
    return net, [y]

def bigconv():
    net = L.Net()
    x = net.input([1, 8, 8, 32])
    y = net.conv2d(x, 256)
    y = net.conv2d(y, 320, k=(1, 1))
    y = net.conv2d(y, 64)
    return net, [y]

def lutchain(dtype=DataType.int8):
    net = L.Net(dtype=dtype)
    x = net.input([1, 12, 12, 16])
    y = net.conv2d(x, 16)
    for i in range(5):
        y = net.tanh(y)
        y = net.conv2d(y, 16, k=(1, 1))
        y = net.sigmoid(y)
        y = net.leaky_relu(y, alpha=0.1 + 0.05 * i)
    y = net.tanh(y)
    return net, [y]

def twosg():
    net = L.Net()
    x = net.input([1, 32, 32, 16])
    a = net.conv2d(x, 16)
    b = net.conv2d(a, 16)
    c = net.custom_cpu(b)
    d = net.conv2d(c, 16)
    e = net.add(d, a)
    f = net.add(e, x)
    g = net.custom_cpu(f)
    h = net.mul(g, b)
    return net, [h]

def shapes():
    net = L.Net()
    x = net.input([1, 16, 32, 32])
    a = net.conv2d(x, 32)
    s1 = net.strided_slice(a, [0, 0, 0, 0], [1, 16, 32, 16])
    s2 = net.strided_slice(a, [0, 0, 0, 16], [1, 16, 32, 32])
    b = net.add(s1, s2)
    r = net.reshape(b, [1, 32, 16, 16])
    c = net.conv2d(r, 24)
    d = net.concat([c, r], axis=3)
    e = net.pad(d, [[0, 0], [1, 1], [2, 2], [0, 0]])
    f = net.conv2d(e, 16, padding=Padding.VALID)
    g = net.concat([f, f], axis=1)
    h = net.reshape(g, [1, g.shape[1] * g.shape[2], 1, 16])
    i = net.add(h, net.const([1, 1, 1, 16]))
    return net, [i, b]

def resize():
    net = L.Net()
    x = net.input([1, 16, 16, 16])
    a = net.conv2d(x, 16)
    b = net.resize_nearest(a, (32, 32))
    c = net.conv2d(b, 16, dilation=(2, 2))
    d = net.resize_nearest(c, (64, 64))
    e = net.dwconv(d, k=(5, 5), stride=(2, 2))
    f = net.pool(e, kind="avg", k=(3, 3), stride=(1, 1), padding=Padding.SAME)
    return net, [f]

def eltwise():
    net = L.Net()
    x = net.input([1, 32, 32, 16])
    x2 = net.input([1, 32, 32, 16])
    a = net.add(x, x2)
    b = net.mul(a, net.const([1, 1, 1, 16]))
    c = net.add(b, net.const([1, 32, 32, 16]))
    d = net.conv2d(c, 16)
    e = net.add(d, c)
    f = net.leaky_relu(e)
    g = net.add(f, d)
    h = net.binary(Op.Sub, g, a)
    i = net.reshape(h, [1, 16, 64, 16])
    j = net.add(i, i)
    k = net.binary(Op.Maximum, j, net.const([1, 16, 64, 16]))
    return net, [k, e]

def memcpy():
    net = L.Net()
    x = net.input([1, 16, 16, 16])
    t = net.conv2d(x, 16)
    r = net.reshape(t, [1, 32, 8, 16])
    y1 = net.conv2d(r, 16)
    y2 = net.add(t, net.const([1, 1, 1, 16]))
    r2 = net.reshape(y2, [1, 32, 8, 16])
    z = net.add(y1, r2)
    r3 = net.reshape(x, [1, 32, 8, 16])
    z2 = net.add(z, r3)
    z3 = net.leaky_relu(z2)
    return net, [z3, y2]

CASES = [
    ("chain_size_u55", chain, dict(U55, optimise="Size")),
    ("chain_u65d_25k", chain, dict(U65D, arena_cache_size=25000)),
    ("chain_u55_12k", chain, dict(U55, arena_cache_size=12000)),
    ("chain16_u65_size", lambda: chain(DataType.int16), dict(U65, optimise="Size")),
    ("bigconv_u55_12k", bigconv, dict(U55, arena_cache_size=12000)),
    ("bigconv_u65_512d", bigconv, dict(U65_512D, arena_cache_size=100000)),
    ("lut_u55_64", lutchain, dict(U55_64)),
    ("lut_u55_128_size", lutchain, dict(U55, optimise="Size")),
    ("lut16_u65", lambda: lutchain(DataType.int16), dict(U65)),
    ("twosg_u55", twosg, dict(U55)),
    ("twosg_u65d", twosg, dict(U65D, arena_cache_size=20000)),
    ("shapes_u55", shapes, dict(U55)),
    ("shapes_u65d", shapes, dict(U65D, arena_cache_size=100000, allocator=TensorAllocator.Greedy)),
    ("bigconv_u65d_60k", bigconv, dict(U65D, arena_cache_size=60000)),
    ("bigconv_u55_100k", bigconv, dict(U55, arena_cache_size=100000)),
    ("memcpy_u55", memcpy, dict(U55)),
    ("memcpy_u65d", memcpy, dict(U65D, arena_cache_size=40000)),
    ("resize_u55_size", resize, dict(U55, optimise="Size")),
    ("resize_u65d", resize, dict(U65D, arena_cache_size=40000)),
    ("eltwise_u55", eltwise, dict(U55)),
    ("eltwise_u55_lin", eltwise, dict(U55_64, allocator=TensorAllocator.LinearAlloc, optimise="Size")),
]

def run_case(name, build, kw):
    try:
        net, outs = build()
        data = net.serialise(outs)
        buf = io.StringIO()
        with contextlib.redirect_stdout(buf):
            c = L.compile_model(data, **kw)
        v, stats = L.check_compiled(c)
        if v:
            return "V%d:%s/%s" % (len(v), v[0].kind, v[0].op)
        return "ok"
    except VelaError as e:
        return "VELAERR"
    except AssertionError as e:
        return "ASSERT"
    except Exception as e:
        return "EXC:" + type(e).__name__

if __name__ == "__main__":
    t0 = time.time()
    only = sys.argv[1:] 
    res = {}
    for name, build, kw in CASES:
        if only and name not in only:
            continue
        res[name] = run_case(name, build, kw)
    print("SMOKE " + json.dumps(res) + " %.1fs" % (time.time() - t0))

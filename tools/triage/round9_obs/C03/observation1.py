# Observation 1 (UNMODIFIED tree): RESIZE_BILINEAR (2x, half_pixel_centers=True) followed by a RESHAPE that changes
# the width.  The RESHAPE is bypassed (the resize writes the RESHAPE's output tensor directly), and the four interleaved
# depthwise convolutions that implement the resize take the OFM width / strides from that (re-shaped) tensor instead of
# from the resize output shape.  Only the first half of the tensor is written; the consumer of the RESHAPE reads the
# second half, which no operation of the inference has defined.
# Exit status 1 (prints the undefined reads) when the violation is present.
import contextlib
import io
import os
import sys

sys.path.insert(0, os.getcwd())
sys.path.insert(0, os.path.dirname(os.path.abspath(__file__)))
import c03lib as L  # noqa: E402


def main():
    net = L.Net()
    x = net.input([1, 6, 8, 16])
    a = net.conv2d(x, 16)
    b = net.resize_bilinear(a, (12, 16), half_pixel_centers=True)  # -> [1, 12, 16, 16]
    c = net.reshape(b, [1, 24, 8, 16])
    d = net.conv2d(c, 8)
    data = net.serialise([d])
    with contextlib.redirect_stdout(io.StringIO()):
        compiled = L.compile_model(data, accelerator="ethos-u55-128")
    violations, stats = L.check_compiled(compiled)
    for sg, pairs in compiled.streams:
        for cmd, op in pairs:
            if hasattr(op, "ofm") and op.ofm is not None and cmd.ofm_tensor.name.startswith("reshape"):
                print(
                    f"writer {op.name}: OFM base {op.ofm.tiles.addresses[0]}, strides {tuple(op.ofm.strides)},"
                    f" block {tuple(op.ofm.shape)} (tensor {cmd.ofm_tensor.name} {cmd.ofm_tensor.shape})"
                )
    print(stats)
    if violations:
        print(L.describe(violations))
        print("VIOLATION: bytes consumed by an NPU operation were never defined")
        return 1
    print("no violation")
    return 0


if __name__ == "__main__":
    sys.exit(main())

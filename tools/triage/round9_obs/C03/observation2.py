# Observation 2 (UNMODIFIED tree): PACK / UNPACK of rank-3 tensors whose leading dimension is > 1, along an axis other
# than 0.  The 4D view of the packed tensor has a batch size > 1 ([8, 2, 12, 16]); the batch size check of the
# supported-operator checker only looks at the IFMs of PACK (batch 1) and exempts UNPACK, so both stay on the NPU.
# The copy operators that implement them get boxes that span all batches, but an NPU operation has no batch dimension:
# only batch 0 is copied.  The consumer then reads the full [8, 12, 16] tensor, most of which was never written
# (it holds stale bytes of other tensors).
# Exit status 1 (prints the undefined reads) when the violation is present.
import contextlib
import io
import os
import sys

sys.path.insert(0, os.getcwd())
sys.path.insert(0, os.path.dirname(os.path.abspath(__file__)))
import c03lib as L  # noqa: E402


def pack_unpack():
    net = L.Net()
    x = net.input([8, 12, 16])
    a = net.add(x, net.const([8, 12, 16]))
    b = net.mul(x, net.const([8, 12, 16]))
    p = net.pack([a, b], 1)  # -> [8, 2, 12, 16]
    u = net.unpack(p, 1)  # -> 2 x [8, 12, 16]
    return net, [net.add(u[0], u[1])]


def unpack_only():
    net = L.Net()
    x = net.input([4, 2, 8, 16])
    u = net.unpack(x, 1)  # -> 2 x [4, 8, 16]
    return net, [net.add(u[0], u[1])]


def split_batch2():
    # the same defect with SPLIT (exempt from the batch size check) on a batch-2 tensor, followed by a RESHAPE that
    # folds the batch into the height: the slice copy only copies batch 0, the convolution reads both
    net = L.Net()
    x = net.input([2, 8, 8, 16])
    o = net.split(x, 3, 2)  # 2 x [2, 8, 8, 8]
    r = net.reshape(o[1], [1, 16, 8, 8])
    return net, [net.conv2d(r, 8)]


def slice_batch2():
    net = L.Net()
    x = net.input([2, 8, 8, 16])
    s = net.strided_slice(x, [0, 0, 0, 8], [2, 8, 8, 16])
    r = net.reshape(s, [1, 16, 8, 8])
    return net, [net.conv2d(r, 8)]


def concat_batch():
    # CONCATENATION along the batch axis: the no-op ADD that add_add_op_after_concat() appends to every concatenation
    # works on the [2, 8, 8, 16] result but, as an NPU operation, only processes batch 0
    net = L.Net()
    x = net.input([1, 8, 8, 16])
    a = net.conv2d(x, 16)
    b = net.conv2d(a, 16)
    c = net.concat([a, b], axis=0)  # [2, 8, 8, 16]
    r = net.reshape(c, [1, 16, 8, 16])
    return net, [net.conv2d(r, 8)]


def main():
    found = False
    for name, build in (
        ("pack+unpack", pack_unpack),
        ("unpack of a network input", unpack_only),
        ("split of a batch-2 tensor + reshape", split_batch2),
        ("strided slice of a batch-2 tensor + reshape", slice_batch2),
        ("concatenation along the batch axis + reshape", concat_batch),
    ):
        net, outs = build()
        data = net.serialise(outs)
        with contextlib.redirect_stdout(io.StringIO()):
            compiled = L.compile_model(data, accelerator="ethos-u55-128")
        violations, stats = L.check_compiled(compiled)
        print(f"{name}: NPU subgraphs {len(compiled.streams)}, {stats}")
        for sg, pairs in compiled.streams:
            for cmd, op in pairs:
                if hasattr(op, "ofm") and op.ofm is not None:
                    print(f"   {op.name}: OFM box {cmd.ofm_box} -> NPU operation writes {tuple(op.ofm.shape)} (h, w, c)")
        if violations:
            found = True
            print(L.describe(violations))
    if found:
        print("VIOLATION: bytes consumed by an NPU operation were never defined")
        return 1
    print("no violation")
    return 0


if __name__ == "__main__":
    sys.exit(main())

import os, sys, traceback, random
sys.path.insert(0, os.getcwd())
sys.path.insert(0, os.path.dirname(os.path.abspath(__file__)))
import c03lib as L
from ethosu.vela.operation import Op, Padding
from ethosu.vela.data_type import DataType
from ethosu.vela.nn_graph import TensorAllocator
from ethosu.vela.errors import VelaError

CONFIGS = [
    dict(accelerator="ethos-u55-128"),
    dict(accelerator="ethos-u55-64", config="Arm/vela.ini", system_config="Ethos_U55_High_End_Embedded", memory_mode="Shared_Sram"),
    dict(accelerator="ethos-u55-256", config="Arm/vela.ini", system_config="Ethos_U55_High_End_Embedded", memory_mode="Sram_Only"),
    dict(accelerator="ethos-u55-32", config="Arm/vela.ini", system_config="Ethos_U55_Deep_Embedded", memory_mode="Shared_Sram"),
    dict(accelerator="ethos-u65-256"),
    dict(accelerator="ethos-u65-256", config="Arm/vela.ini", system_config="Ethos_U65_High_End", memory_mode="Dedicated_Sram"),
    dict(accelerator="ethos-u65-512", config="Arm/vela.ini", system_config="Ethos_U65_High_End", memory_mode="Dedicated_Sram"),
    dict(accelerator="ethos-u65-512", config="Arm/vela.ini", system_config="Ethos_U65_Mid_End", memory_mode="Shared_Sram"),
    dict(accelerator="ethos-u65-256", config="Arm/vela.ini", system_config="Ethos_U65_Embedded", memory_mode="Sram_Only"),
]

def rand_net(rnd, seed):
    dtype = rnd.choice([DataType.int8, DataType.int8, DataType.int8, DataType.uint8, DataType.int16])
    net = L.Net(dtype=dtype, seed=seed)
    h = rnd.choice([8, 16, 24, 32, 33, 48, 64])
    w = rnd.choice([8, 16, 24, 32, 40, 64])
    c = rnd.choice([1, 3, 8, 16, 24, 32])
    x = net.input([1, h, w, c])
    live = [x]
    cur = x
    nops = rnd.randint(2, 9)
    for i in range(nops):
        kind = rnd.choice(["conv", "conv", "conv", "dw", "pool", "add", "lut", "concat", "resize", "mul", "lrelu", "cpu", "reshape", "slice", "conv1x1", "addconst", "pad", "softmax", "mean", "resizebl", "split", "tconv", "prelu", "hswish", "abs", "fc"])
        n, hh, ww, cc = cur.shape
        try:
            if kind == "conv":
                k = rnd.choice([(1, 1), (3, 3), (3, 3), (5, 5), (3, 1), (1, 7), (2, 2)])
                s = rnd.choice([(1, 1), (1, 1), (2, 2), (1, 2), (2, 1)])
                d = rnd.choice([(1, 1), (1, 1), (1, 1), (2, 2)])
                pad = rnd.choice([Padding.SAME, Padding.VALID])
                if d != (1, 1):
                    s = (1, 1)
                if pad == Padding.VALID and (hh < (k[0] - 1) * d[0] + 1 or ww < (k[1] - 1) * d[1] + 1):
                    pad = Padding.SAME
                oc = rnd.choice([8, 16, 16, 32, 48, 64, 96, 130])
                act = rnd.choice([None, None, Op.Relu, Op.Relu6])
                cur = net.conv2d(cur, oc, k=k, stride=s, padding=pad, dilation=d, act=act)
            elif kind == "conv1x1":
                cur = net.conv2d(cur, rnd.choice([8, 16, 32, 64]), k=(1, 1))
            elif kind == "dw":
                k = rnd.choice([(3, 3), (3, 3), (5, 5), (2, 2)])
                s = rnd.choice([(1, 1), (1, 1), (2, 2)])
                cur = net.dwconv(cur, k=k, stride=s, padding=Padding.SAME)
            elif kind == "pool":
                if hh >= 2 and ww >= 2:
                    k = rnd.choice([(2, 2), (3, 3)])
                    s = rnd.choice([(2, 2), (1, 1)])
                    cur = net.pool(cur, kind=rnd.choice(["max", "avg"]), k=k, stride=s, padding=Padding.SAME)
            elif kind == "add":
                cands = [t for t in live if t.shape == cur.shape and t is not cur and t.dtype == cur.dtype]
                if cands:
                    cur = net.add(cur, rnd.choice(cands))
                else:
                    cur = net.add(cur, cur)
            elif kind == "mul":
                cands = [t for t in live if t.shape == cur.shape and t is not cur and t.dtype == cur.dtype]
                if cands:
                    cur = net.mul(cur, rnd.choice(cands))
            elif kind == "addconst":
                shp = rnd.choice([[1, 1, 1, cc], [1, hh, ww, cc], [1, 1, ww, cc]])
                cur = net.add(cur, net.const(shp, cur.dtype))
            elif kind == "lut":
                cur = rnd.choice([net.tanh, net.sigmoid])(cur)
            elif kind == "lrelu":
                cur = net.leaky_relu(cur)
            elif kind == "concat":
                cands = [t for t in live if t.shape[:3] == cur.shape[:3] and t is not cur and t.dtype == cur.dtype]
                if cands:
                    cur = net.concat([cur, rnd.choice(cands)], axis=3)
                else:
                    cands = [t for t in live if t.shape[2:] == cur.shape[2:] and t is not cur and t.dtype == cur.dtype]
                    if cands:
                        cur = net.concat([cur, rnd.choice(cands)], axis=1)
            elif kind == "resize":
                if hh * 2 <= 128 and ww * 2 <= 128:
                    cur = net.resize_nearest(cur, (hh * 2, ww * 2))
            elif kind == "cpu":
                cur = net.custom_cpu(cur)
            elif kind == "reshape":
                if ww % 2 == 0:
                    cur = net.reshape(cur, [1, hh * 2, ww // 2, cc])
            elif kind == "slice":
                if cc >= 16:
                    b = rnd.choice([0, 8, 16]) if cc > 16 else rnd.choice([0, 8])
                    e = min(cc, b + rnd.choice([8, 16]))
                    if e > b:
                        cur = net.strided_slice(cur, [0, 0, 0, b], [1, hh, ww, e])
                elif hh >= 4:
                    cur = net.strided_slice(cur, [0, 1, 0, 0], [1, hh - 1, ww, cc])
            elif kind == "pad":
                cur = net.pad(cur, [[0, 0], [1, 1], [1, 1], [0, 0]])
            elif kind == "softmax":
                if cc >= 2:
                    cur = net.softmax(cur)
            elif kind == "mean":
                if hh * ww > 1:
                    m = net.mean(cur)
                    cur = net.add(cur, m) if rnd.random() < 0.5 else m
            elif kind == "resizebl":
                if hh * 2 <= 64 and ww * 2 <= 64:
                    cur = net.resize_bilinear(cur, (hh * 2, ww * 2), half_pixel_centers=rnd.random() < 0.5, align_corners=False)
            elif kind == "split":
                ax = rnd.choice([1, 2, 3])
                if cur.shape[ax] % 2 == 0 and cur.shape[ax] >= 2:
                    o1, o2 = net.split(cur, ax, 2)
                    live.append(o1)
                    r = rnd.random()
                    if r < 0.4:
                        cur = net.add(o1, o2)
                    elif r < 0.7:
                        cur = net.concat([o2, o1], axis=ax)
                    else:
                        cur = o2
            elif kind == "tconv":
                if hh * 2 <= 64 and ww * 2 <= 64:
                    cur = net.transpose_conv(cur, rnd.choice([8, 16]), k=rnd.choice([(2, 2), (3, 3)]))
            elif kind == "prelu":
                cur = net.prelu(cur)
            elif kind == "hswish":
                if cur.dtype != DataType.int16:
                    cur = net.hardswish(cur)
            elif kind == "abs":
                cur = net.abs(cur)
            elif kind == "fc":
                if hh * ww * cc <= 2048:
                    f = net.reshape(cur, [1, hh * ww * cc])
                    f = net.fully_connected(f, rnd.choice([10, 32, 64]))
                    cur = net.reshape(f, [1, 1, 1, f.shape[1]])
        except Exception:
            traceback.print_exc()
            raise
        if cur not in live:
            live.append(cur)
    outs = [cur]
    # sometimes a second output from an intermediate tensor
    if rnd.random() < 0.25 and len(live) > 2:
        t = rnd.choice(live[1:-1])
        if t not in outs:
            outs.append(t)
    return net, outs

def main():
    start = int(sys.argv[1]) if len(sys.argv) > 1 else 0
    count = int(sys.argv[2]) if len(sys.argv) > 2 else 50
    for seed in range(start, start + count):
        rnd = random.Random(seed)
        net, outs = rand_net(rnd, seed)
        try:
            data = net.serialise(outs)
        except Exception as e:
            print(seed, "SERIALISE-ERR", repr(e)); continue
        kw = dict(rnd.choice(CONFIGS))
        kw["optimise"] = rnd.choice(["Performance", "Performance", "Size"])
        if rnd.random() < 0.6:
            kw["arena_cache_size"] = rnd.choice([8000, 16000, 30000, 50000, 100000, 200000])
        kw["allocator"] = rnd.choice([TensorAllocator.HillClimb, TensorAllocator.HillClimb, TensorAllocator.Greedy, TensorAllocator.LinearAlloc])
        desc = [(op.type.name, op.outputs[0].shape) for op in net.ops]
        try:
            import io, contextlib
            buf = io.StringIO()
            with contextlib.redirect_stdout(buf):
                c = L.compile_model(bytearray(data), **kw)
            v, stats = L.check_compiled(c)
        except VelaError as e:
            print(seed, "VELA-ERR", str(e)[:150].replace("\n", " ")); continue
        except Exception as e:
            tb = traceback.format_exc().strip().splitlines()
            print(seed, "EXC", repr(e)[:200], "|", tb[-3].strip() if len(tb) > 3 else "", kw, desc); continue
        ncasc = sum(len(sg.schedule.cascades) for sg, _ in c.streams)
        if v:
            print(seed, "VIOLATION", len(v), kw, desc)
            print(L.describe(v, 4))
        else:
            print(seed, "ok", stats, "cascades", ncasc, "nsg", len(c.streams))

if __name__ == "__main__":
    main()

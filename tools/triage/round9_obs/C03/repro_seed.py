import os, sys, io, contextlib, random
sys.path.insert(0, os.getcwd()); sys.path.insert(0, "out")
import c03lib as L, fuzz
from ethosu.vela.nn_graph import TensorAllocator
seed = int(sys.argv[1])
rnd = random.Random(seed)
net, outs = fuzz.rand_net(rnd, seed)
data = net.serialise(outs)
kw = dict(rnd.choice(fuzz.CONFIGS))
kw["optimise"] = rnd.choice(["Performance", "Performance", "Size"])
if rnd.random() < 0.6:
    kw["arena_cache_size"] = rnd.choice([8000, 16000, 30000, 50000, 100000, 200000])
kw["allocator"] = rnd.choice([TensorAllocator.HillClimb, TensorAllocator.HillClimb, TensorAllocator.Greedy, TensorAllocator.LinearAlloc])
print(kw)
for op in net.ops:
    print(op.type.name, [ (t.name, t.shape) for t in op.inputs if t is not None], "->", [t.shape for t in op.outputs], {k:v for k,v in op.attrs.items() if k not in ("fused_activation_function",)})
print("outs", [t.name for t in outs])
comp = L.compile_model(data, verbose_hlcs="-v" in sys.argv, **kw)
v, stats = L.check_compiled(comp)
print(stats); print(L.describe(v))
for sg, pairs in comp.streams:
    for cmd, op in pairs:
        if hasattr(op, "ofm") and op.ofm is not None:
            print(op.name, "| ifm", cmd.ifm_tensor.name, cmd.ifm_tensor.format.name, op.ifm.region, [int(a) for a in op.ifm.tiles.addresses], (int(op.ifm.tiles.height_0), int(op.ifm.tiles.width_0)), tuple(op.ifm.strides), tuple(op.ifm.shape), "| ofm", cmd.ofm_tensor.name, cmd.ofm_tensor.format.name, op.ofm.region, op.ofm.tiles.addresses, tuple(op.ofm.strides), tuple(op.ofm.shape))
        else:
            print("DMA", op.src, op.dest)

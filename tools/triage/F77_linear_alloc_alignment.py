"""Observation 3 (UNMODIFIED tree): linear_allocate_live_ranges ignores the alignment stored in the live ranges.

LinearAlloc only pads every size to its alloc_granularity argument; LiveRange.get_alignment() is never consulted.
Called with the default granularity (Tensor.AllocationQuantum = 16) on ranges that requested 64/128-byte alignment it
returns addresses that are only 16-byte aligned, and its built-in verify_alignment() check does not notice because it
tests against the same granularity (and only for CPU tensors).  In the compiler the function is always called with
alloc_granularity = --cpu-tensor-alignment, which is the largest alignment any range can carry, so this is an API-level
observation (Greedy and HillClimb honour the per-range alignment for the same input).
Exits 1 when reproduced.
"""
import os
import sys

sys.path.insert(0, os.getcwd())

from ethosu.vela import tensor_allocation  # noqa: E402
from ethosu.vela.data_type import DataType  # noqa: E402
from ethosu.vela.live_range import LiveRangeGraph  # noqa: E402
from ethosu.vela.tensor import Tensor  # noqa: E402

spec = [(0, 1, 16, 16), (0, 1, 64, 64), (1, 2, 128, 128)]  # (start, end, size, alignment)
graph = LiveRangeGraph()
for i, (start, end, size, alignment) in enumerate(spec):
    lr = graph.get_or_create_range(Tensor([size], DataType.uint8, "t%d" % i), alignment)
    lr.start_time, lr.end_time, lr.size = start, end, size
total = tensor_allocation.linear_allocate_live_ranges(graph)
bad = 0
for lr, (_, _, _, alignment) in zip(graph.lrs, spec):
    addr = lr.tensors[0].address
    print("%s: address %d requested alignment %d" % (lr.name, addr, lr.get_alignment()))
    if addr % alignment:
        print("  MISALIGNED")
        bad = 1
sys.exit(bad)

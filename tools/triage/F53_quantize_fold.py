import sys, os
sys.path.insert(0, "/verif/tools/triage")
from modelkit import *
from ethosu.vela.tflite_graph_optimiser import optimise_quantize
vals = np.array([2.7, -2.7, 0.49, 1.5, -0.5], np.float32)
ifm = create_const_tensor("c", [5], DataType.float32, vals)
ofm = fm("q", [5], 1.0); ofm.quantization.zero_point = 0; ofm.quantization.quant_min = -128; ofm.quantization.quant_max = 127
op = Operation(Op.Quantize, "quant"); op.attrs = {}; op.add_input_tensor(ifm); op.set_output_tensor(ofm); op.run_on_npu = True; op.op_index = 0
ifm.ops[0].op_index = 1
optimise_quantize(op, None, None)
ref = [int(np.sign(v) * np.floor(abs(v) + 0.5)) for v in vals]
print("folded", list(ofm.values), "reference (round half away)", ref)
sys.exit(0 if list(ofm.values) == ref else 1)

# OBSERVATION 2 (unmodified tree): calc_blockdep / intersects() compares block COORDINATES whenever
# ifm.shape == prev_ofm.shape and ifm.tiles == prev_ofm.tiles, without looking at data type, layout or strides.
# If the consumer reads the same buffer with another element size / layout / strides (all accepted by the API),
# equal coordinates are different bytes and the programmed BLOCKDEP is too large.
#   case 1: producer writes 8x8x16 int8 (1024 bytes at 0x1000), consumer reads 8x8x16 int16 from 0x1000:
#           IFM rows 0-3 are the bytes of OFM rows 0-7, so the first job (4 rows) reads the producer's last block.
#   case 2: producer writes 8x8x24 NHWC, consumer reads the same buffer as NHCWB16.
#   case 3: same shape and base address, consumer uses explicit strides (row pitch 256 instead of 128).
# run: cd /tmp/seed5/C04 && /venv/bin/python out/observation2.py
import os
import sys

sys.path.insert(0, os.getcwd())
sys.path.insert(0, os.path.join(os.getcwd(), "out"))
from ethosu.vela.api import *  # noqa
import c04_oracle as O  # noqa


def fm(h, w, d, addr, dtype=NpuDataType.INT8, layout=NpuLayout.NHWC, strides=None):
    f = NpuFeatureMap()
    f.data_type = dtype
    f.shape = NpuShape3D(height=h, width=w, depth=d)
    f.tiles = NpuTileBox(height_0=h, height_1=h, width_0=w, addresses=[addr, 0, 0, 0])
    f.region = 1
    f.layout = layout
    f.quantization = NpuQuantization(scale_f32=1.0, zero_point=0)
    f.strides = strides
    return f


def pool(ifm, ofm, block):
    op = NpuPoolingOperation(NpuPoolingOp.MAX)
    op.ifm, op.ofm = ifm, ofm
    op.kernel = NpuKernel(1, 1)
    op.padding = NpuPadding(0, 0, 0, 0)
    op.block_config = block
    return op


def show(words, name):
    for e in O.build_ops(words, name):
        if e[0] == "op":
            print("      ", e[1].desc, ("BLOCKDEP=%d" % e[1].blockdep) if e[1].kind == "kernel" else "")
        else:
            print("      ", e[0], e[1])


bad = False
acc, name = NpuAccelerator.Ethos_U55_128, "U55_128"
cases = []
# case 1: int8 producer, int16 consumer
p = pool(fm(8, 8, 16, 0x8000), fm(8, 8, 16, 0x1000), NpuShape3D(2, 8, 16))
c = pool(fm(8, 8, 16, 0x1000, dtype=NpuDataType.INT16), fm(8, 8, 16, 0x4000, dtype=NpuDataType.INT16), NpuShape3D(4, 8, 16))
cases.append(("int8 -> int16", [p, c]))
# case 2: NHWC producer, NHCWB16 consumer
# (NHWC row pitch 8*24 = 192 bytes, NHCWB16 row pitch 8*32 = 256 bytes: IFM rows 4-5 hold the bytes of OFM rows 6-7)
p = pool(fm(8, 8, 24, 0x8000), fm(8, 8, 24, 0x1000), NpuShape3D(2, 8, 24))
c = pool(fm(8, 8, 24, 0x1000, layout=NpuLayout.NHCWB16), fm(8, 8, 24, 0x4000), NpuShape3D(6, 8, 24))
cases.append(("NHWC -> NHCWB16", [p, c]))
# case 3: explicit strides on the consumer side
p = pool(fm(8, 8, 16, 0x8000), fm(8, 8, 16, 0x1000), NpuShape3D(2, 8, 16))
c = pool(
    fm(8, 8, 16, 0x1000, strides=NpuShape3D(height=256, width=16, depth=1)), fm(8, 8, 16, 0x4000), NpuShape3D(4, 8, 16)
)
cases.append(("default strides -> row pitch 256", [p, c]))
for title, ops in cases:
    words = npu_generate_register_command_stream(ops, acc)
    v = O.check_stream(words, name)
    print(title)
    show(words, name)
    for x in v:
        print("   VIOLATION:", x)
    bad |= bool(v)
print("VIOLATION OBSERVED" if bad else "nothing observed")

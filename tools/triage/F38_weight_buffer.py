"""C02 demonstration 0: OBSERVATION on the UNMODIFIED tree: single weight buffer that is too small for the odd depth slices

Builds a small int8 .tflite network in memory, compiles it with the Vela in this worktree and then checks -
with a decoder for the emitted Ethos-U command stream that is independent of the compiler - that every byte
address the command stream reads or writes lies inside the extent of the region it names, as those extents are
published in the output file (shapes of the flash / scratch / scratch_fast tensors of the ethos-u custom operator).

Run as:  cd /tmp/seed4/C02 && /venv/bin/python out/observation_pristine.py      (exit 0 = PASS, exit 1 = FAIL)
"""
import os
import struct
import sys
import tempfile
import types

sys.path.insert(0, os.getcwd())

import numpy as np

from ethosu.vela import tflite_writer
from ethosu.vela import vela
from ethosu.vela.data_type import DataType
from ethosu.vela.nn_graph import Graph
from ethosu.vela.nn_graph import PassPlacement
from ethosu.vela.nn_graph import Subgraph
from ethosu.vela.operation import Op
from ethosu.vela.operation import Operation
from ethosu.vela.operation import Padding
from ethosu.vela.tensor import create_const_tensor
from ethosu.vela.tensor import QuantizationParameters
from ethosu.vela.tensor import Tensor
from ethosu.vela.tflite import Model as TflModel


# ----------------------------------------------------------------------------------------------------------------------
# Model building (uses Vela's own graph classes and TFLite writer)
# ----------------------------------------------------------------------------------------------------------------------
def quant(scale, per_channel=None):
    q = QuantizationParameters()
    if per_channel is None:
        q.scale_f32 = np.float32(scale)
        q.zero_point = 0
    else:
        q.scale_f32 = np.full((per_channel,), scale, np.float32)
        q.zero_point = np.zeros((per_channel,), np.int64)
    q.quant_min = -128
    q.quant_max = 127
    return q


class ModelBuilder:
    def __init__(self, seed=1):
        self.ops = []
        self.inputs = []
        self.rng = np.random.RandomState(seed)
        self.count = 0

    def name(self, prefix):
        self.count += 1
        return "%s%d" % (prefix, self.count)

    def feature_map(self, shape, name, scale=0.05):
        tens = Tensor(list(shape), DataType.int8, name)
        tens.quantization = quant(scale)
        return tens

    def input(self, shape):
        tens = self.feature_map(shape, self.name("input"))
        Operation(Op.Placeholder, tens.name + "_placeholder").set_output_tensor(tens)
        self.inputs.append(tens)
        return tens

    def add_op(self, op_type, name, inputs, ofm, attrs):
        op = Operation(op_type, name)
        op.inputs = list(inputs)
        for tens in inputs:
            tens.consumer_list.append(op)
        op.set_output_tensor(ofm)
        op.attrs = attrs
        self.ops.append(op)
        return ofm

    def conv(self, ifm, out_channels, kernel, weights=None, ofm_scale=0.05):
        _, h, w, c = ifm.shape
        name = self.name("conv")
        if weights is None:
            values = self.rng.randint(-127, 128, size=(out_channels, kernel, kernel, c))
            weights = create_const_tensor(
                name + "_weights", list(values.shape), DataType.int8, values, quantization=quant(0.01, out_channels)
            )
        bias = create_const_tensor(
            name + "_bias",
            [out_channels],
            DataType.int32,
            self.rng.randint(-1000, 1000, size=(out_channels,)),
            quantization=quant(0.0005, out_channels),
        )
        ofm = self.feature_map([1, h, w, out_channels], name + "_out", ofm_scale)
        attrs = {
            "padding": Padding.SAME,
            "stride_w": 1,
            "stride_h": 1,
            "dilation_w_factor": 1,
            "dilation_h_factor": 1,
            "fused_activation_function": None,
        }
        return self.add_op(Op.Conv2DBias, name, [ifm, weights, bias], ofm, attrs)

    def fully_connected(self, ifm, out_channels):
        n, c = ifm.shape
        name = self.name("fc")
        values = self.rng.randint(-127, 128, size=(out_channels, c))
        weights = create_const_tensor(name + "_weights", [out_channels, c], DataType.int8, values, quantization=quant(0.01))
        bias = create_const_tensor(
            name + "_bias", [out_channels], DataType.int32, self.rng.randint(-1000, 1000, size=(out_channels,)),
            quantization=quant(0.0005),
        )
        ofm = self.feature_map([n, out_channels], name + "_out")
        attrs = {
            "fused_activation_function": None,
            "weights_format": 0,
            "keep_num_dims": False,
            "asymmetric_quantize_inputs": False,
        }
        return self.add_op(Op.FullyConnected, name, [ifm, weights, bias], ofm, attrs)

    def add(self, ifm, ifm2):
        name = self.name("add")
        ofm = self.feature_map(list(ifm.shape), name + "_out", 0.1)
        return self.add_op(Op.Add, name, [ifm, ifm2], ofm, {"fused_activation_function": None, "pot_scale_int16": False})

    def reshape(self, ifm, new_shape):
        name = self.name("reshape")
        shape_tens = create_const_tensor(name + "_shape", [len(new_shape)], DataType.int32, list(new_shape))
        ofm = self.feature_map(list(new_shape), name + "_out")
        return self.add_op(Op.Reshape, name, [ifm, shape_tens], ofm, {"new_shape": list(new_shape)})

    def build(self, outputs):
        nng = Graph("model")
        sg = Subgraph("main", PassPlacement.Cpu)
        sg.input_tensors = list(self.inputs)
        sg.original_inputs = list(self.inputs)
        sg.output_tensors = list(outputs)
        placeholder_ops = [tens.ops[0] for tens in self.inputs]
        sg.passes = [types.SimpleNamespace(ops=placeholder_ops + self.ops)]
        nng.subgraphs.append(sg)
        return bytes(tflite_writer.write_tflite_buffer(nng))


def compile_with_vela(model_bytes, vela_args):
    """Runs the command line driver of the Vela in this worktree, returns the bytes of the *_vela.tflite output"""
    scratch_dir = os.path.join(os.path.dirname(os.path.abspath(__file__)), "tmp")
    os.makedirs(scratch_dir, exist_ok=True)
    with tempfile.TemporaryDirectory(prefix="c02_demo_", dir=scratch_dir) as work_dir:
        path = os.path.join(work_dir, "model.tflite")
        with open(path, "wb") as f:
            f.write(model_bytes)
        # Vela is chatty: silence its standard output at file descriptor level while it runs
        sys.stdout.flush()
        saved_fd = os.dup(1)
        devnull = os.open(os.devnull, os.O_WRONLY)
        os.dup2(devnull, 1)
        try:
            rc = vela.main([path, "--output-dir", work_dir] + list(vela_args))
        finally:
            sys.stdout.flush()
            os.dup2(saved_fd, 1)
            os.close(saved_fd)
            os.close(devnull)
        if rc != 0:
            raise RuntimeError("vela returned %d for arguments %s" % (rc, vela_args))
        with open(os.path.join(work_dir, "model_vela.tflite"), "rb") as f:
            return f.read()


# ----------------------------------------------------------------------------------------------------------------------
# Independent oracle: decode the command stream of the output file, compare footprints with the published extents
# ----------------------------------------------------------------------------------------------------------------------
SHRAM_REGION = 3
SHRAM_BYTES = {
    "ethos-u55-32": 16 * 1024,
    "ethos-u55-64": 16 * 1024,
    "ethos-u55-128": 24 * 1024,
    "ethos-u55-256": 48 * 1024,
    "ethos-u65-256": 48 * 1024,
    "ethos-u65-512": 48 * 1024,
}

# cmd0 (no payload) and cmd1 (32-bit payload) codes of the Ethos-U command stream
OP_CONV, OP_DEPTHWISE, OP_POOL, OP_ELEMENTWISE, OP_DMA_START = 0x002, 0x003, 0x005, 0x006, 0x010
PAD_TOP, PAD_LEFT, PAD_RIGHT, PAD_BOTTOM, IFM_DEPTH_M1, IFM_PRECISION, IFM_UPSCALE = 0x100, 0x101, 0x102, 0x103, 0x104, 0x105, 0x107
IFM_WIDTH0_M1, IFM_HEIGHT0_M1, IFM_HEIGHT1_M1, IFM_REGION = 0x10A, 0x10B, 0x10C, 0x10F
OFM_WIDTH_M1, OFM_HEIGHT_M1, OFM_DEPTH_M1, OFM_PRECISION = 0x111, 0x112, 0x113, 0x114
OFM_WIDTH0_M1, OFM_HEIGHT0_M1, OFM_HEIGHT1_M1, OFM_REGION = 0x11A, 0x11B, 0x11C, 0x11F
KERNEL_WIDTH_M1, KERNEL_HEIGHT_M1, KERNEL_STRIDE, PARALLEL_MODE = 0x120, 0x121, 0x122, 0x123
WEIGHT_REGION, SCALE_REGION, DMA0_SRC_REGION, DMA0_DST_REGION = 0x128, 0x129, 0x130, 0x131
IFM2_BROADCAST, IFM2_PRECISION, IFM2_WIDTH0_M1, IFM2_HEIGHT0_M1, IFM2_HEIGHT1_M1, IFM2_REGION = 0x180, 0x185, 0x18A, 0x18B, 0x18C, 0x18F
IFM_BASE0, IFM_STRIDE_X, IFM_STRIDE_Y, IFM_STRIDE_C = 0x000, 0x004, 0x005, 0x006
OFM_BASE0, OFM_STRIDE_X, OFM_STRIDE_Y, OFM_STRIDE_C = 0x010, 0x014, 0x015, 0x016
WEIGHT_BASE, WEIGHT_LENGTH, SCALE_BASE, SCALE_LENGTH = 0x020, 0x021, 0x022, 0x023
DMA0_SRC, DMA0_DST, DMA0_LEN = 0x030, 0x031, 0x032
IFM2_BASE0, IFM2_STRIDE_X, IFM2_STRIDE_Y, IFM2_STRIDE_C = 0x080, 0x084, 0x085, 0x086
WEIGHT1_BASE, WEIGHT1_LENGTH, SCALE1_BASE, SCALE1_LENGTH = 0x090, 0x091, 0x092, 0x093
UNARY_ELEMENTWISE_MODES = (5, 6, 7)  # LRELU, ABS, CLZ


def read_npu_ops_of_output_file(buf):
    """For every ethos-u custom operator: the driver payload and the published sizes of its region tensors"""
    model = TflModel.Model.GetRootAsModel(bytearray(buf), 0)
    result = []
    for sg_idx in range(model.SubgraphsLength()):
        sg = model.Subgraphs(sg_idx)
        for op_idx in range(sg.OperatorsLength()):
            op = sg.Operators(op_idx)
            custom_code = model.OperatorCodes(op.OpcodeIndex()).CustomCode()
            if custom_code is None or custom_code.decode() != "ethos-u":
                continue
            # Inputs of the custom operator: command stream, constants (flash), scratch (arena), fast scratch, IFMs...
            tensors = [sg.Tensors(op.Inputs(i)) for i in range(4)]
            sizes = [t.Shape(0) for t in tensors]
            assert all(t.ShapeLength() == 1 for t in tensors)
            payload = model.Buffers(tensors[0].Buffer()).DataAsNumpy().tobytes()
            assert len(payload) == sizes[0]
            assert model.Buffers(tensors[1].Buffer()).DataLength() == sizes[1], "constants tensor shape != its data"
            result.append({"payload": payload, "flash": sizes[1], "scratch": sizes[2], "scratch_fast": sizes[3]})
    return result


def command_stream_words(payload):
    words = struct.unpack("<%dI" % (len(payload) // 4), payload)
    assert words[0] == struct.unpack("<I", b"COP1")[0]
    i = 1
    while i < len(words):
        tag = words[i] & 0xFF
        if tag == 0x01:  # config: 2 more words
            i += 3
        elif tag == 0x05:  # nop
            i += 1
        elif tag == 0x02:  # command stream of the given length
            length = (((words[i] >> 8) & 0xFF) << 16) | (words[i] >> 16)
            return list(words[i + 1 : i + 1 + length])
        else:
            raise ValueError("unknown driver action %#x" % tag)
    raise ValueError("no command stream in driver payload")


def feature_map_extent(r0, r1, base0, width0_reg, height0_reg, height1_reg, sx, sy, sc, nhcwb16, elem_size, H, W, D):
    """[lo, hi) of the byte addresses touched by a H x W x D volume addressed through the four tiles of a feature map"""
    bases = [r1.get(base0 + i, 0) for i in range(4)]
    width0 = r0.get(width0_reg, 0) + 1
    height0 = r0.get(height0_reg, 0) + 1
    height1 = r0.get(height1_reg, 0) + 1
    stride_x, stride_y, stride_c = r1.get(sx, 0), r1.get(sy, 0), r1.get(sc, 0)
    if nhcwb16:
        stride_x = 16 * elem_size
        depth_extent = ((D - 1) // 16) * stride_c + ((D - 1) % 16) * elem_size
    else:
        depth_extent = (D - 1) * elem_size
    tiles = []
    left_w = min(W, width0)
    tiles.append((bases[0], min(H, height0), left_w))
    if H > height0:
        tiles.append((bases[2], H - height0, left_w))
    if W > width0:
        tiles.append((bases[1], min(H, height1), W - width0))
        if H > height1:
            tiles.append((bases[3], H - height1, W - width0))
    lo = min(base for base, _, _ in tiles)
    hi = max(base + (th - 1) * stride_y + (tw - 1) * stride_x + depth_extent + elem_size for base, th, tw in tiles)
    return lo, hi


def memory_accesses(words):
    """List of (npu op index, op kind, operand, region, lo, hi, is_write) for all accesses of a command stream"""
    r0, r1 = {}, {}
    accesses = []
    op_index = 0
    i = 0
    while i < len(words):
        word = words[i]
        code = word & 0x3FF
        param = word >> 16
        if word & 0x4000:  # cmd1: register with 32-bit payload, param holds address bits 32 and up
            r1[code] = words[i + 1] | (param << 32)
            i += 2
            continue
        i += 1
        if code >= 0x100:  # cmd0 register write
            r0[code] = param
            continue
        if code == OP_DMA_START:
            length = r1.get(DMA0_LEN, 0)
            src, dst = r1.get(DMA0_SRC, 0), r1.get(DMA0_DST, 0)
            accesses.append((op_index, "DMA", "source", r0.get(DMA0_SRC_REGION, 0), src, src + length, False))
            accesses.append((op_index, "DMA", "destination", r0.get(DMA0_DST_REGION, 0), dst, dst + length, True))
            op_index += 1
            continue
        if code not in (OP_CONV, OP_DEPTHWISE, OP_POOL, OP_ELEMENTWISE):
            continue
        kind = {OP_CONV: "CONV", OP_DEPTHWISE: "DEPTHWISE", OP_POOL: "POOL", OP_ELEMENTWISE: "ELEMENTWISE"}[code]
        OH, OW, OD = r0[OFM_HEIGHT_M1] + 1, r0[OFM_WIDTH_M1] + 1, r0[OFM_DEPTH_M1] + 1
        ofm_prec = r0[OFM_PRECISION]
        lo, hi = feature_map_extent(
            r0, r1, OFM_BASE0, OFM_WIDTH0_M1, OFM_HEIGHT0_M1, OFM_HEIGHT1_M1, OFM_STRIDE_X, OFM_STRIDE_Y, OFM_STRIDE_C,
            (ofm_prec >> 6) & 1, 1 << ((ofm_prec >> 1) & 3), OH, OW, OD,
        )
        accesses.append((op_index, kind, "OFM", r0[OFM_REGION], lo, hi, True))
        ifm_prec = r0[IFM_PRECISION]
        ID = r0[IFM_DEPTH_M1] + 1
        if kind == "ELEMENTWISE":
            IH, IW = OH, OW
        else:
            ks = r0[KERNEL_STRIDE]
            stride_x = ((ks & 1) | (((ks >> 6) & 7) << 1)) + 1
            stride_y = (((ks >> 1) & 1) | (((ks >> 9) & 7) << 1)) + 1
            IH = (OH - 1) * stride_y + r0[KERNEL_HEIGHT_M1] + 1 - r0.get(PAD_TOP, 0) - r0.get(PAD_BOTTOM, 0)
            IW = (OW - 1) * stride_x + r0[KERNEL_WIDTH_M1] + 1 - r0.get(PAD_LEFT, 0) - r0.get(PAD_RIGHT, 0)
            if r0.get(IFM_UPSCALE, 0) != 0:
                IH, IW = -(-IH // 2), -(-IW // 2)
            IH, IW = max(IH, 1), max(IW, 1)
        lo, hi = feature_map_extent(
            r0, r1, IFM_BASE0, IFM_WIDTH0_M1, IFM_HEIGHT0_M1, IFM_HEIGHT1_M1, IFM_STRIDE_X, IFM_STRIDE_Y, IFM_STRIDE_C,
            (ifm_prec >> 6) & 1, 1 << ((ifm_prec >> 2) & 3), IH, IW, ID,
        )
        accesses.append((op_index, kind, "IFM", r0[IFM_REGION], lo, hi, False))
        if kind == "ELEMENTWISE" and param not in UNARY_ELEMENTWISE_MODES:
            broadcast = r0.get(IFM2_BROADCAST, 0)
            if not broadcast & 0x80:  # not a scalar operand
                ifm2_prec = r0[IFM2_PRECISION]
                H2 = 1 if broadcast & 1 else OH
                W2 = 1 if broadcast & 2 else OW
                D2 = 1 if broadcast & 4 else OD
                lo, hi = feature_map_extent(
                    r0, r1, IFM2_BASE0, IFM2_WIDTH0_M1, IFM2_HEIGHT0_M1, IFM2_HEIGHT1_M1, IFM2_STRIDE_X, IFM2_STRIDE_Y,
                    IFM2_STRIDE_C, (ifm2_prec >> 6) & 1, 1 << ((ifm2_prec >> 2) & 3), H2, W2, D2,
                )
                accesses.append((op_index, kind, "IFM2", r0[IFM2_REGION], lo, hi, False))
        if kind in ("CONV", "DEPTHWISE"):
            ncores = r0.get(PARALLEL_MODE, 0) + 1
            per_core = [(WEIGHT_BASE, WEIGHT_LENGTH, SCALE_BASE, SCALE_LENGTH), (WEIGHT1_BASE, WEIGHT1_LENGTH, SCALE1_BASE, SCALE1_LENGTH)]
            for core, (wb, wl, sb, sl) in enumerate(per_core[:ncores]):
                if r1.get(wl, 0):
                    accesses.append((op_index, kind, "weights of core %d" % core, r0[WEIGHT_REGION], r1.get(wb, 0), r1.get(wb, 0) + r1[wl], False))
                if r1.get(sl, 0):
                    accesses.append((op_index, kind, "scales of core %d" % core, r0[SCALE_REGION], r1.get(sb, 0), r1.get(sb, 0) + r1[sl], False))
        op_index += 1
    return accesses


def check_output_file(buf, accelerator, dedicated_sram, arena_cache_size):
    """Returns a list of descriptions of property violations found in the compiled network"""
    problems = []
    npu_ops = read_npu_ops_of_output_file(buf)
    if not npu_ops:
        problems.append("no ethos-u operator in the output file (nothing was compiled for the NPU)")
    for n, info in enumerate(npu_ops):
        extents = {0: info["flash"], 1: info["scratch"], 2: info["scratch_fast"], SHRAM_REGION: SHRAM_BYTES[accelerator]}
        names = {0: "constants", 1: "scratch (tensor arena)", 2: "fast scratch", SHRAM_REGION: "SHRAM"}
        if dedicated_sram and info["scratch_fast"] > arena_cache_size:
            problems.append(
                "published fast scratch size %d exceeds the arena cache size %d" % (info["scratch_fast"], arena_cache_size)
            )
        for op_index, kind, operand, region, lo, hi, is_write in memory_accesses(command_stream_words(info["payload"])):
            if region not in extents:
                problems.append("custom op %d: NPU op %d (%s) %s names unknown region %d" % (n, op_index, kind, operand, region))
            elif lo < 0 or hi > extents[region]:
                problems.append(
                    "custom op %d: NPU op %d (%s) accesses bytes [%d, %d) of its %s in region %d (%s), but the output file"
                    " publishes only %d bytes for that region" % (n, op_index, kind, lo, hi, operand, region, names[region], extents[region])
                )
            if is_write and region == 0:
                problems.append("custom op %d: NPU op %d (%s) writes to the constants region" % (n, op_index, kind))
    return problems


# ----------------------------------------------------------------------------------------------------------------------
# Scenario (violates the property on the UNMODIFIED tree): a 3x3 convolution 256 -> 64 channels on an 8x8 feature map
# whose weights for output channels 0..15 and 32..47 are all zero (they compress to ~750 bytes per 16-channel slice)
# while the other two 16-channel slices are incompressible (~37 KB each). With an arena cache size between 37100 and
# 37700 bytes Scheduler.propose_weight_buffering splits the weights into four 16-channel slices, finds that double
# buffering (752 + 37040 bytes) does not fit, but that the largest slice does, and therefore creates ONE buffer - sized
# with double_buffer_sizes[0], i.e. the size of the largest EVEN slice (752 bytes). All four slices are DMA-ed into it.
# ----------------------------------------------------------------------------------------------------------------------
def build_model():
    mb = ModelBuilder()
    x = mb.input([1, 8, 8, 256])
    values = mb.rng.randint(-127, 128, size=(64, 3, 3, 256))
    values[0:16] = 0
    values[32:48] = 0
    weights = create_const_tensor("w", list(values.shape), DataType.int8, values, quantization=quant(0.01, 64))
    a = mb.conv(x, 64, 3, weights=weights)
    return mb.build([a])


def scenarios():
    yield "ethos-u65-256, default (Dedicated SRAM), --arena-cache-size 37400", build_model(), ["--arena-cache-size", "37400"], "ethos-u65-256", True, 37400


def main():
    failures = []
    for label, model_bytes, vela_args, accelerator, dedicated_sram, arena_cache_size in scenarios():
        out = compile_with_vela(model_bytes, vela_args)
        sizes = [(i["flash"], i["scratch"], i["scratch_fast"]) for i in read_npu_ops_of_output_file(out)]
        problems = check_output_file(out, accelerator, dedicated_sram, arena_cache_size)
        print("%s: published (constants, scratch, fast scratch) sizes %s: %d violation(s)" % (label, sizes, len(problems)))
        failures += ["%s: %s" % (label, p) for p in problems]
    if failures:
        print("FAIL: the emitted command stream accesses memory outside the extents published in the output file")
        for failure in failures[:10]:
            print("  " + failure)
        return 1
    print("PASS")
    return 0


if __name__ == "__main__":
    sys.exit(main())

# Observation 1 (UNMODIFIED tree): constant folding of QUANTIZE with a float32 constant of rank >= 2 aborts the compilation.
#
# optimise_quantize() iterates `for val in input_values:` in its float branch, i.e. over the FIRST AXIS of the constant
# instead of over its elements (the int8/int16 branch uses input_values.flatten()).  For a constant of shape [1, 4] each
# `val` is a 4-element row, round_away_zero(row / scale) evaluates `-0.5 if (f < 0) else 0.5` on an array and raises
# "ValueError: The truth value of an array with more than one element is ambiguous".  A rank-1 constant (or one whose
# trailing dimensions are all 1) folds correctly, so only multi-dimensional float constants are hit.
#
# Reachability: the semantic checker puts a QUANTIZE whose float input has no quantisation record on the CPU (and then the
# folding is skipped), so end to end the defect needs a float constant that carries a quantisation record (TFLite ignores
# it for float tensors; some converters emit one).  The function itself fails for every float constant of rank >= 2.
#
# Model: float32 const (scale 1.0 / zp 0 record) -> QUANTIZE -> int8 -> ADD(x) -> y, compiled with the command line driver
# Expected: the constant is folded to round(c / scale) + zero_point; actual for shapes [1, 4] and [1, 2, 2, 4]: ValueError.
import os
import sys

sys.path.insert(0, os.getcwd())
sys.path.insert(0, os.path.dirname(os.path.abspath(__file__)))
import c19_util as U  # noqa: E402
import numpy as np  # noqa: E402

from ethosu.vela.data_type import DataType  # noqa: E402
from ethosu.vela.operation import Op  # noqa: E402
from ethosu.vela.operation import Operation  # noqa: E402
from ethosu.vela.tensor import create_const_tensor  # noqa: E402


def build(shape):
    n = int(np.prod(shape))
    consts = np.linspace(-1.0, 1.0, n, dtype=np.float32).reshape(shape)
    c = create_const_tensor("c", list(shape), DataType.float32, consts)
    c.name = "c"
    # the semantic checker only lets operators whose tensors all carry a quantisation record reach the folding, so the
    # float constant carries the (meaningless for a float tensor, ignored by TFLite) record scale=1.0 / zero_point=0
    c.quantization = U.quant(DataType.int8, 1.0, 0)
    q = U.feature_map("cq", DataType.int8, 0.01, 3, shape)
    quant = Operation(Op.Quantize, "quantize")
    quant.add_input_tensor(c)
    quant.set_output_tensor(q)
    quant.set_ifm_ofm_shapes()
    x = U.with_producer(U.feature_map("x", DataType.int8, 0.01, 3, shape))
    y = U.feature_map("y", DataType.int8, 0.02, 0, shape)
    add = Operation(Op.Add, "add")
    add.add_input_tensor(x)
    add.add_input_tensor(q)
    add.set_output_tensor(y)
    add.set_ifm_ofm_shapes()
    return U.build_tflite([quant, add], [x], [y]), consts


def main():
    status = 0
    for shape in ((4,), (4, 1), (1, 4), (1, 2, 2, 4)):
        data, consts = build(shape)
        try:
            nng, _ = U.compile_tflite(data)
            print(f"const shape {shape}: compiled")
        except Exception as e:  # noqa: BLE001
            print(f"const shape {shape}: compilation aborted with {type(e).__name__}: {e}")
            status = 1
    print("VIOLATION on the unmodified tree" if status else "no violation")
    return status


if __name__ == "__main__":
    sys.exit(main())

"""Observation 2 (unmodified tree): SPACE_TO_BATCH_ND -> CONV_2D -> BATCH_TO_SPACE_ND with a CONV_2D that violates a
listed constraint: the CPU operator does not stay unchanged, the network that Vela writes is a different function.

CONV_2D has stride_h = 4 ("Stride h must be between 1 and 3 when ofm height is greater than 1" is violated), so it must
stay on the CPU unchanged, and so must the two (never supported) SPACE_TO_BATCH_ND / BATCH_TO_SPACE_ND operators.
tflite_graph_optimiser.replace_dilated_convolution (run with rewrite_unsupported=True) rewires the convolution to
the input of SPACE_TO_BATCH_ND and the output of BATCH_TO_SPACE_ND and sets padding=SAME / "dilation" *before* it asks
is_operator_supported(); when the answer is "no" the rewiring is not undone.  The output file then contains a single
CPU CONV_2D [1,8,8,4] -> [1,2,8,4] with padding SAME and dilation 1x1 (the writer only converts the internal "dilation"
attribute for NPU operators): the 2x2 block structure / dilation of the original network is lost.
(With a supported convolution the three operators are merged into one NPU convolution although SPACE_TO_BATCH_ND and
BATCH_TO_SPACE_ND are not listed in the supported-operators report at all.)
"""
import os
import sys

sys.path.insert(0, os.getcwd())
sys.path.insert(0, os.path.dirname(os.path.abspath(__file__)))
from kit import *  # noqa: E402,F401,F403  (out/kit.py: tiny model builder + compile_model helper)
from ethosu.vela.operation import Padding  # noqa: E402


def quiet_compile(buf, accel="ethos-u55-128", extra=()):
    devnull = os.open(os.devnull, os.O_WRONLY)
    saved = os.dup(1)
    os.dup2(devnull, 1)
    try:
        return compile_model(buf, accel, extra)
    finally:
        os.dup2(saved, 1)


def warnings_of(out):
    return [ln for ln in out.splitlines() if ln.startswith("Warning") or ln.startswith(" - ")]

from ethosu.vela.tflite import Model, Conv2DOptions  # noqa: E402


def model(stride_h):
    x = act("x", [1, 8, 8, 4])
    s = act("s", [4, 4, 4, 4])
    c = act("c", [4, 4 // stride_h, 4, 4])
    y = act("y", [1, 8 // stride_h, 8, 4])
    bs = const("bs", [2], DataType.int32, [2, 2])
    pd = const("pd", [2, 2], DataType.int32, [[0, 0], [0, 0]])
    cr = const("cr", [2, 2], DataType.int32, [[0, 0], [0, 0]])
    stb = mkop(Op.SpaceToBatchND, "s", [x, bs, pd], s, {})
    wt = const("w", [4, 3, 3, 4], DataType.int8, np.ones([4, 3, 3, 4]), scale=0.5, zp=0)
    b = const("b", [4], DataType.int32, np.zeros([4]), scale=0.25, zp=0)
    attrs = {"dilation_h_factor": 1, "dilation_w_factor": 1, "fused_activation_function": None,
             "padding": Padding.SAME, "stride_h": stride_h, "stride_w": 1}
    cv = mkop(Op.Conv2DBias, "c", [s, wt, b], c, attrs)
    bts = mkop(Op.BatchToSpaceND, "y", [c, bs, cr], y, {})
    return build([stb, cv, bts], [x], [y])


buf = model(4)
print("input network :", op_list(buf))
ops, out, obuf = quiet_compile(buf)
print("\n".join(warnings_of(out)))
print("output network:", ops)
m = Model.Model.GetRootAsModel(bytearray(obuf), 0)
sg = m.Subgraphs(0)
for i in range(sg.OperatorsLength()):
    o = sg.Operators(i)
    ins = [list(sg.Tensors(int(t)).ShapeAsNumpy()) for t in o.InputsAsNumpy() if t >= 0]
    outs = [list(sg.Tensors(int(t)).ShapeAsNumpy()) for t in o.OutputsAsNumpy()]
    print(f"  operator {i}: inputs {ins} -> outputs {outs}")
    if ops[i] == "CONV_2D":
        opt = Conv2DOptions.Conv2DOptions()
        opt.Init(o.BuiltinOptions().Bytes, o.BuiltinOptions().Pos)
        print(f"    Conv2DOptions: stride {opt.StrideW()}x{opt.StrideH()} dilation {opt.DilationWFactor()}x"
              f"{opt.DilationHFactor()} padding {opt.Padding()}")
if sorted(ops) == ["BATCH_TO_SPACE_ND", "CONV_2D", "SPACE_TO_BATCH_ND"]:
    print("as expected by C16: all three operators stay on the CPU unchanged")
    sys.exit(0)
print("VIOLATION: the CPU CONV_2D was rewired and SPACE_TO_BATCH_ND / BATCH_TO_SPACE_ND were dropped")
sys.exit(1)

import sys
sys.path.insert(0, "/tmp/tri")
exec(open("/verif/tools/triage/F33_F36_c13_batch.py").read().split("# (1) custom op")[0])
from ethosu.vela import tflite_mapping
a = fm("a", [1, 4, 4, 8]); ofm = fm("o", [1, 4, 4, 8])
op = Operation(Op.Custom, "mycustom"); op.attrs = {"custom_code": "MyOp", "custom_type": None}
op.add_input_tensor(a); op.set_output_tensor(ofm)
orig = tflite_mapping.CustomOptionsSerializer.serialize
tflite_mapping.CustomOptionsSerializer.serialize = lambda self, builder, attrs: (None, None)
data = make_model([op], [a], [ofm])
tflite_mapping.CustomOptionsSerializer.serialize = orig
run("custom(no options)", data)
ax = Tensor([1], DataType.int32, "axis")
a = fm("a", [1, 8, 8, 8]); o1 = fm("o1", [1, 8, 8, 4]); o2 = fm("o2", [1, 8, 8, 4])
op = Operation(Op.Split, "split"); op.attrs = {"num_splits": 2}
op.add_input_tensor(ax); op.add_input_tensor(a); op.outputs = [o1, o2]; o1.ops=[op]; o2.ops=[op]
run("split dynamic axis [1]", make_model([op], [a, ax], [o1, o2]))

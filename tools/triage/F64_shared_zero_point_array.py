"""Observation 6 (unmodified tree, option --force-symmetric-int-weights): a CPU operator does not stay unchanged.

Two CONV_2D operators share one constant int8 weight tensor with per-channel zero points [3,3,3,3]:
  'ya' stride 1x1 (inside all listed constraints)         -> NPU
  'yb' stride_h = 4 (violates the listed stride constraint) -> must stay on the CPU unchanged.
With --force-symmetric-int-weights, fixup_asymmetric_weights does `op.weights.quantization.zero_point *= 0` for the NPU
operator.  QuantizationParameters.clone() copies the *reference* of the zero_point array, so the per-operator weight
clone made by the reader, the original tensor (src_tensor) and the clone used by the CPU convolution all share that
array: the in-place multiplication also zeroes the zero points of the weights that are written back for the CPU
CONV_2D.  In the output file the CPU convolution's weight tensor has zero_point [0 0 0 0] instead of [3 3 3 3], i.e. the
CPU operator computes something else than in the input network.  (Scalar zero points are not affected: `*=` rebinds.)
"""
import os
import sys

sys.path.insert(0, os.getcwd())
sys.path.insert(0, os.path.dirname(os.path.abspath(__file__)))
from kit import *  # noqa: E402,F401,F403  (out/kit.py: tiny model builder + compile_model helper)
from ethosu.vela.operation import Padding  # noqa: E402


def quiet_compile(buf, accel="ethos-u55-128", extra=()):
    devnull = os.open(os.devnull, os.O_WRONLY)
    saved = os.dup(1)
    os.dup2(devnull, 1)
    try:
        return compile_model(buf, accel, extra)
    finally:
        os.dup2(saved, 1)


def warnings_of(out):
    return [ln for ln in out.splitlines() if ln.startswith("Warning") or ln.startswith(" - ")]

from ethosu.vela.tflite import Model  # noqa: E402


def model():
    x = act("x", [1, 8, 8, 4])
    ya = act("ya", [1, 8, 8, 4])
    yb = act("yb", [1, 2, 8, 4])
    w = const("w", [4, 3, 3, 4], DataType.int8, np.ones([4, 3, 3, 4]), scale=[0.5] * 4, zp=[3, 3, 3, 3])
    b = const("b", [4], DataType.int32, np.zeros([4]), scale=[0.25] * 4, zp=[0] * 4)

    def attrs(stride_h):
        return {"dilation_h_factor": 1, "dilation_w_factor": 1, "fused_activation_function": None,
                "padding": Padding.SAME, "stride_h": stride_h, "stride_w": 1}

    a = mkop(Op.Conv2DBias, "ya", [x, w, b], ya, attrs(1))
    c = mkop(Op.Conv2DBias, "yb", [x, w, b], yb, attrs(4))
    return build([a, c], [x], [ya, yb])


def cpu_conv_weight_zero_points(buf):
    m = Model.Model.GetRootAsModel(bytearray(buf), 0)
    sg = m.Subgraphs(0)
    res = []
    for i in range(sg.OperatorsLength()):
        o = sg.Operators(i)
        oc = m.OperatorCodes(o.OpcodeIndex())
        if max(oc.BuiltinCode(), oc.DeprecatedBuiltinCode()) == 3:  # CONV_2D
            w = sg.Tensors(int(o.InputsAsNumpy()[1]))
            res.append((sg.Tensors(int(o.OutputsAsNumpy()[0])).Name().decode(), list(w.Quantization().ZeroPointAsNumpy())))
    return res


buf = model()
print("input  :", op_list(buf), cpu_conv_weight_zero_points(buf))
bad = False
for extra in ((), ("--force-symmetric-int-weights",)):
    ops, out, obuf = quiet_compile(buf, extra=extra)
    zps = cpu_conv_weight_zero_points(obuf)
    print(f"output {extra}: {ops}; CPU CONV_2D weight zero points: {zps}")
    for name, zp in zps:
        if name == "yb" and zp != [3, 3, 3, 3]:
            bad = True
print("VIOLATION: the CPU CONV_2D 'yb' was written with modified weight zero points" if bad else "as expected by C16")
sys.exit(1 if bad else 0)

"""Observation 4 (unmodified tree): a folded QUANTIZE that feeds a subgraph output is written back shifted by the
output zero point.
optimise_quantize folds  const -> QUANTIZE  into a constant. When that constant is a subgraph output,
tflite_optimise_graph inserts a copy:  out = Add(clone_of_constant, zero)  where  zero  is created with
create_const_tensor("zero", [1], dtype, [0], quantization=ofm.quantization): stored code 0 but zero point zp_out, i.e.
the real value -zp_out * scale instead of 0.0 (convert_to_lut sets zero_point = 0 for its scalar, this site does not).
The NPU computes (a - zp) + (0 - zp) + zp = a - zp: every folded constant is off by -zp_out codes. The register
command stream of the compiled model shows IFM2_ZERO_POINT = zp_out for that Add."""
exec(open(__file__.replace("observation4.py", "_obs_common.py")).read())

si, zi, so, zo = 0.1, np.int64(5), 0.05, np.int64(-20)
vals = np.arange(-64, 64, dtype=np.int8).reshape(SHAPE)
c = create_const_tensor("c", SHAPE, DataType.int8, vals, quantization=quant(si, zi))
out = Tensor(SHAPE, DataType.int8, "q_out")
out.quantization = quant(so, zo)
q = Operation(Op.Quantize, "quant")
q.add_input_tensor(c)
q.set_output_tensor(out)
q.set_ifm_ofm_shapes()
sg = Subgraph("main", PassPlacement.Cpu)
sg.output_tensors = [out]
nng = Graph("g")
nng.subgraphs.append(sg)
nng = tgo.tflite_optimise_graph(nng, ARCH, False)
op = nng.subgraphs[0].output_tensors[0].ops[0]
print("producer of the subgraph output:", op.type, op.name)
bad = False
for t in op.inputs:
    real = (t.values.flatten()[:4].astype(int) - int(t.quantization.zero_point)) * float(t.quantization.scale_f32)
    print(f"  input {t.name}: codes {t.values.flatten()[:4]} zero_point {t.quantization.zero_point} scale {t.quantization.scale_f32} -> real {real}")
    if t.name.startswith("zero") and real[0] != 0.0:
        bad = True
if bad:
    print(f"VIOLATION: the 'zero' operand of the copy has the real value {-int(zo) * so}, the output is the folded constant {int(-zo):+d} codes")
    sys.exit(1)
print("ok")

import sys
exec(open("/verif/tools/triage/F33_F36_c13_batch.py").read().split("# (1) custom op")[0])
x = fm("x", [1, 4, 4, 8], 0.5)
opa = add("add", x, x, 0.5); a = opa.outputs[0]
af = Tensor([1, 4, 4, 8], DataType.float32, "af")
opd = Operation(Op.Dequantize, "deq"); opd.attrs = {}; opd.add_input_tensor(a); opd.set_output_tensor(af)
y = Tensor([1, 4, 4, 8], DataType.float32, "y"); z = Tensor([1, 4, 4, 8], DataType.float32, "z")
o = Tensor([1, 4, 4, 24], DataType.float32, "o")
opc = Operation(Op.ConcatTFLite, "concat"); opc.attrs = {"axis": 3, "fused_activation_function": None}
for t in (af, y, z): opc.add_input_tensor(t)
opc.set_output_tensor(o)
run("3-input float concat after NPU add + dequantize", make_model([opa, opd, opc], [x, y, z], [o]))
# 2-input variant
o2 = Tensor([1, 4, 4, 16], DataType.float32, "o2")
x = fm("x", [1, 4, 4, 8], 0.5); opa = add("add", x, x, 0.5); a = opa.outputs[0]
af = Tensor([1, 4, 4, 8], DataType.float32, "af"); opd = Operation(Op.Dequantize, "deq"); opd.attrs = {}; opd.add_input_tensor(a); opd.set_output_tensor(af)
y = Tensor([1, 4, 4, 8], DataType.float32, "y")
opc = Operation(Op.ConcatTFLite, "concat"); opc.attrs = {"axis": 3, "fused_activation_function": None}
for t in (af, y): opc.add_input_tensor(t)
opc.set_output_tensor(o2)
run("2-input variant", make_model([opa, opd, opc], [x, y], [o2]))

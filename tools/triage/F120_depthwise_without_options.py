# Observation 12 (unmodified tree, low severity: the files are structurally valid flatbuffers but TFLite itself would refuse
# them): operators whose optional builtin_options table is absent. For most operators the reader records the attributes as
# unreadable and the operator falls back to the CPU ("Op has missing attributes"), but tflite_reader.parse_operator() indexes the
# attribute dictionary directly for DEPTHWISE_CONV_2D (KeyError: 'depth_multiplier') and for WHILE / IF / CALL_ONCE
# (KeyError: 'cond_subgraph_index' / 'then_subgraph_index' / 'init_subgraph_index'); KeyError is not converted into the
# "Invalid tflite file" message.
import sys

import numpy as np

import obs_util
from tflgen import O, T, build_model, single

sh = [1, 8, 8, 4]
rng = np.random.default_rng(5)


def conv(code, with_options):
    wshape = [8, 3, 3, 4] if code == "CONV_2D" else [1, 3, 3, 4]
    oc = 8 if code == "CONV_2D" else 4
    tens = [T("in", sh, "INT8"), T("w", wshape, "INT8", data=rng.integers(-127, 128, wshape), scale=0.01),
            T("b", [oc], "INT32", data=np.zeros(oc), scale=0.0005), T("out", [1, 8, 8, oc], "INT8")]
    opt = {"CONV_2D": "Conv2DOptions", "DEPTHWISE_CONV_2D": "DepthwiseConv2DOptions"}[code]
    args = dict(Padding=0, StrideW=1, StrideH=1, DilationWFactor=1, DilationHFactor=1)
    if code == "DEPTHWISE_CONV_2D":
        args["DepthMultiplier"] = 1
    op = O(code, ["in", "w", "b"], ["out"], opt, args) if with_options else O(code, ["in", "w", "b"], ["out"])
    return single(tens, [op], ["in"], ["out"])


def while_model(with_options):
    body = dict(name="body", tensors=[T("bi", sh, "INT8"), T("bo", sh, "INT8")], ops=[O("RELU", ["bi"], ["bo"])], inputs=["bi"], outputs=["bo"])
    cond = dict(name="cond", tensors=[T("ci", sh, "INT8"), T("ax", [4], "INT32", data=[0, 1, 2, 3]), T("co", [], "BOOL")],
                ops=[O("REDUCE_ANY", ["ci", "ax"], ["co"], "ReducerOptions", dict(KeepDims=False))], inputs=["ci"], outputs=["co"])
    op = O("WHILE", ["in"], ["out"], "WhileOptions", dict(CondSubgraphIndex=1, BodySubgraphIndex=2)) if with_options else O("WHILE", ["in"], ["out"])
    main = dict(name="main", tensors=[T("in", sh, "INT8"), T("out", sh, "INT8")], ops=[op], inputs=["in"], outputs=["out"])
    return build_model([main, cond, body])


cases = [
    ("CONV_2D without options (control: falls back to the CPU)", conv("CONV_2D", False), []),
    ("DEPTHWISE_CONV_2D with options (control)", conv("DEPTHWISE_CONV_2D", True), []),
    ("DEPTHWISE_CONV_2D without options", conv("DEPTHWISE_CONV_2D", False), []),
    ("WHILE with options (control)", while_model(True), []),
    ("WHILE without options", while_model(False), []),
]
sys.exit(obs_util.run(cases))

import contextlib
import io
import os
import sys
import tempfile
import types

sys.path.insert(0, os.getcwd())

import numpy as np  # noqa: E402

from ethosu.vela import vela  # noqa: E402
from ethosu.vela.data_type import DataType  # noqa: E402
from ethosu.vela.ethos_u55_regs.ethos_u55_regs import resampling_mode  # noqa: E402
from ethosu.vela.high_level_command_stream import NpuStripe  # noqa: E402
from ethosu.vela.high_level_command_to_npu_op import create_padding  # noqa: E402
from ethosu.vela.nn_graph import Graph, PassPlacement, Subgraph  # noqa: E402
from ethosu.vela.operation import NpuBlockType, Op, Operation, Padding  # noqa: E402
from ethosu.vela.tensor import QuantizationParameters, Tensor, TensorSubPurpose, create_const_tensor  # noqa: E402
from ethosu.vela.tflite_writer import write_tflite_buffer  # noqa: E402


# ---------------------------------------------------------------------------------------------------------------------
# A tiny TFLite model builder on top of Vela's own graph classes and TFLite writer
# ---------------------------------------------------------------------------------------------------------------------
def quant(scale):
    q = QuantizationParameters()
    q.scale_f32 = np.float32(scale)
    q.zero_point = 0
    q.quant_min = -128
    q.quant_max = 127
    return q


class Model:
    def __init__(self):
        self.ops = []
        self.inputs = []
        self.count = 0
        self.rng = np.random.RandomState(1)

    def name(self, base):
        self.count += 1
        return f"{base}{self.count}"

    def fm(self, shape, name=None):
        tens = Tensor(list(shape), DataType.int8, name or self.name("fm"))
        tens.quantization = quant(0.05)
        return tens

    def input(self, shape):
        tens = self.fm(shape, self.name("input"))
        Operation(Op.Placeholder, tens.name + "_ph").set_output_tensor(tens)
        self.inputs.append(tens)
        return tens

    def const(self, shape, dtype, scale):
        np_type = np.int8 if dtype == DataType.int8 else np.int32
        values = self.rng.randint(-100, 100, size=shape).astype(np_type)
        return create_const_tensor(self.name("const"), list(shape), dtype, values, quantization=quant(scale))

    def add_op(self, op, inputs, ofm_shape):
        for tens in inputs:
            op.add_input_tensor(tens)
        ofm = self.fm(ofm_shape)
        op.set_output_tensor(ofm)
        self.ops.append(op)
        return ofm

    @staticmethod
    def out_size(size, k, stride, padding):
        return (size + stride - 1) // stride if padding == Padding.SAME else (size - k + stride) // stride

    def conv(self, ifm, out_channels, kh, kw, sh=1, sw=1, padding=Padding.SAME):
        n, h, w, c = ifm.shape
        op = Operation(Op.Conv2DBias, self.name("conv"))
        op.attrs = {
            "padding": padding,
            "stride_h": sh,
            "stride_w": sw,
            "dilation_h_factor": 1,
            "dilation_w_factor": 1,
            "fused_activation_function": None,
        }
        weights = self.const([out_channels, kh, kw, c], DataType.int8, 0.01)
        bias = self.const([out_channels], DataType.int32, 0.0005)
        ofm_shape = [n, self.out_size(h, kh, sh, padding), self.out_size(w, kw, sw, padding), out_channels]
        return self.add_op(op, [ifm, weights, bias], ofm_shape)

    def resize_bilinear(self, ifm, out_h, out_w, align_corners):
        n, h, w, c = ifm.shape
        op = Operation(Op.ResizeBilinear, self.name("resize"))
        op.attrs = {"align_corners": align_corners, "half_pixel_centers": False}
        size = create_const_tensor(self.name("size"), [2], DataType.int32, np.array([out_h, out_w], np.int32))
        return self.add_op(op, [ifm, size], [n, out_h, out_w, c])

    def serialise(self, outputs):
        sg = Subgraph("main", PassPlacement.Cpu)
        sg.input_tensors = list(self.inputs)
        sg.original_inputs = list(self.inputs)
        sg.output_tensors = list(outputs)
        sg.passes = [types.SimpleNamespace(ops=[tens.ops[0] for tens in self.inputs] + self.ops)]
        nng = Graph("model")
        nng.subgraphs = [sg]
        nng.metadata = []
        return bytes(write_tflite_buffer(nng))


@contextlib.contextmanager
def silence():
    """Discards everything the compiler prints (also through file objects that were bound at import time)"""
    sys.stdout.flush()
    sys.stderr.flush()
    saved = os.dup(1), os.dup(2)
    devnull = os.open(os.devnull, os.O_WRONLY)
    try:
        os.dup2(devnull, 1)
        os.dup2(devnull, 2)
        with contextlib.redirect_stdout(io.StringIO()), contextlib.redirect_stderr(io.StringIO()):
            yield
    finally:
        sys.stdout.flush()
        sys.stderr.flush()
        os.dup2(saved[0], 1)
        os.dup2(saved[1], 2)
        for fd in saved + (devnull,):
            os.close(fd)


def compile_model(tflite_bytes, args):
    """Runs the complete Vela driver on the model and returns the compiled network graph"""
    captured = {}
    original_process = vela.process

    def process(*a, **kw):
        captured["nng"] = original_process(*a, **kw)
        return captured["nng"]

    vela.process = process
    try:
        with tempfile.TemporaryDirectory() as tmp:
            path = os.path.join(tmp, "model.tflite")
            with open(path, "wb") as f:
                f.write(tflite_bytes)
            with silence():
                vela.main([path, "--output-dir", os.path.join(tmp, "out")] + list(args))
    finally:
        vela.process = original_process
    return captured["nng"]


def npu_stripes(nng):
    for sg in nng.subgraphs:
        stream = getattr(sg, "high_level_command_stream", None) or []
        stripes = [cmd for cmd in stream if isinstance(cmd, NpuStripe)]
        if stripes:
            yield sg, stripes


def ints(values):
    return [int(v) for v in values]


# ---------------------------------------------------------------------------------------------------------------------
# Oracle 1: the OFM boxes of an operator tile its output, and the IFM box / padding of every stripe is the receptive
# field of the stripe's OFM box.  Computed from first principles out of the operator's kernel, stride, dilation,
# upscaling and original padding only.
# ---------------------------------------------------------------------------------------------------------------------
def receptive_field(first, last_excl, k, stride, dilation, pad_before, upscale, size):
    """OFM index range [first, last_excl) -> (first IFM index, IFM end index, padding before, padding after)"""
    k_dilated = (k - 1) * dilation + 1
    lo = first * stride - pad_before
    hi = (last_excl - 1) * stride - pad_before + k_dilated
    pad_lo = max(0, -lo)
    pad_hi = max(0, hi - size * upscale)
    lo = max(lo, 0)
    hi = min(hi, size * upscale)
    return lo // upscale, -(-hi // upscale), pad_lo, pad_hi


def check_geometry(nng):
    errors = []
    for _, stripes in npu_stripes(nng):
        per_op = {}
        for cmd in stripes:
            per_op.setdefault(cmd.ps, []).append(cmd)
        for ps, cmds in per_op.items():
            op = ps.primary_op
            # the stripes must tile the OFM exactly
            ofm_shape = ints(ps.ofm_shapes[0].as_list())
            covered = np.zeros(ofm_shape, dtype=np.int32)
            for cmd in cmds:
                s, e = ints(cmd.ofm_box.start_coord), ints(cmd.ofm_box.end_coord)
                covered[s[0] : e[0], s[1] : e[1], s[2] : e[2], s[3] : e[3]] += 1
            if op.write_offset is None and not np.all(covered == 1):
                errors.append(f"{op.name}: OFM stripes do not tile the output exactly once")
            if op.type.npu_block_type not in (
                NpuBlockType.ConvolutionMxN,
                NpuBlockType.ConvolutionDepthWise,
                NpuBlockType.Pooling,
            ):
                continue
            if op.read_offsets[0] is not None or op.write_offset is not None:
                continue
            kernel = op.kernel
            top, left, bottom, right = ints(op.attrs["explicit_padding"])
            upscale = 1 if op.ifm_resampling_mode == resampling_mode.NONE else 2
            ifm_shape = ints(ps.ifm_shapes[0].as_list())
            for cmd in cmds:
                s, e = ints(cmd.ofm_box.start_coord), ints(cmd.ofm_box.end_coord)
                i0, i1 = ints(cmd.ifm_box.start_coord), ints(cmd.ifm_box.end_coord)
                pad = create_padding(cmd, op, None)  # what the hardware is given for this stripe
                what = f"{op.name} ({op.type.name}) OFM rows {s[1]}..{e[1]} cols {s[2]}..{e[2]}"
                lo, hi, pad_lo, pad_hi = receptive_field(
                    s[1], e[1], kernel.height, kernel.stride.y, kernel.dilation.y, top, upscale, ifm_shape[1]
                )
                if i0[1] != lo or not (hi <= i1[1] <= ifm_shape[1]) or pad.top != pad_lo or pad.bottom < pad_hi:
                    errors.append(
                        f"{what}: IFM rows {i0[1]}..{i1[1]} pad top/bottom {pad.top}/{pad.bottom}, "
                        f"receptive field is rows {lo}..{hi} pad top/bottom {pad_lo}/{pad_hi}"
                    )
                lo, hi, pad_lo, pad_hi = receptive_field(
                    s[2], e[2], kernel.width, kernel.stride.x, kernel.dilation.x, left, upscale, ifm_shape[2]
                )
                if i0[2] != lo or not (hi <= i1[2] <= ifm_shape[2]) or pad.left != pad_lo or pad.right < pad_hi:
                    errors.append(
                        f"{what}: IFM cols {i0[2]}..{i1[2]} pad left/right {pad.left}/{pad.right}, "
                        f"receptive field is cols {lo}..{hi} pad left/right {pad_lo}/{pad_hi}"
                    )
    return errors


# ---------------------------------------------------------------------------------------------------------------------
# Oracle 2: replay the emitted stripe sequence against every rolling buffer (height taken from the storage shape the
# tensor was finally allocated with): no read may span more rows than the buffer holds and no row may be overwritten
# before the last stripe that reads it has been issued.
# ---------------------------------------------------------------------------------------------------------------------
def check_rolling_buffers(nng):
    errors = []
    n_rolling = 0
    for _, stripes in npu_stripes(nng):
        writes, reads = {}, {}
        for t, cmd in enumerate(stripes):
            writes.setdefault(cmd.ofm_tensor, []).append((t, int(cmd.ofm_box.start_coord[1]), int(cmd.ofm_box.end_coord[1])))
            reads.setdefault(cmd.ifm_tensor, []).append((t, int(cmd.ifm_box.start_coord[1]), int(cmd.ifm_box.end_coord[1])))
        for tens, tens_writes in writes.items():
            if tens.sub_purpose != TensorSubPurpose.RollingBufferY:
                continue
            n_rolling += 1
            height = int(tens.storage_shape[-3])
            last_read = {}
            for t, a, b in reads.get(tens, []):
                if b - a > height:
                    errors.append(f"{tens.name}: a stripe reads rows {a}..{b} out of a rolling buffer of {height} rows")
                for row in range(a, b):
                    last_read[row] = max(last_read.get(row, -1), t)
            for t, a, b in tens_writes:
                if b - a > height:
                    errors.append(f"{tens.name}: a stripe writes rows {a}..{b} into a rolling buffer of {height} rows")
                for row in range(a, b):
                    victim = row - height
                    while victim >= 0:
                        if last_read.get(victim, -1) > t:
                            errors.append(
                                f"{tens.name}: row {row} (written by stripe #{t}) lands on row {victim} of the"
                                f" {height}-row rolling buffer, which stripe #{last_read[victim]} still has to read"
                            )
                        victim -= height
    return errors, n_rolling


def report(errors):
    if errors:
        print("FAIL")
        for line in errors[:12]:
            print("  " + line)
        if len(errors) > 12:
            print(f"  ... and {len(errors) - 12} more")
        sys.exit(1)
    print("PASS")
    sys.exit(0)


# ---------------------------------------------------------------------------------------------------------------------
# Observation 3 (UNMODIFIED tree): odd stripe heights for a nearest-neighbour upscaling operator that is the LAST
# operator of a cascade.
#   x[1,24,32,32] -> CONV 4x4 s2 VALID (8 ch) -> RESIZE_NEAREST_NEIGHBOR x2 (11x15 -> 22x30) -> CONV 4x4 s(2,1) SAME ...
#   ethos-u65-512, --arena-cache-size 4000
# The scheduler cascades CONV + RESIZE and Scheduler.optimize_sub_schedule proposes every stripe height
# min+1 .. H/2 for the final operator of the sub-schedule; propose_schedule_striping rounds only the stripes of the
# *preceding* operators to even numbers, so the resize itself ends up with stripe height 9.  Its stripes are OFM rows
# 0..9, 9..18, 18..22: the first one is given IFM rows 0..4 although OFM row 8 is IFM row 4 (needs rows 0..5), and the
# second one starts at an odd row of the x2 upscaled IFM, which the hardware cannot express (the IFM box starts at IFM
# row 4 = upscaled row 8, i.e. the stripe is computed one row off).
# Exits 1 (prints FAIL) while the defect is present.
# ---------------------------------------------------------------------------------------------------------------------
def resize_nearest(model, ifm, out_h, out_w):
    n, h, w, c = ifm.shape
    op = Operation(Op.ResizeNearestNeighbor, model.name("resize"))
    op.attrs = {"align_corners": False, "half_pixel_centers": False}
    size = create_const_tensor(model.name("size"), [2], DataType.int32, np.array([out_h, out_w], np.int32))
    return model.add_op(op, [ifm, size], [n, out_h, out_w, c])


def main():
    model = Model()
    x = model.input([1, 24, 32, 32])
    y = model.conv(x, 8, 4, 4, sh=2, sw=2, padding=Padding.VALID)
    y = resize_nearest(model, y, 22, 30)
    y = model.conv(y, 64, 4, 4, sh=2, sw=1)
    y = model.conv(y, 128, 5, 3, sh=3, sw=1, padding=Padding.VALID)
    y = model.conv(y, 128, 3, 3)
    nng = compile_model(model.serialise([y]), ["--accelerator-config", "ethos-u65-512", "--arena-cache-size", "4000"])
    errors = check_geometry(nng)
    n = 0
    for _, stripes in npu_stripes(nng):
        for cmd in stripes:
            op = cmd.ps.primary_op
            if op.ifm_resampling_mode == resampling_mode.NONE:
                continue
            n += 1
            first_upscaled_row = int(cmd.ofm_box.start_coord[1]) * op.kernel.stride.y - op.attrs["explicit_padding"][0]
            if first_upscaled_row > 0 and first_upscaled_row % 2:
                errors.append(
                    f"{op.name} ({op.type.name}) OFM rows {int(cmd.ofm_box.start_coord[1])}..{int(cmd.ofm_box.end_coord[1])}:"
                    f" the stripe starts at odd row {first_upscaled_row} of the x2 upscaled IFM"
                )
    if n == 0:
        errors.append("no operator with an upscaled IFM found, nothing was checked")
    report(errors)


main()

"""Observation 6 (unmodified tree): DEQUANTIZE -> EXP -> QUANTIZE is merged into one int8 table operator even if the
float output of EXP has a second consumer (here a second QUANTIZE with another output scale). merge_dequant_lut_quant
moves EXP's output to the first QUANTIZE's output, the second consumer is left reading a float tensor that no operator
produces any more, and the compilation of this valid model dies with an AssertionError in verify_graph_health."""
import contextlib
import os
import sys
import tempfile
import warnings

sys.path.insert(0, os.getcwd())
warnings.simplefilter("ignore")
import numpy as np

from ethosu.vela import model_reader
from ethosu.vela import vela
from ethosu.vela.data_type import DataType
from ethosu.vela.nn_graph import Graph, Pass, PassPlacement, Subgraph
from ethosu.vela.operation import Op, Operation
from ethosu.vela.tensor import QuantizationParameters, Tensor
from ethosu.vela.tflite_writer import write_tflite_buffer


def qp(s, z):
    q = QuantizationParameters()
    q.scale_f32 = np.float32(s)
    q.zero_point = z
    return q


def fm(name, dtype, s=None, z=None):
    t = Tensor([1, 4, 4, 8], dtype, name)
    if s is not None:
        t.quantization = qp(s, z)
    return t


def unary(t, name, i, o):
    op = Operation(t, name)
    op.add_input_tensor(i)
    op.set_output_tensor(o)
    return op


x = fm("x", DataType.int8, 0.02, -10)
f1 = fm("f1", DataType.float32)
f2 = fm("f2", DataType.float32)
b1 = fm("b1", DataType.int8, 0.05, -128)
b2 = fm("b2", DataType.int8, 0.01, -128)
ops = [unary(Op.Dequantize, "dq", x, f1), unary(Op.Exp, "exp", f1, f2), unary(Op.Quantize, "q1", f2, b1),
       unary(Op.Quantize, "q2", f2, b2)]
sg = Subgraph("main", PassPlacement.Cpu)
sg.original_inputs = [x]
sg.input_tensors = [x]
sg.output_tensors = [b1, b2]
ps = Pass("all", PassPlacement.Cpu, False, None)
ps.ops = ops
sg.passes = [ps]
nng = Graph("obs")
nng.subgraphs.append(sg)
data = bytes(write_tflite_buffer(nng))


class Options:
    batch_size = 1


with tempfile.TemporaryDirectory() as d:
    path = os.path.join(d, "m.tflite")
    open(path, "wb").write(data)
    try:
        rc = vela.main(["--output-dir", d, "--accelerator-config", "ethos-u55-128", path])
    except AssertionError:
        import traceback

        tb = traceback.extract_tb(sys.exc_info()[2])
        print("compilation raised AssertionError in", tb[-1].name, f"({os.path.basename(tb[-1].filename)}:{tb[-1].lineno}:", tb[-1].line + ")")
        sys.exit(1)
print("compiled, rc =", rc)
sys.exit(0)

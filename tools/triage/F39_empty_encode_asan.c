#include <stdint.h>
#include <stdlib.h>
#include <stdio.h>
int mlw_encode( int16_t *inbuf, int inbuf_size, uint8_t **outbuf, int verbose);
int main(){ int16_t b[1]={0}; uint8_t *o=NULL; int n=mlw_encode(b,0,&o,0); printf("len %d\n", n); free(o); return 0; }

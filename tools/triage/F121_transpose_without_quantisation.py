# Observation 3 (unmodified tree): TRANSPOSE of an int32 tensor without quantisation parameters (the normal case for int32
# data). TFLiteSemantic excludes TRANSPOSE from the "tensors must have quantization parameters" check and int32 is a supported
# TRANSPOSE type, so the operator is placed on the NPU (lowered to an average pool) and code generation dies with
# "AttributeError: 'NoneType' object has no attribute 'scale_f32'" in generate_ofm_scaling_for_pooling.
# The same happens for int8 / uint8 / int16 tensors that carry no quantisation parameters.
import sys

import obs_util
from tflgen import O, T, single


def transpose(src, perm, dt, noquant=True):
    dst = [src[p] for p in perm]
    tens = [T("in", src, dt, noquant=noquant), T("perm", [len(perm)], "INT32", data=perm), T("out", dst, dt, noquant=noquant)]
    return single(tens, [O("TRANSPOSE", ["in", "perm"], ["out"], "TransposeOptions")], ["in"], ["out"])


cases = [
    ("int8 [1,4,5,3] perm 0213 (control)", transpose([1, 4, 5, 3], [0, 2, 1, 3], "INT8", False), []),
    ("int32 [1,4,5,3] perm 0213, no quantisation", transpose([1, 4, 5, 3], [0, 2, 1, 3], "INT32"), []),
    ("int8 [1,4,5,3] perm 0213, no quantisation", transpose([1, 4, 5, 3], [0, 2, 1, 3], "INT8"), []),
    ("int32 [4,5] perm 10, no quantisation", transpose([4, 5], [1, 0], "INT32"), ["--accelerator-config", "ethos-u55-64"]),
]
sys.exit(obs_util.run(cases))

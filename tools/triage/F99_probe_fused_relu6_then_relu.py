import os, sys
sys.path.insert(0, os.getcwd()); sys.path.insert(0, os.path.join(os.getcwd(),'out'))
from c03lib import *
import c03lib
from ethosu.vela import high_level_command_to_npu_op as h
rec=[]
orig=h.create_npu_activation
def spy(op):
    a=orig(op); rec.append((op.name, op.type.name, a.op_type.name, a.min, a.max)); return a
h.create_npu_activation=spy
def build(first, second):
    b=ModelBuilder()
    x=b.input([1,8,8,16])
    a=b.conv(x,16,act=first)
    from ethosu.vela.operation import create_activation_function
    if first is not None: a.ops[0].activation=create_activation_function(first)
    a=b.unary(second,a)
    return b.build([a])
from ethosu.vela.operation import Op
for first,second in ((Op.Relu6,'relu'),(Op.Relu,'relu6'),(None,'relu6')):
    rec.clear()
    try:
        check_model(build(first,second), ["--accelerator-config","ethos-u55-128"])
    except Exception as e:
        print('ERR',repr(e)[:200])
    print(first, second, rec)

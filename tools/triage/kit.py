"""Tiny model kit: build .tflite models with Vela's own classes, compile them with vela.main and read back the
operator list of the output."""
import contextlib
import io
import os
import sys
import tempfile

import numpy as np

from ethosu.vela import vela
from ethosu.vela.data_type import DataType
from ethosu.vela.nn_graph import Graph
from ethosu.vela.nn_graph import Pass
from ethosu.vela.nn_graph import PassPlacement
from ethosu.vela.nn_graph import Subgraph
from ethosu.vela.operation import NpuBlockType
from ethosu.vela.operation import Op
from ethosu.vela.operation import Operation
from ethosu.vela.tensor import create_const_tensor
from ethosu.vela.tensor import QuantizationParameters
from ethosu.vela.tensor import Tensor
from ethosu.vela.tflite import Model
from ethosu.vela.tflite.BuiltinOperator import BuiltinOperator
from ethosu.vela.tflite_writer import write_tflite_buffer


def qp(scale=0.5, zp=0):
    q = QuantizationParameters()
    q.scale_f32 = np.float32(scale) if np.isscalar(scale) else np.array(scale, dtype=np.float32)
    q.zero_point = np.int64(zp) if np.isscalar(zp) else np.array(zp, dtype=np.int64)
    q.min = None
    q.max = None
    return q


def act(name, shape, dtype=DataType.int8, scale=0.5, zp=0, quant=True):
    t = Tensor(list(shape), dtype, name)
    if quant:
        t.quantization = qp(scale, zp)
    return t


def const(name, shape, dtype, values, scale=None, zp=0):
    q = qp(scale, zp) if scale is not None else None
    np_dtype = dtype.as_numpy_type()
    t = create_const_tensor(name, list(shape), dtype, np.array(values, dtype=np_dtype).reshape(shape), quantization=q)
    return t


def mkop(op_type, name, inputs, outputs, attrs=None, version=1):
    op = Operation(op_type, name)
    for t in inputs:
        if t is None:
            op.inputs.append(None)
        else:
            op.add_input_tensor(t)
    if not isinstance(outputs, (list, tuple)):
        outputs = [outputs]
    for o in outputs:
        op.outputs.append(o)
        o.ops = [op]
    op.attrs = dict(attrs or {})
    op.version = version
    op.run_on_npu = False  # write the attributes exactly as given
    return op


def build(ops, inputs, outputs, name="m"):
    nng = Graph(name)
    sg = Subgraph(name, PassPlacement.Cpu)
    for t in inputs:
        p = Operation(Op.Placeholder, t.name + "_ph")
        p.set_output_tensor(t)
    sg.input_tensors = list(inputs)
    sg.original_inputs = list(inputs)
    sg.output_tensors = list(outputs)
    for op in ops:
        ps = Pass(op.name, PassPlacement.Cpu, False, NpuBlockType.Default)
        ps.ops = [op]
        ps.primary_op = op
        sg.passes.append(ps)
    nng.subgraphs.append(sg)
    return bytes(write_tflite_buffer(nng))


_names = {v: k for k, v in vars(BuiltinOperator).items() if not k.startswith("_")}


def op_list(buf):
    model = Model.Model.GetRootAsModel(bytearray(buf), 0)
    res = []
    for s in range(model.SubgraphsLength()):
        sg = model.Subgraphs(s)
        for i in range(sg.OperatorsLength()):
            o = sg.Operators(i)
            oc = model.OperatorCodes(o.OpcodeIndex())
            code = max(oc.BuiltinCode(), oc.DeprecatedBuiltinCode())
            nm = _names.get(code, str(code))
            if nm == "CUSTOM":
                nm = "CUSTOM:" + oc.CustomCode().decode()
            res.append(nm)
    return res


def compile_model(buf, accel="ethos-u55-128", extra=(), keep=False):
    """returns (list of operator names in the output, captured stdout)"""
    with tempfile.TemporaryDirectory() as d:
        fn = os.path.join(d, "m.tflite")
        with open(fn, "wb") as f:
            f.write(buf)
        out = io.StringIO()
        with contextlib.redirect_stdout(out):
            vela.main([fn, "--output-dir", d, "--accelerator-config", accel] + list(extra))
        with open(os.path.join(d, "m_vela.tflite"), "rb") as f:
            obuf = f.read()
    return op_list(obuf), out.getvalue(), obuf

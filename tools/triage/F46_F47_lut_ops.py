import sys
exec(open("/verif/tools/triage/F33_F36_c13_batch.py").read().split("# (1) custom op")[0])
for optype, nm in ((Op.Sqrt, "SQRT"), (Op.Log, "LOG"), (Op.Gelu, "GELU")):
    a = fm("a", [1, 4, 4, 8], 0.05, DataType.uint8); a.quantization.zero_point = 10
    op = unary(optype, nm.lower(), a, 0.05, 0); op.outputs[0].dtype = DataType.uint8; op.attrs = {"approximate": False}
    run(f"{nm} uint8", make_model([op], [a], [op.outputs[0]]))
for optype, nm in ((Op.Sqrt, "SQRT"), (Op.Log, "LOG")):
    a = fm("a", [1, 4, 4, 8], 0.5); a.quantization.zero_point = 0
    op = unary(optype, nm.lower(), a, 0.5, 0); op.attrs = {}
    run(f"{nm} int8 zp 0", make_model([op], [a], [op.outputs[0]]))

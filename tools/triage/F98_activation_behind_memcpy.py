#!/usr/bin/env python3
# Standalone program: run as   cd /tmp/seed6/C03 && /venv/bin/python out/observation2.py
# C03 observation 2 (unmodified tree): RELU after a RESHAPE that is executed as a DMA copy
import os
import sys

sys.path.insert(0, os.getcwd())

# Helper library for the C03 demonstrations: builds small TFLite models with Vela's own classes, compiles them with
# the Vela in the current directory and replays the generated NPU operations with per-byte writer tags.
import contextlib
import io
import os
import sys
import tempfile

import numpy as np

from ethosu.vela import api
from ethosu.vela import high_level_command_to_npu_op as hl2npu
from ethosu.vela import tflite_writer
from ethosu.vela import vela
from ethosu.vela.api import NpuLayout
from ethosu.vela.data_type import DataType
from ethosu.vela.high_level_command_stream import DMA
from ethosu.vela.high_level_command_stream import NOP
from ethosu.vela.high_level_command_stream import NpuStripe
from ethosu.vela.nn_graph import Graph
from ethosu.vela.nn_graph import PassPlacement
from ethosu.vela.nn_graph import Subgraph
from ethosu.vela.operation import Op
from ethosu.vela.operation import Operation
from ethosu.vela.operation import Padding
from ethosu.vela.tensor import create_const_tensor
from ethosu.vela.tensor import MemType
from ethosu.vela.tensor import QuantizationParameters
from ethosu.vela.tensor import Tensor
from ethosu.vela.tensor import TensorPurpose


# ----------------------------------------------------------------------------------------------------------------------
# Model builder
# ----------------------------------------------------------------------------------------------------------------------
def _qp(scale=0.05, zp=0, dtype=DataType.int8):
    qp = QuantizationParameters()
    qp.scale_f32 = np.float32(scale)
    qp.zero_point = np.int64(zp)
    if dtype == DataType.int8:
        qp.quant_min, qp.quant_max = -128, 127
    elif dtype == DataType.uint8:
        qp.quant_min, qp.quant_max = 0, 255
    elif dtype == DataType.int16:
        qp.quant_min, qp.quant_max = -32768, 32767
    return qp


class _FakePass:
    def __init__(self, ops):
        self.ops = ops


class ModelBuilder:
    def __init__(self, seed=0, dtype=DataType.int8):
        self.ops = []
        self.inputs = []
        self.rng = np.random.RandomState(seed)
        self.n = 0
        self.dtype = dtype

    def _name(self, base):
        self.n += 1
        return f"{base}_{self.n}"

    def _fm(self, name, shape, scale=0.05, zp=0, dtype=None):
        dtype = dtype or self.dtype
        t = Tensor(list(shape), dtype, name)
        t.quantization = _qp(scale, zp, dtype)
        return t

    def _np_dtype(self, dtype=None):
        dtype = dtype or self.dtype
        return {DataType.int8: np.int8, DataType.uint8: np.uint8, DataType.int16: np.int16, DataType.int32: np.int32}[
            dtype
        ]

    def const(self, shape, scale=0.02, zp=0, dtype=None, lo=-100, hi=100):
        dtype = dtype or self.dtype
        vals = self.rng.randint(lo, hi, size=shape).astype(self._np_dtype(dtype))
        t = create_const_tensor(self._name("const"), list(shape), dtype, vals, quantization=_qp(scale, zp, dtype))
        return t

    def input(self, shape, name=None):
        t = self._fm(name or self._name("input"), shape)
        op = Operation(Op.Placeholder, t.name)
        op.set_output_tensor(t)
        self.inputs.append(t)
        self.ops.append(op)
        return t

    def _add(self, op_type, base, inputs, out_shape, attrs=None, scale=0.05, zp=0, out_dtype=None):
        name = self._name(base)
        op = Operation(op_type, name)
        for t in inputs:
            if t is None:
                op.inputs.append(None)
            else:
                op.add_input_tensor(t)
        out = self._fm(name + "_out", out_shape, scale, zp, out_dtype)
        op.set_output_tensor(out)
        if attrs:
            op.attrs.update(attrs)
        self.ops.append(op)
        return out

    @staticmethod
    def _out_hw(h, w, kh, kw, sh, sw, padding, dh=1, dw=1):
        ekh, ekw = (kh - 1) * dh + 1, (kw - 1) * dw + 1
        if padding == Padding.SAME:
            return -(-h // sh), -(-w // sw)
        return (h - ekh) // sh + 1, (w - ekw) // sw + 1

    def conv(self, x, oc, k=(3, 3), stride=(1, 1), padding=Padding.SAME, dilation=(1, 1), act=None, bias=True):
        n, h, w, c = x.shape
        kh, kw = k
        wt = self.rng.randint(-127, 127, size=(oc, kh, kw, c)).astype(np.int8)
        wq = _qp(0.01, 0)
        wq.scale_f32 = np.float32(0.01)
        wtens = create_const_tensor(self._name("w"), [oc, kh, kw, c], DataType.int8, wt, quantization=wq)
        bq = _qp(0.01 * 0.05, 0, DataType.int32)
        bdt = DataType.int64 if self.dtype == DataType.int16 else DataType.int32
        bvals = self.rng.randint(-1000, 1000, size=(oc,)).astype(np.int64 if bdt == DataType.int64 else np.int32)
        btens = create_const_tensor(self._name("b"), [oc], bdt, bvals, quantization=bq)
        oh, ow = self._out_hw(h, w, kh, kw, stride[0], stride[1], padding, dilation[0], dilation[1])
        attrs = {
            "padding": padding,
            "stride_h": stride[0],
            "stride_w": stride[1],
            "dilation_h_factor": dilation[0],
            "dilation_w_factor": dilation[1],
            "fused_activation_function": act,
            "strides": (1, stride[0], stride[1], 1),
            "dilation": (1, dilation[0], dilation[1], 1),
        }
        return self._add(Op.Conv2DBias, "conv", [x, wtens, btens], [n, oh, ow, oc], attrs)

    def dwconv(self, x, k=(3, 3), stride=(1, 1), padding=Padding.SAME, dilation=(1, 1), act=None, mult=1):
        n, h, w, c = x.shape
        kh, kw = k
        oc = c * mult
        wt = self.rng.randint(-127, 127, size=(1, kh, kw, oc)).astype(np.int8)
        wtens = create_const_tensor(self._name("dw"), [1, kh, kw, oc], DataType.int8, wt, quantization=_qp(0.01, 0))
        bq = _qp(0.01 * 0.05, 0, DataType.int32)
        bdt = DataType.int64 if self.dtype == DataType.int16 else DataType.int32
        bvals = self.rng.randint(-1000, 1000, size=(oc,)).astype(np.int64 if bdt == DataType.int64 else np.int32)
        btens = create_const_tensor(self._name("b"), [oc], bdt, bvals, quantization=bq)
        oh, ow = self._out_hw(h, w, kh, kw, stride[0], stride[1], padding, dilation[0], dilation[1])
        attrs = {
            "padding": padding,
            "stride_h": stride[0],
            "stride_w": stride[1],
            "dilation_h_factor": dilation[0],
            "dilation_w_factor": dilation[1],
            "depth_multiplier": mult,
            "fused_activation_function": act,
            "strides": (1, stride[0], stride[1], 1),
            "dilation": (1, dilation[0], dilation[1], 1),
        }
        return self._add(Op.DepthwiseConv2DBias, "dwconv", [x, wtens, btens], [n, oh, ow, oc], attrs)

    def pool(self, x, kind="max", k=(2, 2), stride=(2, 2), padding=Padding.VALID, act=None):
        n, h, w, c = x.shape
        oh, ow = self._out_hw(h, w, k[0], k[1], stride[0], stride[1], padding)
        attrs = {
            "padding": padding,
            "stride_h": stride[0],
            "stride_w": stride[1],
            "filter_height": k[0],
            "filter_width": k[1],
            "fused_activation_function": act,
            "strides": (1, stride[0], stride[1], 1),
            "ksize": (1, k[0], k[1], 1),
        }
        q = x.quantization
        return self._add(
            Op.MaxPool if kind == "max" else Op.AvgPool,
            kind + "pool",
            [x],
            [n, oh, ow, c],
            attrs,
            scale=float(q.scale_f32),
            zp=int(q.zero_point),
        )

    def binary(self, kind, a, b, act=None, scale=0.07):
        op_type = {"add": Op.Add, "sub": Op.Sub, "mul": Op.Mul, "min": Op.Minimum, "max": Op.Maximum}[kind]
        shape = [max(p, q) for p, q in zip(a.shape, b.shape)] if len(b.shape) == len(a.shape) else list(a.shape)
        attrs = {"fused_activation_function": act}
        if kind in ("add", "sub"):
            attrs["pot_scale_int16"] = False
        if kind in ("min", "max"):
            scale = float(a.quantization.scale_f32)
            attrs = {}
        return self._add(op_type, kind, [a, b], shape, attrs, scale=scale)

    def unary(self, kind, x, alpha=0.1):
        op_type = {
            "tanh": Op.Tanh,
            "sigmoid": Op.Sigmoid,
            "relu": Op.Relu,
            "relu6": Op.Relu6,
            "leaky": Op.LeakyRelu,
            "abs": Op.Abs,
            "hswish": Op.HardSwish,
            "floor": Op.Floor,
        }[kind]
        scale = {"tanh": 1.0 / 128, "sigmoid": 1.0 / 256}.get(kind, float(x.quantization.scale_f32))
        zp = {"sigmoid": -128}.get(kind, 0)
        attrs = {"alpha": alpha} if kind == "leaky" else {}
        return self._add(op_type, kind, [x], list(x.shape), attrs, scale=scale, zp=zp)

    def concat(self, xs, axis=3):
        shape = list(xs[0].shape)
        shape[axis] = sum(t.shape[axis] for t in xs)
        q = xs[0].quantization
        return self._add(
            Op.ConcatTFLite,
            "concat",
            list(xs),
            shape,
            {"axis": axis, "fused_activation_function": None},
            scale=float(q.scale_f32),
            zp=int(q.zero_point),
        )

    def reshape(self, x, shape):
        st = create_const_tensor(self._name("shape"), [len(shape)], DataType.int32, np.array(shape, np.int32))
        q = x.quantization
        return self._add(
            Op.Reshape,
            "reshape",
            [x, st],
            list(shape),
            {"new_shape": list(shape)},
            scale=float(q.scale_f32),
            zp=int(q.zero_point),
        )

    def resize(self, x, kind="nearest", factor=2, align_corners=False, half_pixel_centers=False):
        n, h, w, c = x.shape
        oh, ow = h * factor, w * factor
        st = create_const_tensor(self._name("size"), [2], DataType.int32, np.array([oh, ow], np.int32))
        q = x.quantization
        return self._add(
            Op.ResizeNearestNeighbor if kind == "nearest" else Op.ResizeBilinear,
            "resize",
            [x, st],
            [n, oh, ow, c],
            {"align_corners": align_corners, "half_pixel_centers": half_pixel_centers},
            scale=float(q.scale_f32),
            zp=int(q.zero_point),
        )

    def fc(self, x, oc, act=None):
        n, c = x.shape[0], int(np.prod(x.shape[1:]))
        wt = self.rng.randint(-127, 127, size=(oc, c)).astype(np.int8)
        wtens = create_const_tensor(self._name("fcw"), [oc, c], DataType.int8, wt, quantization=_qp(0.01, 0))
        bvals = self.rng.randint(-1000, 1000, size=(oc,)).astype(np.int32)
        btens = create_const_tensor(
            self._name("b"), [oc], DataType.int32, bvals, quantization=_qp(0.0005, 0, DataType.int32)
        )
        attrs = {
            "fused_activation_function": act,
            "weights_format": 0,
            "keep_num_dims": False,
            "asymmetric_quantize_inputs": False,
        }
        return self._add(Op.FullyConnected, "fc", [x, wtens, btens], [n, oc], attrs)

    def slice_h(self, x, begin, size):
        # STRIDED_SLICE along the height axis
        n, h, w, c = x.shape
        b = create_const_tensor(self._name("begin"), [4], DataType.int32, np.array([0, begin, 0, 0], np.int32))
        e = create_const_tensor(self._name("end"), [4], DataType.int32, np.array([n, begin + size, w, c], np.int32))
        s = create_const_tensor(self._name("strides"), [4], DataType.int32, np.array([1, 1, 1, 1], np.int32))
        q = x.quantization
        attrs = {"begin_mask": 0, "ellipsis_mask": 0, "end_mask": 0, "new_axis_mask": 0, "shrink_axis_mask": 0, "offset": False}
        return self._add(
            Op.StridedSlice, "slice", [x, b, e, s], [n, size, w, c], attrs, scale=float(q.scale_f32), zp=int(q.zero_point)
        )

    def softmax(self, x, beta=1.0):
        return self._add(Op.Softmax, "softmax", [x], list(x.shape), {"beta": beta}, scale=1.0 / 256, zp=-128 if self.dtype == DataType.int8 else 0)

    def mean(self, x):
        ax = create_const_tensor(self._name("axis"), [2], DataType.int32, np.array([1, 2], np.int32))
        n, h, w, c = x.shape
        q = x.quantization
        return self._add(Op.Mean, "mean", [x, ax], [n, 1, 1, c], {"keep_dims": True}, scale=float(q.scale_f32), zp=int(q.zero_point))

    def pad(self, x, top=1, bottom=1, left=1, right=1):
        n, h, w, c = x.shape
        pt = create_const_tensor(
            self._name("paddings"), [4, 2], DataType.int32, np.array([[0, 0], [top, bottom], [left, right], [0, 0]], np.int32)
        )
        q = x.quantization
        return self._add(
            Op.Pad, "pad", [x, pt], [n, h + top + bottom, w + left + right, c], {}, scale=float(q.scale_f32), zp=int(q.zero_point)
        )

    def transpose_conv(self, x, oc, k=(3, 3), stride=(2, 2), padding=Padding.SAME):
        n, h, w, c = x.shape
        if padding == Padding.SAME:
            oh, ow = h * stride[0], w * stride[1]
        else:
            oh, ow = (h - 1) * stride[0] + k[0], (w - 1) * stride[1] + k[1]
        wt = self.rng.randint(-127, 127, size=(oc, k[0], k[1], c)).astype(np.int8)
        wtens = create_const_tensor(self._name("tw"), [oc, k[0], k[1], c], DataType.int8, wt, quantization=_qp(0.01, 0))
        shp = create_const_tensor(self._name("oshape"), [4], DataType.int32, np.array([n, oh, ow, oc], np.int32))
        bvals = self.rng.randint(-1000, 1000, size=(oc,)).astype(np.int32)
        btens = create_const_tensor(self._name("b"), [oc], DataType.int32, bvals, quantization=_qp(0.0005, 0, DataType.int32))
        attrs = {"padding": padding, "stride_h": stride[0], "stride_w": stride[1], "strides": (1, stride[0], stride[1], 1)}
        return self._add(Op.Conv2DBackpropInput, "tconv", [shp, wtens, x, btens], [n, oh, ow, oc], attrs)

    def split(self, x, num, axis=3):
        ax = create_const_tensor(self._name("axis"), [], DataType.int32, np.array(axis, np.int32))
        name = self._name("split")
        op = Operation(Op.Split, name)
        op.add_input_tensor(ax)
        op.add_input_tensor(x)
        shape = list(x.shape)
        shape[axis] //= num
        outs = []
        q = x.quantization
        for i in range(num):
            t = self._fm(f"{name}_out{i}", shape, float(q.scale_f32), int(q.zero_point))
            t.ops = [op]
            op.outputs.append(t)
            outs.append(t)
        op.attrs.update({"num_splits": num})
        self.ops.append(op)
        return outs

    def build(self, outputs):
        nng = Graph("model")
        sg = Subgraph("main", PassPlacement.Cpu)
        sg.input_tensors = list(self.inputs)
        sg.original_inputs = list(self.inputs)
        sg.output_tensors = list(outputs)
        sg.passes = [_FakePass(self.ops)]
        nng.subgraphs.append(sg)
        return bytes(tflite_writer.write_tflite_buffer(nng))


# ----------------------------------------------------------------------------------------------------------------------
# Compilation with capture of the generated NPU operations
# ----------------------------------------------------------------------------------------------------------------------
class Capture:
    def __init__(self):
        self.streams = []  # list of (sg, arch, [(npu_op, cmd)], hl_cmds)
        self.nng = None
        self.arch = None


def compile_model(tflite_bytes, extra_args=(), quiet=True, config_text=None):
    """Compiles the model with vela.main(), returns a Capture with the list of NPU operations of every NPU subgraph"""
    cap = Capture()
    orig_gen = hl2npu.generate_command_stream
    orig_process = vela.process

    orig_for_sg = hl2npu.generate_register_command_stream_for_sg
    pending = []

    def gen_hook(npu_op_list, arch, verbose, mem_limits, add_to_debug_db=None, npu_op_to_cmd=None):
        pending.append((arch, list(npu_op_list), dict(npu_op_to_cmd or {})))
        return orig_gen(npu_op_list, arch, verbose, mem_limits, add_to_debug_db, npu_op_to_cmd)

    def for_sg_hook(nng, sg, arch, verbose=False):
        del pending[:]
        res = orig_for_sg(nng, sg, arch, verbose)
        for arch_, ops, m in pending:
            cap.streams.append((sg, arch_, ops, m))
        return res

    def process_hook(*args, **kwargs):
        nng = orig_process(*args, **kwargs)
        cap.nng = nng
        cap.arch = args[2]
        return nng

    hl2npu.generate_command_stream = gen_hook
    hl2npu.generate_register_command_stream_for_sg = for_sg_hook
    vela.process = process_hook
    try:
        with tempfile.TemporaryDirectory() as tmp:
            fn = os.path.join(tmp, "model.tflite")
            with open(fn, "wb") as f:
                f.write(tflite_bytes)
            args = [fn, "--output-dir", os.path.join(tmp, "out")]
            if config_text is not None:
                cfg = os.path.join(tmp, "cfg.ini")
                with open(cfg, "w") as f:
                    f.write(config_text)
                args += ["--config", cfg]
            args += list(extra_args)
            if quiet:
                sys.stdout.flush()
                saved = os.dup(1)
                logf = os.open(os.path.join(tmp, "log.txt"), os.O_WRONLY | os.O_CREAT | os.O_TRUNC)
                os.dup2(logf, 1)
                try:
                    with contextlib.redirect_stdout(io.StringIO()) as buf:
                        vela.main(args)
                finally:
                    sys.stdout.flush()
                    os.dup2(saved, 1)
                    os.close(saved)
                    os.close(logf)
                with open(os.path.join(tmp, "log.txt")) as f:
                    cap.log = buf.getvalue() + f.read()
            else:
                vela.main(args)
                cap.log = ""
    finally:
        hl2npu.generate_command_stream = orig_gen
        hl2npu.generate_register_command_stream_for_sg = orig_for_sg
        vela.process = orig_process
    return cap


# ----------------------------------------------------------------------------------------------------------------------
# Replay of the generated NPU operations with per-byte writer tags
# ----------------------------------------------------------------------------------------------------------------------
K_UNDEF, K_CONST, K_FM = 0, 1, 2
MEM2MEM_REGION = hl2npu.BASE_PTR_INDEX_MEM2MEM


class Mem:
    def __init__(self):
        self.r = {}

    def _get(self, region, upto):
        a = self.r.get(region)
        if a is None or len(a["kind"]) < upto:
            n = max(upto, 1024)
            if a is not None:
                n = max(n, 2 * len(a["kind"]))
            new = {
                "kind": np.zeros(n, np.uint8),
                "val": np.zeros(n, np.uint8),
                "tid": np.zeros(n, np.int32),
                "eid": np.full(n, -2, np.int64),
                "who": np.full(n, -1, np.int32),
            }
            if a is not None:
                m = len(a["kind"])
                for k in new:
                    new[k][:m] = a[k]
            self.r[region] = new
            a = new
        return a

    def view(self, region, upto):
        return self._get(region, int(upto))


class Oracle:
    def __init__(self, cap, verbose=False):
        self.cap = cap
        self.nng = cap.nng
        self.arch = cap.arch
        self.mem = Mem()
        self.ids = {}
        self.names = {0: "<undefined>"}
        self.violations = []
        self.verbose = verbose
        self.op_names = []
        self.n_reads_checked = 0

    # -- identities ---------------------------------------------------------------------------------------------------
    def tid(self, tens):
        key = tens.equivalence_id
        if key not in self.ids:
            self.ids[key] = len(self.ids) + 1
            self.names[self.ids[key]] = tens.name
        return self.ids[key]

    def region(self, tens):
        return hl2npu.get_region(tens.mem_type, self.arch)

    def violation(self, msg):
        if len(self.violations) < 50:
            self.violations.append(msg)
        if self.verbose:
            print("VIOLATION:", msg)

    def who(self, name):
        self.op_names.append(name)
        return len(self.op_names) - 1

    # -- whole tensors (network inputs/outputs, CPU operators) -------------------------------------------------------
    def _whole(self, tens):
        esz = tens.element_size()
        n = int(np.prod(tens.shape)) if len(tens.shape) else 1
        return int(tens.address), n, esz

    def define_tensor(self, tens, who):
        if tens.address is None:
            return
        addr, n, esz = self._whole(tens)
        a = self.mem.view(self.region(tens), addr + n * esz)
        sl = slice(addr, addr + n * esz)
        a["kind"][sl] = K_FM
        a["tid"][sl] = self.tid(tens)
        a["eid"][sl] = np.repeat(np.arange(n, dtype=np.int64), esz)
        a["who"][sl] = self.who(who)

    def check_tensor(self, tens, reader):
        if tens.address is None:
            return
        addr, n, esz = self._whole(tens)
        a = self.mem.view(self.region(tens), addr + n * esz)
        sl = slice(addr, addr + n * esz)
        exp_e = np.repeat(np.arange(n, dtype=np.int64), esz)
        bad = (a["kind"][sl] != K_FM) | (a["tid"][sl] != self.tid(tens)) | ((a["eid"][sl] != exp_e) & (a["eid"][sl] != -1))
        self.n_reads_checked += 1
        if bad.any():
            i = int(np.argmax(bad))
            self.violation(
                f"{reader} reads tensor '{tens.name}' but byte {i} of it (address {addr + i}) holds "
                f"{self.describe(a, addr + i)}; {int(bad.sum())} bad bytes"
            )

    def describe(self, a, addr):
        k = a["kind"][addr]
        if k == K_UNDEF:
            return "undefined data"
        w = a["who"][addr]
        wn = self.op_names[w] if w >= 0 else "?"
        if k == K_CONST:
            return f"constant data (copied by {wn})"
        return f"element {a['eid'][addr]} of '{self.names.get(int(a['tid'][addr]), '?')}' written by {wn}"

    # -- feature maps of NPU operations ------------------------------------------------------------------------------
    @staticmethod
    def fm_addresses(fm):
        h, w, d = fm.shape.height, fm.shape.width, fm.shape.depth
        esz = fm.data_type.size_in_bytes()
        ys = np.arange(h, dtype=np.int64)[:, None]
        xs = np.arange(w, dtype=np.int64)[None, :]
        t = fm.tiles
        left = xs < t.width_0
        top_l = ys < t.height_0
        top_r = ys < t.height_1
        ad = [int(x) for x in t.addresses]
        base = np.where(left, np.where(top_l, ad[0], ad[2]), np.where(top_r, ad[1], ad[3]))
        yy = np.where(left, np.where(top_l, ys, ys - t.height_0), np.where(top_r, ys, ys - t.height_1))
        xx = np.where(left, xs, xs - t.width_0) + 0 * ys
        cs = np.arange(d, dtype=np.int64)
        if fm.layout == NpuLayout.NHWC:
            sx = fm.strides.width
            fc = cs * esz
        else:
            sx = 16 * esz
            fc = (cs // 16) * fm.strides.depth + (cs % 16) * esz
        a2 = base + yy * fm.strides.height + xx * sx
        return a2[:, :, None] + fc[None, None, :], esz

    @staticmethod
    def logical_index(box, full_shape, fm_shape):
        # linear (row-major NHWC) element index of every element of the box within the full tensor
        n0, y0, x0, c0 = [int(v) for v in box.start_coord]
        N, H, W, C = [int(v) for v in full_shape.as_list()]
        h, w, d = fm_shape.height, fm_shape.width, fm_shape.depth
        ys = (np.arange(h, dtype=np.int64) + y0)[:, None, None]
        xs = (np.arange(w, dtype=np.int64) + x0)[None, :, None]
        cs = (np.arange(d, dtype=np.int64) + c0)[None, None, :]
        return ((n0 * H + ys) * W + xs) * C + cs

    def imprecise(self, cmd):
        op = cmd.ps.primary_op
        if op.original_type == Op.Transpose or op.type == Op.Transpose:
            return True
        if getattr(op, "ofm_stride_multiplier", [1, 1, 1]) != [1, 1, 1]:
            return True
        for offs in list(op.tile_base_offsets_ifm) + [op.tile_base_offsets_ofm]:
            if any(int(o) != 0 for o in offs):
                return True
        return False

    def read_fm(self, fm, tens, box, full_shape, reader, precise=True):
        if fm.shape.height <= 0 or fm.shape.depth <= 0 or fm.shape.width <= 0:
            return
        if len(box.start_coord) != 4:
            precise = False
        addrs, esz = self.fm_addresses(fm)
        a = self.mem.view(fm.region, int(addrs.max()) + esz)
        self.n_reads_checked += 1
        if tens.mem_type in (MemType.Permanent_NPU, MemType.Permanent_CPU):
            # constant feature map: the bytes must be the values of the tensor
            if tens.values is None or not precise:
                return
            idx = self.logical_index(box, full_shape, fm.shape)
            vals = np.ascontiguousarray(tens.values).reshape(-1)
            if idx.max() >= vals.size:
                return
            exp = vals[idx.reshape(-1)]
            exp_bytes = np.frombuffer(exp.tobytes(), np.uint8).reshape(-1, esz) if esz > 1 else exp.view(np.uint8).reshape(-1, 1)
            for b in range(esz):
                ad = addrs.reshape(-1) + b
                bad = (a["kind"][ad] != K_CONST) | (a["val"][ad] != exp_bytes[:, b])
                if bad.any():
                    i = int(np.argmax(bad))
                    self.violation(
                        f"{reader} reads constant '{tens.name}' at address {int(ad[i])} (region {fm.region}) but the "
                        f"byte there is {self.describe(a, int(ad[i]))} / value {int(a['val'][ad[i]])}, expected "
                        f"{int(exp_bytes[i, b])}; {int(bad.sum())} bad bytes"
                    )
                    return
            return
        t = self.tid(tens)
        idx = self.logical_index(box, full_shape, fm.shape) if precise else None
        for b in range(esz):
            ad = addrs + b
            bad = (a["kind"][ad] != K_FM) | (a["tid"][ad] != t)
            if precise:
                bad |= (a["eid"][ad] != idx) & (a["eid"][ad] != -1)
            if bad.any():
                pos = np.unravel_index(int(np.argmax(bad)), bad.shape)
                adr = int(ad[pos])
                want = f"element {int(idx[pos])} " if precise else ""
                self.violation(
                    f"{reader} reads {want}of '{tens.name}' (box {box}, local y,x,c={tuple(int(p) for p in pos)}) at "
                    f"address {adr} region {fm.region}, but that byte holds {self.describe(a, adr)}; "
                    f"{int(bad.sum())} bad bytes in this read"
                )
                return

    def write_fm(self, fm, tens, box, full_shape, writer, precise=True):
        if fm.shape.height <= 0 or fm.shape.depth <= 0 or fm.shape.width <= 0:
            return
        addrs, esz = self.fm_addresses(fm)
        a = self.mem.view(fm.region, int(addrs.max()) + esz)
        if len(box.start_coord) != 4:
            precise = False
        idx = self.logical_index(box, full_shape, fm.shape) if precise else -1
        w = self.who(writer)
        t = self.tid(tens)
        for b in range(esz):
            ad = addrs + b
            a["kind"][ad] = K_FM
            a["tid"][ad] = t
            a["eid"][ad] = idx
            a["who"][ad] = w

    def read_const_bytes(self, rng_region, address, expected, reader, what):
        n = len(expected)
        if n == 0:
            return
        a = self.mem.view(rng_region, address + n)
        sl = slice(address, address + n)
        exp = np.frombuffer(bytes(expected), np.uint8)
        bad = (a["kind"][sl] != K_CONST) | (a["val"][sl] != exp)
        self.n_reads_checked += 1
        if bad.any():
            i = int(np.argmax(bad))
            self.violation(
                f"{reader} reads {what} at region {rng_region} address {address}+{i} but the byte there is "
                f"{self.describe(a, address + i)} with value {int(a['val'][address + i])}, expected {int(exp[i])}; "
                f"{int(bad.sum())} of {n} bytes wrong"
            )

    # -- commands ----------------------------------------------------------------------------------------------------
    def do_dma(self, npu_op, cmd, label):
        src, dst = npu_op.src, npu_op.dest
        n = int(src.length)
        s = self.mem.view(src.region, src.address + n)
        d = self.mem.view(dst.region, dst.address + n)
        ss = slice(int(src.address), int(src.address) + n)
        ds = slice(int(dst.address), int(dst.address) + n)
        w = self.who(label)
        if os.environ.get("C03_STRICT_DMA") == "1" and cmd.out_tensor.purpose != TensorPurpose.LUT:
            ot = cmd.out_tensor
            if int(dst.address) < ot.address or int(dst.address) + n > ot.address + ot.storage_size():
                self.violation(
                    f"{label} writes [{int(dst.address)}, {int(dst.address) + n}) which is outside its destination tensor "
                    f"[{ot.address}, {ot.address + ot.storage_size()})"
                )
        if cmd.out_tensor.purpose == TensorPurpose.FeatureMap and cmd.in_tensor.mem_type in (
            MemType.Scratch,
            MemType.Scratch_fast,
        ):
            # feature map copy
            nbytes = int(np.prod(cmd.in_tensor.shape)) * cmd.in_tensor.element_size()
            nb = min(n, nbytes)
            bad = (s["kind"][ss][:nb] != K_FM) | (s["tid"][ss][:nb] != self.tid(cmd.in_tensor))
            self.n_reads_checked += 1
            if bad.any():
                i = int(np.argmax(bad))
                self.violation(
                    f"{label} copies '{cmd.in_tensor.name}' but source byte {i} holds "
                    f"{self.describe(s, int(src.address) + i)}"
                )
            kind, val, eid = s["kind"][ss].copy(), s["val"][ss].copy(), s["eid"][ss].copy()
            d["kind"][ds] = kind
            d["val"][ds] = val
            d["eid"][ds] = eid
            d["tid"][ds] = self.tid(cmd.out_tensor)
            d["who"][ds] = w
        else:
            for k in ("kind", "val", "tid", "eid"):
                d[k][ds] = s[k][ss].copy()
            d["who"][ds] = w

    def do_nop(self, cmd, label):
        src, dst = cmd.in_tensor, cmd.out_tensor
        addr, n, esz = self._whole(src)
        a = self.mem.view(self.region(src), addr + n * esz)
        sl = slice(addr, addr + n * esz)
        bad = (a["kind"][sl] != K_FM) | (a["tid"][sl] != self.tid(src))
        self.n_reads_checked += 1
        if bad.any():
            i = int(np.argmax(bad))
            self.violation(f"{label} aliases '{src.name}' but its byte {i} holds {self.describe(a, addr + i)}")
        a["tid"][sl] = self.tid(dst)

    def do_stripe(self, npu_op, cmd, label):
        ps = cmd.ps
        op = ps.primary_op
        precise = not self.imprecise(cmd)
        # reads
        self.read_fm(npu_op.ifm, cmd.ifm_tensor, cmd.ifm_box, ps.ifm_shapes[0], label + " (IFM)", precise)
        ifm2 = getattr(npu_op, "ifm2", None)
        if ifm2 is not None and getattr(npu_op, "ifm2_scalar", None) is None and cmd.ifm2_tensor is not None:
            self.read_fm(ifm2, cmd.ifm2_tensor, cmd.ifm2_box, ps.ifm_shapes[1], label + " (IFM2)", precise)
        if cmd.weight_tensor is not None:
            w = cmd.weight_tensor
            wsrc = w.src_tensor if w.src_tensor is not None else w
            i = 0
            for core in range(self.arch.ncores):
                key = hl2npu.WeightKey(core, cmd.weight_box.start_coord[-1])
                if key not in wsrc.encoded_ranges:
                    continue
                rng = wsrc.encoded_ranges[key]
                wr, br = npu_op.weights[i], npu_op.biases[i]
                i += 1
                buf = np.asarray(wsrc.buffer, dtype=np.uint8)
                o = rng.offset + rng.weight_offset
                self.read_const_bytes(
                    wr.region, int(wr.address), buf[o : o + rng.weight_bytes], label, f"weights of core {core} (depth {key.depth})"
                )
                if cmd.scale_tensor is not None:
                    srng = cmd.scale_tensor.encoded_ranges[key]
                    sbuf = np.asarray(cmd.scale_tensor.buffer, dtype=np.uint8)
                    exp = sbuf[srng.offset : srng.offset + srng.scale_bytes]
                else:
                    exp = buf[rng.offset : rng.offset + rng.scale_bytes]
                self.read_const_bytes(br.region, int(br.address), exp, label, f"scales of core {core} (depth {key.depth})")
            if i == 0 or i != len(npu_op.weights):
                self.violation(f"{label} has {len(npu_op.weights)} weight streams but {i} were expected")
        lut_start = self.arch.shram_lut_address
        act = npu_op.activation
        if act is not None and act.op_type == api.NpuActivationOp.TABLE_LOOKUP:
            lut_tens = ps.lut_tensor
            vals = np.ascontiguousarray(lut_tens.values)
            exp = np.frombuffer(vals.tobytes(), np.uint8)
            self.read_const_bytes(
                MEM2MEM_REGION, lut_start + int(act.lookup_table_index) * 256, exp, label, f"lookup table '{lut_tens.name}'"
            )
        elif self.arch.shram_reserved_unused_banks == 0:
            # the operation may use all SHRAM banks: the lookup tables are lost
            a = self.mem.view(MEM2MEM_REGION, lut_start + self.arch.shram_lut_size)
            a["kind"][lut_start : lut_start + self.arch.shram_lut_size] = K_UNDEF
            a["who"][lut_start : lut_start + self.arch.shram_lut_size] = self.who(label + " (SHRAM use)")
        # an operation must not overwrite input bytes it still has to read: only an elementwise operation whose OFM
        # elements are at exactly the addresses of its IFM elements may work in place
        if cmd.ifm_tensor.mem_type in (MemType.Scratch, MemType.Scratch_fast) and npu_op.ifm.region == npu_op.ofm.region:
            ia, iesz = self.fm_addresses(npu_op.ifm) if min(npu_op.ifm.shape) > 0 else (np.zeros(0, np.int64), 1)
            oa, oesz = self.fm_addresses(npu_op.ofm)
            if ia.size and oa.size and ia.min() < oa.max() + oesz and oa.min() < ia.max() + iesz:
                same = ia.shape == oa.shape and iesz == oesz and bool((ia == oa).all())
                if not (same and op.type.is_elementwise_op()):
                    iset = np.unique((ia.reshape(-1, 1) + np.arange(iesz)).reshape(-1))
                    oset = np.unique((oa.reshape(-1, 1) + np.arange(oesz)).reshape(-1))
                    common = np.intersect1d(iset, oset)
                    if common.size and not same:
                        self.violation(
                            f"{label} writes its OFM '{cmd.ofm_tensor.name}' over {common.size} bytes of its own IFM "
                            f"'{cmd.ifm_tensor.name}' (first at address {int(common[0])}) while it reads them"
                        )
        # writes
        self.write_fm(npu_op.ofm, cmd.ofm_tensor, cmd.ofm_box, ps.ofm_shapes[0], label, precise)

    def run_stream(self, sg, arch, npu_ops, npu_op_to_cmd):
        cmd_to_op = {id(c): o for o, c in npu_op_to_cmd.items()}
        for i, cmd in enumerate(sg.high_level_command_stream):
            if isinstance(cmd, NOP):
                self.do_nop(cmd, f"[{sg.name}#{i}] NOP {cmd.ps.name}")
                continue
            npu_op = cmd_to_op.get(id(cmd))
            if npu_op is None:
                continue
            if isinstance(cmd, DMA):
                self.do_dma(npu_op, cmd, f"[{sg.name}#{i}] DMA {cmd.in_tensor.name}->{cmd.out_tensor.name}")
            elif isinstance(cmd, NpuStripe):
                self.do_stripe(npu_op, cmd, f"[{sg.name}#{i}] {cmd.ps.name} ofm{cmd.ofm_box}")

    def load_flash(self):
        for sg in self.nng.subgraphs:
            ft = getattr(sg, "flash_tensor", None)
            if ft is not None and ft.values is not None:
                n = len(ft.values)
                a = self.mem.view(0, n)
                a["kind"][:n] = K_CONST
                a["val"][:n] = ft.values
                a["who"][:n] = self.who("the constant data of the output file")
                return

    def run(self):
        self.load_flash()
        streams = {id(sg): (arch, ops, m) for sg, arch, ops, m in self.cap.streams}
        root = self.nng.get_root_subgraph()
        for t in root.input_tensors:
            self.define_tensor(t, f"network input {t.name}")
        scratch = (MemType.Scratch, MemType.Scratch_fast)
        for ps in root.passes:
            for op in ps.ops:
                if op.type in (Op.Const, Op.Placeholder, Op.SubgraphInput):
                    continue
                if op.type == Op.CustomNpuOp:
                    sg = op.attrs["subgraph"]
                    if id(sg) in streams:
                        arch, ops, m = streams[id(sg)]
                        self.run_stream(sg, arch, ops, m)
                    continue
                for t in op.inputs:
                    if t is not None and t.purpose == TensorPurpose.FeatureMap and t.mem_type in scratch and t.values is None:
                        self.check_tensor(t, f"CPU operator {op.name}")
                for t in op.outputs:
                    if t is not None and t.mem_type in scratch:
                        self.define_tensor(t, f"CPU operator {op.name}")
        for t in root.output_tensors:
            if t.mem_type in scratch:
                self.check_tensor(t, f"network output {t.name}")
        return self.violations


def check_model(tflite_bytes, extra_args=(), config_text=None, verbose=False):
    cap = compile_model(tflite_bytes, extra_args, config_text=config_text)
    orc = Oracle(cap, verbose)
    v = orc.run()
    return v, orc


# ----------------------------------------------------------------------------------------------------------------------
# The scenario
# ----------------------------------------------------------------------------------------------------------------------

def report(results):
    """results: list of (label, violations, oracle, precondition_error)"""
    bad = False
    for label, v, orc, pre in results:
        if pre:
            print(f"  {label}: scenario precondition not met: {pre}")
            bad = True
        elif v:
            bad = True
            print(f"  {label}: {len(v)} violation(s) of C03 in {orc.n_reads_checked} checked reads, e.g.")
            for m in v[:2]:
                print("     ", m[:700])
        else:
            print(f"  {label}: ok ({orc.n_reads_checked} reads of NPU/CPU operators checked)")
    if bad:
        print("FAIL: an operation consumes bytes that were not defined for it (or the scenario could not be set up)")
        return 1
    print("PASS")
    return 0

def build(act, c):
    b = ModelBuilder(0, DataType.int8)
    x = b.input([1, 8, 8, c])
    r = b.reshape(x, [1, 16, 4, c])  # input is a network input -> the reshape becomes a Memcpy (DMA)
    if act:
        r = b.unary(act, r)  # packed into the DMA pass; its output becomes the (NHCWB16) destination of the DMA
    y = b.conv(r, 16)
    return b.build([y])


def main():
    results = []
    for act, c in ((None, 24), ("relu", 24), ("relu6", 8)):
        v, orc = check_model(build(act, c), ["--accelerator-config", "ethos-u55-128"])
        results.append((f"RESHAPE of a network input + {act} + CONV_2D, {c} channels", v, orc, None))
    return report(results)


if __name__ == "__main__":
    sys.exit(main())

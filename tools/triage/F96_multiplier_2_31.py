import math
import os
import sys
import tempfile
import types

sys.path.insert(0, os.getcwd())

import numpy as np

from ethosu.vela import architecture_features, graph_optimiser, model_reader, tflite_writer
from ethosu.vela.data_type import DataType
from ethosu.vela.nn_graph import Graph, PassPlacement, Subgraph
from ethosu.vela.operation import Op, Operation
from ethosu.vela.tensor import QuantizationParameters, Tensor, create_const_tensor


def qp(scale, zp):
    q = QuantizationParameters()
    q.scale_f32 = np.float32(scale)
    q.zero_point = np.int64(zp)
    return q


def fm(name, shape, dtype, scale, zp):
    t = Tensor(list(shape), dtype, name)
    t.quantization = qp(scale, zp)
    return t


def optimise(ops, inputs, outputs):
    """Serialises the operators as a .tflite model, reads it back and runs Vela's graph optimiser on it"""
    all_ops = []
    for t in inputs:
        ph = Operation(Op.Placeholder, t.name + "_ph")
        ph.set_output_tensor(t)
        all_ops.append(ph)
    for op in ops:
        for t in op.inputs:
            if t.ops and t.ops[0].type == Op.Const and t.ops[0] not in all_ops:
                all_ops.append(t.ops[0])
        all_ops.append(op)
    sg = Subgraph("main", PassPlacement.Cpu)
    sg.input_tensors = list(inputs)
    sg.original_inputs = list(inputs)
    sg.output_tensors = list(outputs)
    sg.virtual_outputs = []
    sg.passes = [types.SimpleNamespace(ops=all_ops)]
    g = Graph("main")
    g.subgraphs.append(sg)
    buf = tflite_writer.write_tflite_buffer(g)
    fd, path = tempfile.mkstemp(suffix=".tflite")
    os.write(fd, bytes(buf))
    os.close(fd)
    try:
        nng, network_type = model_reader.read_model(path, model_reader.ModelReaderOptions())
    finally:
        os.unlink(path)
    arch = architecture_features.create_default_arch(architecture_features.Accelerator.Ethos_U55_128)
    nng = graph_optimiser.optimise_graph(nng, arch, network_type)
    return [o for sg_ in nng.subgraphs for o in sg_.get_all_ops()]


def unary(op_type, dtype, s_in, zp_in, s_out, zp_out, attrs=None, shape=(1, 8, 8, 16)):
    ifm = fm("in", shape, dtype, s_in, zp_in)
    ofm = fm("out", shape, dtype, s_out, zp_out)
    op = Operation(op_type, "op")
    op.add_input_tensor(ifm)
    op.set_output_tensor(ofm)
    op.attrs.update(attrs or {})
    return optimise([op], [ifm], [ofm])


def table(ops):
    luts = [o.activation_lut for o in ops if o.activation_lut is not None]
    assert len(luts) == 1
    return [int(v) for v in luts[0].values.flatten()]


# OBSERVATION 1 (unmodified tree): scaling.quantise_scale() lacks the "q_fixed == 2**31" renormalisation of TFLite's
# QuantizeMultiplier.  A real multiplier whose significand is >= 1 - 2**-33 (just below a power of two) is returned as
# (2147483648, shift): 2**31 is not an int32.  fp_math.saturating_rounding_mul32 then fails (OverflowError under NumPy 2)
# and the model cannot be compiled.  float32 parameters that produce such a multiplier exist, e.g.
# (1 + 2**-23) * (1 - 2**-23) = 1 - 2**-46.
from ethosu.vela import scaling

found = []
print("quantise_scale(1 - 2**-40) =", scaling.quantise_scale(1 - 2.0 ** -40), " (TFLite: (1073741824, 30))")
if scaling.quantise_scale(1 - 2.0 ** -40)[0] >= 1 << 31:
    found.append("quantise_scale returns a multiplier that does not fit int32")

a = float(np.float32(1 + 2.0 ** -23))
b = float(np.float32(1 - 2.0 ** -23))
try:
    t = table(unary(Op.LeakyRelu, DataType.int8, a * 2.0 ** -7, 0, 2.0 ** -7, 0, {"alpha": b}))
    print("LEAKY_RELU compiled, table[0:4] =", t[:4])
except Exception as e:  # noqa: B902
    found.append(f"LEAKY_RELU int8 ifm_scale={a * 2.0 ** -7!r} alpha={b!r} ofm_scale=2**-7: {type(e).__name__}: {e}")
try:
    unary(Op.Softmax, DataType.int8, a * 2.0 ** -5, 0, 1 / 256, -128, {"beta": b}, shape=(1, 16))
    print("SOFTMAX compiled")
except Exception as e:  # noqa: B902
    found.append(f"SOFTMAX int8 ifm_scale={a * 2.0 ** -5!r} beta={b!r}: {type(e).__name__}: {e}")

for f in found:
    print("VIOLATION:", f)
sys.exit(1 if found else 0)

"""Observation 1 (unmodified tree): two consecutive memory-only operators that stay on the CPU (here float32 RESHAPE ->
RESHAPE) are packed into ONE pass by pass_packing; the tensor between them is neither an input nor an output of that
pass (Pass.intermediates is never filled), so no live range is created for it, its address stays None and
tflite_writer writes offset 0 for it.  At offset 0 another tensor ('keep', a graph input that is read by the last
operator) is live: the TFLM RESHAPE kernel copies its input to its output, i.e. it overwrites 'keep'."""
import os
import sys

sys.path.insert(0, os.getcwd())
sys.path.insert(0, os.path.join(os.getcwd(), "out"))

import c12_lib as L  # noqa: E402
from ethosu.vela.data_type import DataType  # noqa: E402


def build():
    b = L.ModelBuilder()
    x = b.input([1, 8, 8, 16], "in_a", dtype=DataType.float32)
    k = b.input([1, 1024], "keep", dtype=DataType.float32)
    a = b.cpu_unary(x, "a")
    t = b.reshape(a, [1, 64, 16], "between_the_reshapes")
    y = b.reshape(t, [1, 1024], "y")
    z = b.cpu_binary(y, k, "z")
    return b.build([z])


found = []
for cfg_name, extra in (("u55_shared", []), ("u55_shared", ["--tensor-allocator", "Greedy"]), ("imx93", [])):
    cfg = L.ALL_CONFIGS[cfg_name]
    res = L.compile_model(build(), cfg, extra)
    out = L.parse_output(res.tflite)
    for t in out.subgraphs[0].tensors:
        if t.data is None:
            print(f"  {cfg_name:12} {t.name:22} size {t.size:6} offset {t.offset}")
    found += [f"{cfg_name} {extra}: {p}" for p in L.check_plan(res, cfg, 16)]
if found:
    print("VIOLATION REPRODUCED ON THIS TREE:")
    for f in found:
        print("  ", f)
    sys.exit(1)
print("no violation")

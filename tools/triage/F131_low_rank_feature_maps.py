import os, sys, tempfile
sys.path.insert(0, os.path.dirname(os.path.abspath(__file__)))
import numpy as np
from tfl_build import T, O, build_model, run_cli
q = dict(scale=0.5, zp=0)
rng = np.random.default_rng(1)
bad = 0
def run(name, tensors, ops, ins, outs):
    global bad
    model = build_model([dict(tensors=tensors, ops=ops, inputs=ins, outputs=outs)])
    with tempfile.TemporaryDirectory() as d:
        r = run_cli(model, d)
    last = [l for l in r['err'].strip().splitlines() if l.strip()][-1] if r.get('traceback') else ''
    where = [l.strip() for l in r['err'].splitlines() if l.strip().startswith('File ')][-1] if r.get('traceback') else ''
    if r.get('traceback'): bad += 1
    print(f"{name:45s} rc={r['rc']} {'CRASH ' + last + ' @ ' + where[-80:] if r.get('traceback') else 'ok'}")
pool = dict(Padding=1, StrideW=1, StrideH=1, FilterWidth=1, FilterHeight=1, FusedActivationFunction=0)
for shp in ([8], [1, 8], [4, 8], [1, 4, 8]):
    for k in ("AVERAGE_POOL_2D", "MAX_POOL_2D"):
        run(f"{k} {shp}", [T("a", shp, np.int8, **q), T("b", shp, np.int8, **q)], [O(k, [0], [1], "Pool2DOptions", **pool)], [0], [1])
conv = dict(Padding=0, StrideW=1, StrideH=1, DilationWFactor=1, DilationHFactor=1, FusedActivationFunction=0)
b8 = np.zeros(8, np.int32); b = np.zeros(16, np.int32)
for shp in ([1, 8], [8]):
    w = rng.integers(-5, 5, (8, 1, 1, 8)).astype(np.int8)
    run(f"CONV_2D {shp}", [T("a", shp, np.int8, **q), T("w", [8, 1, 1, 8], np.int8, data=w, scale=0.1, zp=0), T("bias", [8], np.int32, data=b8, scale=0.05, zp=0), T("o", shp, np.int8, **q)],
        [O("CONV_2D", [0, 1, 2], [3], "Conv2DOptions", **conv)], [0], [3])
for shp, oshp in (([1, 8], [1, 16]), ([1, 4, 8], [1, 4, 16]), ([1, 4, 1], [1, 4, 2])):
    dw = dict(conv); dw["DepthMultiplier"] = 2
    oc = oshp[-1]
    w2 = rng.integers(-5, 5, (1, 1, 1, oc)).astype(np.int8)
    run(f"DEPTHWISE_CONV_2D mult 2 {shp}", [T("a", shp, np.int8, **q), T("w", [1, 1, 1, oc], np.int8, data=w2, scale=0.1, zp=0), T("bias", [oc], np.int32, data=np.zeros(oc, np.int32), scale=0.05, zp=0), T("o", oshp, np.int8, **q)],
        [O("DEPTHWISE_CONV_2D", [0, 1, 2], [3], "DepthwiseConv2DOptions", **dw)], [0], [3])
for pad in (0, 1):
    for shp, oshp in (([1, 4], [1, 8]), ([4], [8]), ([1, 4, 8], [1, 8, 16]), ([1, 4, 8], [1, 9, 17])):
        w = rng.integers(-5, 5, (8, 2, 2, shp[-1])).astype(np.int8)
        osz = np.array([1] * (4 - len(oshp)) + oshp, np.int32)
        run(f"TRANSPOSE_CONV pad {pad} {shp}->{oshp}", [T("os", [4], np.int32, data=osz), T("w", [8, 2, 2, shp[-1]], np.int8, data=w, scale=0.1, zp=0), T("a", shp, np.int8, **q), T("o", oshp, np.int8, **q)],
            [O("TRANSPOSE_CONV", [0, 1, 2], [3], "TransposeConvOptions", Padding=pad, StrideW=2, StrideH=2)], [2], [3])
for shp, oshp in (([8], [16]), ([1, 8], [1, 16]), ([4, 8], [8, 16]), ([1, 4, 4, 8], [8, 16]), ([1, 4, 8], [1, 8, 8])):
    sz = np.array([8, 16], np.int32)
    for k, opt in (("RESIZE_BILINEAR", "ResizeBilinearOptions"), ("RESIZE_NEAREST_NEIGHBOR", "ResizeNearestNeighborOptions")):
        run(f"{k} {shp}->{oshp}", [T("a", shp, np.int8, **q), T("sz", [2], np.int32, data=sz), T("o", oshp, np.int8, **q)],
            [O(k, [0, 1], [2], opt, AlignCorners=False, HalfPixelCenters=False)], [0], [2])
sys.exit(1 if bad else 0)

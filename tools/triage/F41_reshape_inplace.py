import sys
exec(open("/verif/tools/triage/F33_F36_c13_batch.py").read().split("# (1) custom op")[0])
import re
def build():
    x = fm("x", [1, 8, 8, 16], 0.5)
    s1 = create_const_tensor("s1", [4], DataType.int32, np.array([1, 4, 16, 16]))
    r = fm("r", [1, 4, 16, 16], 0.5)
    op1 = Operation(Op.Reshape, "reshape1"); op1.attrs = {"new_shape": [1, 4, 16, 16]}
    op1.add_input_tensor(x); op1.add_input_tensor(s1); op1.set_output_tensor(r)
    op2 = unary(Op.Abs, "abs", r, 0.5, 0)
    z = op2.outputs[0]
    s2 = create_const_tensor("s2", [4], DataType.int32, np.array([1, 8, 8, 16]))
    z2 = fm("z2", [1, 8, 8, 16], 0.5)
    op3 = Operation(Op.Reshape, "reshape2"); op3.attrs = {"new_shape": [1, 8, 8, 16]}
    op3.add_input_tensor(z); op3.add_input_tensor(s2); op3.set_output_tensor(z2)
    w = fm("w", [1, 8, 8, 16], 0.5)
    op4 = Operation(Op.FloorDiv, "floordiv"); op4.attrs = {}
    op4.add_input_tensor(x); op4.add_input_tensor(z2); op4.set_output_tensor(w)
    return make_model([op1, op2, op3, op4], [x], [w])
data = build()
d = tempfile.mkdtemp(prefix="tri_"); p = os.path.join(d, "m.tflite"); open(p, "wb").write(data)
out = io.StringIO()
with contextlib.redirect_stdout(out):
    rc = vela.main([p, "--output-dir", d, "--accelerator-config", "ethos-u55-128", "--config", "Arm/vela.ini", "--system-config", "Ethos_U55_High_End_Embedded", "--memory-mode", "Shared_Sram", "--verbose-allocation"])
txt = out.getvalue()
print("rc", rc)
for l in txt.splitlines():
    if re.search(r"\b(x|z2|r|w|abs_out)\b", l) or "Allocation" in l or "live" in l.lower():
        print(l[:200])

# Helper library for the C08 demonstrations: builds small TFLite models with Vela's own classes, compiles them with
# ethosu.vela.vela.main and checks the weight / scale streams the NPU operations are told to read against an
# independent model of the hardware layout (own re-implementation of the weight reordering, own scale quantisation).
import math
import os
import sys

sys.path.insert(0, os.getcwd())

import numpy as np  # noqa: E402

from ethosu import mlw_codec  # noqa: E402
from ethosu.vela import high_level_command_to_npu_op as hl2npu  # noqa: E402
from ethosu.vela import tflite_writer  # noqa: E402
from ethosu.vela import vela  # noqa: E402
from ethosu.vela.api import NpuBlockTraversal  # noqa: E402
from ethosu.vela.api import NpuConv2DOperation  # noqa: E402
from ethosu.vela.api import NpuConvDepthWiseOperation  # noqa: E402
from ethosu.vela.api import NpuDmaOperation  # noqa: E402
from ethosu.vela.data_type import DataType  # noqa: E402
from ethosu.vela.nn_graph import Graph  # noqa: E402
from ethosu.vela.nn_graph import Pass  # noqa: E402
from ethosu.vela.nn_graph import PassPlacement  # noqa: E402
from ethosu.vela.nn_graph import Subgraph  # noqa: E402
from ethosu.vela.operation import NpuBlockType  # noqa: E402
from ethosu.vela.operation import Op  # noqa: E402
from ethosu.vela.operation import Operation  # noqa: E402
from ethosu.vela.operation import Padding  # noqa: E402
from ethosu.vela.tensor import create_const_tensor  # noqa: E402
from ethosu.vela.tensor import QuantizationParameters  # noqa: E402
from ethosu.vela.tensor import Tensor  # noqa: E402


# ---------------------------------------------------------------------------------------------------------------------
# Model building
# ---------------------------------------------------------------------------------------------------------------------
def qp(scale, zp=0):
    q = QuantizationParameters()
    q.scale_f32 = np.float32(scale) if np.isscalar(scale) else np.array(scale, np.float32)
    q.zero_point = zp if np.isscalar(zp) else np.array(zp)
    q.quant_dim = 0
    return q


def fm(name, shape, dtype=DataType.int8, scale=0.05, zp=0):
    t = Tensor(list(shape), dtype, name)
    t.quantization = qp(scale, zp)
    return t


def _conv_attrs(stride, padding, dilation):
    return {
        "padding": Padding.SAME if padding == "SAME" else Padding.VALID,
        "stride_w": stride[0],
        "stride_h": stride[1],
        "dilation_w_factor": dilation[0],
        "dilation_h_factor": dilation[1],
        "strides": (1, stride[1], stride[0], 1),
        "dilation": (1, dilation[1], dilation[0], 1),
        "fused_activation_function": None,
    }


def conv(
    name,
    ifm,
    w_ohwi,
    bias,
    ofm,
    w_scale,
    stride=(1, 1),
    padding="SAME",
    dilation=(1, 1),
    w_zp=0,
    wdtype=DataType.int8,
    bias_dtype=DataType.int32,
    w_tens=None,
    b_tens=None,
):
    op = Operation(Op.Conv2DBias, name)
    op.attrs = _conv_attrs(stride, padding, dilation)
    if w_tens is None:
        w_tens = create_const_tensor(name + "_w", list(w_ohwi.shape), wdtype, w_ohwi, quantization=qp(w_scale, w_zp))
    if b_tens is None:
        b_tens = create_const_tensor(name + "_b", [len(bias)], bias_dtype, np.array(bias), quantization=qp(1.0))
    op.add_input_tensor(ifm)
    op.add_input_tensor(w_tens)
    op.add_input_tensor(b_tens)
    op.set_output_tensor(ofm)
    return op


def dwconv(name, ifm, w_1hwc, bias, ofm, w_scale, stride=(1, 1), padding="SAME", w_zp=0, wdtype=DataType.int8):
    op = Operation(Op.DepthwiseConv2DBias, name)
    op.attrs = _conv_attrs(stride, padding, (1, 1))
    op.attrs["depth_multiplier"] = 1
    w_tens = create_const_tensor(name + "_w", list(w_1hwc.shape), wdtype, w_1hwc, quantization=qp(w_scale, w_zp))
    w_tens.quantization.quant_dim = 3
    b_tens = create_const_tensor(name + "_b", [len(bias)], DataType.int32, np.array(bias), quantization=qp(1.0))
    op.add_input_tensor(ifm)
    op.add_input_tensor(w_tens)
    op.add_input_tensor(b_tens)
    op.set_output_tensor(ofm)
    return op


def write_model(ops, inputs, outputs, path):
    nng = Graph()
    sg = Subgraph()
    sg.placement = PassPlacement.Cpu
    sg.input_tensors = list(inputs)
    sg.original_inputs = list(inputs)
    sg.output_tensors = list(outputs)
    for t in inputs:
        p = Operation(Op.Placeholder, t.name + "_ph")
        p.set_output_tensor(t)
    ps = Pass("p", PassPlacement.Cpu, False, NpuBlockType.Default)
    ps.ops = list(ops)
    sg.passes = [ps]
    nng.subgraphs.append(sg)
    buf = tflite_writer.write_tflite_buffer(nng)
    os.makedirs(os.path.dirname(path), exist_ok=True)
    with open(path, "wb") as f:
        f.write(buf)


# ---------------------------------------------------------------------------------------------------------------------
# Compilation with capture of the NPU operation lists handed to the register command stream generator
# ---------------------------------------------------------------------------------------------------------------------
class Compiled:
    def __init__(self):
        self.nng = None
        self.arch = None
        self.streams = []  # list of (npu_op_list, npu_op_to_cmd)


def compile_model(path, accel="ethos-u65-256", extra_args=(), quiet=True):
    res = Compiled()
    orig_gen = hl2npu.generate_command_stream
    orig_process = vela.process

    def gen(npu_op_list, arch, verbose, mem_limits, add_to_debug_db=None, npu_op_to_cmd=None):
        res.arch = arch
        res.streams.append((list(npu_op_list), dict(npu_op_to_cmd)))
        return orig_gen(npu_op_list, arch, verbose, mem_limits, add_to_debug_db, npu_op_to_cmd)

    def process(*a, **k):
        res.nng = orig_process(*a, **k)
        return res.nng

    hl2npu.generate_command_stream = gen
    vela.process = process
    out_dir = os.path.join(os.path.dirname(path), "vela_out")
    args = [path, "--output-dir", out_dir, "--accelerator-config", accel] + list(extra_args)
    sys.stdout.flush()
    saved_fd = os.dup(1)
    try:
        if quiet:
            devnull = os.open(os.devnull, os.O_WRONLY)
            os.dup2(devnull, 1)
            os.close(devnull)
        rc = vela.main(args)
    finally:
        sys.stdout.flush()
        os.dup2(saved_fd, 1)
        os.close(saved_fd)
        hl2npu.generate_command_stream = orig_gen
        vela.process = orig_process
    if rc != 0:
        raise RuntimeError("vela.main returned %r" % (rc,))
    return res


# ---------------------------------------------------------------------------------------------------------------------
# Independent model of the weight stream layout
# ---------------------------------------------------------------------------------------------------------------------
UBLOCK_DEPTHS = {  # accelerator -> (ifm_ublock_depth, ofm_ublock_depth)
    "ethos-u55-32": (8, 4),
    "ethos-u55-64": (8, 8),
    "ethos-u55-128": (8, 8),
    "ethos-u55-256": (8, 8),
    "ethos-u65-256": (8, 8),
    "ethos-u65-512": (8, 8),
}
NCORES = {"ethos-u65-512": 2}


def _round_up(a, b):
    return ((a + b - 1) // b) * b


def reference_reorder(ohwi, ifm_ub, ofm_ub, ofm_block_depth, is_depthwise, is_partkernel, ifm_bitdepth, dec_h, dec_w):
    """Returns the list of weights in the order the hardware consumes them (0 for padding positions)"""
    ofm_depth, kh, kw, ifm_depth = ohwi.shape
    out = []
    ifm_block_depth = 16 if (is_partkernel or ifm_bitdepth == 16) else 32
    for ofm_block_z in range(0, ofm_depth, ofm_block_depth):
        clipped_ofm_bd = min(ofm_block_depth, ofm_depth - ofm_block_z)
        for ifm_block_z in range(0, 1 if is_depthwise else ifm_depth, ifm_block_depth):
            if is_depthwise:
                clipped_ifm_bd = ifm_ub
            elif is_partkernel:
                clipped_ifm_bd = min(ifm_block_depth, ifm_depth - ifm_block_z)
            else:
                clipped_ifm_bd = ifm_block_depth
            for sky in range(0, kh, dec_h):
                sub_h = min(kh - sky, dec_h)
                for skx in range(0, kw, dec_w):
                    sub_w = min(kw - skx, dec_w)
                    n_el = sub_w * sub_h
                    if is_partkernel:
                        n_el = _round_up(n_el, 2 if ifm_bitdepth == 16 else 4)
                    elif is_depthwise:
                        n_el = _round_up(n_el, 4)
                    outer = clipped_ifm_bd if is_partkernel else 1
                    inner = 1 if is_partkernel else clipped_ifm_bd
                    for ifm_ublk_outer in range(0, outer, ifm_ub):
                        for ofm_ublk in range(0, clipped_ofm_bd, ofm_ub):
                            for element in range(n_el):
                                kx = element % sub_w
                                ky = element // sub_w
                                for ifm_ublk_inner in range(0, inner, ifm_ub):
                                    for ofm_uz in range(ofm_ub):
                                        for ifm_uz in range(1 if is_depthwise else ifm_ub):
                                            ifm_z = ifm_block_z + ifm_ublk_inner + ifm_ublk_outer + ifm_uz
                                            ofm_z = ofm_block_z + ofm_ublk + ofm_uz
                                            if ifm_z < ifm_depth and ofm_z < ofm_depth and ky < sub_h:
                                                out.append(int(ohwi[ofm_z, sky + ky, skx + kx, ifm_z]))
                                            else:
                                                out.append(0)
    return out


def reference_quantise(scale):
    """TensorFlow Lite QuantizeMultiplier: returns (32-bit multiplier, right shift)"""
    if scale == 0.0:
        return 0, 0
    q, exponent = math.frexp(scale)
    q_fixed = int(math.floor(q * (1 << 31) + 0.5))  # std::round for a positive number: ties go up
    if q_fixed == (1 << 31):
        q_fixed //= 2
        exponent += 1
    return q_fixed, 31 - exponent


def same_scale(a, b):
    """(multiplier, shift) pairs that denote the same number"""
    (m1, s1), (m2, s2) = a, b
    return m1 * (1 << s2) == m2 * (1 << s1)


def reference_scales(ifm_dtype, ifm_scale, w_scales, ofm_scale, n, is_fc=False, bias64=False):
    w_scales = np.atleast_1d(np.asarray(w_scales, np.float32))
    res = []
    for ws in w_scales:
        if ifm_dtype == DataType.uint8 or is_fc:
            s = np.double(np.float32(ifm_scale) * np.float32(ws)) / np.double(np.float32(ofm_scale))
        else:
            s = np.double(np.float32(ifm_scale)) * np.double(ws) / np.double(np.float32(ofm_scale))
        m, sh = reference_quantise(float(s))
        if ifm_dtype == DataType.int16 and bias64:
            # 16-bit multiplier used by the int16 reference kernels with 64-bit bias
            m = min((m + (1 << 15)) >> 16, 32767)
            sh -= 16
        res.append((m, sh))
    if len(res) == 1:
        res = res * n
    return res


def parse_scale_records(data):
    recs = []
    for i in range(0, len(data) - 9, 10):
        r = bytes(data[i : i + 10])
        bias = int.from_bytes(r[0:5], "little", signed=True)
        mult = int.from_bytes(r[5:9], "little", signed=False)
        shift = r[9] & 0x3F
        top = r[9] >> 6
        recs.append((bias, mult, shift, top))
    return recs


# ---------------------------------------------------------------------------------------------------------------------
# The checker
# ---------------------------------------------------------------------------------------------------------------------
class Memory:
    def __init__(self, flash_region, flash_values):
        self.flash_region = flash_region
        self.mem = {flash_region: bytearray(bytes(np.asarray(flash_values, np.uint8)))}

    def region(self, r):
        if r not in self.mem:
            self.mem[r] = bytearray(8 * 1024 * 1024)
        return self.mem[r]

    def read(self, rng):
        m = self.region(rng.region)
        if rng.address < 0 or rng.address + rng.length > len(m):
            raise AssertionError(
                "address range region %d [%d, %d) outside memory of %d bytes"
                % (rng.region, rng.address, rng.address + rng.length, len(m))
            )
        return m[rng.address : rng.address + rng.length]

    def copy(self, src, dst):
        data = self.read(src)
        m = self.region(dst.region)
        m[dst.address : dst.address + len(data)] = data


def check_compiled(res, accel, expect, log=None):
    """expect: dict op name -> dict(w_hwio=int array (zero point corrected, HWIO), bias=[...], w_scales=..,
    ifm_scale=.., ofm_scale=.., ifm_dtype=.., depthwise=bool).  Returns list of problems found."""
    problems = []
    ifm_ub, ofm_ub = UBLOCK_DEPTHS[accel]
    ncores = NCORES.get(accel, 1)
    seen_ops = set()
    npu_sgs = [sg for sg in res.nng.subgraphs if sg.placement == PassPlacement.Npu]
    assert len(npu_sgs) == len(res.streams)
    for sg, (npu_ops, op_to_cmd) in zip(npu_sgs, res.streams):
        flash_region = hl2npu.get_region(sg.flash_tensor.mem_type, res.arch)
        mem = Memory(flash_region, sg.flash_tensor.values)
        flash_ranges = {}  # (addr, len) -> description, ranges of encoded data read from the constant tensor
        for npu_op in npu_ops:
            if isinstance(npu_op, NpuDmaOperation):
                cmd = op_to_cmd.get(npu_op)
                if cmd is not None and hasattr(cmd, "out_tensor") and cmd.out_tensor.purpose.name == "Weights":
                    # destination must be inside the buffer tensor
                    buf = cmd.out_tensor
                    lo, hi = buf.address, buf.address + buf.storage_size()
                    if not (lo <= npu_op.dest.address and npu_op.dest.address + npu_op.dest.length <= hi):
                        problems.append(
                            "%s: DMA of %d bytes to [%d, %d) does not fit the weight buffer %s [%d, %d)"
                            % (
                                npu_op.name,
                                npu_op.dest.length,
                                npu_op.dest.address,
                                npu_op.dest.address + npu_op.dest.length,
                                buf.name,
                                lo,
                                hi,
                            )
                        )
                    if npu_op.src.region == flash_region:
                        flash_ranges[(npu_op.src.address, npu_op.src.length)] = npu_op.name + " (dma)"
                mem.copy(npu_op.src, npu_op.dest)
                continue
            if not isinstance(npu_op, (NpuConv2DOperation, NpuConvDepthWiseOperation)):
                continue
            cmd = op_to_cmd[npu_op]
            name = cmd.ps.primary_op.name
            if name not in expect:
                continue
            seen_ops.add(name)
            e = expect[name]
            is_dw = isinstance(npu_op, NpuConvDepthWiseOperation)
            start_c = cmd.ofm_box.start_coord[-1]
            end_c = cmd.ofm_box.end_coord[-1]
            tag = "%s[%d:%d]" % (name, start_c, end_c)
            w_hwio = e["w_hwio"]
            if e.get("from_op"):
                # take the (graph-optimised) weights of the operator instead of the weights of the model
                wt = cmd.ps.primary_op.weights
                w_hwio = wt.values.astype(np.int64) - np.asarray(wt.quantization.zero_point)
                if w_hwio.ndim == 2:
                    w_hwio = w_hwio.reshape((1, 1) + w_hwio.shape)
                if cmd.ps.primary_op.type == Op.Conv2DBackpropInputSwitchedBias:
                    w_hwio = w_hwio[::-1, ::-1, :, :]
            is_pk = (not is_dw) and npu_op.block_traversal == NpuBlockTraversal.PART_KERNEL_FIRST
            ifm_bits = npu_op.ifm.data_type.size_in_bits()
            blk_depth = npu_op.block_config.depth
            dec_h = 8 // npu_op.kernel.dilation_y
            dec_w = 8 // npu_op.kernel.dilation_x
            brick = np.transpose(w_hwio[:, :, :, start_c:end_c], (3, 0, 1, 2))
            if len(npu_op.weights) > ncores or len(npu_op.biases) > ncores:
                problems.append("%s: more address ranges than cores" % tag)
            n_ranges = min(ncores, end_c - start_c)
            # a core without channels may be given an empty range
            extra_ok = all(r.length == 0 for r in npu_op.weights[n_ranges:] + npu_op.biases[n_ranges:])
            if len(npu_op.weights) < n_ranges or len(npu_op.biases) < n_ranges or not extra_ok:
                problems.append(
                    "%s: expected %d weight/scale ranges, got %d/%d"
                    % (tag, n_ranges, len(npu_op.weights), len(npu_op.biases))
                )
            exp_scales = reference_scales(
                e["ifm_dtype"], e["ifm_scale"], e["w_scales"], e["ofm_scale"], w_hwio.shape[-1], e.get("is_fc", False),
                e.get("bias64", False),
            )
            for core in range(min(len(npu_op.weights), len(npu_op.biases))):
                wr = npu_op.weights[core]
                br = npu_op.biases[core]
                for r, what in ((wr, "weight"), (br, "scale")):
                    if r.address % 16 or r.length % 16:
                        problems.append("%s core %d: %s range not 16-byte aligned (%d, %d)" % (tag, core, what, r.address, r.length))
                    if r.region == flash_region:
                        flash_ranges[(r.address, r.length)] = "%s core %d %s" % (tag, core, what)
                chans = list(range(start_c + core, end_c, ncores))
                # --- scales
                try:
                    sdata = mem.read(br)
                except AssertionError as ex:
                    problems.append("%s core %d: %s" % (tag, core, ex))
                    continue
                if br.length != _round_up(10 * len(chans), 16):
                    problems.append(
                        "%s core %d: scale range is %d bytes for %d channels" % (tag, core, br.length, len(chans))
                    )
                recs = parse_scale_records(sdata)[: len(chans)]
                if len(recs) < len(chans):
                    problems.append("%s core %d: only %d scale records for %d channels" % (tag, core, len(recs), len(chans)))
                for rec, ch in zip(recs, chans):
                    bias, mult, shift, top = rec
                    if bias != int(e["bias"][ch]):
                        problems.append("%s core %d: channel %d has bias %d, expected %d" % (tag, core, ch, bias, e["bias"][ch]))
                        break
                    if not same_scale((mult, shift), exp_scales[ch]) or top:
                        problems.append(
                            "%s core %d: channel %d has scale (%d, %d), expected %r"
                            % (tag, core, ch, mult, shift, exp_scales[ch])
                        )
                        break
                # --- weights
                try:
                    wdata = mem.read(wr)
                except AssertionError as ex:
                    problems.append("%s core %d: %s" % (tag, core, ex))
                    continue
                core_blk = (blk_depth + ncores - 1 - core) // ncores
                exp_stream = reference_reorder(
                    brick[core::ncores], ifm_ub, ofm_ub, core_blk, is_dw, is_pk, ifm_bits, dec_h, dec_w
                )
                try:
                    got = list(mlw_codec.decode(bytearray(wdata))) if len(wdata) else []
                except Exception as ex:  # noqa: B902
                    problems.append("%s core %d: weight stream does not decode (%s)" % (tag, core, ex))
                    continue
                if got[: len(exp_stream)] != exp_stream or any(got[len(exp_stream) :]):
                    n_bad = sum(1 for a, b in zip(got, exp_stream) if a != b)
                    problems.append(
                        "%s core %d: decoded weight stream differs from the channels %s.. of the operator "
                        "(%d of %d positions differ, decoded %d values)" % (tag, core, chans[:3], n_bad, len(exp_stream), len(got))
                    )
            if log is not None:
                log.append((tag, [(r.region, r.address, r.length) for r in npu_op.weights]))
        # disjointness of the ranges in the constant tensor
        items = sorted(flash_ranges.items())
        for (a0, l0), (a1, l1) in zip([k for k, _ in items], [k for k, _ in items][1:]):
            if a0 + l0 > a1 and not (a0 <= a1 and a1 + l1 <= a0 + l0 and "(dma)" in flash_ranges[(a0, l0)]):
                problems.append(
                    "overlapping ranges in the constant tensor: %s [%d,%d) and %s [%d,%d)"
                    % (flash_ranges[(a0, l0)], a0, a0 + l0, flash_ranges[(a1, l1)], a1, a1 + l1)
                )
    for name in expect:
        if name not in seen_ops:
            problems.append("operator %s was not found in any NPU command stream" % name)
    return problems


def expectation(w_ohwi, w_zp, bias, w_scales, ifm, ofm, depthwise=False, bias64=False):
    """Expected contents for a convolution built from TFLite-layout weights"""
    w = np.asarray(w_ohwi).astype(np.int64)
    if depthwise:
        # TFLite depthwise layout is [1, H, W, C]; the hardware wants C output channels with 1 input channel each
        hwio = np.transpose(w, (1, 2, 0, 3)) - np.asarray(w_zp)
    else:
        hwio = np.transpose(w, (1, 2, 3, 0)) - np.asarray(w_zp)
    return dict(
        w_hwio=hwio,
        bias=[int(b) for b in bias],
        w_scales=w_scales,
        ifm_scale=float(ifm.quantization.scale_f32),
        ofm_scale=float(ofm.quantization.scale_f32),
        ifm_dtype=ifm.dtype,
        bias64=bias64,
    )


# ---------------------------------------------------------------------------------------------------------------------
# Observation 3 (unmodified tree): TFLiteSupportedOperators.constraint_bias_40bit counts the binary digits of the bias
# magnitude (len(bin(value)[2:]) <= 40), so a positive int64 bias in [2**39, 2**40) is accepted although it does not
# fit the SIGNED 40-bit field of the scale record.  The operator is placed on the NPU and encode_bias() then fails its
# range assertion (compilation aborts with AssertionError); with assertions disabled (python -O) the record silently
# holds bias - 2**40.
# ---------------------------------------------------------------------------------------------------------------------
def main():
    rng = np.random.default_rng(5)
    x = fm("x", [1, 8, 8, 16], DataType.int16, 0.001, 0)
    y = fm("y", [1, 8, 8, 16], DataType.int16, 0.002, 0)
    w = rng.integers(-127, 128, size=(16, 3, 3, 16)).astype(np.int8)
    b = [int(v) for v in rng.integers(-1000, 1000, size=16)]
    b[3] = 1 << 39
    c = conv("c", x, w, b, y, 0.013, bias_dtype=DataType.int64)
    path = os.path.join(os.getcwd(), "out", "tmp", "observation3.tflite")
    write_model([c], [x], [y], path)
    expect = {"y": expectation(w, 0, b, 0.013, x, y, bias64=True)}
    try:
        res = compile_model(path, "ethos-u55-128")
        problems = check_compiled(res, "ethos-u55-128", expect)
    except AssertionError:
        import traceback

        tb = traceback.format_exc().strip().splitlines()
        problems = ["compilation aborted with AssertionError: " + " | ".join(l.strip() for l in tb[-4:])]
    if problems:
        print("VIOLATION (unmodified tree)")
        for p in problems:
            print("  " + p)
        return 1
    print("no violation seen")
    return 0


if __name__ == "__main__":
    sys.exit(main())

import sys
exec(open("/verif/tools/triage/F33_F36_c13_batch.py").read().split("# (1) custom op")[0])
from ethosu.vela import tflite_reader
from ethosu.vela.tflite.Model import Model
x = Tensor([1, 4, 4, 8], DataType.float32, "x")
t1 = Tensor([1, 4, 4, 8], DataType.float32, "t1"); t2 = Tensor([1, 4, 4, 8], DataType.float32, "t2")
o1 = Operation(Op.L2Norm, "l2a"); o1.attrs = {"fused_activation_function": None}; o1.version = 1; o1.add_input_tensor(x); o1.set_output_tensor(t1)
o2 = Operation(Op.L2Norm, "l2b"); o2.attrs = {"fused_activation_function": None}; o2.version = 2; o2.add_input_tensor(t1); o2.set_output_tensor(t2)
data = make_model([o1, o2], [x], [t2])
def versions(buf):
    m = Model.GetRootAsModel(bytearray(buf), 0)
    sg = m.Subgraphs(0)
    return [(m.OperatorCodes(sg.Operators(i).OpcodeIndex()).BuiltinCode(), m.OperatorCodes(sg.Operators(i).OpcodeIndex()).Version()) for i in range(sg.OperatorsLength())]
print("source (builtin code, version) per operator:", versions(data))
d = tempfile.mkdtemp(prefix="tri_"); p = os.path.join(d, "m.tflite"); open(p, "wb").write(data)
out = io.StringIO()
with contextlib.redirect_stdout(out):
    rc = vela.main([p, "--output-dir", d, "--accelerator-config", "ethos-u55-128"])
print("rc", rc, "output:", versions(open(os.path.join(d, "m_vela.tflite"), "rb").read()))

# Observation on the UNMODIFIED tree for property C04 (conflicting NPU/DMA accesses are always separated by a wait or
# a block dependency).  Run as:  cd /tmp/seed7/C04 && /venv/bin/python out/observation2.py
#
# The oracle below is independent of Vela's dependency code: it computes, element by element, the bytes every
# operation (and every block job of a kernel operation) reads and writes, decodes KERNEL_WAIT / DMA_WAIT / BLOCKDEP
# from the emitted command words and replays the hardware queues.
import os
import sys

sys.path.insert(0, os.getcwd())

import numpy as np

from ethosu.vela.api import NpuAccelerator
from ethosu.vela.api import NpuBlockTraversal
from ethosu.vela.api import NpuPoolingOp
from ethosu.vela.api import NpuResamplingMode
from ethosu.vela.api import NpuActivationOp
from ethosu.vela.api import NpuDmaOperation
from ethosu.vela.api import NpuLayout
from ethosu.vela.api import NpuOperationType

OP_STOP, OP_CONV, OP_DW, OP_POOL, OP_EW = 0x000, 0x002, 0x003, 0x005, 0x006
OP_DMA_START, OP_DMA_WAIT, OP_KERNEL_WAIT, SET_BLOCKDEP = 0x010, 0x011, 0x012, 0x12F
KERNEL_OPS = (OP_CONV, OP_DW, OP_POOL, OP_EW)
SHRAM_REGION = 0x103
SHRAM_BANKS = {
    NpuAccelerator.Ethos_U55_32: 16,
    NpuAccelerator.Ethos_U55_64: 16,
    NpuAccelerator.Ethos_U55_128: 24,
    NpuAccelerator.Ethos_U55_256: 48,
    NpuAccelerator.Ethos_U65_256: 48,
    NpuAccelerator.Ethos_U65_512: 48,
}
IFM_UBLOCK_DEPTH = 8


def max_dma(acc):
    return 2 if acc in (NpuAccelerator.Ethos_U65_256, NpuAccelerator.Ethos_U65_512) else 1


MAX_KERNELS = 2


def parse_stream(words):
    """Returns list of events: ('kernel'|'dma', blockdep) / ('kwait', n) / ('dwait', n)"""
    events = []
    i = 0
    blockdep = None
    while i < len(words):
        w = words[i]
        code = w & 0x3FF
        param = (w >> 16) & 0xFFFF
        if w & 0x4000:
            i += 2
            continue
        i += 1
        if code == SET_BLOCKDEP:
            blockdep = param
        elif code in KERNEL_OPS:
            events.append(("kernel", blockdep))
        elif code == OP_DMA_START:
            events.append(("dma", None))
        elif code == OP_KERNEL_WAIT:
            events.append(("kwait", param & 0xF))
        elif code == OP_DMA_WAIT:
            events.append(("dwait", param & 0xF))
    return events


def fm_strides(fm):
    es = fm.data_type.size_in_bytes()
    if fm.strides is not None:
        return fm.strides.height, fm.strides.width, fm.strides.depth
    if fm.layout == NpuLayout.NHWC:
        return fm.shape.width * fm.shape.depth * es, fm.shape.depth * es, es
    d16 = (fm.shape.depth + 15) // 16 * 16
    return es * fm.shape.width * d16, 16 * es, 16 * es * fm.shape.width


def fm_bytes(fm, y0, y1, x0, x1, c0, c1):
    """Byte addresses (np.int64 array, unique) of the elements [y0,y1) x [x0,x1) x [c0,c1), clipped to the fm"""
    h, w, d = fm.shape
    y0, x0, c0 = max(y0, 0), max(x0, 0), max(c0, 0)
    y1, x1, c1 = min(y1, h), min(x1, w), min(c1, d)
    if y0 >= y1 or x0 >= x1 or c0 >= c1:
        return np.zeros(0, np.int64)
    es = fm.data_type.size_in_bytes()
    sy, sx, sc = fm_strides(fm)
    ys, xs, cs = np.meshgrid(
        np.arange(y0, y1, dtype=np.int64),
        np.arange(x0, x1, dtype=np.int64),
        np.arange(c0, c1, dtype=np.int64),
        indexing="ij",
    )
    t = fm.tiles
    right = xs >= t.width_0
    lower = np.where(right, ys >= t.height_1, ys >= t.height_0)
    base = np.where(
        right,
        np.where(lower, t.addresses[3], t.addresses[1]),
        np.where(lower, t.addresses[2], t.addresses[0]),
    ).astype(np.int64)
    ty = ys - np.where(lower, np.where(right, t.height_1, t.height_0), 0)
    tx = xs - np.where(right, t.width_0, 0)
    if fm.layout == NpuLayout.NHWC:
        addr = base + ty * sy + tx * sx + cs * es
    else:
        addr = base + ty * sy + (cs // 16) * sc + tx * 16 * es + (cs % 16) * es
    addr = addr.reshape(-1, 1) + np.arange(es, dtype=np.int64).reshape(1, -1)
    return np.unique(addr)


def rng_bytes(start, length):
    return np.arange(start, start + length, dtype=np.int64)


class Acc:
    """region -> byte address array, for reads and writes"""

    def __init__(self):
        self.r = {}
        self.w = {}

    @staticmethod
    def _add(d, region, arr):
        if len(arr) == 0:
            return
        d[region] = np.union1d(d[region], arr) if region in d else np.unique(arr)

    def read(self, region, arr):
        self._add(self.r, region, arr)

    def write(self, region, arr):
        self._add(self.w, region, arr)


def _hit(a, b):
    for region in a.keys() & b.keys():
        c = np.intersect1d(a[region], b[region])
        if len(c):
            return region, int(c[0])
    return None


def conflict(a, b, kinds=("RAW", "WAR", "WAW")):
    """a is the earlier operation, b the later one"""
    for kind, x, y in (("RAW", a.w, b.r), ("WAR", a.r, b.w), ("WAW", a.w, b.w)):
        if kind in kinds:
            hit = _hit(x, y)
            if hit:
                return kind, hit
    return None


def uses_lut(op):
    return op.activation is not None and op.activation.op_type == NpuActivationOp.TABLE_LOOKUP


def op_accesses(op, acc):
    a = Acc()
    if isinstance(op, NpuDmaOperation):
        a.read(op.src.region, rng_bytes(op.src.address, op.src.length))
        a.write(op.dest.region, rng_bytes(op.dest.address, op.src.length))
        return a
    big = 1 << 30
    a.read(op.ifm.region, fm_bytes(op.ifm, 0, big, 0, big, 0, big))
    if op.ifm2 is not None and op.ifm2_scalar is None:
        a.read(op.ifm2.region, fm_bytes(op.ifm2, 0, big, 0, big, 0, big))
    for r in list(op.weights) + list(op.biases):
        a.read(r.region, rng_bytes(r.address, r.length))
    a.write(op.ofm.region, fm_bytes(op.ofm, 0, big, 0, big, 0, big))
    banks = SHRAM_BANKS[acc]
    lut_base = (banks - 2) * 1024
    if uses_lut(op):
        a.read(SHRAM_REGION, rng_bytes(lut_base, 2048))
    usable = banks - 2 if (banks > 16 or uses_lut(op)) else banks
    a.write(SHRAM_REGION, rng_bytes(0, usable * 1024))
    return a


def ofm_blocks(op):
    """OFM blocks in processing order (depth fastest, then width, then height): (y0,y1,x0,x1,z0,z1)"""
    h, w, d = op.ofm.shape
    bh, bw, bd = op.block_config
    res = []
    for y in range(0, h, bh):
        for x in range(0, w, bw):
            for z in range(0, d, bd):
                res.append((y, min(y + bh, h), x, min(x + bw, w), z, min(z + bd, d)))
    return res


def conv_ifm_block_depth(op):
    """IFM depth that is consumed per job (see architecture_allocator._ifm_blockdepth)"""
    bits = op.ifm.data_type.size_in_bits()
    depth = op.ifm.shape.depth
    part_kernel = op.op_type == NpuOperationType.Conv2D and op.block_traversal == NpuBlockTraversal.PART_KERNEL_FIRST
    if bits == 16:
        return (min(depth, 16) + 3) // 4 * 4
    cap = 16 if part_kernel else 32
    return (min(depth, cap) + IFM_UBLOCK_DEPTH - 1) // IFM_UBLOCK_DEPTH * IFM_UBLOCK_DEPTH


def is_reduce_sum(op):
    return op.op_type == NpuOperationType.Pooling and op.sub_op_type == NpuPoolingOp.REDUCE_SUM


def jobs(op):
    """
    Jobs of the operation in processing order.
    Every job is (ofm block, ifm z range or None); for Conv2D an OFM block is computed by one job per IFM depth slice.
    """
    res = []
    if op.op_type == NpuOperationType.Conv2D or is_reduce_sum(op):
        ibd = conv_ifm_block_depth(op)
        slices = [(z, min(z + ibd, op.ifm.shape.depth)) for z in range(0, op.ifm.shape.depth, ibd)]
        for blk in ofm_blocks(op):
            for s in slices:
                res.append((blk, s))
    else:
        for blk in ofm_blocks(op):
            res.append((blk, None))
    return res


def job_reads(op, job):
    """Feature map bytes that must be read to compute the job (lower bound of what hardware fetches)"""
    (y0, y1, x0, x1, z0, z1), zslice = job
    a = Acc()
    for r in list(op.weights) + list(op.biases):
        # every job streams (part of) the weights and scales
        a.read(r.region, rng_bytes(r.address, r.length))
    if op.op_type == NpuOperationType.ElementWise:
        for fm in (op.ifm, op.ifm2 if (op.ifm2 is not None and op.ifm2_scalar is None) else None):
            if fm is None:
                continue
            h, w, d = fm.shape
            oh, ow, od = op.ofm.shape
            ya, yb = (y0, y1) if h == oh else (0, 1)
            xa, xb = (x0, x1) if w == ow else (0, 1)
            za, zb = (z0, z1) if d == od else (0, 1)
            a.read(fm.region, fm_bytes(fm, ya, yb, xa, xb, za, zb))
        return a
    k = op.kernel
    pad = op.padding
    pt, pl = (pad.top, pad.left) if pad is not None else (0, 0)
    kh = (k.height - 1) * k.dilation_y + 1
    kw = (k.width - 1) * k.dilation_x + 1
    ya, yb = y0 * k.stride_y - pt, (y1 - 1) * k.stride_y - pt + kh
    xa, xb = x0 * k.stride_x - pl, (x1 - 1) * k.stride_x - pl + kw
    if zslice is not None:
        za, zb = zslice
    else:
        za, zb = z0, z1
    if op.ifm_upscale != NpuResamplingMode.NONE:
        ya, yb = max(ya, 0) // 2, (max(yb, 1) - 1) // 2 + 1
        xa, xb = max(xa, 0) // 2, (max(xb, 1) - 1) // 2 + 1
    a.read(op.ifm.region, fm_bytes(op.ifm, ya, yb, xa, xb, za, zb))
    return a


def job_writes(op, job):
    (y0, y1, x0, x1, z0, z1), _ = job
    a = Acc()
    a.write(op.ofm.region, fm_bytes(op.ofm, y0, y1, x0, x1, z0, z1))
    return a


def check(ops, words, acc, kinds=("RAW",), upscale_ok=False):
    """
    Simulates the queues; returns list of violations (strings).
    kinds: which hazards to check between overlapping consecutive kernels (block dependency).
    Conflicts between a kernel and a DMA in flight are always checked for RAW, WAR and WAW.
    """
    events = parse_stream(words)
    starts = [e for e in events if e[0] in ("kernel", "dma")]
    assert len(starts) == len(ops), (len(starts), len(ops))
    accs = [op_accesses(op, acc) for op in ops]
    dmaq, kq = [], []
    viol = []
    idx = 0
    prev_kernel = None
    for ev in events:
        if ev[0] == "kwait":
            while len(kq) > ev[1]:
                kq.pop(0)
        elif ev[0] == "dwait":
            while len(dmaq) > ev[1]:
                dmaq.pop(0)
        else:
            op = ops[idx]
            is_dma = isinstance(op, NpuDmaOperation)
            assert is_dma == (ev[0] == "dma")
            other = kq if is_dma else dmaq
            for o in other:
                c = conflict(accs[o], accs[idx])
                if c:
                    viol.append(f"op {idx} ({op.op_type.name}) started while op {o} ({ops[o].op_type.name}) may be in flight: {c}")
            if is_dma:
                dmaq.append(idx)
                if len(dmaq) > max_dma(acc):
                    dmaq.pop(0)
            else:
                b = ev[1]
                if prev_kernel is not None and prev_kernel in kq and b:
                    p = ops[prev_kernel]
                    pj = jobs(p)
                    cj = jobs(op)
                    for j in range(min(b, len(cj))):
                        for k in range(min(b - j, len(pj))):
                            pjob = pj[len(pj) - 1 - k]
                            pa = job_writes(p, pjob)
                            for region, arr in job_reads(p, pjob).r.items():
                                pa.read(region, arr)
                            ca = job_reads(op, cj[j])
                            for region, arr in job_writes(op, cj[j]).w.items():
                                ca.write(region, arr)
                            c = conflict(pa, ca, kinds)
                            if c:
                                viol.append(
                                    f"kernel op {idx}: BLOCKDEP={b} lets its job {j} overlap job -{k + 1} of op {prev_kernel}: {c}"
                                )
                kq.append(idx)
                if len(kq) > MAX_KERNELS:
                    kq.pop(0)
                prev_kernel = idx
            idx += 1
    return viol


# ---------------------------------------------------------------------------------------------------------
# Scenario
# ---------------------------------------------------------------------------------------------------------
from ethosu.vela.api import npu_generate_register_command_stream  # noqa: E402
from ethosu.vela.api import NpuAddressRange  # noqa: E402
from ethosu.vela.api import NpuConv2DOperation  # noqa: E402
from ethosu.vela.api import NpuDataType  # noqa: E402
from ethosu.vela.api import NpuElementWiseOp  # noqa: E402
from ethosu.vela.api import NpuElementWiseOperation  # noqa: E402
from ethosu.vela.api import NpuFeatureMap  # noqa: E402
from ethosu.vela.api import NpuKernel  # noqa: E402
from ethosu.vela.api import NpuPadding  # noqa: E402
from ethosu.vela.api import NpuQuantization  # noqa: E402
from ethosu.vela.api import NpuShape3D  # noqa: E402
from ethosu.vela.api import NpuTileBox  # noqa: E402


def mk_fm(shape, region, address, dtype=NpuDataType.INT8, layout=NpuLayout.NHWC):
    fm = NpuFeatureMap()
    fm.data_type = dtype
    fm.shape = shape
    fm.region = region
    fm.layout = layout
    fm.quantization = NpuQuantization(scale_f32=1.0, zero_point=0)
    fm.tiles = NpuTileBox(height_0=shape.height, height_1=shape.height, width_0=shape.width, addresses=[address, 0, 0, 0])
    return fm


def run(name, ops, acc, kinds=("RAW",)):
    words = npu_generate_register_command_stream(ops, acc)
    events = parse_stream(words)
    print(f"{name} ({acc.name}): " + " ".join(f"{e[0]}({e[1]})" for e in events))
    return [f"{name} ({acc.name}): {v}" for v in check(ops, words, acc, kinds)]


from ethosu.vela.api import NpuPoolingOperation  # noqa: E402


def scenario():
    """
    REDUCE_SUM consuming the output of an operation that produces its OFM in several depth blocks.
    get_ifm_ofm_block_depth() returns the OFM depth (1) as "IFM block depth" for every operation that is not a
    Conv2D, so calc_blockdep() believes that the first jobs of the REDUCE_SUM read one channel each.  In reality
    the IFM of a REDUCE_SUM is consumed in slices of 32 (8 bit) channels (architecture_allocator._ifm_blockdepth),
    i.e. the very first job reads channels 16..31, which are written by the LAST block of the producer.
    """
    acc = NpuAccelerator.Ethos_U55_128
    op1 = NpuElementWiseOperation(NpuElementWiseOp.ABS)
    op1.ifm = mk_fm(NpuShape3D(1, 2, 32), 1, 0x0)
    op1.ofm = mk_fm(NpuShape3D(1, 2, 32), 1, 0x1000)
    op1.block_config = NpuShape3D(2, 2, 16)  # two depth blocks: channels 0-15, 16-31
    op2 = NpuPoolingOperation(NpuPoolingOp.REDUCE_SUM)
    op2.ifm = op1.ofm
    op2.ofm = mk_fm(NpuShape3D(1, 2, 1), 1, 0x2000, dtype=NpuDataType.INT32)
    op2.kernel = NpuKernel(1, 1)
    op2.padding = NpuPadding(0, 0, 0, 0)
    op2.block_config = NpuShape3D(2, 2, 8)
    return run("abs -> reduce_sum", [op1, op2], acc)


if __name__ == "__main__":
    violations = scenario()
    if violations:
        print("VIOLATION of C04 on this tree:")
        for v in violations:
            print("   ", v)
        sys.exit(1)
    print("no violation found")
    sys.exit(0)

import sys
exec(open("/verif/tools/triage/F33_F36_c13_batch.py").read().split("# (1) custom op")[0])
for C in (1, 4):
    a = fm("a", [1, 4, 4, C], 0.05); size = create_const_tensor("size", [2], DataType.int32, np.array([7, 7])); o = fm("o", [1, 7, 7, C], 0.05)
    op = Operation(Op.ResizeNearestNeighbor, "rnn"); op.attrs = {"align_corners": True, "half_pixel_centers": False}
    op.add_input_tensor(a); op.add_input_tensor(size); op.set_output_tensor(o)
    run(f"RESIZE_NN align_corners 4x4->7x7 C={C}", make_model([op], [a], [o]))

# Helper for the C12 demos: build small TFLite models, run Vela on them, read the offline plan back and check it.
import contextlib
import csv
import glob
import io
import os
import shutil
import sys
import tempfile

import flatbuffers
import numpy as np

sys.path.insert(0, os.path.join(os.path.dirname(os.path.abspath(__file__)), ".."))

from ethosu.vela.tflite import AddOptions  # noqa: E402
from ethosu.vela.tflite import Buffer  # noqa: E402
from ethosu.vela.tflite import Conv2DOptions  # noqa: E402
from ethosu.vela.tflite import Model  # noqa: E402
from ethosu.vela.tflite import Operator  # noqa: E402
from ethosu.vela.tflite import OperatorCode  # noqa: E402
from ethosu.vela.tflite import Pool2DOptions  # noqa: E402
from ethosu.vela.tflite import QuantizationParameters  # noqa: E402
from ethosu.vela.tflite import ReshapeOptions  # noqa: E402
from ethosu.vela.tflite import SubGraph  # noqa: E402
from ethosu.vela.tflite import Tensor  # noqa: E402
from ethosu.vela.tflite import TransposeOptions  # noqa: E402
from ethosu.vela.tflite.BuiltinOperator import BuiltinOperator  # noqa: E402
from ethosu.vela.tflite.BuiltinOptions import BuiltinOptions  # noqa: E402
from ethosu.vela.tflite.TensorType import TensorType  # noqa: E402

TYPES = {
    "int8": (TensorType.INT8, np.int8, 1),
    "uint8": (TensorType.UINT8, np.uint8, 1),
    "int16": (TensorType.INT16, np.int16, 2),
    "int32": (TensorType.INT32, np.int32, 4),
    "int64": (TensorType.INT64, np.int64, 8),
    "float32": (TensorType.FLOAT32, np.float32, 4),
    "int4": (TensorType.INT4, np.int8, 0.5),
    "bool": (TensorType.BOOL, np.bool_, 1),
}
TYPE_SIZE = {v[0]: v[2] for v in TYPES.values()}


class ModelBuilder:
    def __init__(self):
        self.tensors = []  # (name, shape, dtype, data, scale, zp, is_variable)
        self.ops = []  # (builtin code, custom code, inputs, outputs, options)
        self.inputs = []
        self.outputs = []

    def tensor(self, name, shape, dtype="int8", data=None, scale=0.5, zp=0, is_variable=False):
        self.tensors.append((name, list(shape), dtype, data, scale, zp, is_variable))
        return len(self.tensors) - 1

    def const(self, name, shape, dtype="int8", value=1, scale=0.5, zp=0):
        data = np.full(shape, value, dtype=TYPES[dtype][1])
        return self.tensor(name, shape, dtype, data, scale, zp)

    def op(self, code, inputs, outputs, options=None, custom_code=None):
        self.ops.append((code, custom_code, list(inputs), list(outputs), options))

    # ---- convenience operators -----------------------------------------------------------------------------------
    def conv(self, name, ifm, ifm_shape, ofm_c, k=1, stride=1, dtype="int8"):
        n, h, w, c = ifm_shape
        wt = self.const(name + "_w", [ofm_c, k, k, c], dtype, 1, scale=0.25)
        bias = self.const(name + "_b", [ofm_c], "int32", 0, scale=0.125)
        oh, ow = (h + stride - 1) // stride, (w + stride - 1) // stride
        ofm = self.tensor(name, [n, oh, ow, ofm_c], dtype)
        self.op(BuiltinOperator.CONV_2D, [ifm, wt, bias], [ofm], ("conv", stride))
        return ofm, [n, oh, ow, ofm_c]

    def add(self, name, a, b, shape, dtype="int8"):
        ofm = self.tensor(name, shape, dtype)
        self.op(BuiltinOperator.ADD, [a, b], [ofm], ("add",))
        return ofm

    def maxpool(self, name, ifm, shape, dtype="int8"):
        ofm = self.tensor(name, shape, dtype)
        self.op(BuiltinOperator.MAX_POOL_2D, [ifm], [ofm], ("pool", 1, 1))
        return ofm

    def cpu(self, name, inputs, shape, dtype="int8", code="cpu_op"):
        # a third party custom operator always stays on the CPU
        ofm = self.tensor(name, shape, dtype)
        self.op(BuiltinOperator.CUSTOM, inputs, [ofm], None, custom_code=code)
        return ofm

    def reshape(self, name, ifm, new_shape, dtype="int8"):
        shp = self.tensor(name + "_shape", [len(new_shape)], "int32", np.array(new_shape, np.int32), scale=None)
        ofm = self.tensor(name, new_shape, dtype)
        self.op(BuiltinOperator.RESHAPE, [ifm, shp], [ofm], ("reshape", new_shape))
        return ofm

    def transpose(self, name, ifm, shape, perm, dtype="int8"):
        pt = self.tensor(name + "_perm", [len(perm)], "int32", np.array(perm, np.int32), scale=None)
        ofm = self.tensor(name, [shape[i] for i in perm], dtype)
        self.op(BuiltinOperator.TRANSPOSE, [ifm, pt], [ofm], ("transpose",))
        return ofm

    # ---- serialisation --------------------------------------------------------------------------------------------
    def _vec(self, b, values, kind):
        if kind == "i32":
            b.StartVector(4, len(values), 4)
            for v in reversed(values):
                b.PrependInt32(int(v))
        elif kind == "i64":
            b.StartVector(8, len(values), 8)
            for v in reversed(values):
                b.PrependInt64(int(v))
        elif kind == "f32":
            b.StartVector(4, len(values), 4)
            for v in reversed(values):
                b.PrependFloat32(float(v))
        elif kind == "off":
            b.StartVector(4, len(values), 4)
            for v in reversed(values):
                b.PrependUOffsetTRelative(v)
        return b.EndVector()

    def _options(self, b, options):
        kind = options[0]
        if kind == "conv":
            Conv2DOptions.Conv2DOptionsStart(b)
            Conv2DOptions.Conv2DOptionsAddPadding(b, 0)  # SAME
            Conv2DOptions.Conv2DOptionsAddStrideW(b, options[1])
            Conv2DOptions.Conv2DOptionsAddStrideH(b, options[1])
            Conv2DOptions.Conv2DOptionsAddDilationWFactor(b, 1)
            Conv2DOptions.Conv2DOptionsAddDilationHFactor(b, 1)
            return BuiltinOptions.Conv2DOptions, Conv2DOptions.Conv2DOptionsEnd(b)
        if kind == "add":
            AddOptions.AddOptionsStart(b)
            return BuiltinOptions.AddOptions, AddOptions.AddOptionsEnd(b)
        if kind == "pool":
            Pool2DOptions.Pool2DOptionsStart(b)
            Pool2DOptions.Pool2DOptionsAddPadding(b, 0)
            Pool2DOptions.Pool2DOptionsAddStrideW(b, 1)
            Pool2DOptions.Pool2DOptionsAddStrideH(b, 1)
            Pool2DOptions.Pool2DOptionsAddFilterWidth(b, options[1])
            Pool2DOptions.Pool2DOptionsAddFilterHeight(b, options[2])
            return BuiltinOptions.Pool2DOptions, Pool2DOptions.Pool2DOptionsEnd(b)
        if kind == "reshape":
            shp = self._vec(b, options[1], "i32")
            ReshapeOptions.ReshapeOptionsStart(b)
            ReshapeOptions.ReshapeOptionsAddNewShape(b, shp)
            return BuiltinOptions.ReshapeOptions, ReshapeOptions.ReshapeOptionsEnd(b)
        if kind == "transpose":
            TransposeOptions.TransposeOptionsStart(b)
            return BuiltinOptions.TransposeOptions, TransposeOptions.TransposeOptionsEnd(b)
        raise ValueError(kind)

    def build(self):
        b = flatbuffers.Builder(1024)
        # operator codes
        codes = []
        for code, custom, _, _, _ in self.ops:
            if (code, custom) not in codes:
                codes.append((code, custom))
        code_offs = []
        for code, custom in codes:
            cc = b.CreateString(custom) if custom else None
            OperatorCode.OperatorCodeStart(b)
            OperatorCode.OperatorCodeAddDeprecatedBuiltinCode(b, min(code, 127))
            OperatorCode.OperatorCodeAddBuiltinCode(b, code)
            OperatorCode.OperatorCodeAddVersion(b, 1)
            if cc is not None:
                OperatorCode.OperatorCodeAddCustomCode(b, cc)
            code_offs.append(OperatorCode.OperatorCodeEnd(b))
        codes_vec = self._vec(b, code_offs, "off")

        # buffers: 0 is the empty one
        buffers = [None]
        tens_offs = []
        for name, shape, dtype, data, scale, zp, is_variable in self.tensors:
            buf_idx = 0
            if data is not None:
                buffers.append(np.ascontiguousarray(data).tobytes())
                buf_idx = len(buffers) - 1
            shp = self._vec(b, shape, "i32")
            nm = b.CreateString(name)
            q = None
            if scale is not None:
                sc = self._vec(b, [scale], "f32")
                z = self._vec(b, [zp], "i64")
                QuantizationParameters.QuantizationParametersStart(b)
                QuantizationParameters.QuantizationParametersAddScale(b, sc)
                QuantizationParameters.QuantizationParametersAddZeroPoint(b, z)
                q = QuantizationParameters.QuantizationParametersEnd(b)
            Tensor.TensorStart(b)
            Tensor.TensorAddShape(b, shp)
            Tensor.TensorAddType(b, TYPES[dtype][0])
            Tensor.TensorAddBuffer(b, buf_idx)
            Tensor.TensorAddName(b, nm)
            if q is not None:
                Tensor.TensorAddQuantization(b, q)
            Tensor.TensorAddIsVariable(b, is_variable)
            tens_offs.append(Tensor.TensorEnd(b))
        tens_vec = self._vec(b, tens_offs, "off")

        op_offs = []
        for code, custom, inputs, outputs, options in self.ops:
            ins = self._vec(b, inputs, "i32")
            outs = self._vec(b, outputs, "i32")
            opt = self._options(b, options) if options else None
            Operator.OperatorStart(b)
            Operator.OperatorAddOpcodeIndex(b, codes.index((code, custom)))
            Operator.OperatorAddInputs(b, ins)
            Operator.OperatorAddOutputs(b, outs)
            if opt:
                Operator.OperatorAddBuiltinOptionsType(b, opt[0])
                Operator.OperatorAddBuiltinOptions(b, opt[1])
            op_offs.append(Operator.OperatorEnd(b))
        ops_vec = self._vec(b, op_offs, "off")

        ins = self._vec(b, self.inputs, "i32")
        outs = self._vec(b, self.outputs, "i32")
        sgname = b.CreateString("main")
        SubGraph.SubGraphStart(b)
        SubGraph.SubGraphAddTensors(b, tens_vec)
        SubGraph.SubGraphAddInputs(b, ins)
        SubGraph.SubGraphAddOutputs(b, outs)
        SubGraph.SubGraphAddOperators(b, ops_vec)
        SubGraph.SubGraphAddName(b, sgname)
        sg = SubGraph.SubGraphEnd(b)
        sg_vec = self._vec(b, [sg], "off")

        buf_offs = []
        for data in buffers:
            d = None
            if data is not None:
                d = b.CreateByteVector(data)
            Buffer.BufferStart(b)
            if d is not None:
                Buffer.BufferAddData(b, d)
            buf_offs.append(Buffer.BufferEnd(b))
        buf_vec = self._vec(b, buf_offs, "off")
        desc = b.CreateString("c12 demo")
        Model.ModelStart(b)
        Model.ModelAddVersion(b, 3)
        Model.ModelAddOperatorCodes(b, codes_vec)
        Model.ModelAddSubgraphs(b, sg_vec)
        Model.ModelAddDescription(b, desc)
        Model.ModelAddBuffers(b, buf_vec)
        model = Model.ModelEnd(b)
        b.Finish(model, b"TFL3")
        return bytes(b.Output())


class Result:
    pass


def run_vela(model_bytes, args=(), name="net"):
    """Runs the command line entry point in-process; returns console text, the output model and the summary csv row"""
    from ethosu.vela import vela

    tmp = tempfile.mkdtemp(prefix="c12_")
    try:
        src = os.path.join(tmp, name + ".tflite")
        with open(src, "wb") as f:
            f.write(model_bytes)
        out = io.StringIO()
        # part of the console output goes to the sys.stdout object that was current at import time: redirect the
        # file descriptor as well
        sys.stdout.flush()
        console_file = os.path.join(tmp, "console.txt")
        saved_fd = os.dup(1)
        fd = os.open(console_file, os.O_WRONLY | os.O_CREAT | os.O_TRUNC)
        os.dup2(fd, 1)
        try:
            with contextlib.redirect_stdout(out):
                rc = vela.main([src, "--output-dir", os.path.join(tmp, "out")] + list(args))
            sys.__stdout__.flush()
        finally:
            os.dup2(saved_fd, 1)
            os.close(saved_fd)
            os.close(fd)
        res = Result()
        res.rc = rc
        with open(console_file) as f:
            res.console = out.getvalue() + f.read()
        res.model = None
        res.csv = None
        if rc == 0:
            with open(os.path.join(tmp, "out", name + "_vela.tflite"), "rb") as f:
                res.model = f.read()
            files = glob.glob(os.path.join(tmp, "out", name + "_summary_*.csv"))
            with open(files[0]) as f:
                rows = list(csv.reader(f))
            res.csv = dict(zip(rows[0], rows[1]))
        return res
    finally:
        shutil.rmtree(tmp, ignore_errors=True)


class OutTensor:
    def __repr__(self):
        return f"<{self.name} off={self.offset} size={self.size} live={self.first}-{self.last}>"


def read_plan(model_bytes):
    """Returns a list (one per subgraph) of (tensors, operators) of the output model with the offline offsets"""
    model = Model.Model.GetRootAsModel(bytearray(model_bytes), 0)
    meta = None
    for i in range(model.MetadataLength()):
        m = model.Metadata(i)
        if m.Name() == b"OfflineMemoryAllocation":
            meta = model.Buffers(m.Buffer()).DataAsNumpy().view(np.int32)
    assert meta is not None, "no OfflineMemoryAllocation metadata"
    n_tensors_total = sum(model.Subgraphs(i).TensorsLength() for i in range(model.SubgraphsLength()))
    assert meta[1] == model.SubgraphsLength(), "metadata: wrong subgraph count"
    assert meta[2] == n_tensors_total and len(meta) == 3 + n_tensors_total, "metadata: wrong tensor count"
    pos = 3
    result = []
    for si in range(model.SubgraphsLength()):
        sg = model.Subgraphs(si)
        tensors = []
        for ti in range(sg.TensorsLength()):
            t = sg.Tensors(ti)
            o = OutTensor()
            o.idx = ti
            o.name = t.Name().decode()
            o.shape = [int(v) for v in t.ShapeAsNumpy()] if t.ShapeLength() else []
            o.type = t.Type()
            elems = int(np.prod(o.shape)) if o.shape else 1
            o.size = int(np.ceil(elems * TYPE_SIZE.get(o.type, 1)))
            o.offset = int(meta[pos + ti])
            o.buffer = t.Buffer()
            buf = model.Buffers(o.buffer)
            o.const = buf.DataLength() > 0
            o.first = None
            o.last = None
            o.producer = None
            o.consumers = []
            tensors.append(o)
        pos += sg.TensorsLength()
        ops = []
        for oi in range(sg.OperatorsLength()):
            op = sg.Operators(oi)
            code = model.OperatorCodes(op.OpcodeIndex())
            cc = code.CustomCode().decode() if code.CustomCode() else None
            ins = [int(v) for v in op.InputsAsNumpy()] if op.InputsLength() else []
            outs = [int(v) for v in op.OutputsAsNumpy()] if op.OutputsLength() else []
            ops.append((code.BuiltinCode(), cc, ins, outs))
            for t in ins:
                if t >= 0:
                    tensors[t].consumers.append(oi)
                    tensors[t].first = oi if tensors[t].first is None else tensors[t].first
                    tensors[t].last = oi
            for t in outs:
                tensors[t].producer = oi
                tensors[t].first = oi if tensors[t].first is None else min(tensors[t].first, oi)
                tensors[t].last = oi if tensors[t].last is None else max(tensors[t].last, oi)
        n_ops = len(ops)
        for idx in range(sg.InputsLength()):
            tensors[sg.Inputs(idx)].first = -1
        for idx in range(sg.OutputsLength()):
            tensors[sg.Outputs(idx)].last = n_ops
        result.append((tensors, ops))
    return result


def arena_tensors(tensors):
    return [t for t in tensors if t.offset >= 0 and not t.const and t.first is not None]


def is_scratch(t):
    return t.name.endswith("_scratch") or t.name.endswith("_scratch_fast")


def check_plan(model_bytes, alignment=16):
    """Independent check of the offline plan of subgraph 0. Returns (list of problems, required arena extent)"""
    problems = []
    tensors, ops = read_plan(model_bytes)[0]
    arena = arena_tensors(tensors)
    cpu = [t for t in arena if not is_scratch(t)]
    extent = 0
    for t in arena:
        if t.name.endswith("_scratch_fast"):
            continue
        extent = max(extent, t.offset + t.size)
    for t in cpu:
        if t.offset % alignment:
            problems.append(f"tensor {t.name} at offset {t.offset} is not aligned to {alignment}")
    # two CPU visible tensors overlap in time when one is produced before (or by the operator at which) the other is
    # still needed afterwards. An operator's own output may reuse the space of an input that dies at that operator only
    # if it is the Ethos-U operator (in-place elementwise) - any other kernel reads its inputs while writing the output
    for i, a in enumerate(cpu):
        for b in cpu[i + 1 :]:
            if a.offset == b.offset and a.size == b.size and _reshape_pair(a, b, ops):
                continue
            if max(a.offset, b.offset) >= min(a.offset + a.size, b.offset + b.size):
                continue
            lo, hi = (a, b) if (a.first, a.last) <= (b.first, b.last) else (b, a)
            if hi.first > lo.last:
                continue
            if hi.first == lo.last and hi.producer == lo.last and ops[hi.producer][1] == "ethos-u":
                continue
            problems.append(f"tensors {a!r} and {b!r} overlap in the arena while both are live")
    scratch = [t for t in arena if t.name.endswith("_scratch")]
    for s in scratch:
        if s.offset != 0:
            problems.append(f"scratch tensor at offset {s.offset}")
        for oi, (code, cc, ins, outs) in enumerate(ops):
            if cc != "ethos-u":
                continue
            for ti in ins[4:] + outs:
                t = tensors[ti]
                if t.offset >= 0 and not t.const and t.offset + t.size > s.size:
                    problems.append(
                        f"scratch tensor ({s.size} bytes) does not span {t.name} at {t.offset}..{t.offset + t.size}"
                    )
    return problems, extent


def _reshape_pair(a, b, ops):
    for code, cc, ins, outs in ops:
        if code in (22, 43, 70, 101) and ((a.idx in ins and b.idx in outs) or (b.idx in ins and a.idx in outs)):
            return True
    return False


def reported_console_kib(console, label):
    for line in console.splitlines():
        if line.startswith("Total " + label):
            return float(line.split()[-2])
    return None


# ---- minimal Ethos-U command stream decoder: byte ranges of the feature maps that every kernel operation touches ----
_OPS = {0x002: "conv", 0x003: "depthwise", 0x005: "pool", 0x006: "elementwise"}


def _fm_extent(st, p):
    """[start, end) of the bytes of one feature map, from the register state (p = 'IFM', 'IFM2' or 'OFM')"""
    prec = st.get(p + "_PRECISION", 0)
    if p == "OFM":
        elem = 1 << ((prec >> 1) & 3)
        nhcwb16 = (prec >> 6) & 3 == 1
        h = st.get("OFM_HEIGHT_M1", 0) + 1
        w = st.get("OFM_WIDTH_M1", 0) + 1
        d = st.get("OFM_DEPTH_M1", 0) + 1
    else:
        elem = 1 << ((prec >> 2) & 3)
        nhcwb16 = (prec >> 6) & 3 == 1
        # the height/width that are read are at least one element; use the tile 0 sizes as a lower bound of the extent
        h = st.get(p + "_HEIGHT0_M1", 0) + 1
        w = st.get(p + "_WIDTH0_M1", 0) + 1
        d = st.get("IFM_DEPTH_M1", 0) + 1
    base = st.get(p + "_BASE0", 0)
    sx, sy, sc = st.get(p + "_STRIDE_X", 0), st.get(p + "_STRIDE_Y", 0), st.get(p + "_STRIDE_C", 0)
    if nhcwb16:
        end = base + (h - 1) * sy + (w - 1) * sx + ((d - 1) // 16) * sc + 16 * elem
    else:
        end = base + (h - 1) * sy + (w - 1) * sx + d * elem
    return base, end


def decode_command_stream(data):
    """data: bytes of a command stream tensor. Returns a list of (operation, fm name, region, start, end)"""
    words = np.frombuffer(bytes(data), dtype="<u4")
    # driver actions: find the command stream action (tag 2 in the low byte), its payload follows
    i = 0
    n = None
    while i < len(words):
        tag = int(words[i]) & 0xFF
        if i == 0:
            i += 1  # fourcc
            continue
        if tag == 2:  # command stream
            n = ((int(words[i]) >> 8) & 0xFF) << 16 | (int(words[i]) >> 16)
            i += 1
            break
        if tag == 1:  # config: two more words
            i += 3
            continue
        i += 1
    assert n is not None, "no command stream found in the driver payload"
    cmds = words[i : i + n]
    cmd0_names = {
        0x104: "IFM_DEPTH_M1", 0x105: "IFM_PRECISION", 0x10A: "IFM_WIDTH0_M1", 0x10B: "IFM_HEIGHT0_M1",
        0x10F: "IFM_REGION", 0x111: "OFM_WIDTH_M1", 0x112: "OFM_HEIGHT_M1", 0x113: "OFM_DEPTH_M1",
        0x114: "OFM_PRECISION", 0x11F: "OFM_REGION", 0x185: "IFM2_PRECISION", 0x18A: "IFM2_WIDTH0_M1",
        0x18B: "IFM2_HEIGHT0_M1", 0x18F: "IFM2_REGION", 0x180: "IFM2_BROADCAST",
        0x130: "DMA0_SRC_REGION", 0x131: "DMA0_DST_REGION",
    }  # fmt: skip
    cmd1_names = {
        0x000: "IFM_BASE0", 0x004: "IFM_STRIDE_X", 0x005: "IFM_STRIDE_Y", 0x006: "IFM_STRIDE_C",
        0x010: "OFM_BASE0", 0x014: "OFM_STRIDE_X", 0x015: "OFM_STRIDE_Y", 0x016: "OFM_STRIDE_C",
        0x080: "IFM2_BASE0", 0x084: "IFM2_STRIDE_X", 0x085: "IFM2_STRIDE_Y", 0x086: "IFM2_STRIDE_C",
        0x030: "DMA0_SRC", 0x031: "DMA0_DST", 0x032: "DMA0_LEN",
    }  # fmt: skip
    st = {}
    result = []
    j = 0
    while j < len(cmds):
        w = int(cmds[j])
        code = w & 0x3FF
        param = w >> 16
        if w & 0x4000:
            payload = int(cmds[j + 1]) | (param << 32)
            if code in cmd1_names:
                st[cmd1_names[code]] = payload
            j += 2
        else:
            if code in cmd0_names:
                st[cmd0_names[code]] = param
            elif code == 0x010:  # DMA start (region bits 0..2 of the region registers; bit 8 selects internal memory)
                n_bytes = st.get("DMA0_LEN", 0)
                src_r, dst_r = st.get("DMA0_SRC_REGION", 0), st.get("DMA0_DST_REGION", 0)
                src, dst = st.get("DMA0_SRC", 0), st.get("DMA0_DST", 0)
                result.append(("dma", "SRC", src_r & 7, src, src + n_bytes))
                if not dst_r & 0x100:
                    result.append(("dma", "DST", dst_r & 7, dst, dst + n_bytes))
            elif code in _OPS:
                s, e = _fm_extent(st, "OFM")
                result.append((_OPS[code], "OFM", st.get("OFM_REGION", 0), s, e))
                s, e = _fm_extent(st, "IFM")
                result.append((_OPS[code], "IFM", st.get("IFM_REGION", 0), s, e))
            j += 1
    return result


def npu_touched(model_bytes):
    """For every Ethos-U operator of subgraph 0: the decoded feature map accesses"""
    model = Model.Model.GetRootAsModel(bytearray(model_bytes), 0)
    sg = model.Subgraphs(0)
    out = []
    for oi in range(sg.OperatorsLength()):
        op = sg.Operators(oi)
        code = model.OperatorCodes(op.OpcodeIndex())
        if code.CustomCode() != b"ethos-u":
            continue
        cs = sg.Tensors(op.Inputs(0))
        data = model.Buffers(cs.Buffer()).DataAsNumpy()
        out.append((oi, decode_command_stream(data)))
    return out


def check_npu_accesses(model_bytes):
    """Independent check of the Ethos-U operators of subgraph 0 against the tensor table:
    - every access to region 1 (scratch) / region 2 (scratch_fast) lies inside the tensor that backs the region
    - a write that starts inside an output tensor of the operator stays inside that tensor's allocation
    Returns (problems, {region: highest byte touched})"""
    tensors, ops = read_plan(model_bytes)[0]
    size = {1: 0, 2: 0}
    for t in tensors:
        if t.name.endswith("_scratch"):
            size[1] = t.size
        if t.name.endswith("_scratch_fast"):
            size[2] = t.size
    problems = []
    top = {1: 0, 2: 0}
    for op_idx, accesses in npu_touched(model_bytes):
        outs = [tensors[i] for i in ops[op_idx][3] if tensors[i].offset >= 0]
        for kind, fm, region, start, end in accesses:
            if region not in (1, 2):
                continue
            top[region] = max(top[region], end)
            if end > size[region]:
                problems.append(
                    f"operator {op_idx}: {kind} {fm} touches bytes {start}..{end} of region {region}, but the tensor "
                    f"that backs the region has only {size[region]} bytes"
                )
            if region == 1 and fm in ("OFM", "DST"):
                for t in outs:
                    alloc_end = t.offset + (t.size + 15) // 16 * 16
                    if t.offset <= start < alloc_end and end > alloc_end:
                        problems.append(
                            f"operator {op_idx}: {kind} {fm} writes bytes {start}..{end}, past the end of its output "
                            f"tensor {t.name} ({t.offset}..{alloc_end})"
                        )
    return problems, top

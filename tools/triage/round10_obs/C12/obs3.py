# Observation 3 (unchanged tree, minor): the console summary prints the memory usage as KiB with two decimals, rounded
# to nearest ("Total SRAM used   3.23 KiB"), so the printed figure can be up to ~5 bytes SMALLER than the arena the
# offline plan needs (3312 bytes are needed, 3.23 KiB = 3307.5 bytes are reported). The summary CSV has the exact value.
import os
import sys

sys.path.insert(0, os.path.dirname(os.path.abspath(__file__)))
import c12lib as L  # noqa: E402

U55 = [
    "--config", "Arm/vela.ini", "--system-config", "Ethos_U55_High_End_Embedded", "--memory-mode", "Shared_Sram",
    "--accelerator-config", "ethos-u55-128",
]  # fmt: skip


def net():
    m = L.ModelBuilder()
    shp = [1, 8, 8, 16]
    x = m.tensor("x", shp)
    m.inputs = [x]
    a, _ = m.conv("a", x, shp, 16)
    b = m.cpu("b", [a], shp)
    c, _ = m.conv("c", b, shp, 16)
    d = m.add("d", c, a, shp)
    m.outputs = [d]
    return m.build()


def main():
    res = L.run_vela(net(), U55)
    assert res.rc == 0, res.console[-1000:]
    problems, extent = L.check_plan(res.model)
    assert not problems, problems
    kib = L.reported_console_kib(res.console, "SRAM")
    assert kib is not None, "no 'Total SRAM used' line on the console"
    if kib * 1024 < extent:
        print(f"console reports {kib} KiB = {kib * 1024:.1f} bytes, the plan needs {extent} bytes")
        return 1
    return 0


if __name__ == "__main__":
    sys.exit(main())

# Observation 1 (unchanged tree): compiling a model that already contains Ethos-U custom operators (i.e. feeding a
# *_vela.tflite back into Vela, which the reader supports via CustomType.ExistingNpuOp) produces a new
# OfflineMemoryAllocation plan in which the old scratch tensor is treated as an ordinary CPU tensor and the inputs and
# outputs of the (unchanged) Ethos-U operators are moved to new offsets outside of it. The command streams are copied
# verbatim and still address their feature maps relative to the scratch base at the OLD offsets, so the scratch tensor
# no longer spans the custom operators' own inputs/outputs (and the plan no longer matches what the NPU touches).
import os
import sys

sys.path.insert(0, os.path.dirname(os.path.abspath(__file__)))
import c12lib as L  # noqa: E402


def net():
    m = L.ModelBuilder()
    shp = [1, 8, 8, 16]
    x = m.tensor("x", shp)
    m.inputs = [x]
    a, _ = m.conv("a", x, shp, 16)
    b = m.cpu("b", [a], shp)
    c, _ = m.conv("c", b, shp, 16)
    d = m.add("d", c, a, shp)
    e = m.cpu("e", [d], shp)
    f = m.maxpool("f", e, shp)
    m.outputs = [f]
    return m.build()


def main():
    first = L.run_vela(net(), [])
    assert first.rc == 0
    problems, _ = L.check_plan(first.model)
    assert not problems, problems
    second = L.run_vela(first.model, [], name="net_vela")
    if second.rc != 0:
        print("second compilation was rejected (fine)")
        return 0
    problems, extent = L.check_plan(second.model)
    old = {t.name: t.offset for t in L.read_plan(first.model)[0][0]}
    new = {t.name: t.offset for t in L.read_plan(second.model)[0][0]}
    moved = {n: (old[n], new[n]) for n in old if n in new and old[n] != new[n]}
    if problems or moved:
        print("recompiled model: the plan no longer matches the embedded command streams")
        for p in problems:
            print("  " + p)
        print("  tensors moved (old offset, new offset):", moved)
        return 1
    return 0


if __name__ == "__main__":
    sys.exit(main())

# Observation 2 (unchanged tree): INT4 activation tensors are planned with 16 bytes regardless of their shape.
# Tensor.element_size() is dtype.size_in_bits() // 8 == 0 for int4, storage_size() then "forces it to take up space"
# with 1 byte and rounds to 16. Two live 1x8x8x16 INT4 tensors (512 bytes each when packed two per byte) are placed
# 16 bytes apart in the arena, so they overlap while both are live (and with anything allocated behind them).
import os
import sys

sys.path.insert(0, os.path.dirname(os.path.abspath(__file__)))
import c12lib as L  # noqa: E402


def net():
    m = L.ModelBuilder()
    shp = [1, 8, 8, 16]
    x = m.tensor("x", shp)
    m.inputs = [x]
    a, _ = m.conv("a", x, shp, 16)
    b = m.cpu("b", [a], shp, dtype="int4")
    c = m.cpu("c", [b], shp, dtype="int4")
    d = m.cpu("d", [c, b], shp)
    e = m.maxpool("e", d, shp)
    m.outputs = [e]
    return m.build()


def main():
    res = L.run_vela(net(), [])
    assert res.rc == 0, res.console[-1000:]
    problems, _ = L.check_plan(res.model)
    if problems:
        print("INT4 tensors:")
        for p in problems:
            print("  " + p)
        return 1
    return 0


if __name__ == "__main__":
    sys.exit(main())

"""
Observation 2 (unchanged tree): calc_blockdep() only looks at read-after-write (previous OFM -> IFM/IFM2).
Write-after-read and write-after-write conflicts between two consecutive kernels get BLOCKDEP 3:
  a) CONV0 reads X, CONV1 (unrelated IFM) writes X          (WAR)
  b) CONV0 writes Y, CONV1 (unrelated IFM) also writes Y    (WAW)
Every feature map here is a single block, so with BLOCKDEP 3 the only block of CONV1 may be in flight together with
the only block of CONV0 while both touch the same bytes; the property asks for a wait or a sufficiently small
BLOCKDEP (0 here) for all three kinds of conflict.
"""
import os
import sys

HERE = os.path.dirname(os.path.abspath(__file__))
sys.path.insert(0, HERE)
sys.path.insert(0, os.path.dirname(HERE))

from c04_sim import replay  # noqa: E402
from ethosu.vela.api import NpuAccelerator  # noqa: E402
from ethosu.vela.api import npu_generate_register_command_stream  # noqa: E402
from ethosu.vela.ethos_u55_regs.ethos_u55_regs import cmd0  # noqa: E402
from obs_common import conv  # noqa: E402

bad = 0
for name, ops in (
    ("WAR", [conv(0x0, 0x1000, 0x10000), conv(0x2000, 0x0, 0x10100)]),
    ("WAW", [conv(0x0, 0x1000, 0x10000), conv(0x2000, 0x1000, 0x10100)]),
    ("RAW (reference)", [conv(0x0, 0x1000, 0x10000), conv(0x1000, 0x2000, 0x10100)]),
):
    events = replay(npu_generate_register_command_stream(ops, NpuAccelerator.Ethos_U55_128))
    kernels = [r for ev, r in events if ev == "kernel"]
    waits = [e for e in events if e[0] == "kernel_wait"]
    dep = kernels[1][cmd0.NPU_SET_BLOCKDEP]
    print(f"{name}: BLOCKDEP of the second kernel = {dep}, kernel waits = {waits}")
    if dep != 0 and not waits:
        bad += 1
        print(f"  HAZARD: {name} conflict on a single-block feature map with BLOCKDEP {dep}")
sys.exit(1 if bad else 0)

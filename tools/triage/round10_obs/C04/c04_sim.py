"""
Small, independent helpers for the C04 demos.

 * replay(words): decodes a register command stream and returns the list of events
   (kernel / dma / kernel_wait / dma_wait) with a snapshot of the registers at every NPU_OP.
 * check_waits(events, ops, max_kernels, max_dma): execution model of the property - kernels and DMAs run
   asynchronously in two in-order queues with a bounded number of outstanding entries; an operation may only
   be issued when no byte it touches is in conflict (RAW / WAR / WAW) with an operation still outstanding in the
   other queue. Byte ranges come from the description of the operations handed in by the demo, not from Vela.
"""
from ethosu.vela.ethos_u55_regs.ethos_u55_regs import cmd0
from ethosu.vela.ethos_u55_regs.ethos_u55_regs import cmd1

KERNEL_OPS = (cmd0.NPU_OP_CONV, cmd0.NPU_OP_DEPTHWISE, cmd0.NPU_OP_POOL, cmd0.NPU_OP_ELEMENTWISE)


def replay(words):
    regs = {}
    events = []
    i = 0
    while i < len(words):
        w = words[i]
        code = w & 0xFFFF
        param = (w >> 16) & 0xFFFF
        opcode = code & 0x3FF
        if code & 0x4000:
            payload = words[i + 1]
            i += 2
            regs[cmd1(opcode)] = (param << 32) | payload
            continue
        i += 1
        c = cmd0(opcode)
        if c in KERNEL_OPS:
            events.append(("kernel", dict(regs)))
        elif c == cmd0.NPU_OP_DMA_START:
            events.append(("dma", dict(regs)))
        elif c == cmd0.NPU_OP_KERNEL_WAIT:
            events.append(("kernel_wait", param & 0xF))
        elif c == cmd0.NPU_OP_DMA_WAIT:
            events.append(("dma_wait", param & 0xF))
        elif c == cmd0.NPU_OP_STOP:
            break
        else:
            regs[c] = param
    return events


def _overlap(a, b):
    # a, b: (region, start, end)
    return a[0] == b[0] and a[1] < b[2] and b[1] < a[2]


def _conflict(x, y):
    """x, y: dict(reads=[(region, start, end)], writes=[...])"""
    for w in x["writes"]:
        for o in y["reads"] + y["writes"]:
            if _overlap(w, o):
                return True
    for r in x["reads"]:
        for o in y["writes"]:
            if _overlap(r, o):
                return True
    return False


def check_waits(events, ops, max_kernels, max_dma):
    """
    events: output of replay(); ops: the access description of every operation, in program order
    (dict(kind="kernel"|"dma", name=..., reads=[...], writes=[...])).
    Returns a list of hazard descriptions (empty if the stream is safe).
    """
    hazards = []
    kernels = []  # outstanding, oldest first
    dmas = []
    it = iter(ops)
    for ev, arg in events:
        if ev == "kernel_wait":
            while len(kernels) > arg:
                kernels.pop(0)
        elif ev == "dma_wait":
            while len(dmas) > arg:
                dmas.pop(0)
        else:
            op = next(it)
            assert op["kind"] == ev, f"stream/op list mismatch: {ev} vs {op['kind']}"
            mine, other, limit = (kernels, dmas, max_kernels) if ev == "kernel" else (dmas, kernels, max_dma)
            # a full queue stalls the issue until its oldest entry has completed
            while len(mine) >= limit:
                mine.pop(0)
            for o in other:
                if _conflict(o, op):
                    hazards.append(f"{op['name']} is issued while conflicting {o['name']} may still be executing")
            mine.append(op)
    return hazards

"""Op builders shared by the observation reproducers."""
from ethosu.vela.api import NpuAddressRange
from ethosu.vela.api import NpuBlockTraversal
from ethosu.vela.api import NpuConv2DOperation
from ethosu.vela.api import NpuDataType
from ethosu.vela.api import NpuFeatureMap
from ethosu.vela.api import NpuKernel
from ethosu.vela.api import NpuLayout
from ethosu.vela.api import NpuPadding
from ethosu.vela.api import NpuQuantization
from ethosu.vela.api import NpuShape3D
from ethosu.vela.api import NpuTileBox

H, W, C = 8, 8, 16
FM_SIZE = H * W * C


def fm(addr):
    f = NpuFeatureMap()
    f.data_type = NpuDataType.UINT8
    f.shape = NpuShape3D(height=H, width=W, depth=C)
    f.tiles = NpuTileBox(height_0=H, height_1=H, width_0=W, addresses=[addr, 0, 0, 0])
    f.region = 1
    f.layout = NpuLayout.NHWC
    f.quantization = NpuQuantization(scale_f32=1.0, zero_point=0)
    return f


def conv(ifm_addr, ofm_addr, w_addr, w_len=256):
    op = NpuConv2DOperation()
    op.ifm = fm(ifm_addr)
    op.ofm = fm(ofm_addr)
    op.kernel = NpuKernel(1, 1)
    op.weights = [NpuAddressRange(region=1, address=w_addr, length=w_len)]
    op.padding = NpuPadding(top=0, left=0, bottom=0, right=0)
    op.block_traversal = NpuBlockTraversal.DEPTH_FIRST
    op.block_config = NpuShape3D(height=8, width=8, depth=16)  # one block covers the whole OFM
    return op

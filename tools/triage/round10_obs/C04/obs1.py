"""
Observation 1 (unchanged tree): the public generator accepts a DMA whose src and dest ranges have different lengths.
NPU_SET_DMA0_LEN is programmed with src.length, so the hardware writes dest.address .. dest.address + src.length,
but get_dma_memory_accesses() only records dest.length bytes as written.  A kernel that reads bytes in
[dest.address + dest.length, dest.address + src.length) is started without DMA_WAIT although the DMA may still be
writing them.  The written range below is taken from the emitted DMA0_DST / DMA0_LEN registers.
"""
import os
import sys

HERE = os.path.dirname(os.path.abspath(__file__))
sys.path.insert(0, HERE)
sys.path.insert(0, os.path.dirname(HERE))

from c04_sim import check_waits  # noqa: E402
from c04_sim import replay  # noqa: E402
from ethosu.vela.api import NpuAccelerator  # noqa: E402
from ethosu.vela.api import NpuAddressRange  # noqa: E402
from ethosu.vela.api import NpuDmaOperation  # noqa: E402
from ethosu.vela.api import npu_generate_register_command_stream  # noqa: E402
from ethosu.vela.ethos_u55_regs.ethos_u55_regs import cmd0  # noqa: E402
from ethosu.vela.ethos_u55_regs.ethos_u55_regs import cmd1  # noqa: E402
from obs_common import conv  # noqa: E402
from obs_common import FM_SIZE  # noqa: E402

W_ADDR = 0x10000
dma = NpuDmaOperation(NpuAddressRange(0, 0x0, 512), NpuAddressRange(1, W_ADDR, 16))
kernel = conv(0x0, 0x1000, W_ADDR + 256)  # weights at W_ADDR+256 .. W_ADDR+512: inside what the DMA really writes
events = replay(npu_generate_register_command_stream([dma, kernel], NpuAccelerator.Ethos_U55_128))
regs = [r for ev, r in events if ev == "dma"][0]
dst, length = regs[cmd1.NPU_SET_DMA0_DST], regs[cmd1.NPU_SET_DMA0_LEN]
region = regs[cmd0.NPU_SET_DMA0_DST_REGION]
print(f"emitted DMA: dst region {region}, address {dst:#x}, length {length}; waits: {[e for e in events if e[0].endswith('_wait')]}")
descs = [
    dict(kind="dma", name="DMA", reads=[(0, 0, length)], writes=[(region, dst, dst + length)]),
    dict(
        kind="kernel",
        name="CONV",
        reads=[(1, 0x0, FM_SIZE), (1, W_ADDR + 256, W_ADDR + 512)],
        writes=[(1, 0x1000, 0x1000 + FM_SIZE)],
    ),
]
hazards = check_waits(events, descs, max_kernels=2, max_dma=1)
for h in hazards:
    print("HAZARD:", h)
sys.exit(1 if hazards else 0)

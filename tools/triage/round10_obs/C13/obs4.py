# Observation 4 (unchanged tree): AVERAGE_POOL_2D / MAX_POOL_2D whose input has fewer than 3 dimensions (e.g. [1, 8]) dies with
# "IndexError: list index out of range" in tflite_graph_optimiser.fixup_pool_strides(): that rewrite runs in the first,
# "static optimisation" traversal, i.e. before supported_operator_check, on every pooling operator that passed the semantic
# checks, and reads ifm.shape[2] / ifm.shape[1] unconditionally. The operator should fall back to the CPU.
import os
import sys
import tempfile

sys.path.insert(0, os.path.dirname(os.path.abspath(__file__)))
import numpy as np  # noqa: E402
from tfl_build import T, O, build_model, run_cli, check_total  # noqa: E402

q = dict(scale=0.5, zp=0)
model = build_model([dict(
    tensors=[T("a", [1, 8], np.int8, **q), T("b", [1, 8], np.int8, **q)],
    ops=[O("AVERAGE_POOL_2D", [0], [1], "Pool2DOptions", Padding=1, StrideW=1, StrideH=1, FilterWidth=1, FilterHeight=1,
           FusedActivationFunction=0)],
    inputs=[0], outputs=[1])])
with tempfile.TemporaryDirectory() as d:
    msg = check_total(run_cli(model, d), "AVERAGE_POOL_2D on a rank-2 tensor")
if msg:
    sys.exit("C13 violated: " + msg)
print("ok")

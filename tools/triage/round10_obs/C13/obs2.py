# Observation 2 (unchanged tree): an operator whose options carry a stride or dilation of 0 (the flatbuffer default of
# Conv2DOptions.stride_w/stride_h when the fields are absent) kills the compiler with an AssertionError. compiler_driver()
# records every operator in the debug database before graph optimisation (_record_operator -> DebugDatabase.add_source), which
# evaluates op.kernel -> Kernel.__init__: "assert stride_x > 0 and stride_y > 0" / "assert dilation_x > 0 ...". This happens
# for every operator, also one that the checks would leave on the CPU, so the model is neither compiled nor rejected with a
# Vela error.
import os
import sys
import tempfile

sys.path.insert(0, os.path.dirname(os.path.abspath(__file__)))
import numpy as np  # noqa: E402
from tfl_build import T, O, build_model, run_cli, check_total  # noqa: E402

rng = np.random.default_rng(0)
w = rng.integers(-127, 127, (8, 3, 3, 4), dtype=np.int8)
bias = rng.integers(-100, 100, (8,), dtype=np.int32)


def conv(**opts):
    return build_model([dict(
        tensors=[
            T("in", [1, 16, 16, 4], np.int8, scale=0.5, zp=0),
            T("w", [8, 3, 3, 4], np.int8, data=w, scale=0.01, zp=0),
            T("b", [8], np.int32, data=bias, scale=0.005, zp=0),
            T("out", [1, 16, 16, 8], np.int8, scale=0.5, zp=0),
        ],
        ops=[O("CONV_2D", [0, 1, 2], [3], "Conv2DOptions", **opts)],
        inputs=[0], outputs=[3])])


msgs = []
with tempfile.TemporaryDirectory() as d:
    # stride fields left at the flatbuffer default (0)
    m = check_total(run_cli(conv(Padding=0, FusedActivationFunction=0, DilationWFactor=1, DilationHFactor=1), d, name="s0"),
                    "CONV_2D with stride 0")
    if m:
        msgs.append(m)
    m = check_total(run_cli(conv(Padding=0, StrideW=1, StrideH=1, FusedActivationFunction=0, DilationWFactor=0,
                                 DilationHFactor=0), d, name="d0"), "CONV_2D with dilation 0")
    if m:
        msgs.append(m)
if msgs:
    sys.exit("C13 violated: " + "; ".join(msgs))
print("ok")

# Observation 1 (unchanged tree): a constant tensor of type INT4 (TensorType 17, present in the schema and in
# tflite_mapping.datatype_map) makes the reader die with "KeyError: 17": tflite_mapping.datatype_map_numpy has no entry for
# INT4, and TFLiteSubgraph.parse_tensor() looks the numpy type up for every tensor that has a buffer. KeyError is not among
# the exceptions that TFLiteGraph.__init__ converts into an "Invalid tflite file" message, so the CLI ends in a traceback
# instead of compiling (the consumer is a CPU-only custom operator) or printing a diagnosis.
import os
import sys
import tempfile

sys.path.insert(0, os.path.dirname(os.path.abspath(__file__)))
import numpy as np  # noqa: E402
from tfl_build import T, O, build_model, run_cli, check_total  # noqa: E402
from ethosu.vela.tflite.TensorType import TensorType  # noqa: E402

model = build_model([dict(
    tensors=[
        T("a", [1, 4], np.float32),
        T("c", [4], TensorType.INT4, data=np.array([0x21, 0x43], np.uint8), scale=0.5, zp=0),
        T("out", [1, 4], np.float32),
    ],
    ops=[O("CUSTOM", [0, 1], [2], custom_code="MyOp", custom_options=[1])],
    inputs=[0], outputs=[2])])
with tempfile.TemporaryDirectory() as d:
    msg = check_total(run_cli(model, d), "constant INT4 tensor")
if msg:
    sys.exit("C13 violated: " + msg)
print("ok")

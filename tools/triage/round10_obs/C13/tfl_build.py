# Minimal TFLite flatbuffer builder + CLI runner used by the demos (raw flatbuffers API, generated classes only).
import contextlib
import importlib
import io
import os
import sys
import traceback

import flatbuffers
import numpy as np

# make sure the package of THIS worktree is the one that gets imported (not an installed copy)
_ROOT = os.path.dirname(os.path.dirname(os.path.abspath(__file__)))
if sys.path[0] != _ROOT:
    sys.path.insert(0, _ROOT)
import ethosu.vela  # noqa: E402

assert os.path.abspath(ethosu.vela.__file__).startswith(_ROOT + os.sep), f"wrong package imported: {ethosu.vela.__file__}"

from ethosu.vela.tflite import Buffer
from ethosu.vela.tflite import Model
from ethosu.vela.tflite import Operator
from ethosu.vela.tflite import OperatorCode
from ethosu.vela.tflite import QuantizationParameters as QP
from ethosu.vela.tflite import SubGraph
from ethosu.vela.tflite import Tensor
from ethosu.vela.tflite.BuiltinOperator import BuiltinOperator
from ethosu.vela.tflite.BuiltinOptions import BuiltinOptions
from ethosu.vela.tflite.TensorType import TensorType

NP_TO_TT = {
    np.dtype(np.int8): TensorType.INT8,
    np.dtype(np.uint8): TensorType.UINT8,
    np.dtype(np.int16): TensorType.INT16,
    np.dtype(np.int32): TensorType.INT32,
    np.dtype(np.int64): TensorType.INT64,
    np.dtype(np.float32): TensorType.FLOAT32,
    np.dtype(np.bool_): TensorType.BOOL,
}


def T(name, shape, dtype, data=None, scale=None, zp=None, qdim=0, variable=False):
    """Tensor description. dtype is a numpy dtype (or a TensorType int)."""
    tt = dtype if isinstance(dtype, int) else NP_TO_TT[np.dtype(dtype)]
    return dict(name=name, shape=shape, tt=tt, data=data, scale=scale, zp=zp, qdim=qdim, variable=variable)


def O(code, inputs, outputs, opt_name=None, custom_code=None, custom_options=None, intermediates=None, **opts):
    """Operator description. code is a BuiltinOperator member name, opt_name e.g. "Conv2DOptions"."""
    return dict(
        code=getattr(BuiltinOperator, code),
        inputs=inputs,
        outputs=outputs,
        opt_name=opt_name,
        opts=opts,
        custom_code=custom_code,
        custom_options=custom_options,
        intermediates=intermediates,
    )


def _ivec(b, start_fn, values):
    start_fn(b, len(values))
    for v in reversed(values):
        b.PrependInt32(int(v))
    return b.EndVector()


def _options(b, opt_name, opts):
    mod = importlib.import_module("ethosu.vela.tflite." + opt_name)
    ser = {}
    for k, v in opts.items():
        if isinstance(v, (list, tuple)):
            ser[k] = _ivec(b, getattr(mod, f"{opt_name}Start{k}Vector"), v)
        else:
            ser[k] = v
    getattr(mod, opt_name + "Start")(b)
    for k, v in ser.items():
        getattr(mod, f"{opt_name}Add{k}")(b, v)
    return getattr(mod, opt_name + "End")(b)


def build_model(subgraphs, description="demo", version=3):
    """subgraphs: list of dict(tensors=[T..], ops=[O..], inputs=[idx..], outputs=[idx..], name=str)."""
    b = flatbuffers.Builder(1024)

    buffers = [None]  # buffer 0 is the empty buffer
    opcodes = []  # (code, custom_code)

    sg_offs = []
    for sg in subgraphs:
        tens_offs = []
        for t in sg["tensors"]:
            buf_idx = 0
            if t["data"] is not None:
                buffers.append(np.ascontiguousarray(t["data"]).tobytes())
                buf_idx = len(buffers) - 1
            name = b.CreateString(t["name"])
            shape = None
            if t["shape"] is not None:
                shape = _ivec(b, Tensor.TensorStartShapeVector, t["shape"])
            q = None
            if t["scale"] is not None or t["zp"] is not None:
                sc = zp = None
                if t["scale"] is not None:
                    scales = np.atleast_1d(np.asarray(t["scale"], dtype=np.float32))
                    QP.QuantizationParametersStartScaleVector(b, len(scales))
                    for v in reversed(scales):
                        b.PrependFloat32(float(v))
                    sc = b.EndVector()
                if t["zp"] is not None:
                    zps = np.atleast_1d(np.asarray(t["zp"], dtype=np.int64))
                    QP.QuantizationParametersStartZeroPointVector(b, len(zps))
                    for v in reversed(zps):
                        b.PrependInt64(int(v))
                    zp = b.EndVector()
                QP.QuantizationParametersStart(b)
                if sc is not None:
                    QP.QuantizationParametersAddScale(b, sc)
                if zp is not None:
                    QP.QuantizationParametersAddZeroPoint(b, zp)
                QP.QuantizationParametersAddQuantizedDimension(b, t["qdim"])
                q = QP.QuantizationParametersEnd(b)
            Tensor.TensorStart(b)
            if shape is not None:
                Tensor.TensorAddShape(b, shape)
            Tensor.TensorAddType(b, t["tt"])
            Tensor.TensorAddBuffer(b, buf_idx)
            Tensor.TensorAddName(b, name)
            if q is not None:
                Tensor.TensorAddQuantization(b, q)
            Tensor.TensorAddIsVariable(b, bool(t["variable"]))
            tens_offs.append(Tensor.TensorEnd(b))

        op_offs = []
        for o in sg["ops"]:
            key = (o["code"], o["custom_code"])
            if key not in opcodes:
                opcodes.append(key)
            oc_idx = opcodes.index(key)
            ins = _ivec(b, Operator.OperatorStartInputsVector, o["inputs"])
            outs = _ivec(b, Operator.OperatorStartOutputsVector, o["outputs"])
            inter = None
            if o["intermediates"] is not None:
                inter = _ivec(b, Operator.OperatorStartIntermediatesVector, o["intermediates"])
            opt = None
            if o["opt_name"] is not None:
                opt = _options(b, o["opt_name"], o["opts"])
            cust = None
            if o["custom_options"] is not None:
                cust = b.CreateByteVector(bytes(o["custom_options"]))
            Operator.OperatorStart(b)
            Operator.OperatorAddOpcodeIndex(b, oc_idx)
            Operator.OperatorAddInputs(b, ins)
            Operator.OperatorAddOutputs(b, outs)
            if opt is not None:
                Operator.OperatorAddBuiltinOptionsType(b, getattr(BuiltinOptions, o["opt_name"]))
                Operator.OperatorAddBuiltinOptions(b, opt)
            if cust is not None:
                Operator.OperatorAddCustomOptions(b, cust)
            if inter is not None:
                Operator.OperatorAddIntermediates(b, inter)
            op_offs.append(Operator.OperatorEnd(b))

        SubGraph.SubGraphStartTensorsVector(b, len(tens_offs))
        for off in reversed(tens_offs):
            b.PrependUOffsetTRelative(off)
        tv = b.EndVector()
        SubGraph.SubGraphStartOperatorsVector(b, len(op_offs))
        for off in reversed(op_offs):
            b.PrependUOffsetTRelative(off)
        ov = b.EndVector()
        iv = _ivec(b, SubGraph.SubGraphStartInputsVector, sg["inputs"])
        outv = _ivec(b, SubGraph.SubGraphStartOutputsVector, sg["outputs"])
        nm = b.CreateString(sg.get("name", "main"))
        SubGraph.SubGraphStart(b)
        SubGraph.SubGraphAddTensors(b, tv)
        SubGraph.SubGraphAddInputs(b, iv)
        SubGraph.SubGraphAddOutputs(b, outv)
        SubGraph.SubGraphAddOperators(b, ov)
        SubGraph.SubGraphAddName(b, nm)
        sg_offs.append(SubGraph.SubGraphEnd(b))

    buf_offs = []
    for data in buffers:
        dv = None
        if data is not None:
            b.StartVector(1, len(data), 16)
            b.head = b.head - len(data)
            b.Bytes[b.head : b.head + len(data)] = data
            dv = b.EndVector()
        Buffer.BufferStart(b)
        if dv is not None:
            Buffer.BufferAddData(b, dv)
        buf_offs.append(Buffer.BufferEnd(b))

    oc_offs = []
    for code, custom in opcodes:
        cs = b.CreateString(custom) if custom is not None else None
        OperatorCode.OperatorCodeStart(b)
        OperatorCode.OperatorCodeAddDeprecatedBuiltinCode(b, min(code, 127))
        OperatorCode.OperatorCodeAddBuiltinCode(b, code)
        if cs is not None:
            OperatorCode.OperatorCodeAddCustomCode(b, cs)
        OperatorCode.OperatorCodeAddVersion(b, 1)
        oc_offs.append(OperatorCode.OperatorCodeEnd(b))

    Model.ModelStartOperatorCodesVector(b, len(oc_offs))
    for off in reversed(oc_offs):
        b.PrependUOffsetTRelative(off)
    ocv = b.EndVector()
    Model.ModelStartSubgraphsVector(b, len(sg_offs))
    for off in reversed(sg_offs):
        b.PrependUOffsetTRelative(off)
    sgv = b.EndVector()
    Model.ModelStartBuffersVector(b, len(buf_offs))
    for off in reversed(buf_offs):
        b.PrependUOffsetTRelative(off)
    bv = b.EndVector()
    desc = b.CreateString(description)
    Model.ModelStart(b)
    Model.ModelAddVersion(b, version)
    Model.ModelAddOperatorCodes(b, ocv)
    Model.ModelAddSubgraphs(b, sgv)
    Model.ModelAddDescription(b, desc)
    Model.ModelAddBuffers(b, bv)
    root = Model.ModelEnd(b)
    b.Finish(root, file_identifier=b"TFL3")
    return bytes(b.Output())


def run_vela(model_bytes, out_dir, name="model", args=(), quiet=True):
    """Runs the vela CLI in-process. Returns (status, text, output_file_exists).
    status is 'ok' (returned 0), 'rejected' (non-zero return / SystemExit with a message) or 'crash' (any other exception)."""
    from ethosu.vela import vela

    os.makedirs(out_dir, exist_ok=True)
    path = os.path.join(out_dir, name + ".tflite")
    with open(path, "wb") as f:
        f.write(model_bytes)
    out_file = os.path.join(out_dir, name + "_vela.tflite")
    if os.path.exists(out_file):
        os.remove(out_file)
    buf = io.StringIO()
    status = None
    with contextlib.redirect_stdout(buf), contextlib.redirect_stderr(buf):
        try:
            rc = vela.main([path, "--output-dir", out_dir] + list(args))
            status = "ok" if rc in (0, None) else "rejected"
        except SystemExit as e:
            status = "ok" if e.code in (0, None) else "rejected"
        except BaseException:
            status = "crash"
            traceback.print_exc(file=buf)
    text = buf.getvalue()
    if not quiet:
        sys.stdout.write(text)
    return status, text, os.path.exists(out_file)


def read_output_ops(out_dir, name="model"):
    """Returns list of (builtin_code, custom_code) of subgraph 0 of the written output model."""
    from ethosu.vela.tflite.Model import Model as M

    with open(os.path.join(out_dir, name + "_vela.tflite"), "rb") as f:
        buf = bytearray(f.read())
    m = M.GetRootAsModel(buf, 0)
    sg = m.Subgraphs(0)
    res = []
    for i in range(sg.OperatorsLength()):
        oc = m.OperatorCodes(sg.Operators(i).OpcodeIndex())
        code = oc.BuiltinCode() or oc.DeprecatedBuiltinCode()
        cc = oc.CustomCode()
        res.append((code, cc.decode() if cc else None))
    return res


def run_cli(model_bytes, out_dir, name="model", args=(), timeout=110):
    """Runs the real command line (python -m ethosu.vela) in a subprocess with the worktree as cwd.
    Returns dict(rc, out, err, output_file (path or None), traceback (bool))."""
    import subprocess

    os.makedirs(out_dir, exist_ok=True)
    path = os.path.join(out_dir, name + ".tflite")
    with open(path, "wb") as f:
        f.write(model_bytes)
    out_file = os.path.join(out_dir, name + "_vela.tflite")
    if os.path.exists(out_file):
        os.remove(out_file)
    env = dict(os.environ)
    env["PYTHONPATH"] = _ROOT
    p = subprocess.run(
        [sys.executable, "-m", "ethosu.vela", path, "--output-dir", out_dir] + list(args),
        cwd=_ROOT, env=env, capture_output=True, text=True, timeout=timeout,
    )
    return dict(
        rc=p.returncode,
        out=p.stdout,
        err=p.stderr,
        output_file=out_file if os.path.exists(out_file) else None,
        traceback="Traceback (most recent call last)" in (p.stderr + p.stdout),
    )


def check_total(res, what):
    """The C13 contract for one CLI run: either exit 0 with an output model, or a non-zero exit with an 'Error:' diagnosis;
    never a Python traceback. Returns None if fine, else a short description."""
    if res["traceback"]:
        src = res["err"] if "Traceback (most recent call last)" in res["err"] else res["out"]
        last = [l for l in src.strip().splitlines() if l.strip()][-1]
        return f"{what}: the compiler died with an internal exception ({last})"
    if res["rc"] == 0:
        if res["output_file"] is None:
            return f"{what}: exit status 0 but no output model was written"
        return None
    if "Error" not in res["out"] + res["err"]:
        return f"{what}: exit status {res['rc']} without a diagnosis"
    return None

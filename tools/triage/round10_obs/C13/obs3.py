# Observation 3 (unchanged tree): the builtin operator CALL (code 31, CallOptions.subgraph) is in tflite_mapping with the option
# member "subgraph", so the reader stores the callee's *index* (an int) in op.attrs["subgraph"]. The same attribute name is
# used internally for the tuple of Subgraph objects of While/If/CallOnce and for the Ethos-U operator.
# live_range.extract_live_ranges_from_cascaded_passes() takes any non-None op.attrs["subgraph"] of a CPU operator as that tuple
# and iterates over it: "TypeError: 'int' object is not iterable". A model with a CALL operator therefore ends in a traceback
# instead of leaving CALL on the CPU.
import os
import sys
import tempfile

sys.path.insert(0, os.path.dirname(os.path.abspath(__file__)))
import numpy as np  # noqa: E402
from tfl_build import T, O, build_model, run_cli, check_total  # noqa: E402

main = dict(name="main", tensors=[T("x", [1, 8], np.float32), T("y", [1, 8], np.float32)],
            ops=[O("CALL", [0], [1], "CallOptions", Subgraph=1)], inputs=[0], outputs=[1])
callee = dict(name="callee", tensors=[T("a", [1, 8], np.float32), T("b", [1, 8], np.float32)],
              ops=[O("ABS", [0], [1], "AbsOptions")], inputs=[0], outputs=[1])
with tempfile.TemporaryDirectory() as d:
    msg = check_total(run_cli(build_model([main, callee]), d), "model with a CALL operator")
if msg:
    sys.exit("C13 violated: " + msg)
print("ok")

"""Observation 1 (unchanged tree): silent truncation of NPU_SET_IFM2_SCALAR.

generate_elementwise_op only asserts that the quantised scalar lies in the range of the IFM2 data type.  For an INT32
IFM2 that range is 32 bits wide, but NPU_SET_IFM2_SCALAR is a cmd0 register with a 16-bit parameter and
CommandStreamEmitter.cmd0_with_param masks with 0xFFFF without any check.  An INT32 ADD with ifm2_scalar = 100000
is accepted and encoded as scalar 0x86A0 (= -31072 as int16): the stream does not encode the operation it was given and
no error is raised ("every field fits its register without truncation" is violated).
"""
import os
import sys

sys.path.insert(0, os.path.dirname(os.path.abspath(__file__)))
sys.path.insert(0, os.getcwd())

from cs_decode import decode  # noqa: E402

from ethosu.vela.api import npu_find_block_configs  # noqa: E402
from ethosu.vela.api import npu_generate_register_command_stream  # noqa: E402
from ethosu.vela.api import NpuAccelerator  # noqa: E402
from ethosu.vela.api import NpuDataType  # noqa: E402
from ethosu.vela.api import NpuElementWiseOp  # noqa: E402
from ethosu.vela.api import NpuElementWiseOperation  # noqa: E402
from ethosu.vela.api import NpuFeatureMap  # noqa: E402
from ethosu.vela.api import NpuLayout  # noqa: E402
from ethosu.vela.api import NpuShape3D  # noqa: E402
from ethosu.vela.api import NpuTileBox  # noqa: E402

ACC = NpuAccelerator.Ethos_U55_128
SCALAR = 100000


def fm(h, w, c, addr):
    f = NpuFeatureMap()
    f.data_type = NpuDataType.INT32
    f.shape = NpuShape3D(height=h, width=w, depth=c)
    f.tiles = NpuTileBox(height_0=h, height_1=h, width_0=w, addresses=[addr, 0, 0, 0])
    f.region = 1
    f.layout = NpuLayout.NHWC
    f.quantization = None
    return f


op = NpuElementWiseOperation(NpuElementWiseOp.ADD)
op.ifm = fm(4, 8, 16, 0)
op.ofm = fm(4, 8, 16, 0x1000)
op.ifm2 = fm(4, 8, 16, 0)
op.ifm2.shape = NpuShape3D(height=0, width=0, depth=0)
op.ifm2_scalar = SCALAR
op.block_config = npu_find_block_configs(op, ACC)[0]

try:
    stream = npu_generate_register_command_stream([op], ACC)
except Exception as e:  # a rejection would be fine
    print(f"ok: rejected ({type(e).__name__})")
    sys.exit(0)
got = decode(stream)[0][2]["NPU_SET_IFM2_SCALAR"]
signed = got - 0x10000 if got & 0x8000 else got
if signed != SCALAR and got != SCALAR:
    print(f"FAIL: ifm2_scalar={SCALAR} was accepted but NPU_SET_IFM2_SCALAR holds {got:#x} ({signed}): truncated to 16 bits")
    sys.exit(1)
print("ok")

"""Observation 2 (unchanged tree, low severity): a tile box built as the API documents it gives a wrapped-around field.

api.NpuTileBox documents height_1 as "The height of tile 1, 0 if unused" (NpuFeatureMap's default is height_1=0 too).
generate_tiles emits tiles.height_1 - 1 unconditionally, so a single-tile feature map described that way produces
NPU_SET_IFM_HEIGHT1_M1 / NPU_SET_OFM_HEIGHT1_M1 = 0xFFFF (-1 masked to 16 bits by cmd0_with_param) instead of a value
that fits the register; Vela's own lowering avoids this by passing height_1 = height_0.  The hardware ignores HEIGHT1
when tile 1 is not addressed, so this only matters for "every field fits its register without truncation" and for a
decoder that compares register values with the operation's tile box.
"""
import os
import sys

sys.path.insert(0, os.path.dirname(os.path.abspath(__file__)))
sys.path.insert(0, os.getcwd())

from cs_decode import decode  # noqa: E402

from ethosu.vela.api import npu_find_block_configs  # noqa: E402
from ethosu.vela.api import npu_generate_register_command_stream  # noqa: E402
from ethosu.vela.api import NpuAccelerator  # noqa: E402
from ethosu.vela.api import NpuDataType  # noqa: E402
from ethosu.vela.api import NpuElementWiseOp  # noqa: E402
from ethosu.vela.api import NpuElementWiseOperation  # noqa: E402
from ethosu.vela.api import NpuFeatureMap  # noqa: E402
from ethosu.vela.api import NpuLayout  # noqa: E402
from ethosu.vela.api import NpuQuantization  # noqa: E402
from ethosu.vela.api import NpuShape3D  # noqa: E402
from ethosu.vela.api import NpuTileBox  # noqa: E402

ACC = NpuAccelerator.Ethos_U55_128


def fm(h, w, c, addr):
    f = NpuFeatureMap()
    f.data_type = NpuDataType.INT8
    f.shape = NpuShape3D(height=h, width=w, depth=c)
    f.tiles = NpuTileBox(height_0=h, height_1=0, width_0=w, addresses=[addr, 0, 0, 0])  # "0 if unused"
    f.region = 1
    f.layout = NpuLayout.NHWC
    f.quantization = NpuQuantization(scale_f32=0.5, zero_point=0)
    return f


op = NpuElementWiseOperation(NpuElementWiseOp.ABS)
op.ifm = fm(4, 8, 16, 0)
op.ofm = fm(4, 8, 16, 0x1000)
op.block_config = npu_find_block_configs(op, ACC)[0]
regs = decode(npu_generate_register_command_stream([op], ACC))[0][2]
bad = {k: hex(v) for k, v in regs.items() if k.endswith("HEIGHT1_M1") and v > 0x7FFF}
if bad:
    print(f"FAIL: height_1=0 ('unused') was emitted as height_1 - 1 wrapped to 16 bits: {bad}")
    sys.exit(1)
print("ok")

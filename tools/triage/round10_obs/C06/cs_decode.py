"""Small register command stream decoder shared by the demos.

decode(words) walks the 32-bit words, tracks the last value written to every register and returns, for every
NPU_OP_* command, a tuple (name, param, regs, waits) where regs maps a register name to its value at that point
(cmd0: the 16-bit parameter, cmd1: (param << 32) | payload) and waits is the list of (wait name, param) commands seen
since the previous NPU_OP_* command.
"""
from ethosu.vela.ethos_u55_regs.ethos_u55_regs import cmd0
from ethosu.vela.ethos_u55_regs.ethos_u55_regs import cmd1

CMD0 = {c.value: c.name for c in cmd0}
CMD1 = {c.value: c.name for c in cmd1}
OPS = {"NPU_OP_CONV", "NPU_OP_DEPTHWISE", "NPU_OP_POOL", "NPU_OP_ELEMENTWISE", "NPU_OP_DMA_START", "NPU_OP_STOP"}
WAITS = {"NPU_OP_DMA_WAIT", "NPU_OP_KERNEL_WAIT"}


def decode(words):
    regs = {}
    ops = []
    waits = []
    i = 0
    while i < len(words):
        w = words[i]
        code = w & 0x3FF
        param = (w >> 16) & 0xFFFF
        if w & 0x4000:
            name = CMD1[code]
            regs[name] = (param << 32) | (words[i + 1] & 0xFFFFFFFF)
            i += 2
            continue
        name = CMD0[code]
        i += 1
        if name in WAITS:
            waits.append((name, param))
        elif name in OPS:
            ops.append((name, param, dict(regs), waits))
            waits = []
        else:
            regs[name] = param
    return ops

# Observation (unchanged tree): a scale outside the hardware range does not always degrade to a zero multiplier.
# scaling.quantise_scale returns (0, 16) when the shift would not fit 6 bits, but weight_compressor._prepare_scale_and_bias adds
# the "round away from zero" nudge (q_scale + 1) to every record of an op with RoundingMode.AwayZero without looking at the
# multiplier. For such an op (here: int8 PAD + AVERAGE_POOL_2D 3x3 fused into a DepthwiseConv2DBias) an underflowing scale
# (real value ~1e-13, needs a shift of 74) is packed as (1, 16), i.e. 2^-16 - eight orders of magnitude larger than the real
# scale - instead of the zero multiplier.
import os
import sys

import numpy as np

sys.path.insert(0, os.path.join(os.path.dirname(os.path.abspath(__file__)), ".."))

from ethosu.vela import weight_compressor  # noqa: E402
from ethosu.vela.data_type import DataType  # noqa: E402
from ethosu.vela.operation import Op  # noqa: E402
from ethosu.vela.operation import Padding  # noqa: E402
from ethosu.vela.scaling import quantise_scale  # noqa: E402
from ethosu.vela.tensor import create_const_tensor  # noqa: E402
from ethosu.vela.tensor import QuantizationParameters  # noqa: E402
from ethosu.vela.tensor import Tensor  # noqa: E402
from ethosu.vela.tensor import TensorFormat  # noqa: E402
from ethosu.vela.tensor import TensorPurpose  # noqa: E402
from ethosu.vela.test import testutil  # noqa: E402
from ethosu.vela.tflite_graph_optimiser import replace_pad_by_hw_pad  # noqa: E402


def quant(scale):
    qp = QuantizationParameters()
    qp.scale_f32 = np.float32(scale)
    qp.zero_point = 0
    return qp


ifm_scale, ofm_scale = 1e-12, 1.0
dtype = DataType.int8
in_tens = Tensor([1, 16, 16, 8], dtype, "input")
in_tens.quantization = quant(ifm_scale)
pad_input = create_const_tensor("pad_input", [4, 2], DataType.int32, [[0, 0], [1, 1], [1, 1], [0, 0]])
temp_tens = Tensor([1, 18, 18, 8], dtype, "pad_out")
temp_tens.quantization = quant(ifm_scale)
out_tens = Tensor([1, 16, 16, 8], dtype, "output")
out_tens.quantization = quant(ofm_scale)
pad_op = testutil.create_op(Op.Pad, [in_tens, pad_input], temp_tens)
pad_op.run_on_npu = True
attrs = {
    "padding": Padding.VALID,
    "ksize": [1, 3, 3, 1],
    "filter_height": 3,
    "filter_width": 3,
    "stride_w": 1,
    "stride_h": 1,
    "dilation_w_factor": 1,
    "dilation_h_factor": 1,
    "strides": (1, 1, 1, 1),
}
pool_op = testutil.create_op(Op.AvgPool, [temp_tens], out_tens, attrs)
pool_op.run_on_npu = True
nng = testutil.create_graph([pad_op, pool_op])
arch = testutil.create_arch()
replace_pad_by_hw_pad(pool_op, nng, arch)
op = nng.subgraphs[0].output_tensors[0].ops[0]
assert op.type == Op.DepthwiseConv2DBias
bias = op.bias
bias.purpose = TensorPurpose.FSBias
bias.format = TensorFormat.NHWC
scales, _ = weight_compressor._prepare_scale_and_bias(arch, bias, op.explicit_scaling)
real = float(np.float32(ifm_scale)) / 9 / float(np.float32(ofm_scale))
print("real scale", real, "quantise_scale ->", quantise_scale(real), "packed record ->", scales[0])
assert quantise_scale(real)[0] == 0, "expected the scale to be outside the representable range"
if scales[0][0] != 0:
    print(f"DEFECT: out-of-range scale packed as multiplier {scales[0][0]} >> {scales[0][1]} = {scales[0][0] / 2**scales[0][1]:.3e}")
    sys.exit(1)
print("OK")

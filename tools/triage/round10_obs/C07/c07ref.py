"""Independent reference model of the Ethos-U weight brick traversal plus round-trip helpers."""
import numpy as np


def ref_reorder(vol, ifm_ublock_depth, ofm_ublock_depth, ofm_block_depth, is_depthwise, is_partkernel, ifm_bitdepth,
                decomp_h, decomp_w):
    """vol: OHWI int array. Returns the list of weights in hardware order (with zero padding)."""
    ofm_depth, kh, kw, ifm_depth = vol.shape
    out = []
    ifm_block_depth = 16 if (is_partkernel or ifm_bitdepth == 16) else 32
    for ofm_block_z in range(0, ofm_depth, ofm_block_depth):
        clipped_ofm = min(ofm_block_depth, ofm_depth - ofm_block_z)
        for ifm_block_z in range(0, 1 if is_depthwise else ifm_depth, ifm_block_depth):
            if is_depthwise:
                clipped_ifm = ifm_ublock_depth
            elif is_partkernel:
                clipped_ifm = min(ifm_block_depth, ifm_depth - ifm_block_z)
            else:
                clipped_ifm = ifm_block_depth
            for sky in range(0, kh, decomp_h):
                sub_h = min(kh - sky, decomp_h)
                for skx in range(0, kw, decomp_w):
                    sub_w = min(kw - skx, decomp_w)
                    elems = sub_w * sub_h
                    if is_partkernel:
                        q = 2 if ifm_bitdepth == 16 else 4
                        elems = -(-elems // q) * q
                    elif is_depthwise:
                        elems = -(-elems // 4) * 4
                    outer = clipped_ifm if is_partkernel else 1
                    inner = 1 if is_partkernel else clipped_ifm
                    for ifm_ublk_outer in range(0, outer, ifm_ublock_depth):
                        for ofm_ublk in range(0, clipped_ofm, ofm_ublock_depth):
                            for element in range(elems):
                                kx = element % sub_w
                                ky = element // sub_w
                                for ifm_ublk_inner in range(0, inner, ifm_ublock_depth):
                                    for oz in range(ofm_ublock_depth):
                                        for iz in range(1 if is_depthwise else ifm_ublock_depth):
                                            ifm_z = ifm_block_z + ifm_ublk_inner + ifm_ublk_outer + iz
                                            ofm_z = ofm_block_z + ofm_ublk + oz
                                            if ifm_z < ifm_depth and ofm_z < ofm_depth and ky < sub_h:
                                                out.append(int(vol[ofm_z, sky + ky, skx + kx, ifm_z]))
                                            else:
                                                out.append(0)
    return out


def first_diff(a, b):
    n = min(len(a), len(b))
    for i in range(n):
        if a[i] != b[i]:
            return i
    return n if len(a) != len(b) else -1


class StreamError(Exception):
    pass


class _Bits:
    def __init__(self, data):
        self.d = bytes(data)
        self.pos = 0

    def get(self, n):
        v = 0
        for i in range(n):
            byte = self.pos >> 3
            if byte >= len(self.d):
                raise StreamError("bit stream underrun at bit %d" % self.pos)
            v |= ((self.d[byte] >> (self.pos & 7)) & 1) << i
            self.pos += 1
        return v


def ref_decode(stream, max_weights=1 << 26):
    """Pure Python MLW stream decoder (follows the Ethos-U weight stream format). Raises StreamError on a bad stream."""
    bb = _Bits(stream)
    size = len(bb.d)
    out = []
    first = True
    palsize = palbits = direct_offset = 0
    palette = []
    prev_zdiv = 0
    while True:
        zdiv = bb.get(3)
        while zdiv == 7:
            bb.get((8 - (bb.pos & 7)) & 7)
            first = True
            if bb.pos // 8 == size:
                break
            zdiv = bb.get(3)
        if bb.pos // 8 == size:
            break
        if not (zdiv < 4 or zdiv == 6):
            raise StreamError("illegal ZDIV %d" % zdiv)
        use_zero_run = zdiv != 6
        nvalues = bb.get(15) + 1
        wdiv = bb.get(3)
        wtrunc = bb.get(1)
        newpal = bb.get(1)
        if first:
            if not newpal:
                raise StreamError("first slice without palette header")
            first = False
        if not newpal and use_zero_run != (prev_zdiv != 6):
            raise StreamError("zero-run mode changed without new palette")
        prev_zdiv = zdiv
        if newpal:
            direct_offset = bb.get(5)
            palsize = bb.get(5)
            if palsize > 0:
                palsize += 1
            palbits = bb.get(3) + 2
            palette = [bb.get(palbits) for _ in range(palsize)]
        if wdiv == 7:
            w_unc = True
            if palsize > 0:
                ub = 0
                while (1 << ub) < palsize:
                    ub += 1
            else:
                ub = palbits
            wdiv = ub
        else:
            w_unc = False
            if wdiv >= 6:
                raise StreamError("illegal WDIV %d" % wdiv)
        z_nvalues = nvalues + (1 if newpal else 0)
        w_value = [0] * nvalues
        z_value = [0] * z_nvalues
        w_pos = z_pos = w_prev_pos = z_prev_pos = 0
        w_carry = z_carry = 0
        w_q = []
        z_q = []
        w_prev_enable = z_prev_enable = False
        w_prev_q = []
        z_prev_q = []
        z_unary_len = 12 if zdiv < 3 else 8
        while True:
            balance = (w_pos - z_pos) if use_zero_run else 0
            w_enable = (balance < 8 or not use_zero_run) and w_pos < nvalues
            z_enable = balance >= 0 and use_zero_run and z_pos < z_nvalues
            w_unary0 = 0
            if w_enable and not w_unc:
                w_unary0 = bb.get(12)
            if z_enable:
                z_unary = bb.get(z_unary_len)
                z_q = []
                cnt = z_carry
                for i in range(z_unary_len):
                    if z_unary & (1 << i):
                        cnt += 1
                    else:
                        z_q.append(cnt)
                        cnt = 0
                z_carry = cnt
                z_pos += len(z_q)
            if w_enable:
                max_symbols = 8 if (w_unc and wdiv > 5) else 12
                n1 = bin(w_unary0 & ((1 << max_symbols) - 1)).count("1")
                w_unary1 = bb.get(n1)
                w_q = []
                cnt = w_carry
                for i in range(max_symbols):
                    code = 0
                    if w_unary0 & (1 << i):
                        code = 1
                        if w_unary1 & 1:
                            code = 2
                        w_unary1 >>= 1
                    cnt += code
                    if code < 2 or wtrunc:
                        w_q.append(cnt)
                        cnt = 0
                w_carry = cnt
                w_pos += len(w_q)
            if w_prev_enable:
                for q in w_prev_q:
                    if w_prev_pos >= nvalues:
                        break
                    w_value[w_prev_pos] = (q << wdiv) + bb.get(wdiv)
                    w_prev_pos += 1
            if z_prev_enable:
                for q in z_prev_q:
                    if z_prev_pos >= z_nvalues:
                        break
                    z_value[z_prev_pos] = (q << zdiv) + bb.get(zdiv)
                    z_prev_pos += 1
            w_prev_enable, w_prev_q = w_enable, list(w_q)
            z_prev_enable, z_prev_q = z_enable, list(z_q)
            if not (w_prev_enable or z_prev_enable):
                break
        if newpal and use_zero_run:
            out.extend([0] * z_value[0])
        for i in range(nvalues):
            wv = w_value[i]
            if wv >= 512:
                raise StreamError("weight index %d exceeds 9 bits" % wv)
            val = palette[wv] if wv < palsize else wv - palsize + direct_offset
            mag = val >> 1
            out.append(-mag if (val & 1) else mag)
            if use_zero_run:
                out.extend([0] * z_value[i + (1 if newpal else 0)])
        if len(out) > max_weights:
            raise StreamError("decoded stream too long")
    return out

"""Observation (unchanged tree): the compressed-weight cache key (WeightCompressionConfig: block type, OFM block depth,
depth offsets, dilation, weight value_id) does not contain the IFM bit depth, although the hardware weight order depends
on it (depth-first IFM block depth is 32 for 8-bit and 16 for 16-bit IFMs; part-kernel padding is 4 vs 2 elements).
When one constant weight tensor feeds an int8 convolution and an int16 (16x8) convolution scheduled with the same block
depth / depth slices, encode_weight_and_scale_tensor() returns for the second operation the stream that was encoded for
the first one, i.e. weights in the wrong hardware order for that operation.
(The same key also ignores the H/W flip applied for transpose convolutions.)"""
import os
import sys

sys.path.insert(0, os.path.dirname(os.path.abspath(__file__)))
sys.path.insert(0, os.path.dirname(os.path.dirname(os.path.abspath(__file__))))

import numpy as np  # noqa: E402
from c07ref import ref_decode, ref_reorder  # noqa: E402
from ethosu.vela import weight_compressor as wc  # noqa: E402
from ethosu.vela.architecture_features import Block  # noqa: E402
from ethosu.vela.data_type import DataType  # noqa: E402
from ethosu.vela.operation import Kernel, Op  # noqa: E402
from ethosu.vela.tensor import Tensor, TensorFormat, TensorPurpose, create_const_tensor  # noqa: E402
from ethosu.vela.test import testutil  # noqa: E402


class BlockCfg:
    ofm_block = Block(8, 8, 16)


def make_op(name, ifm_dtype, weights, bias_dtype):
    ifm = Tensor([1, 8, 8, 64], ifm_dtype, name + "_in")
    ifm.quantization = testutil.default_quant_params()
    ofm = Tensor([1, 8, 8, 16], ifm_dtype, name + "_out")
    ofm.quantization = testutil.default_quant_params()
    bias = create_const_tensor(name + "_bias", [16], bias_dtype, [0] * 16, purpose=TensorPurpose.FeatureMap)
    bias.format = TensorFormat.NHWC
    op = testutil.create_op(Op.Conv2DBias, [ifm, weights, bias], ofm, attrs={"stride_w": 1, "stride_h": 1, "strides": (1, 1, 1, 1)})
    return op, bias


arch = testutil.create_arch()
wc.CompressedWeightCache.clear()
rng = np.random.default_rng(0)
values = rng.integers(-127, 128, size=(1, 1, 64, 16)).astype(np.int8)
wq = testutil.default_quant_params()
wq.zero_point = 0
weights = create_const_tensor("shared_w", [1, 1, 64, 16], DataType.int8, values, quantization=wq)

kernel = Kernel(1, 1)
results = {}
for name, dt, bdt, bits in (("conv8", DataType.int8, DataType.int32, 8), ("conv16", DataType.int16, DataType.int64, 16)):
    op, bias = make_op(name, dt, weights, bdt)
    wt, _ = wc.encode_weight_and_scale_tensor(arch, op, weights, bias, kernel, BlockCfg, [0, 16])
    rng_ = wt.encoded_ranges[wc.WeightKey(0, 0)]
    stream = wt.buffer[rng_.offset + rng_.weight_offset: rng_.offset + rng_.weight_offset + rng_.weight_bytes]
    ohwi = np.transpose(values.astype(np.int16), (3, 0, 1, 2))
    pk = wt.hw_traversal == wc.NpuBlockTraversal.PART_KERNEL_FIRST
    ub = arch.ofm_ublock.depth
    expect = ref_reorder(ohwi, arch.ifm_ublock.depth, ub, 16, False, pk, bits, 8, 8)
    results[name] = ref_decode(stream) == expect
    print(name, "ifm bits", bits, "traversal", wt.hw_traversal.name, "stream matches hardware order:", results[name])

if not all(results.values()):
    print("DEFECT: cached weight stream reused for an operation with a different IFM bit depth")
    sys.exit(1)
print("ok")

# Observation (unchanged tree): the Greedy allocator over-reports its footprint.
# GreedyAllocator.alloc accounts memory_required = best_offset + round_up(size, alignment of the range), not
# best_offset + size. A live range whose size is not a multiple of its alignment (a 16-byte-rounded tensor in a CPU
# subgraph compiled with --cpu-tensor-alignment 64 or more) makes the returned total larger than the highest end
# address, so the three allocators report different totals for the same layout (HillClimb: 16 here) and the arena is
# grown by up to alignment-16 bytes. Property C05: "the reported total equals the highest end address".
import os
import sys

sys.path.insert(0, os.path.dirname(os.path.abspath(__file__)))
from c05util import graph_from_specs  # noqa: E402

from ethosu.vela.greedy_allocation import allocate_live_ranges  # noqa: E402

specs = [(0, 1, 16, 128)]
graph, tensors = graph_from_specs(specs)
total = allocate_live_ranges(graph, 128)
top = max(t.address + sp[2] for t, sp in zip(tensors, specs))
if total != top:
    print(f"FAIL: Greedy reports a total of {total} bytes, the highest end address is {top}")
    sys.exit(1)
print("ok")

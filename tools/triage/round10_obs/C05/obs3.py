# Observation (unchanged tree): an equivalent tensor of another memory type is left without an address.
# LiveRangeGraph.get_or_create_range returns the range of any tensor with the same equivalence_id but does not add the
# new tensor to it; LiveRange.set_address only writes the tensors of the range, and Tensor.address is keyed by
# (equivalence_id, mem_type). Without spilling the feature maps are allocated with mem_type_set {Scratch, Scratch_fast}
# in one go; a clone (same equivalence_id) whose mem_type differs from the tensor that created the range is treated
# as "the same buffer" by the live range graph, yet its address stays None after Greedy/HillClimb/LinearAlloc, i.e.
# tensors declared equivalent do not share one address. (Constructed at the LiveRangeGraph level; I did not find a
# model that drives the compiler into it.)
import os
import sys

sys.path.insert(0, os.path.dirname(os.path.abspath(__file__)))
from c05util import graph_from_specs  # noqa: E402

from ethosu.vela.greedy_allocation import allocate_live_ranges  # noqa: E402
from ethosu.vela.tensor import MemType  # noqa: E402

graph, tensors = graph_from_specs([(0, 1, 64, 16), (0, 1, 32, 16)])
clone = tensors[1].clone("_fast")
clone.mem_type = MemType.Scratch_fast
rng = graph.get_or_create_range(clone)
assert rng is graph.ranges[tensors[1]] and clone.equivalent(tensors[1])
allocate_live_ranges(graph, 16)
if clone.address != tensors[1].address:
    print(f"FAIL: equivalent tensors: {tensors[1].name} @ {tensors[1].address}, {clone.name} @ {clone.address}")
    sys.exit(1)
print("ok")

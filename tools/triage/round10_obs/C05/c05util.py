# Helpers shared by the C05 demos: build live ranges and check an allocation independently of Vela's own verifier.
import os
import sys

sys.path.insert(0, os.path.dirname(os.path.dirname(os.path.abspath(__file__))))

from ethosu.vela.data_type import DataType  # noqa: E402
from ethosu.vela.live_range import LiveRange  # noqa: E402
from ethosu.vela.live_range import LiveRangeGraph  # noqa: E402
from ethosu.vela.tensor import MemArea  # noqa: E402
from ethosu.vela.tensor import MemType  # noqa: E402
from ethosu.vela.tensor import Tensor  # noqa: E402


def plain_lr(start, end, size, alignment=16):
    lr = LiveRange(None, alignment)
    lr.start_time = start
    lr.end_time = end
    lr.size = size
    return lr


def graph_from_specs(specs, prefix="t"):
    """specs: list of (start, end, size, alignment); returns (graph, tensors)"""
    g = LiveRangeGraph()
    tensors = []
    for i, (start, end, size, alignment) in enumerate(specs):
        t = Tensor([size], DataType.int8, f"{prefix}{i}")
        t.mem_area = MemArea.Sram
        t.mem_type = MemType.Scratch
        rng = g.get_or_create_range(t, alignment)
        rng.start_time = start
        rng.end_time = end
        rng.size = size
        tensors.append(t)
    return g, tensors


def check(specs, addresses, total=None, exact_total=True):
    """Independent check of an allocation. Returns a list of problems (empty when fine)."""
    problems = []
    for i, ((s, e, size, al), a) in enumerate(zip(specs, addresses)):
        if a is None or a < 0:
            problems.append(f"range {i} {specs[i]} has no valid address: {a}")
            return problems
        if a % al:
            problems.append(f"range {i} {specs[i]} at {a} is not aligned to {al}")
    n = len(specs)
    for i in range(n):
        si, ei, szi, _ = specs[i]
        for j in range(i + 1, n):
            sj, ej, szj, _ = specs[j]
            if si <= ej and sj <= ei:  # alive at a common time step (end inclusive)
                if addresses[i] < addresses[j] + szj and addresses[j] < addresses[i] + szi:
                    problems.append(
                        f"ranges {i} {specs[i]} @ {addresses[i]} and {j} {specs[j]} @ {addresses[j]} overlap"
                    )
    if total is not None:
        top = max(a + sz for a, (_, _, sz, _) in zip(addresses, specs))
        if exact_total and total != top:
            problems.append(f"reported total {total} != highest end address {top}")
        if not exact_total and total < top:
            problems.append(f"reported total {total} < highest end address {top}")
    return problems


def peak(specs):
    tmax = max(e for _, e, _, _ in specs)
    return max(sum(sz for s, e, sz, _ in specs if s <= t <= e) for t in range(tmax + 1))

# Observation (unchanged tree): the HillClimb iteration limit is not a limit.
# OPTIONS.md calls --hillclimb-max-iterations "a hard limit on the total number of iterations of the algorithm", and
# property C05 asks that HillClimb terminates within its iteration bound. HillClimbAllocator.search loops while
#   (best_size > memory_limit and i < max_iterations) or (i - last_improvement_iteration < MIN_ITERATIONS_IMPROVE)
# so whenever the first allocation is not optimal it runs at least MIN_ITERATIONS_IMPROVE = 500 trial allocations
# (and 500 more after every improvement), whatever max_iterations says - here with a limit of 5 (and of 0).
import os
import sys

sys.path.insert(0, os.path.dirname(os.path.abspath(__file__)))
from c05util import plain_lr  # noqa: E402

from ethosu.vela import hillclimb_allocation  # noqa: E402

SPECS = [(3, 5, 100, 16), (1, 3, 256, 64), (6, 6, 100, 16), (5, 6, 100, 64), (2, 3, 48, 16), (1, 1, 16, 16), (4, 5, 256, 64)]


def trials(max_iterations):
    count = [0]
    orig = hillclimb_allocation.HillClimbAllocator.allocate_indices

    def counting(self, indices):
        count[0] += 1
        return orig(self, indices)

    hillclimb_allocation.HillClimbAllocator.allocate_indices = counting
    try:
        hillclimb_allocation.allocate_live_ranges([plain_lr(*sp) for sp in SPECS], max_iterations, 1 << 32)
    finally:
        hillclimb_allocation.HillClimbAllocator.allocate_indices = orig
    return count[0] - 1  # the first call is the heuristic allocation, not a search iteration


for limit in (5, 0):
    n = trials(limit)
    if n > limit:
        print(f"FAIL: HillClimb ran {n} search iterations with max_iterations={limit}")
        sys.exit(1)
print("ok")

"""Helper for the C11 demos: build a .tflite flatbuffer from a small python description, compile it with Vela and
decode any .tflite file into a plain python structure using only the generated flatbuffer classes."""
import contextlib
import importlib
import inspect
import io
import os
import sys
import tempfile

sys.path.insert(0, os.path.dirname(os.path.dirname(os.path.abspath(__file__))))  # import ethosu from this worktree

import flatbuffers  # noqa: E402
import numpy as np  # noqa: E402

from ethosu.vela.tflite import Buffer
from ethosu.vela.tflite import Model
from ethosu.vela.tflite import Operator
from ethosu.vela.tflite import OperatorCode
from ethosu.vela.tflite import QuantizationParameters
from ethosu.vela.tflite import SubGraph
from ethosu.vela.tflite import Tensor
from ethosu.vela.tflite.BuiltinOperator import BuiltinOperator as BO
from ethosu.vela.tflite.BuiltinOptions import BuiltinOptions
from ethosu.vela.tflite.TensorType import TensorType as TT

NP_OF = {
    TT.INT8: np.int8,
    TT.UINT8: np.uint8,
    TT.INT16: np.int16,
    TT.INT32: np.int32,
    TT.INT64: np.int64,
    TT.FLOAT32: np.float32,
    TT.BOOL: np.bool_,
}


class T:
    def __init__(self, name, shape, dtype=TT.INT8, data=None, scale=None, zp=None, qmin=None, qmax=None, qdim=0, var=False):
        self.name, self.shape, self.dtype, self.data = name, list(shape), dtype, data
        self.scale, self.zp, self.qmin, self.qmax, self.qdim, self.var = scale, zp, qmin, qmax, qdim, var


class O:
    def __init__(self, code, inputs, outputs, opts=None, fields=None, version=1, custom_code=None, custom_options=None):
        # opts: name of the builtin options table ("AddOptions"), fields: dict CamelCaseField -> value (lists -> int32 vec)
        self.code, self.inputs, self.outputs, self.opts, self.fields = code, inputs, outputs, opts, fields or {}
        self.version, self.custom_code, self.custom_options = version, custom_code, custom_options


def _vec(b, elem, n, align, prepend, vals):
    b.StartVector(elem, n, align)
    for v in reversed(list(vals)):
        prepend(v)
    return b.EndVector()


def ivec(b, vals):
    return _vec(b, 4, len(vals), 4, b.PrependInt32, [int(v) for v in vals])


def build(tensors, ops, inputs, outputs, name="main", description="demo"):
    """tensors: list of T; ops: list of O (tensor references by name); inputs/outputs: list of tensor names."""
    b = flatbuffers.Builder(1024)
    tidx = {t.name: i for i, t in enumerate(tensors)}

    def ref(n):
        return -1 if n is None else tidx[n]

    # buffers: 0 = empty
    buffers = [None]
    t_offs = []
    for t in tensors:
        if t.data is not None:
            arr = np.asarray(t.data)
            if arr.dtype != np.uint8 or t.dtype == TT.UINT8:
                arr = arr.astype(NP_OF[t.dtype])
            buffers.append(arr.tobytes())
            bidx = len(buffers) - 1
        else:
            bidx = 0
        shape = ivec(b, t.shape)
        nm = b.CreateString(t.name)
        q = None
        if t.scale is not None or t.zp is not None or t.qmin is not None:
            sc = zp = mn = mx = None
            if t.qmin is not None:
                mn = _vec(b, 4, len(t.qmin), 4, b.PrependFloat32, t.qmin)
            if t.qmax is not None:
                mx = _vec(b, 4, len(t.qmax), 4, b.PrependFloat32, t.qmax)
            if t.scale is not None:
                sc = _vec(b, 4, len(t.scale), 4, b.PrependFloat32, t.scale)
            if t.zp is not None:
                zp = _vec(b, 8, len(t.zp), 8, b.PrependInt64, t.zp)
            QuantizationParameters.QuantizationParametersStart(b)
            if mn is not None:
                QuantizationParameters.QuantizationParametersAddMin(b, mn)
            if mx is not None:
                QuantizationParameters.QuantizationParametersAddMax(b, mx)
            if sc is not None:
                QuantizationParameters.QuantizationParametersAddScale(b, sc)
            if zp is not None:
                QuantizationParameters.QuantizationParametersAddZeroPoint(b, zp)
            QuantizationParameters.QuantizationParametersAddQuantizedDimension(b, t.qdim)
            q = QuantizationParameters.QuantizationParametersEnd(b)
        Tensor.TensorStart(b)
        Tensor.TensorAddShape(b, shape)
        Tensor.TensorAddType(b, t.dtype)
        Tensor.TensorAddBuffer(b, bidx)
        Tensor.TensorAddName(b, nm)
        if q is not None:
            Tensor.TensorAddQuantization(b, q)
        Tensor.TensorAddIsVariable(b, t.var)
        t_offs.append(Tensor.TensorEnd(b))

    codes = []
    for o in ops:
        key = (o.code, o.custom_code, o.version)
        if key not in codes:
            codes.append(key)

    o_offs = []
    for o in ops:
        ins = ivec(b, [ref(n) for n in o.inputs])
        outs = ivec(b, [ref(n) for n in o.outputs])
        opt = None
        if o.opts is not None:
            mod = importlib.import_module("ethosu.vela.tflite." + o.opts)
            vals = {}
            for k, v in o.fields.items():
                if isinstance(v, (list, tuple)):
                    vals[k] = ivec(b, v)
                elif isinstance(v, str):
                    vals[k] = b.CreateString(v)
                else:
                    vals[k] = v
            getattr(mod, o.opts + "Start")(b)
            for k, v in vals.items():
                getattr(mod, o.opts + "Add" + k)(b, v)
            opt = getattr(mod, o.opts + "End")(b)
        cust = None
        if o.custom_options is not None:
            cust = _vec(b, 1, len(o.custom_options), 1, b.PrependByte, list(o.custom_options))
        Operator.OperatorStart(b)
        Operator.OperatorAddOpcodeIndex(b, codes.index((o.code, o.custom_code, o.version)))
        Operator.OperatorAddInputs(b, ins)
        Operator.OperatorAddOutputs(b, outs)
        if opt is not None:
            Operator.OperatorAddBuiltinOptionsType(b, getattr(BuiltinOptions, o.opts))
            Operator.OperatorAddBuiltinOptions(b, opt)
        if cust is not None:
            Operator.OperatorAddCustomOptions(b, cust)
        o_offs.append(Operator.OperatorEnd(b))

    def offvec(offs):
        b.StartVector(4, len(offs), 4)
        for x in reversed(offs):
            b.PrependUOffsetTRelative(x)
        return b.EndVector()

    tv = offvec(t_offs)
    iv = ivec(b, [tidx[n] for n in inputs])
    ov = ivec(b, [tidx[n] for n in outputs])
    opv = offvec(o_offs)
    sgname = b.CreateString(name)
    SubGraph.SubGraphStart(b)
    SubGraph.SubGraphAddTensors(b, tv)
    SubGraph.SubGraphAddInputs(b, iv)
    SubGraph.SubGraphAddOutputs(b, ov)
    SubGraph.SubGraphAddOperators(b, opv)
    SubGraph.SubGraphAddName(b, sgname)
    sg = SubGraph.SubGraphEnd(b)
    sgv = offvec([sg])

    c_offs = []
    for code, custom, version in codes:
        cc = b.CreateString(custom) if custom is not None else None
        OperatorCode.OperatorCodeStart(b)
        OperatorCode.OperatorCodeAddDeprecatedBuiltinCode(b, code if code < 127 else 127)
        OperatorCode.OperatorCodeAddBuiltinCode(b, code)
        OperatorCode.OperatorCodeAddVersion(b, version)
        if cc is not None:
            OperatorCode.OperatorCodeAddCustomCode(b, cc)
        c_offs.append(OperatorCode.OperatorCodeEnd(b))
    cv = offvec(c_offs)

    b_offs = []
    for data in buffers:
        d = None
        if data is not None:
            d = b.CreateByteVector(data)
        Buffer.BufferStart(b)
        if d is not None:
            Buffer.BufferAddData(b, d)
        b_offs.append(Buffer.BufferEnd(b))
    bv = offvec(b_offs)
    desc = b.CreateString(description)
    Model.ModelStart(b)
    Model.ModelAddVersion(b, 3)
    Model.ModelAddOperatorCodes(b, cv)
    Model.ModelAddSubgraphs(b, sgv)
    Model.ModelAddDescription(b, desc)
    Model.ModelAddBuffers(b, bv)
    m = Model.ModelEnd(b)
    b.Finish(m, b"TFL3")
    return bytes(b.Output())


# ---------------------------------------------------------------------------------------------------------------------
def _options_dict(op):
    """Decode the builtin options table generically through the generated accessors."""
    ty = op.BuiltinOptionsType()
    tab = op.BuiltinOptions()
    if ty == 0 or tab is None:
        return (ty, None)
    names = [k for k, v in vars(BuiltinOptions).items() if v == ty and not k.startswith("_")]
    nm = names[0]
    mod = importlib.import_module("ethosu.vela.tflite." + nm)
    cls = getattr(mod, nm)
    obj = cls()
    obj.Init(tab.Bytes, tab.Pos)
    res = {}
    for k, f in inspect.getmembers(cls, predicate=inspect.isfunction):
        if k.startswith("_") or k == "Init" or k.endswith("Length") or k.endswith("IsNone"):
            continue
        if len(inspect.signature(f).parameters) != 1:
            continue
        v = getattr(obj, k)()
        if isinstance(v, np.ndarray):
            v = v.tolist()
        if isinstance(v, bytes):
            v = v.decode()
        res[k] = v
    return (nm, tuple(sorted(res.items(), key=lambda kv: kv[0])))


def _np(v):
    if isinstance(v, np.ndarray):
        return tuple(v.tolist())
    return v


def tensor_desc(model, sg, idx, with_name=True):
    if idx == -1:
        return None
    t = sg.Tensors(idx)
    q = t.Quantization()
    qd = None
    if q is not None:
        qd = (_np(q.MinAsNumpy()), _np(q.MaxAsNumpy()), _np(q.ScaleAsNumpy()), _np(q.ZeroPointAsNumpy()), q.QuantizedDimension())
        if qd[:4] == (0, 0, 0, 0):
            qd = None
    buf = model.Buffers(t.Buffer())
    data = None
    if buf is not None and buf.DataLength() != 0:
        data = buf.DataAsNumpy().tobytes()
    d = {
        "name": t.Name().decode() if with_name else None,
        "shape": _np(t.ShapeAsNumpy()) if t.ShapeLength() else (),
        "type": t.Type(),
        "quant": qd,
        "data": data,
        "var": bool(t.IsVariable()),
    }
    return d


def decode(buf):
    """-> list of subgraphs: dict(inputs=[tensor desc], outputs=[...], ops=[dict], tensors=[names])"""
    buf = bytearray(buf)
    model = Model.Model.GetRootAsModel(buf, 0)
    res = []
    for s in range(model.SubgraphsLength()):
        sg = model.Subgraphs(s)
        d = {"name": sg.Name().decode() if sg.Name() else ""}
        d["inputs"] = [tensor_desc(model, sg, i) for i in (sg.InputsAsNumpy().tolist() if sg.InputsLength() else [])]
        d["outputs"] = [tensor_desc(model, sg, i) for i in (sg.OutputsAsNumpy().tolist() if sg.OutputsLength() else [])]
        d["tensors"] = [tensor_desc(model, sg, i) for i in range(sg.TensorsLength())]
        ops = []
        for o in range(sg.OperatorsLength()):
            op = sg.Operators(o)
            oc = model.OperatorCodes(op.OpcodeIndex())
            code = oc.BuiltinCode() or oc.DeprecatedBuiltinCode()
            cc = oc.CustomCode()
            ins = op.InputsAsNumpy().tolist() if op.InputsLength() else []
            outs = op.OutputsAsNumpy().tolist() if op.OutputsLength() else []
            ops.append(
                {
                    "code": code,
                    "deprecated_code": oc.DeprecatedBuiltinCode(),
                    "version": oc.Version(),
                    "custom_code": cc.decode() if cc is not None else None,
                    "options": _options_dict(op),
                    "custom_options": None if op.CustomOptionsIsNone() else bytes(op.CustomOptionsAsNumpy().tolist()),
                    "custom_options_format": op.CustomOptionsFormat(),
                    "in_idx": ins,
                    "out_idx": outs,
                    "inputs": [tensor_desc(model, sg, i) for i in ins],
                    "outputs": [tensor_desc(model, sg, i) for i in outs],
                }
            )
        d["ops"] = ops
        res.append(d)
    return res


def opname(code):
    for k, v in vars(BO).items():
        if v == code and not k.startswith("_"):
            return k
    return str(code)


def compile_model(data, extra_args=(), name="m", quiet=True):
    """Compile the flatbuffer with the vela command line entry point; returns the bytes of *_vela.tflite."""
    from ethosu.vela import vela

    with tempfile.TemporaryDirectory() as td:
        src = os.path.join(td, name + ".tflite")
        with open(src, "wb") as f:
            f.write(data)
        args = [src, "--output-dir", td] + list(extra_args)
        out = io.StringIO()
        ctx = contextlib.redirect_stdout(out) if quiet else contextlib.nullcontext()
        try:
            with ctx:
                rc = vela.main(args)
        except SystemExit as e:
            print(out.getvalue())
            raise RuntimeError(f"vela exited with {e.code}")
        with open(os.path.join(td, name + "_vela.tflite"), "rb") as f:
            return f.read(), out.getvalue()


def is_ethosu(op):
    return op["code"] == BO.CUSTOM and op["custom_code"] == "ethos-u"


def check_interface(src, dst, errors):
    for kind in ("inputs", "outputs"):
        a, b = src[kind], dst[kind]
        if len(a) != len(b):
            errors.append(f"{kind}: count {len(a)} -> {len(b)}")
            continue
        for i, (x, y) in enumerate(zip(a, b)):
            for k in ("name", "shape", "type", "quant"):
                if x[k] != y[k]:
                    errors.append(f"{kind}[{i}] {k}: {x[k]!r} -> {y[k]!r}")


def check_cpu_ops(src, dst, cpu_out_names, errors, check_wiring=True):
    """Every source operator whose first output is named in cpu_out_names must appear exactly once, unchanged."""
    for nm in cpu_out_names:
        s_ops = [o for o in src["ops"] if o["outputs"] and o["outputs"][0]["name"] == nm]
        assert len(s_ops) == 1, nm
        s = s_ops[0]
        d_ops = [o for o in dst["ops"] if o["outputs"] and o["outputs"][0]["name"] == nm and not is_ethosu(o)]
        if len(d_ops) != 1:
            errors.append(f"operator producing {nm}: appears {len(d_ops)} times in the output")
            continue
        d = d_ops[0]
        for k in ("code", "deprecated_code", "version", "custom_code", "options", "custom_options", "custom_options_format"):
            if s[k] != d[k]:
                errors.append(f"{opname(s['code'])} {nm}: {k} {s[k]!r} -> {d[k]!r}")
        if len(s["inputs"]) != len(d["inputs"]) or len(s["outputs"]) != len(d["outputs"]):
            errors.append(f"{opname(s['code'])} {nm}: operand count {len(s['inputs'])}/{len(s['outputs'])} -> {len(d['inputs'])}/{len(d['outputs'])}")
            continue
        for kind in ("inputs", "outputs"):
            for i, (x, y) in enumerate(zip(s[kind], d[kind])):
                if (x is None) != (y is None):
                    errors.append(f"{nm}: {kind}[{i}] presence changed")
                    continue
                if x is None:
                    continue
                for k in ("shape", "type", "quant", "data") + (("name",) if check_wiring else ()):
                    if x[k] != y[k]:
                        sx = x[k] if k != "data" else (None if x[k] is None else x[k][:16])
                        sy = y[k] if k != "data" else (None if y[k] is None else y[k][:16])
                        errors.append(f"{opname(s['code'])} {nm}: {kind}[{i}] {k} {sx!r} -> {sy!r}")


def check_order(dst, errors):
    produced = set()
    sg_inputs = set(t["name"] for t in dst["inputs"])
    for i, t in enumerate(dst["tensors"]):
        pass
    producer = {}
    for n, o in enumerate(dst["ops"]):
        for i in o["out_idx"]:
            producer[i] = n
    for n, o in enumerate(dst["ops"]):
        for i in o["in_idx"]:
            if i in producer and producer[i] >= n:
                errors.append(f"operator {n} reads tensor {i} produced by later operator {producer[i]}")


def reread(buf):
    """The written file must parse back with Vela's own reader."""
    from ethosu.vela import model_reader

    with tempfile.TemporaryDirectory() as td:
        p = os.path.join(td, "x.tflite")
        with open(p, "wb") as f:
            f.write(buf)
        out = io.StringIO()
        with contextlib.redirect_stdout(out):
            nng, _ = model_reader.read_model(p, model_reader.ModelReaderOptions())
    return nng


def finish(errors, what):
    if errors:
        print("C11 VIOLATED (%s):" % what)
        for e in errors:
            print("  -", e)
        sys.exit(1)
    print("ok:", what)


def _check_tree():
    import ethosu.vela

    root = os.path.dirname(os.path.dirname(os.path.abspath(__file__)))
    assert os.path.abspath(ethosu.vela.__file__).startswith(root + os.sep), ethosu.vela.__file__


_check_tree()

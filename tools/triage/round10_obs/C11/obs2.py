# OBSERVATION (unchanged tree): tflite_reader.parse_operator appends a None bias operand to every CONV_2D / DEPTHWISE_CONV_2D /
# FULLY_CONNECTED with constant weights and no bias operand. The writer serialises a None operand as index -1, so when such an
# operator stays on the CPU it is written with three inputs [ifm, weights, -1] although the source operator has two:
# the operand wiring (operand count) of a CPU-resident operator is not preserved verbatim (C11).
import os, sys
HERE = os.path.dirname(os.path.abspath(__file__))
sys.path[:0] = [os.path.dirname(HERE), HERE]  # the worktree (not an installed copy of the package) and the helper module
import numpy as np
from tflh import *

rng = np.random.default_rng(0)
tensors = [
    T("in0", [2, 8], scale=[0.05], zp=[3]),
    T("w0", [4, 8], data=rng.integers(-127, 127, (4, 8)), scale=[0.01], zp=[0]),
    T("fc0", [2, 4], TT.INT8, scale=[0.1], zp=[-2]),
]
ops = [
    # SIGN_BIT fused activation is not supported by the NPU -> stays on the CPU
    O(BO.FULLY_CONNECTED, ["in0", "w0"], ["fc0"], "FullyConnectedOptions", dict(FusedActivationFunction=5)),
]
buf = build(tensors, ops, ["in0"], ["fc0"])
out, log = compile_model(buf, ["--accelerator-config", "ethos-u55-128"])
s = decode(buf)[0]; d = decode(out)[0]
errs = []
check_interface(s, d, errs); check_cpu_ops(s, d, ["fc0"], errs); check_order(d, errs); reread(out)
if not any(not is_ethosu(o) for o in d["ops"]):
    errs.append("test is void: the operator did not stay on the CPU")
finish(errs, "CPU FULLY_CONNECTED without bias keeps its two operands")

# OBSERVATION (unchanged tree): fixup_pool_strides (tflite_graph_optimiser.py) runs in the very first rewrite round, before
# supported_operator_check has decided the placement (run_on_npu is still True for every operator that passed the semantic
# check, so the rewrite_unsupported=False gate lets it through). For an AVERAGE_POOL_2D / MAX_POOL_2D whose
# kernel == stride == IFM height/width it rewrites op.attrs stride_w/stride_h to 1 and padding to VALID. If that pool is then
# placed on the CPU by the supported-operator check (here: IFM batch size 2), the pass-through operator is written with
# stride 1x1 / VALID instead of its source options 4x4 / SAME: a CPU-resident operator's options are not preserved (C11).
import os, sys
HERE = os.path.dirname(os.path.abspath(__file__))
sys.path[:0] = [os.path.dirname(HERE), HERE]  # the worktree (not an installed copy of the package) and the helper module
import numpy as np
from tflh import *

q = dict(scale=[0.05], zp=[3])
tensors = [
    T("in0", [2, 4, 4, 8], **q),
    T("p0", [2, 1, 1, 8], **q),
]
ops = [
    O(BO.AVERAGE_POOL_2D, ["in0"], ["p0"], "Pool2DOptions",
      dict(Padding=0, StrideW=4, StrideH=4, FilterWidth=4, FilterHeight=4, FusedActivationFunction=0)),
]
buf = build(tensors, ops, ["in0"], ["p0"])
out, log = compile_model(buf, ["--accelerator-config", "ethos-u55-128"])
s = decode(buf)[0]; d = decode(out)[0]
errs = []
check_interface(s, d, errs); check_cpu_ops(s, d, ["p0"], errs); check_order(d, errs); reread(out)
finish(errs, "CPU AVERAGE_POOL_2D with kernel == stride == ifm size keeps its options")

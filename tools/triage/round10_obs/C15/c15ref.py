# Independent reference model of the Ethos-U shared buffer (SHRAM) rules used by the C15 demos.
# Nothing here calls the allocator under test; the tables are copied from the Ethos-U55/U65 documentation.
import math

# accelerator -> (ofm ublock (w, h, d), total banks, granules
#                 [IFM8, IFM16, IFM8_EW, IFM16_EW, IFM32, ACC16, ACC32, ACC40])
ACCELS = {
    "Ethos_U55_32": ((1, 1, 4), 16, [2, 2, 2, 2, 4, 4, 4, 4]),
    "Ethos_U55_64": ((1, 1, 8), 16, [2, 2, 2, 2, 4, 4, 4, 8]),
    "Ethos_U55_128": ((2, 1, 8), 24, [4, 4, 4, 4, 8, 4, 8, 12]),
    "Ethos_U55_256": ((2, 2, 8), 48, [8, 8, 8, 8, 16, 8, 16, 20]),
    "Ethos_U65_256": ((2, 2, 8), 48, [8, 8, 8, 8, 16, 8, 16, 20]),
    "Ethos_U65_512": ((2, 2, 8), 48, [8, 8, 8, 8, 16, 8, 16, 20]),
}
BANK = 1024
MAX_BLOCK = (64, 32, 128)  # w, h, d
RESERVED_OUTPUT_BANKS = 2


def rup(a, b):
    return -(-a // b) * b


def cdiv(a, b):
    return -(-a // b)


class OpDesc:
    """Plain description of an NPU operation, as the demo author intends it"""

    def __init__(
        self,
        kind,  # "conv", "depthwise", "pool", "reduce_sum", "elementwise"
        ifm_depth,
        ofm_h,
        ifm_bits=8,
        kernel=(1, 1),  # (w, h)
        stride=(1, 1),
        dilation=(1, 1),
        part_kernel=False,
        uses_lut=False,
        scaled=True,
        upscale="none",  # "none", "nearest", "transpose"
        ew="none",  # "none" (not elementwise), "full" (IFM2 in SHRAM), "scalar" (scalar / unary)
    ):
        self.kind = kind
        self.ifm_depth = ifm_depth
        self.ofm_h = ofm_h
        self.ifm_bits = ifm_bits
        self.kernel = kernel
        self.stride = stride
        self.dilation = dilation
        self.part_kernel = part_kernel
        self.uses_lut = uses_lut
        self.scaled = scaled
        self.upscale = upscale
        self.ew = ew


def required_banks(accel, op, blk):
    """Returns (ifm_banks, acc_banks, acc_bits, lut_start) needed for OFM block blk = (h, w, d)"""
    (uw, uh, ud), total, gran = ACCELS[accel]
    bh, bw, bd = blk
    up = 1 if op.upscale == "none" else 2
    nearest = 1 if op.upscale == "nearest" else 0
    kw = (op.kernel[0] - 1) * op.dilation[0] + 1
    kh = (op.kernel[1] - 1) * op.dilation[1] + 1
    ih = rup(math.ceil(((bh - 1) * op.stride[1] + min(kh, 8) + nearest) / up), uh)
    iw = rup(math.ceil(((bw - 1) * op.stride[0] + min(kw, 8) + nearest) / up), uw)
    if op.kind in ("depthwise", "pool", "elementwise"):
        idepth = bd
    elif op.ifm_bits == 16:
        idepth = rup(min(op.ifm_depth, 16), 4)
    else:
        idepth = rup(min(op.ifm_depth, 16 if op.part_kernel else 32), 8)
    ifm_bytes = ih * iw * rup(idepth * op.ifm_bits // 8, 8)
    if op.kind == "elementwise":
        granule = {8: gran[2], 16: gran[3], 32: gran[4]}[op.ifm_bits]
    else:
        granule = {8: gran[0], 16: gran[1], 32: gran[4]}[op.ifm_bits]
    ifm_banks = rup(cdiv(ifm_bytes, BANK) * 2, granule)

    acc_bits = 40 if (op.ifm_bits == 16 and op.kind != "pool" and op.scaled) else 32
    acc_banks = 0
    if op.kind != "elementwise":
        ah = bh
        if op.ofm_h == 1 and op.kernel[1] == 1 and uh == 2:
            ah = 1  # 1-D optimisation: only one row of accumulators is live
        acc_bytes = ah * bw * rup(bd, 8) * acc_bits // 8
        acc_banks = rup(cdiv(acc_bytes, BANK) * 2, gran[7] if acc_bits == 40 else gran[6])
    reserved_end = 2 if total > 16 else 0
    lut_start = total - max(2 if op.uses_lut else 0, reserved_end)
    return ifm_banks, acc_banks, acc_bits, lut_start


def check_block(accel, blk):
    """Block is a positive multiple of the micro block and within the maximum"""
    (uw, uh, ud), _, _ = ACCELS[accel]
    bh, bw, bd = blk
    errs = []
    for name, v, u, m in (("height", bh, uh, MAX_BLOCK[1]), ("width", bw, uw, MAX_BLOCK[0]), ("depth", bd, ud, MAX_BLOCK[2])):
        if v <= 0 or v % u or v > m:
            errs.append(f"block {name} {v} is not a positive multiple of {u} within {m}")
    return errs


def check_layout(accel, op, blk, ib_end, ab_start, ib_start2=None, acc_format=None):
    """Checks the SHRAM partitions programmed for one operation; returns a list of violations"""
    errs = check_block(accel, blk)
    ifm_banks, acc_banks, acc_bits, lut_start = required_banks(accel, op, blk)
    ib_start = RESERVED_OUTPUT_BANKS
    if op.kind == "elementwise":
        if not (ib_start + ifm_banks <= ab_start):
            errs.append(f"IFM needs {ifm_banks} banks from {ib_start}, buffer ends at {ab_start}")
        if op.ew == "full":
            if ib_start2 is None:
                errs.append("IFM2_IB_START is not programmed for an operation that reads IFM2 from memory")
            else:
                if ib_start2 < ib_start + ifm_banks:
                    errs.append(f"IFM2 buffer at bank {ib_start2} overlaps the IFM buffer [{ib_start},{ib_start + ifm_banks})")
                if ib_start2 + ifm_banks > ab_start:
                    errs.append(f"IFM2 buffer [{ib_start2},{ib_start2 + ifm_banks}) exceeds the input area end {ab_start}")
        if not (ib_end <= ab_start <= lut_start):
            errs.append(f"not ordered: ib_end {ib_end}, ab_start {ab_start}, lut_start {lut_start}")
    else:
        if ib_end - ib_start < ifm_banks:
            errs.append(f"IFM partition [{ib_start},{ib_end}) smaller than the {ifm_banks} banks the IFM block needs")
        if ib_end > ab_start:
            errs.append(f"IFM end {ib_end} overlaps accumulators at {ab_start}")
        if ab_start + acc_banks > lut_start:
            errs.append(f"accumulators [{ab_start},{ab_start + acc_banks}) exceed bank {lut_start} (LUT / reserved)")
        if acc_format is not None:
            want = {32: 0, 40: 1}[acc_bits]
            if acc_format != want:
                errs.append(f"ACC_FORMAT {acc_format}, expected {want} for {acc_bits}-bit accumulators")
    return errs


def fits(accel, op, blk):
    """True if an independent allocation of this block into SHRAM exists"""
    if check_block(accel, blk):
        return False
    ifm_banks, acc_banks, _, lut_start = required_banks(accel, op, blk)
    if op.kind == "elementwise":
        need = ifm_banks * (2 if op.ew == "full" else 1)
        return RESERVED_OUTPUT_BANKS + need <= lut_start
    return RESERVED_OUTPUT_BANKS + ifm_banks + acc_banks <= lut_start


# ---------------------------------------------------------------------------------------------------------------------
# Command stream decoding: effective register values at every NPU_OP_* command


def ops_with_registers(cmds):
    """Yields (op name, dict register name -> value) for every CONV/DEPTHWISE/POOL/ELEMENTWISE in the stream.
    Register values persist between operations, as they do in the hardware."""
    from ethosu.vela.ethos_u55_regs.ethos_u55_regs import cmd0

    names = {c.value: c.name for c in cmd0}
    regs = {}
    i = 0
    while i < len(cmds):
        word = cmds[i]
        code = word & 0xFFFF
        param = (word >> 16) & 0xFFFF
        if code & 0x4000:
            i += 2
            continue
        i += 1
        name = names.get(code & 0x3FF, None)
        if name is None:
            continue
        if name in ("NPU_OP_CONV", "NPU_OP_DEPTHWISE", "NPU_OP_POOL", "NPU_OP_ELEMENTWISE"):
            yield name, dict(regs)
        elif name.startswith("NPU_SET_"):
            regs[name] = param


def layout_regs(regs):
    blk = (
        regs["NPU_SET_OFM_BLK_HEIGHT_M1"] + 1,
        regs["NPU_SET_OFM_BLK_WIDTH_M1"] + 1,
        regs["NPU_SET_OFM_BLK_DEPTH_M1"] + 1,
    )
    return (
        blk,
        regs.get("NPU_SET_IFM_IB_END"),
        regs.get("NPU_SET_AB_START"),
        regs.get("NPU_SET_IFM2_IB_START"),
        regs.get("NPU_SET_ACC_FORMAT"),
    )


# ---------------------------------------------------------------------------------------------------------------------
# Public API helpers


def feature_map(shape_hwc, address, dtype=None, quant="default", region=1):
    from ethosu.vela.api import NpuDataType, NpuFeatureMap, NpuLayout, NpuQuantization, NpuShape3D, NpuTileBox

    h, w, c = shape_hwc
    fm = NpuFeatureMap()
    fm.data_type = NpuDataType.INT8 if dtype is None else dtype
    fm.shape = NpuShape3D(height=h, width=w, depth=c)
    fm.tiles = NpuTileBox(width_0=w, height_0=h, height_1=h, addresses=[address, 0, 0, 0])
    fm.region = region
    fm.layout = NpuLayout.NHWC
    fm.quantization = NpuQuantization(scale_f32=0.5, zero_point=0) if quant == "default" else quant
    return fm

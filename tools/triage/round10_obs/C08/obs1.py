# OBSERVATION (unchanged tree): the process-wide CompressedWeightCache key (WeightCompressionConfig: block type, block
# depth, depth slices, dilation, weight value_id) and the scale key (bias value_id, ifm scale, ofm scale) omit the IFM
# bit depth. The TFLite reader gives every consumer of a constant its own clone of the weight/bias tensor, and
# Tensor.clone() keeps the value_id. So an int8 convolution and an int16 convolution (16x8: int8 weights, int32 bias
# is allowed) that reference the same weight and bias buffers with equal IFM/OFM scales share one cache entry: the
# second request is answered with the tensor encoded for the first one. The weight stream (IFM ublock reordering for
# 8-bit activations, block traversal chosen for 8 bits) is then not what a fresh encoding for 16-bit activations
# produces -> "a cached encoding is reused only when it is byte-identical to what a fresh encoding would produce" fails.
import os
import sys

sys.path.insert(0, os.path.dirname(os.path.abspath(__file__)))
from c08_ref import *  # noqa: E402,F403
from ethosu.vela.weight_compressor import CompressedWeightCache  # noqa: E402

arch = make_arch(Accelerator.Ethos_U55_128)
CompressedWeightCache.clear()
rng = np.random.default_rng(3)
oc = 32
w = rng.integers(-127, 128, size=(3, 3, 16, oc))
ws = (rng.random(oc) * 0.01 + 0.001).astype(np.float32)
b = rng.integers(-(1 << 18), 1 << 18, size=oc).astype(np.int64)

op8 = make_conv("conv8", DataType.int8, w, DataType.int8, ws, 0, b, DataType.int32)
op16 = make_conv("conv16", DataType.int16, w, DataType.int8, ws, 0, b, DataType.int32)
# what the reader does for a constant with two consumers: per-consumer clones that keep the value_id
for idx in (1, 2):
    shared = op8.inputs[idx].clone("_2")
    shared.consumer_list = []
    op16.set_input_tensor(shared, idx)
assert op16.inputs[1].value_id == op8.inputs[1].value_id

encode_and_check(arch, op8, 16, [0, oc], "int8 consumer (first request)")
# fresh encoding for the int16 consumer, for comparison
CompressedWeightCache.clear()
fresh_w, _ = encode_and_check(arch, op16, 16, [0, oc], "int16 consumer, empty cache")
fresh = bytes(fresh_w.buffer)
CompressedWeightCache.clear()
encode_and_check(arch, op8, 16, [0, oc], "int8 consumer (first request)")
w_t, b_t = op16.inputs[1], op16.inputs[2]
cached_w, cached_s = weight_compressor.encode_weight_and_scale_tensor(
    arch, op16, w_t, b_t, Kernel(3, 3), block_cfg(16), [0, oc]
)
if bytes(cached_w.buffer) != fresh:
    print("history dependent result: the int16 consumer got the tensor cached for the int8 consumer")
check_encoding(arch, op16, cached_w, cached_s, 16, [0, oc], "int16 consumer after int8 consumer (cache hit)")
print("obs1: ok")

# OBSERVATION (unchanged tree): the scale part of the cache key (ScaleCompressionConfig: bias value_id, ifm scale,
# ofm scale) omits the operator's explicit scaling (and its rounding mode), although _prepare_scale_and_bias takes the
# multipliers/shifts from op.explicit_scaling when it is set. Two operators that reference the same weight and bias
# constants (per-consumer clones keep the value_id) with equal tensor scales but different explicit (TOSA RESCALE,
# per-channel) scaling therefore share one cache entry: the second one receives the scale records of the first.
import os
import sys

sys.path.insert(0, os.path.dirname(os.path.abspath(__file__)))
from c08_ref import *  # noqa: E402,F403
from ethosu.vela.operation import ExplicitScaling  # noqa: E402
from ethosu.vela.weight_compressor import CompressedWeightCache  # noqa: E402

arch = make_arch(Accelerator.Ethos_U55_128)
CompressedWeightCache.clear()
rng = np.random.default_rng(4)
oc = 16
w = rng.integers(-127, 128, size=(1, 1, 16, oc))
b = rng.integers(-1000, 1000, size=oc).astype(np.int64)
op_a = make_conv("a", DataType.int8, w, DataType.int8, np.float32(0.01), 0, b, DataType.int32)
op_b = make_conv("b", DataType.int8, w, DataType.int8, np.float32(0.01), 0, b, DataType.int32)
for idx in (1, 2):
    shared = op_a.inputs[idx].clone("_2")
    shared.consumer_list = []
    op_b.set_input_tensor(shared, idx)
op_a.explicit_scaling = ExplicitScaling(True, [30] * oc, [1 << 30] * oc)
op_b.explicit_scaling = ExplicitScaling(True, [33] * oc, [(1 << 30) + 12345] * oc)


def records(op):
    w_t, b_t = op.inputs[1], op.inputs[2]
    nw, ns = weight_compressor.encode_weight_and_scale_tensor(arch, op, w_t, b_t, Kernel(1, 1), block_cfg(16), [0, oc])
    src = ns if ns is not None else nw
    rng_ = src.encoded_ranges[weight_compressor.WeightKey(0, 0)]
    return bytes(src.buffer[rng_.offset : rng_.offset + rng_.scale_bytes])


records(op_a)
got = records(op_b)
exp = b"".join(ref_record(b[c], (1 << 30) + 12345, 33) for c in range(oc))
if got != exp:
    fail("operator b (explicit scaling 2^30+12345 >> 33) received the scale records cached for operator a: " + got[:10].hex())
print("obs2: ok")

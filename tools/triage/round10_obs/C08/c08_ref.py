# Reference model for property C08: builds a convolution-like operator, calls
# weight_compressor.encode_weight_and_scale_tensor and compares the assembled constant tensor(s) with an independent
# per (core, slice) reference (own 10-byte packing, own scale quantisation, public API weight encoder on the
# hand-deinterleaved volume).
import math
import os
import sys

sys.path.insert(0, os.path.dirname(os.path.dirname(os.path.abspath(__file__))))

import numpy as np  # noqa: E402

from ethosu.vela import architecture_features  # noqa: E402
from ethosu.vela import weight_compressor  # noqa: E402
from ethosu.vela.api import npu_encode_weights  # noqa: E402
from ethosu.vela.api import NpuBlockTraversal  # noqa: E402
from ethosu.vela.architecture_allocator import ArchitectureBlockConfig  # noqa: E402
from ethosu.vela.architecture_features import Accelerator  # noqa: E402
from ethosu.vela.architecture_features import Block  # noqa: E402
from ethosu.vela.data_type import DataType  # noqa: E402
from ethosu.vela.operation import Kernel  # noqa: E402
from ethosu.vela.operation import NpuBlockType  # noqa: E402
from ethosu.vela.operation import Op  # noqa: E402
from ethosu.vela.operation import Operation  # noqa: E402
from ethosu.vela.tensor import create_const_tensor  # noqa: E402
from ethosu.vela.tensor import QuantizationParameters  # noqa: E402
from ethosu.vela.tensor import Tensor  # noqa: E402
from ethosu.vela.tensor import TensorFormat  # noqa: E402
from ethosu.vela.tensor import TensorPurpose  # noqa: E402

API_ACC = {
    Accelerator.Ethos_U55_32: "Ethos_U55_32",
    Accelerator.Ethos_U55_64: "Ethos_U55_64",
    Accelerator.Ethos_U55_128: "Ethos_U55_128",
    Accelerator.Ethos_U55_256: "Ethos_U55_256",
    Accelerator.Ethos_U65_256: "Ethos_U65_256",
    Accelerator.Ethos_U65_512: "Ethos_U65_512",
}


def fail(msg):
    print("C08 VIOLATION: " + msg)
    sys.exit(1)


def make_arch(acc=Accelerator.Ethos_U55_128):
    return architecture_features.create_default_arch(acc)


def qp(scale, zp=0):
    q = QuantizationParameters()
    q.scale_f32 = scale
    q.zero_point = zp
    return q


def make_conv(
    name,
    ifm_dtype,
    weights,  # HWIO ndarray
    w_dtype,
    w_scale,  # scalar or per-channel array
    w_zp,
    biases,
    bias_dtype,
    ifm_scale=np.float32(0.5),
    ofm_scale=np.float32(0.25),
    depthwise=False,
    ofm_hw=(8, 8),
):
    kh, kw, ic, oc = weights.shape
    ifm_c = oc if depthwise else ic
    ifm = Tensor([1, ofm_hw[0], ofm_hw[1], ifm_c], ifm_dtype, name + "_ifm")
    ifm.quantization = qp(ifm_scale)
    ofm = Tensor([1, ofm_hw[0], ofm_hw[1], oc], ifm_dtype, name + "_ofm")
    ofm.quantization = qp(ofm_scale)
    op = Operation(Op.DepthwiseConv2DBias if depthwise else Op.Conv2DBias, name)
    op.add_input_tensor(ifm)
    w = create_const_tensor(
        name + "_w", list(weights.shape), w_dtype, weights, TensorPurpose.Weights, quantization=qp(w_scale, w_zp)
    )
    op.add_input_tensor(w)
    b = create_const_tensor(name + "_b", [oc], bias_dtype, biases, quantization=qp(1.0))
    b.values = np.array(biases, dtype=np.int64)
    b.purpose = TensorPurpose.FeatureMap
    b.format = TensorFormat.NHWC
    op.add_input_tensor(b)
    op.set_output_tensor(ofm)
    op.attrs = {"padding": None, "stride_h": 1, "stride_w": 1, "strides": (1, 1, 1, 1), "dilation": (1, 1, 1, 1)}
    op.attrs["depth_multiplier"] = 1
    from ethosu.vela.operation import Padding

    op.attrs["padding"] = Padding.SAME
    op.set_ifm_ofm_shapes()
    return op


def block_cfg(depth):
    cfg = ArchitectureBlockConfig()
    cfg.ofm_block = Block(8, 8, depth)
    cfg.ifm_block = Block(8, 8, 32)
    return cfg


def ref_quantise(scale):
    # TensorFlow Lite QuantizeMultiplier + Vela's shift convention
    sig, exp = math.frexp(scale)
    q = int(math.floor(abs(sig) * (1 << 31) + 0.5))
    if q == (1 << 31):
        q //= 2
        exp += 1
    shift = 31 - exp
    if not 0 <= shift < 64:
        return 0, 16
    return q, shift


def ref_scales(op, n, w_scales=None):
    ifm_dtype = op.inputs[0].dtype
    ifm_scale = op.inputs[0].quantization.scale_f32
    ofm_scale = op.outputs[0].quantization.scale_f32
    ws = op.inputs[1].quantization.scale_f32 if w_scales is None else w_scales
    if not hasattr(ws, "__iter__"):
        ws = [ws]
    if ifm_dtype == DataType.uint8:
        scales = [np.double(ifm_scale * w) / np.double(ofm_scale) for w in ws]
    else:
        scales = [(np.double(ifm_scale) * np.double(w)) / np.double(ofm_scale) for w in ws]
    reduced = ifm_dtype == DataType.int16 and op.inputs[2].dtype == DataType.int64
    out = []
    for s in scales:
        m, sh = ref_quantise(float(s))
        if reduced:
            m = int((m + (1 << 15)) >> 16) if m < (32767 << 16) else 32767
            sh -= 16
            if not 0 <= sh < 64:
                m, sh = 0, 16
        out.append((m, sh))
    if len(out) == 1:
        out = out * n
    return out


def ref_record(bias, mult, shift):
    v = (int(bias) & ((1 << 40) - 1)) | (int(mult) << 40) | ((int(shift) & 0x3F) << 72)
    return v.to_bytes(10, "little")


def ref_traversal(op, weights):
    if op.type.npu_block_type != NpuBlockType.ConvolutionMxN:
        return NpuBlockTraversal.DEPTH_FIRST
    bits = op.inputs[0].dtype.size_in_bits()
    kh, kw, ic, _ = weights.shape
    ksz = kh * kw

    def ru(a, b):
        return ((a + b - 1) // b) * b

    depth_util = ic / ru(ic, 32 if bits == 8 else 16)
    pk_util = (ic / ru(ic, 8)) * (ksz / ru(ksz, 4 if bits == 8 else 2))
    if pk_util >= depth_util or ic <= 8:
        return NpuBlockTraversal.PART_KERNEL_FIRST
    return NpuBlockTraversal.DEPTH_FIRST


def check_encoding(arch, op, npu_w, npu_s, block_depth, depth_offsets, what="", w_scales=None):
    """Checks the tensors returned by encode_weight_and_scale_tensor against the reference"""
    w_t = op.inputs[1]
    b_t = op.inputs[2]
    oc = w_t.values.shape[-1]
    weights = w_t.values.astype(np.int64) - np.asarray(w_t.quantization.zero_point).astype(np.int64)
    scales = ref_scales(op, oc, w_scales)
    if len(scales) != oc:
        fail(f"{what}: {len(scales)} weight scales for {oc} output channels")
    biases = [int(x) for x in b_t.values]
    trav = ref_traversal(op, weights)
    is_dw = op.type.npu_block_type == NpuBlockType.ConvolutionDepthWise
    bits = op.inputs[0].dtype.size_in_bits()
    ncores = arch.ncores
    buf = bytes(npu_w.buffer)
    sbuf = bytes(npu_s.buffer) if npu_s is not None else None
    prev_end = 0
    dbl = [0, 0]
    expected_keys = []
    for idx, start in enumerate(depth_offsets[:-1]):
        end = depth_offsets[idx + 1]
        slice_lo = None
        slice_hi = None
        for core in range(min(ncores, oc)):
            core_block_depth = (block_depth + ncores - 1 - core) // ncores
            if core_block_depth == 0:
                continue
            key = weight_compressor.WeightKey(core, start)
            expected_keys.append(key)
            if key not in npu_w.encoded_ranges:
                fail(f"{what}: no encoded range for core {core}, slice starting at channel {start}")
            rng = npu_w.encoded_ranges[key]
            chans = list(range(start + core, end, ncores))
            if rng.offset % 16 != 0:
                fail(f"{what}: range {key} starts at unaligned offset {rng.offset}")
            if rng.offset < prev_end:
                fail(f"{what}: range {key} at {rng.offset} overlaps/precedes the previous range ending at {prev_end}")
            # scales
            exp_scale = b"".join(ref_record(biases[c], *scales[c]) for c in chans)
            if sbuf is None:
                got = buf[rng.offset : rng.offset + rng.scale_bytes]
                scale_rng = rng
            else:
                scale_rng = npu_s.encoded_ranges.get(key)
                if scale_rng is None:
                    fail(f"{what}: scale tensor has no range {key}")
                got = sbuf[scale_rng.offset : scale_rng.offset + scale_rng.scale_bytes]
            if scale_rng.scale_bytes != 10 * len(chans):
                fail(f"{what}: range {key} holds {scale_rng.scale_bytes} scale bytes for {len(chans)} channels")
            if got != exp_scale:
                for j, c in enumerate(chans):
                    if got[10 * j : 10 * j + 10] != exp_scale[10 * j : 10 * j + 10]:
                        fail(
                            f"{what}: scale record of channel {c} (core {core}) is {got[10*j:10*j+10].hex()}, "
                            f"expected {exp_scale[10*j:10*j+10].hex()} (bias {biases[c]}, scale {scales[c]})"
                        )
            # weights
            vol = np.ascontiguousarray(np.transpose(weights[:, :, :, chans], (3, 0, 1, 2))).astype(np.int16)
            exp_w = bytes(
                npu_encode_weights(
                    getattr(__import__("ethosu.vela.api", fromlist=["NpuAccelerator"]).NpuAccelerator, API_ACC[arch.accelerator_config]),
                    vol,
                    (1, 1),
                    bits,
                    core_block_depth,
                    is_dw,
                    trav,
                )
            )
            wo = rng.offset + rng.weight_offset
            if wo % 16 != 0:
                fail(f"{what}: weight section of {key} starts at unaligned offset {wo}")
            if sbuf is None and rng.weight_offset < rng.scale_bytes:
                fail(f"{what}: weight section of {key} overlaps its scale section")
            got_w = buf[wo : wo + rng.weight_bytes]
            if got_w != exp_w:
                fail(
                    f"{what}: weight section of core {core}, slice [{start},{end}) does not encode channels {chans[:4]}.. "
                    f"({len(got_w)} bytes vs {len(exp_w)} expected)"
                )
            range_end = wo + rng.weight_bytes
            if range_end > len(buf):
                fail(f"{what}: range {key} runs past the end of the tensor")
            prev_end = range_end
            slice_lo = rng.offset if slice_lo is None else slice_lo
            slice_hi = range_end
        dbl[idx % 2] = max(dbl[idx % 2], slice_hi - slice_lo)
    if list(npu_w.encoded_ranges.keys()) != expected_keys:
        fail(f"{what}: encoded ranges {list(npu_w.encoded_ranges.keys())} are not the expected {expected_keys}")
    for parity in (0, 1):
        if npu_w.double_buffer_sizes[parity] < dbl[parity]:
            fail(
                f"{what}: double buffer size [{parity}] = {npu_w.double_buffer_sizes[parity]} "
                f"but a slice of {dbl[parity]} bytes will occupy that buffer"
            )
    return True


def encode_and_check(arch, op, block_depth, depth_offsets, what="", w_scales=None):
    w_t, b_t = op.inputs[1], op.inputs[2]
    kernel = Kernel(w_t.values.shape[1], w_t.values.shape[0])
    npu_w, npu_s = weight_compressor.encode_weight_and_scale_tensor(
        arch, op, w_t, b_t, kernel, block_cfg(block_depth), depth_offsets
    )
    check_encoding(arch, op, npu_w, npu_s, block_depth, depth_offsets, what, w_scales)
    return npu_w, npu_s

# Observation (unchanged tree): the convert_bytes entry point only accepts bytearray or memoryview. Given the very same
# model as an immutable `bytes` object, TFLiteGraph.__init__ (tflite_reader.py) matches none of its type() checks,
# leaves buf = None, reports 'Invalid tflite file. Got "memoryview: a bytes-like object is required, not NoneType"'
# and terminates the whole process with sys.exit(1). So the result of compiling one model through convert_bytes depends on
# the container type of the data, although memoryview(bytes) of the same data compiles fine.
import sys

import demo_util
import mkmodel

model = mkmodel.conv_chain(seed=1)
ref = demo_util.compile_bytes(model)  # passes a bytearray
with demo_util.quiet():
    via_view = bytes(demo_util.vela.convert_bytes(memoryview(model)))
assert via_view == ref, "memoryview input gives a different result"
try:
    with demo_util.quiet():
        out = bytes(demo_util.vela.convert_bytes(model))  # plain bytes
except SystemExit as e:
    print(f"DEFECT: convert_bytes(bytes) terminated the process (SystemExit {e.code}) for a model that compiles as bytearray")
    sys.exit(1)
if out != ref:
    print("DEFECT: convert_bytes(bytes) output differs from convert_bytes(bytearray)")
    sys.exit(1)
print("OK")

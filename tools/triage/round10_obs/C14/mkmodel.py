# Minimal programmatic TFLite flatbuffer builder used by the demos (no .tflite files are shipped in the tree).
import numpy as np
import flatbuffers

from ethosu.vela.tflite import AddOptions
from ethosu.vela.tflite import Buffer
from ethosu.vela.tflite import Conv2DOptions
from ethosu.vela.tflite import DepthwiseConv2DOptions
from ethosu.vela.tflite import Model
from ethosu.vela.tflite import Operator
from ethosu.vela.tflite import OperatorCode
from ethosu.vela.tflite import Pool2DOptions
from ethosu.vela.tflite import QuantizationParameters
from ethosu.vela.tflite import SubGraph
from ethosu.vela.tflite import Tensor
from ethosu.vela.tflite.BuiltinOperator import BuiltinOperator
from ethosu.vela.tflite.BuiltinOptions import BuiltinOptions
from ethosu.vela.tflite.TensorType import TensorType

INT8 = TensorType.INT8
INT32 = TensorType.INT32
UINT8 = TensorType.UINT8


class ModelBuilder:
    def __init__(self, sg_name="main"):
        self.tensors = []
        self.buffers = [None]
        self.ops = []
        self.opcodes = []
        self.sg_name = sg_name

    def tensor(self, name, shape, dtype=INT8, scale=None, zp=0, data=None, quant_dim=None):
        buf = 0
        if data is not None:
            self.buffers.append(np.ascontiguousarray(data).tobytes())
            buf = len(self.buffers) - 1
        self.tensors.append(dict(name=name, shape=list(shape), dtype=dtype, scale=scale, zp=zp, buf=buf, qd=quant_dim))
        return len(self.tensors) - 1

    def opcode(self, code, version=1, custom_code=None):
        key = (code, version, custom_code)
        if key not in self.opcodes:
            self.opcodes.append(key)
        return self.opcodes.index(key)

    def op(self, code, inputs, outputs, opt_type=0, opt_fn=None, version=1, custom_code=None, custom_options=None,
           custom_format=None):
        self.ops.append(
            dict(
                idx=self.opcode(code, version, custom_code),
                inputs=inputs,
                outputs=outputs,
                opt_type=opt_type,
                opt_fn=opt_fn,
                custom_options=custom_options,
                custom_format=custom_format,
            )
        )

    # ---- convenience layers ----
    def conv2d(self, ifm, ifm_shape, out_ch, k, name, rng, stride=1, act=0, w_scale=0.02, out_scale=0.1, same=True):
        in_ch = ifm_shape[-1]
        w = rng.integers(-127, 128, size=(out_ch, k, k, in_ch), dtype=np.int8)
        b = rng.integers(-1000, 1000, size=(out_ch,), dtype=np.int32)
        wt = self.tensor(name + "_w", w.shape, INT8, scale=[w_scale], zp=[0], data=w)
        bt = self.tensor(name + "_b", b.shape, INT32, scale=[w_scale * 0.1], zp=[0], data=b)
        if same:
            oh = -(-ifm_shape[1] // stride)
            ow = -(-ifm_shape[2] // stride)
        else:
            oh = (ifm_shape[1] - k) // stride + 1
            ow = (ifm_shape[2] - k) // stride + 1
        ofm_shape = [ifm_shape[0], oh, ow, out_ch]
        ofm = self.tensor(name + "_out", ofm_shape, INT8, scale=[out_scale], zp=[0])

        def opt(b_):
            Conv2DOptions.Conv2DOptionsStart(b_)
            Conv2DOptions.Conv2DOptionsAddPadding(b_, 0 if same else 1)
            Conv2DOptions.Conv2DOptionsAddStrideW(b_, stride)
            Conv2DOptions.Conv2DOptionsAddStrideH(b_, stride)
            Conv2DOptions.Conv2DOptionsAddFusedActivationFunction(b_, act)
            Conv2DOptions.Conv2DOptionsAddDilationWFactor(b_, 1)
            Conv2DOptions.Conv2DOptionsAddDilationHFactor(b_, 1)
            return Conv2DOptions.Conv2DOptionsEnd(b_)

        self.op(BuiltinOperator.CONV_2D, [ifm, wt, bt], [ofm], BuiltinOptions.Conv2DOptions, opt)
        return ofm, ofm_shape

    def dwconv2d(self, ifm, ifm_shape, k, name, rng, stride=1, act=0, w_scale=0.02, out_scale=0.1):
        ch = ifm_shape[-1]
        w = rng.integers(-127, 128, size=(1, k, k, ch), dtype=np.int8)
        b = rng.integers(-1000, 1000, size=(ch,), dtype=np.int32)
        wt = self.tensor(name + "_w", w.shape, INT8, scale=[w_scale], zp=[0], data=w)
        bt = self.tensor(name + "_b", b.shape, INT32, scale=[w_scale * 0.1], zp=[0], data=b)
        ofm_shape = [ifm_shape[0], -(-ifm_shape[1] // stride), -(-ifm_shape[2] // stride), ch]
        ofm = self.tensor(name + "_out", ofm_shape, INT8, scale=[out_scale], zp=[0])

        def opt(b_):
            DepthwiseConv2DOptions.DepthwiseConv2DOptionsStart(b_)
            DepthwiseConv2DOptions.DepthwiseConv2DOptionsAddPadding(b_, 0)
            DepthwiseConv2DOptions.DepthwiseConv2DOptionsAddStrideW(b_, stride)
            DepthwiseConv2DOptions.DepthwiseConv2DOptionsAddStrideH(b_, stride)
            DepthwiseConv2DOptions.DepthwiseConv2DOptionsAddDepthMultiplier(b_, 1)
            DepthwiseConv2DOptions.DepthwiseConv2DOptionsAddFusedActivationFunction(b_, act)
            DepthwiseConv2DOptions.DepthwiseConv2DOptionsAddDilationWFactor(b_, 1)
            DepthwiseConv2DOptions.DepthwiseConv2DOptionsAddDilationHFactor(b_, 1)
            return DepthwiseConv2DOptions.DepthwiseConv2DOptionsEnd(b_)

        self.op(BuiltinOperator.DEPTHWISE_CONV_2D, [ifm, wt, bt], [ofm], BuiltinOptions.DepthwiseConv2DOptions, opt)
        return ofm, ofm_shape

    def add(self, a, b, shape, name, out_scale=0.1, act=0):
        ofm = self.tensor(name + "_out", shape, INT8, scale=[out_scale], zp=[0])

        def opt(b_):
            AddOptions.AddOptionsStart(b_)
            AddOptions.AddOptionsAddFusedActivationFunction(b_, act)
            return AddOptions.AddOptionsEnd(b_)

        self.op(BuiltinOperator.ADD, [a, b], [ofm], BuiltinOptions.AddOptions, opt)
        return ofm

    def pool(self, ifm, ifm_shape, name, k=2, stride=2, kind="max", out_scale=0.1):
        ofm_shape = [ifm_shape[0], -(-ifm_shape[1] // stride), -(-ifm_shape[2] // stride), ifm_shape[3]]
        ofm = self.tensor(name + "_out", ofm_shape, INT8, scale=[out_scale], zp=[0])

        def opt(b_):
            Pool2DOptions.Pool2DOptionsStart(b_)
            Pool2DOptions.Pool2DOptionsAddPadding(b_, 0)
            Pool2DOptions.Pool2DOptionsAddStrideW(b_, stride)
            Pool2DOptions.Pool2DOptionsAddStrideH(b_, stride)
            Pool2DOptions.Pool2DOptionsAddFilterWidth(b_, k)
            Pool2DOptions.Pool2DOptionsAddFilterHeight(b_, k)
            Pool2DOptions.Pool2DOptionsAddFusedActivationFunction(b_, 0)
            return Pool2DOptions.Pool2DOptionsEnd(b_)

        code = BuiltinOperator.MAX_POOL_2D if kind == "max" else BuiltinOperator.AVERAGE_POOL_2D
        self.op(code, [ifm], [ofm], BuiltinOptions.Pool2DOptions, opt)
        return ofm, ofm_shape

    def unary(self, code, ifm, shape, name, out_scale=1.0 / 128, out_zp=0, version=1):
        ofm = self.tensor(name + "_out", shape, INT8, scale=[out_scale], zp=[out_zp])
        self.op(code, [ifm], [ofm], 0, None, version)
        return ofm

    # ---- serialisation ----
    def build(self, inputs, outputs, description="demo model"):
        b = flatbuffers.Builder(1024)

        def ivec(v, start=None):
            b.StartVector(4, len(v), 4)
            for e in reversed(v):
                b.PrependInt32(int(e))
            return b.EndVector()

        def fvec(v):
            b.StartVector(4, len(v), 4)
            for e in reversed(v):
                b.PrependFloat32(float(e))
            return b.EndVector()

        def lvec(v):
            b.StartVector(8, len(v), 8)
            for e in reversed(v):
                b.PrependInt64(int(e))
            return b.EndVector()

        def ovec(v):
            b.StartVector(4, len(v), 4)
            for e in reversed(v):
                b.PrependUOffsetTRelative(e)
            return b.EndVector()

        buf_offs = []
        for data in self.buffers:
            d = None
            if data is not None:
                d = b.CreateByteVector(data)
            Buffer.BufferStart(b)
            if d is not None:
                Buffer.BufferAddData(b, d)
            buf_offs.append(Buffer.BufferEnd(b))
        buffers = ovec(buf_offs)

        code_offs = []
        for code, version, custom_code in self.opcodes:
            cc = b.CreateString(custom_code) if custom_code is not None else None
            OperatorCode.OperatorCodeStart(b)
            if cc is not None:
                OperatorCode.OperatorCodeAddCustomCode(b, cc)
            OperatorCode.OperatorCodeAddDeprecatedBuiltinCode(b, code if code < 127 else 127)
            OperatorCode.OperatorCodeAddBuiltinCode(b, code)
            OperatorCode.OperatorCodeAddVersion(b, version)
            code_offs.append(OperatorCode.OperatorCodeEnd(b))
        opcodes = ovec(code_offs)

        tens_offs = []
        for t in self.tensors:
            shape = ivec(t["shape"])
            name = b.CreateString(t["name"])
            q = None
            if t["scale"] is not None:
                sc = fvec(t["scale"])
                zp = lvec(t["zp"] if isinstance(t["zp"], (list, tuple, np.ndarray)) else [t["zp"]])
                QuantizationParameters.QuantizationParametersStart(b)
                QuantizationParameters.QuantizationParametersAddScale(b, sc)
                QuantizationParameters.QuantizationParametersAddZeroPoint(b, zp)
                if t["qd"] is not None:
                    QuantizationParameters.QuantizationParametersAddQuantizedDimension(b, t["qd"])
                q = QuantizationParameters.QuantizationParametersEnd(b)
            Tensor.TensorStart(b)
            Tensor.TensorAddShape(b, shape)
            Tensor.TensorAddType(b, t["dtype"])
            Tensor.TensorAddBuffer(b, t["buf"])
            Tensor.TensorAddName(b, name)
            if q is not None:
                Tensor.TensorAddQuantization(b, q)
            tens_offs.append(Tensor.TensorEnd(b))
        tensors = ovec(tens_offs)

        op_offs = []
        for o in self.ops:
            ins = ivec(o["inputs"])
            outs = ivec(o["outputs"])
            opt = o["opt_fn"](b) if o["opt_fn"] is not None else None
            copt = b.CreateByteVector(o["custom_options"]) if o["custom_options"] is not None else None
            Operator.OperatorStart(b)
            if copt is not None:
                Operator.OperatorAddCustomOptions(b, copt)
            if o["custom_format"] is not None:
                Operator.OperatorAddCustomOptionsFormat(b, o["custom_format"])
            Operator.OperatorAddOpcodeIndex(b, o["idx"])
            Operator.OperatorAddInputs(b, ins)
            Operator.OperatorAddOutputs(b, outs)
            if opt is not None:
                Operator.OperatorAddBuiltinOptionsType(b, o["opt_type"])
                Operator.OperatorAddBuiltinOptions(b, opt)
            op_offs.append(Operator.OperatorEnd(b))
        operators = ovec(op_offs)

        sg_in = ivec(inputs)
        sg_out = ivec(outputs)
        sg_name = b.CreateString(self.sg_name)
        SubGraph.SubGraphStart(b)
        SubGraph.SubGraphAddTensors(b, tensors)
        SubGraph.SubGraphAddInputs(b, sg_in)
        SubGraph.SubGraphAddOutputs(b, sg_out)
        SubGraph.SubGraphAddOperators(b, operators)
        SubGraph.SubGraphAddName(b, sg_name)
        sg = SubGraph.SubGraphEnd(b)
        subgraphs = ovec([sg])

        desc = b.CreateString(description)
        Model.ModelStart(b)
        Model.ModelAddVersion(b, 3)
        Model.ModelAddOperatorCodes(b, opcodes)
        Model.ModelAddSubgraphs(b, subgraphs)
        Model.ModelAddDescription(b, desc)
        Model.ModelAddBuffers(b, buffers)
        model = Model.ModelEnd(b)
        b.Finish(model, file_identifier=b"TFL3")
        return bytes(b.Output())


def conv_chain(seed=0, n=3, hw=16, ch=8, out_ch=16, k=3):
    rng = np.random.default_rng(seed)
    mb = ModelBuilder()
    shape = [1, hw, hw, ch]
    x = mb.tensor("input", shape, INT8, scale=[0.05], zp=[0])
    cur, cur_shape = x, shape
    for i in range(n):
        cur, cur_shape = mb.conv2d(cur, cur_shape, out_ch, k, "conv%d" % i, rng, act=1)
    return mb.build([x], [cur])


def residual_net(seed=0, blocks=2, hw=16, ch=16):
    rng = np.random.default_rng(seed)
    mb = ModelBuilder()
    shape = [1, hw, hw, ch]
    x = mb.tensor("input", shape, INT8, scale=[0.05], zp=[0])
    cur, cur_shape = mb.conv2d(x, shape, ch, 3, "stem", rng, act=1)
    for i in range(blocks):
        a, _ = mb.conv2d(cur, cur_shape, ch, 3, "b%d_c0" % i, rng, act=1)
        d, _ = mb.dwconv2d(a, cur_shape, 3, "b%d_dw" % i, rng)
        cur = mb.add(cur, d, cur_shape, "b%d_add" % i)
    p, pshape = mb.pool(cur, cur_shape, "pool")
    return mb.build([x], [p])

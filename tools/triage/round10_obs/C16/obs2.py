# OBSERVATION 2 (unchanged tree): MEAN with a negative axis (legal TFLite; axis -2 of a 4D tensor is the width
# axis 2) is rejected by TFLiteSemantic.constraint_mean_axis ("if ax < 0 or ax >= dims: return False") although the
# listed text of that constraint ("Requirements for axis parameter: ... Reduction in both Height and Width axes is
# supported ...") is fulfilled.  The identical reduction written with axis 2 is accelerated.  So an operator instance
# that satisfies all listed constraints stays on the CPU, and the report does not state the non-negative-axis rule.
import os
import sys

sys.path.insert(0, os.path.dirname(os.path.abspath(__file__)))
import numpy as np  # noqa: E402
import tfl  # noqa: E402
from tfl import T, O, BuiltinOperator as B  # noqa: E402


def mean(axis):
    ts = [
        T("in", [1, 8, 8, 4], np.int8, 0.5, 0),
        T("ax", [1], np.int32, data=[axis]),
        T("out", [1, 8, 1, 4], np.int8, 0.5, 0),
    ]
    return tfl.build(ts, [O(B.MEAN, ["in", "ax"], ["out"], ("ReducerOptions", dict(KeepDims=True)))], ["in"], ["out"])


pos = tfl.op_names(tfl.compile_model(mean(2))[0])
neg = tfl.op_names(tfl.compile_model(mean(-2))[0])
print("axis 2:", pos, " axis -2:", neg)
if pos == ["CUSTOM:ethos-u"] and neg != pos:
    print("DEFECT: the same width reduction is accelerated with axis=2 but left on the CPU with axis=-2")
    sys.exit(1)
print("OK")

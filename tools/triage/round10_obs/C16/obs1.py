# OBSERVATION 1 (unchanged tree): an int8 CONV_2D whose weight tensor has a non-zero zero point satisfies every
# constraint listed for CONV_2D in the supported-operators report (generic + specific: nothing mentions the weight
# zero point), but tflite_graph_optimiser.check_asymmetric_weights (run right after supported_operator_check) sets
# run_on_npu = False, so the operator is left on the CPU.  The report therefore does not list the constraint set the
# compiler enforces (the rule is only lifted by --force-symmetric-int-weights).
import os
import sys

sys.path.insert(0, os.path.dirname(os.path.abspath(__file__)))
import numpy as np  # noqa: E402
import tfl  # noqa: E402
from tfl import T, O, BuiltinOperator as B  # noqa: E402


def conv(wzp):
    c, oc = 4, 8
    ts = [
        T("in", [1, 8, 8, c], np.int8, 0.5, 0),
        T("w", [oc, 3, 3, c], np.int8, 0.25, wzp, data=np.ones([oc, 3, 3, c])),
        T("b", [oc], np.int32, 0.125, 0, data=np.zeros([oc])),
        T("out", [1, 8, 8, oc], np.int8, 1.0, 0),
    ]
    opts = ("Conv2DOptions", dict(Padding=0, StrideW=1, StrideH=1, DilationWFactor=1, DilationHFactor=1))
    return tfl.build(ts, [O(B.CONV_2D, ["in", "w", "b"], ["out"], opts)], ["in"], ["out"])


# every documented constraint is evaluated by the two checkers; none of them fails for this operator
import contextlib, io  # noqa: E402,E401
from ethosu.vela import vela  # noqa: E402

import tempfile  # noqa: E402

cwd = os.getcwd()
tmp = tempfile.mkdtemp(prefix="c16obs_")
os.chdir(tmp)  # the report generator writes SUPPORTED_OPS.md into the current directory
try:
    with contextlib.redirect_stdout(io.StringIO()):
        vela.generate_supported_ops()
    report = open("SUPPORTED_OPS.md").read()
finally:
    os.chdir(cwd)
mentions = [w for w in ("asymmetric", "zero point", "zero_point", "symmetric") if w in report.lower()]

names0 = tfl.op_names(tfl.compile_model(conv(0))[0])
names3 = tfl.op_names(tfl.compile_model(conv(3))[0])
print("weight zero point 0:", names0, " weight zero point 3:", names3, " report mentions:", mentions)
if names0 == ["CUSTOM:ethos-u"] and names3 != ["CUSTOM:ethos-u"] and not mentions:
    print("DEFECT: CONV_2D with asymmetric int8 weights meets all listed constraints but is not accelerated")
    sys.exit(1)
print("OK")

# OBSERVATION 3 (unchanged tree): the listed SOFTMAX constraint reads "Beta value needs to be positive", but
# TFLiteSemantic.constraint_beta_value_range tests "beta >= 0": a SOFTMAX with beta == 0 (not positive) violates the
# listed constraint and is nevertheless placed on the NPU.  Report text and enforced range differ at the boundary.
import os
import sys

sys.path.insert(0, os.path.dirname(os.path.abspath(__file__)))
import numpy as np  # noqa: E402
import tfl  # noqa: E402
from tfl import T, O, BuiltinOperator as B  # noqa: E402


def softmax(beta):
    ts = [T("in", [1, 16], np.int8, 0.1, 0), T("out", [1, 16], np.int8, 1 / 256, -128)]
    return tfl.build(ts, [O(B.SOFTMAX, ["in"], ["out"], ("SoftmaxOptions", dict(Beta=beta)))], ["in"], ["out"])


from ethosu.vela.tflite_model_semantic import TFLiteSemantic  # noqa: E402

doc = TFLiteSemantic.constraint_beta_value_range.__doc__
names = tfl.op_names(tfl.compile_model(softmax(0.0))[0])
print("listed constraint:", doc, "| beta=0 ->", names)
if "positive" in doc and names == ["CUSTOM:ethos-u"]:
    print("DEFECT: SOFTMAX with beta=0 is not 'positive' but is accelerated")
    sys.exit(1)
print("OK")

# Minimal TFLite flatbuffer builder + compile/inspect helpers used by the demos.
# Independent of Vela's own tflite_mapping/tflite_writer: uses only the generated flatbuffer classes.
import contextlib
import importlib
import io
import os
import sys
import tempfile

import flatbuffers
import numpy as np

sys.path.insert(0, os.path.join(os.path.dirname(os.path.abspath(__file__)), ".."))

from ethosu.vela.tflite import Buffer  # noqa: E402
from ethosu.vela.tflite import Model  # noqa: E402
from ethosu.vela.tflite import Operator  # noqa: E402
from ethosu.vela.tflite import OperatorCode  # noqa: E402
from ethosu.vela.tflite import QuantizationParameters  # noqa: E402
from ethosu.vela.tflite import SubGraph  # noqa: E402
from ethosu.vela.tflite import Tensor  # noqa: E402
from ethosu.vela.tflite.BuiltinOperator import BuiltinOperator  # noqa: E402
from ethosu.vela.tflite.BuiltinOptions import BuiltinOptions  # noqa: E402
from ethosu.vela.tflite.TensorType import TensorType  # noqa: E402

NP_TO_TT = {
    np.dtype(np.int8): TensorType.INT8,
    np.dtype(np.uint8): TensorType.UINT8,
    np.dtype(np.int16): TensorType.INT16,
    np.dtype(np.int32): TensorType.INT32,
    np.dtype(np.int64): TensorType.INT64,
    np.dtype(np.float32): TensorType.FLOAT32,
}


class T:
    """Tensor description. data=None -> activation tensor."""

    def __init__(self, name, shape, dtype=np.int8, scale=None, zp=None, data=None, qdim=0):
        self.name = name
        self.shape = list(shape)
        self.dtype = np.dtype(dtype)
        self.scale = scale
        self.zp = zp
        self.data = None if data is None else np.asarray(data, dtype=self.dtype)
        self.qdim = qdim


class O:
    """Operator description. opts = (OptionsModuleName, {FieldName: value})"""

    def __init__(self, builtin, inputs, outputs, opts=None, version=1):
        self.builtin = builtin
        self.inputs = inputs
        self.outputs = outputs
        self.opts = opts
        self.version = version


def _vec_i32(b, start_fn, vals):
    start_fn(b, len(vals))
    for v in reversed(vals):
        b.PrependInt32(int(v))
    return b.EndVector()


def build(tensors, ops, inputs, outputs):
    b = flatbuffers.Builder(1024)
    tidx = {t.name: i for i, t in enumerate(tensors)}

    # buffers: 0 is the empty one
    buf_offs = []
    Buffer.Start(b)
    buf_offs.append(Buffer.End(b))
    tbuf = {}
    for t in tensors:
        if t.data is not None:
            raw = t.data.tobytes()
            data_off = b.CreateByteVector(raw)
            Buffer.Start(b)
            Buffer.AddData(b, data_off)
            buf_offs.append(Buffer.End(b))
            tbuf[t.name] = len(buf_offs) - 1
    Model.StartBuffersVector(b, len(buf_offs))
    for o in reversed(buf_offs):
        b.PrependUOffsetTRelative(o)
    buffers_off = b.EndVector()

    t_offs = []
    for t in tensors:
        name_off = b.CreateString(t.name)
        shape_off = _vec_i32(b, Tensor.StartShapeVector, t.shape)
        q_off = None
        if t.scale is not None:
            scales = np.atleast_1d(np.asarray(t.scale, dtype=np.float32))
            zps = np.atleast_1d(np.asarray(t.zp if t.zp is not None else 0, dtype=np.int64))
            QuantizationParameters.StartScaleVector(b, len(scales))
            for s in reversed(scales):
                b.PrependFloat32(float(s))
            s_off = b.EndVector()
            QuantizationParameters.StartZeroPointVector(b, len(zps))
            for z in reversed(zps):
                b.PrependInt64(int(z))
            z_off = b.EndVector()
            QuantizationParameters.Start(b)
            QuantizationParameters.AddScale(b, s_off)
            QuantizationParameters.AddZeroPoint(b, z_off)
            QuantizationParameters.AddQuantizedDimension(b, t.qdim)
            q_off = QuantizationParameters.End(b)
        Tensor.Start(b)
        Tensor.AddShape(b, shape_off)
        Tensor.AddType(b, NP_TO_TT[t.dtype])
        Tensor.AddBuffer(b, tbuf.get(t.name, 0))
        Tensor.AddName(b, name_off)
        if q_off is not None:
            Tensor.AddQuantization(b, q_off)
        t_offs.append(Tensor.End(b))
    SubGraph.StartTensorsVector(b, len(t_offs))
    for o in reversed(t_offs):
        b.PrependUOffsetTRelative(o)
    tensors_off = b.EndVector()

    # operator codes
    codes = []
    for op in ops:
        key = (op.builtin, op.version)
        if key not in codes:
            codes.append(key)
    code_offs = []
    for builtin, version in codes:
        OperatorCode.Start(b)
        OperatorCode.AddDeprecatedBuiltinCode(b, builtin if builtin < 127 else 127)
        OperatorCode.AddBuiltinCode(b, builtin)
        OperatorCode.AddVersion(b, version)
        code_offs.append(OperatorCode.End(b))
    Model.StartOperatorCodesVector(b, len(code_offs))
    for o in reversed(code_offs):
        b.PrependUOffsetTRelative(o)
    codes_off = b.EndVector()

    op_offs = []
    for op in ops:
        in_off = _vec_i32(b, Operator.StartInputsVector, [tidx[n] if n is not None else -1 for n in op.inputs])
        out_off = _vec_i32(b, Operator.StartOutputsVector, [tidx[n] for n in op.outputs])
        opt_off = None
        if op.opts is not None:
            modname, fields = op.opts
            mod = importlib.import_module("ethosu.vela.tflite." + modname)
            pre = {}
            for k, v in fields.items():
                if isinstance(v, (list, tuple)):
                    pre[k] = _vec_i32(b, getattr(mod, "Start" + k + "Vector"), v)
            mod.Start(b)
            for k, v in fields.items():
                getattr(mod, "Add" + k)(b, pre.get(k, v))
            opt_off = mod.End(b)
        Operator.Start(b)
        Operator.AddOpcodeIndex(b, codes.index((op.builtin, op.version)))
        Operator.AddInputs(b, in_off)
        Operator.AddOutputs(b, out_off)
        if opt_off is not None:
            Operator.AddBuiltinOptionsType(b, getattr(BuiltinOptions, op.opts[0]))
            Operator.AddBuiltinOptions(b, opt_off)
        op_offs.append(Operator.End(b))
    SubGraph.StartOperatorsVector(b, len(op_offs))
    for o in reversed(op_offs):
        b.PrependUOffsetTRelative(o)
    operators_off = b.EndVector()

    sg_in = _vec_i32(b, SubGraph.StartInputsVector, [tidx[n] for n in inputs])
    sg_out = _vec_i32(b, SubGraph.StartOutputsVector, [tidx[n] for n in outputs])
    sg_name = b.CreateString("main")
    SubGraph.Start(b)
    SubGraph.AddTensors(b, tensors_off)
    SubGraph.AddInputs(b, sg_in)
    SubGraph.AddOutputs(b, sg_out)
    SubGraph.AddOperators(b, operators_off)
    SubGraph.AddName(b, sg_name)
    sg_off = SubGraph.End(b)
    Model.StartSubgraphsVector(b, 1)
    b.PrependUOffsetTRelative(sg_off)
    sgs_off = b.EndVector()

    desc = b.CreateString("demo")
    Model.Start(b)
    Model.AddVersion(b, 3)
    Model.AddOperatorCodes(b, codes_off)
    Model.AddSubgraphs(b, sgs_off)
    Model.AddDescription(b, desc)
    Model.AddBuffers(b, buffers_off)
    m = Model.End(b)
    b.Finish(m, b"TFL3")
    return bytes(b.Output())


def read_ops(path):
    """Returns the list of (builtin_name_or_custom, [input tensor names], [output tensor names], options-object)"""
    with open(path, "rb") as f:
        buf = bytearray(f.read())
    model = Model.Model.GetRootAsModel(buf, 0)
    rev = {v: k for k, v in vars(BuiltinOperator).items() if not k.startswith("_")}
    sg = model.Subgraphs(0)
    res = []
    for i in range(sg.OperatorsLength()):
        op = sg.Operators(i)
        oc = model.OperatorCodes(op.OpcodeIndex())
        code = max(oc.BuiltinCode(), oc.DeprecatedBuiltinCode())
        name = rev[code]
        if name == "CUSTOM":
            name = "CUSTOM:" + oc.CustomCode().decode()
        ins = [sg.Tensors(op.Inputs(j)).Name().decode() if op.Inputs(j) >= 0 else None for j in range(op.InputsLength())]
        outs = [sg.Tensors(op.Outputs(j)).Name().decode() for j in range(op.OutputsLength())]
        res.append((name, ins, outs, op))
    return res


def compile_model(model_bytes, extra_args=(), accelerator="ethos-u55-128", name="m"):
    """Runs the vela command line on the model; returns (ops of the output file, captured stdout)."""
    from ethosu.vela import vela

    tmp = tempfile.mkdtemp(prefix="c16demo_")
    path = os.path.join(tmp, name + ".tflite")
    with open(path, "wb") as f:
        f.write(model_bytes)
    out = io.StringIO()
    args = [path, "--output-dir", tmp, "--accelerator-config", accelerator] + list(extra_args)
    with contextlib.redirect_stdout(out):
        vela.main(args)
    ops = read_ops(os.path.join(tmp, name + "_vela.tflite"))
    return ops, out.getvalue()


def op_names(ops):
    return [o[0] for o in ops]

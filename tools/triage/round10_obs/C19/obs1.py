# Observation (unchanged tree): convert_lrelu_to_lut derives the identity and alpha multipliers of the LeakyReLU table in
# double precision (np.double(ifm_scale) ... / np.double(ofm_scale)), whereas the TFLite / TFLite-Micro reference kernel
# derives them in float32 and only then widens:
#     double identity_multiplier = static_cast<double>(input->params.scale / output->params.scale);
#     double alpha_multiplier = static_cast<double>(input->params.scale * params->alpha / output->params.scale);
# When the float32 quotient lands exactly on a rounding boundary (2k+1)/256 and the double quotient does not, the entry for
# |code - zero_point| = 128 differs by one from the value the reference kernel produces.  This script builds such a
# quantisation and compares Vela's table with a port of the reference kernel; it exits non-zero when they differ.
import os
import sys

import numpy as np

sys.path.insert(0, os.path.dirname(os.path.abspath(__file__)))
sys.path.insert(0, os.path.dirname(os.path.dirname(os.path.abspath(__file__))))

import gemmlowp_ref as ref  # noqa: E402
from ethosu.vela.data_type import DataType  # noqa: E402
from ethosu.vela.operation import Op  # noqa: E402
from ethosu.vela.test import testutil  # noqa: E402
from ethosu.vela.tflite_graph_optimiser import convert_lrelu  # noqa: E402


def mbqm(x, m, shift):
    left, right = (shift, 0) if shift > 0 else (0, -shift)
    return ref.rdbp(ref.srdhm32(x * (1 << left), m), right)


def reference_table(in_scale, zp_in, out_scale, zp_out, alpha):
    in_scale, out_scale, alpha = np.float32(in_scale), np.float32(out_scale), np.float32(alpha)
    ident = ref.quantize_multiplier(float(np.float32(in_scale / out_scale)))
    alph = ref.quantize_multiplier(float(np.float32(np.float32(in_scale * alpha) / out_scale)))
    table = []
    for code in range(-128, 128):
        v = code - zp_in
        out = zp_out + (mbqm(v, *ident) if v >= 0 else mbqm(v, *alph))
        table.append(min(max(out, -128), 127))
    return table


def vela_table(in_scale, zp_in, out_scale, zp_out, alpha):
    op = testutil.create_op_with_quant_tensors(Op.LeakyRelu, [1, 4, 4, 8], [1, 4, 4, 8], datatype=DataType.int8)
    op.ifm.quantization.scale_f32 = np.float32(in_scale)
    op.ifm.quantization.zero_point = np.int64(zp_in)
    op.ofm.quantization.scale_f32 = np.float32(out_scale)
    op.ofm.quantization.zero_point = np.int64(zp_out)
    op.attrs["alpha"] = float(np.float32(alpha))
    op = convert_lrelu(op, testutil.create_arch(), None)
    return [int(v) for v in op.activation_lut.values.flatten()]


# search a pair of float32 scales whose float32 quotient is exactly (2k+1)/256 while the exact quotient is just below it
found = None
rng = np.random.default_rng(1)
for _ in range(200000):
    out_scale = np.float32(rng.uniform(0.01, 0.2))
    k = int(rng.integers(20, 120))
    boundary = (2 * k + 1) / 256.0
    in_scale = np.float32(boundary * float(out_scale))
    if np.float32(in_scale / out_scale) == np.float32(boundary) and float(in_scale) / float(out_scale) < boundary:
        found = (in_scale, out_scale, k)
        break
assert found, "no suitable scale pair found"
in_scale, out_scale, k = found
got = vela_table(in_scale, -128, out_scale, -128, 0.1)
want = reference_table(in_scale, -128, out_scale, -128, 0.1)
bad = [i for i in range(256) if got[i] != want[i]]
if bad:
    i = bad[0]
    print(
        f"LeakyReLU table differs from the float32-derived reference kernel for ifm scale {in_scale!r}, ofm scale {out_scale!r}: "
        f"{len(bad)} entries, e.g. code {i - 128}: Vela {got[i]}, reference {want[i]}"
    )
    sys.exit(1)
print("OK")

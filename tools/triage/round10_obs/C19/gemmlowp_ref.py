# Independent pure-Python (arbitrary precision int) ports of the gemmlowp / TFLite reference fixed point routines.
# Nothing in here imports ethosu.
import math

I32_MIN, I32_MAX = -(1 << 31), (1 << 31) - 1
I16_MIN, I16_MAX = -(1 << 15), (1 << 15) - 1


def _trunc_div(a, b):
    q = abs(a) // abs(b)
    return q if (a >= 0) == (b >= 0) else -q


def srdhm32(a, b):
    # SaturatingRoundingDoublingHighMul<int32>
    if a == b == I32_MIN:
        return I32_MAX
    ab = a * b
    nudge = (1 << 30) if ab >= 0 else 1 - (1 << 30)
    return _trunc_div(ab + nudge, 1 << 31)


def srdhm16(a, b):
    # SaturatingRoundingDoublingHighMul<int16>
    if a == b == I16_MIN:
        return I16_MAX
    ab = a * b
    nudge = (1 << 14) if ab >= 0 else 1 - (1 << 14)
    return _trunc_div(ab + nudge, 1 << 15)


def sdhm16(a, b):
    # SaturatingDoublingHighMul (no rounding), TFLite hard swish
    if a == b == I16_MIN:
        return I16_MAX
    return _trunc_div(a * b, 1 << 15)


def rdbp(x, exponent):
    # RoundingDivideByPOT
    mask = (1 << exponent) - 1
    remainder = x & mask
    threshold = (mask >> 1) + (1 if x < 0 else 0)
    return (x >> exponent) + (1 if remainder > threshold else 0)


def sat_left_shift16(v, amount):
    return min(max(v * (1 << amount), I16_MIN), I16_MAX)


def quantize_multiplier(d):
    # TFLite QuantizeMultiplier -> (quantized_multiplier, shift) with value = m * 2^(shift-31)
    if d == 0.0:
        return 0, 0
    q, shift = math.frexp(d)
    q_fixed = int(math.floor(abs(q) * (1 << 31) + 0.5)) * (1 if q >= 0 else -1)  # TfLiteRound
    if q_fixed == (1 << 31):
        q_fixed //= 2
        shift += 1
    if shift < -31:
        shift = 0
        q_fixed = 0
    return q_fixed, shift


def exp_on_interval_between_negative_one_quarter_and_0_excl(a):
    # a: Q0.31
    constant_term = 1895147668
    constant_1_over_3 = 715827883
    x = a + (1 << 28)
    x2 = srdhm32(x, x)
    x3 = srdhm32(x2, x)
    x4 = srdhm32(x2, x2)
    x4_over_4 = rdbp(x4, 2)
    t = rdbp(srdhm32(x4_over_4 + x3, constant_1_over_3) + x2, 1)
    return constant_term + srdhm32(constant_term, x + t)


def exp_on_negative_values(a):
    # a: Q5.26, result Q0.31
    if a == 0:
        return I32_MAX
    one_quarter = 1 << 24
    mask = one_quarter - 1
    a_mod = (a & mask) - one_quarter
    result = exp_on_interval_between_negative_one_quarter_and_0_excl(a_mod * 32)  # rescale Q5.26 -> Q0.31, exact
    remainder = a_mod - a
    for exponent, mult in ((-2, 1672461947), (-1, 1302514674), (0, 790015084), (1, 290630308), (2, 39332535),
                           (3, 720401), (4, 242)):
        if remainder & (1 << (26 + exponent)):
            result = srdhm32(result, mult)
    return result


def softmax_exp_table_8bit(beta, input_scale):
    # TFLite reference integer softmax (kScaledDiffIntegerBits = 5): value for input_diff = x - 255, x = 0..255
    integer_bits = 5
    real = min(float(beta) * float(input_scale) * (1 << (31 - integer_bits)), (1 << 31) - 1.0)
    mult, left_shift = quantize_multiplier(real)
    diff_min = -math.floor(1.0 * ((1 << integer_bits) - 1) * (1 << (31 - integer_bits)) / (1 << left_shift))
    table = []
    for x in range(256):
        diff = x - 255
        if diff >= diff_min:
            table.append(exp_on_negative_values(srdhm32(diff * (1 << left_shift), mult)))
        else:
            table.append(0)
    return table

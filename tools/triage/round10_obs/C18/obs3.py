# DEFECTS (unchanged tree), all in ArchitectureFeatures._get_vela_config:
#  a) OPTIONS.md: "All sections and key/value pairs are case-sensitive", but ConfigParser's default optionxform lowercases
#     keys, so CORE_CLOCK= / dram_CLOCK_scale= are silently accepted as core_clock / Dram_clock_scale.
#  b) Only arena_cache_size is range checked: a negative core_clock, a clock scale outside the documented 0.0..1.0
#     (0 leads to division by zero in the bandwidth/performance code, 7.5 is accepted) and a negative burst length are
#     accepted instead of being rejected.
import os
import sys
import tempfile

sys.path.insert(0, os.path.dirname(os.path.abspath(__file__)))
import c18ref  # noqa: E402

tmp = tempfile.mkdtemp()
ini = os.path.join(tmp, "c.ini")
bad = []
with open(ini, "w") as f:
    f.write("[System_Config.X]\nCORE_CLOCK=5e6\naxi1_port=Dram\ndram_CLOCK_scale=0.5\n[Memory_Mode.Y]\nconst_mem_area=Axi1\n")
arch, err = c18ref.build_arch([ini], "ethos-u65-256", "X", "Y")
if arch is not None and (arch.core_clock != 1 or c18ref.arch_params(arch)["Dram_clock_scale"] != 1.0):
    bad.append(f"keys documented as case-sensitive were matched case-insensitively: core_clock={arch.core_clock}")
with open(ini, "w") as f:
    f.write("[System_Config.X]\ncore_clock=-1\naxi1_port=Dram\nDram_clock_scale=7.5\nSram_clock_scale=0\n"
            "Dram_burst_length=-3\n[Memory_Mode.Y]\nconst_mem_area=Axi1\n")
arch, err = c18ref.build_arch([ini], "ethos-u65-256", "X", "Y")
if arch is not None:
    bad.append(f"out-of-range system configuration accepted: {c18ref.arch_params(arch)}")
if bad:
    print("\n".join(bad))
    sys.exit(1)
print("ok")

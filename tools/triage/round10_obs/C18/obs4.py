# DEFECT (unchanged tree, minor): ArchitectureFeatures.__init__ reports an unknown accelerator name with
# CliOptionError("--accelerator-config", self.accelerator_config, ...) before self.accelerator_config exists, so a
# direct caller gets an AttributeError instead of the intended VelaError (main() is shielded by argparse choices).
import os
import sys

sys.path.insert(0, os.path.dirname(os.path.abspath(__file__)))
import c18ref  # noqa: E402,F401
from ethosu.vela.architecture_features import ArchitectureFeatures  # noqa: E402
from ethosu.vela.errors import VelaError  # noqa: E402

try:
    ArchitectureFeatures(None, "ethos-u99-1", "internal-default", "internal-default", 3, False, None)
except VelaError:
    print("ok")
except Exception as ex:
    print(f"unknown accelerator raised {type(ex).__name__}: {ex} instead of a VelaError")
    sys.exit(1)

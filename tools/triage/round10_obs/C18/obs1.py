# DEFECT (unchanged tree): OPTIONS.md says --arena-cache-size overrides the memory mode's arena_cache_size "if specified"
# and that otherwise the file value (or the maximum address) is used. In this fork the argparse default of
# --arena-cache-size is 384*1024 instead of None (vela.py main()), so through the command line the file's value is
# ALWAYS overridden: '--config Arm/vela.ini --memory-mode Dedicated_Sram_512KB' compiles with 393216 "from CLI option"
# although no --arena-cache-size was given; likewise Shared_Sram (no size -> documented maximum address) gets 393216.
import os
import sys
import tempfile

sys.path.insert(0, os.path.dirname(os.path.abspath(__file__)))
import c18ref  # noqa: E402

tmp = tempfile.mkdtemp()
bad = []
for mode, want in (("Dedicated_Sram_512KB", "524288 from Configuration file"), ("Shared_Sram", f"{1 << 40} from Default")):
    status, out = c18ref.run_main(
        ["--config", "Arm/vela.ini", "--system-config", "Ethos_U65_High_End", "--memory-mode", mode, "--verbose-config",
         "--output-dir", tmp, os.path.join(tmp, "none.tflite")]
    )
    got = c18ref.verbose_values(out).get("arena_cache_size")
    if got != want:
        bad.append(f"memory mode {mode} without --arena-cache-size: documented '{want}', got '{got}'")
if bad:
    print("\n".join(bad))
    sys.exit(1)
print("ok")

# Independent reference for the documented configuration rules (OPTIONS.md, "Configuration File") plus small helpers
# shared by the demos. Nothing in here looks at the Vela sources.
import configparser
import contextlib
import io
import os
import sys

# the demos are run as `python out/demoN.py` from the worktree root: make sure that tree's ethosu package is imported
sys.path.insert(0, os.path.dirname(os.path.dirname(os.path.abspath(__file__))))

AREAS = ("Sram", "Dram", "OnChipFlash", "OffChipFlash")
PORTS = ("Axi0", "Axi1")


class Rejected(Exception):
    pass


def _lookup(cp, section, key, seen=()):
    """child overrides parent, transitively; unknown parents and inheritance loops are errors"""
    if not cp.has_section(section):
        raise Rejected(f"unknown section {section}")
    if section in seen:
        raise Rejected(f"inheritance loop through {section}")
    if cp.has_option(section, key):
        return cp.get(section, key)
    if cp.has_option(section, "inherit"):
        return _lookup(cp, cp.get(section, "inherit"), key, seen + (section,))
    return None


def _check_chain(cp, section):
    seen = ()
    while True:
        if not cp.has_section(section):
            raise Rejected(f"unknown section {section}")
        if section in seen:
            raise Rejected(f"inheritance loop through {section}")
        seen += (section,)
        if not cp.has_option(section, "inherit"):
            return
        section = cp.get(section, "inherit")


def resolve(ini_texts, accelerator, system_config, memory_mode, cli_size=None):
    """Returns the documented architecture parameters as a dict, or raises Rejected"""
    is_u65 = "u65" in accelerator
    max_addr = 1 << (40 if is_u65 else 32)
    cp = None
    if ini_texts is not None:
        cp = configparser.ConfigParser(interpolation=None)
        for text in ini_texts:
            try:
                cp.read_string(text)
            except configparser.Error as ex:
                raise Rejected(f"unparsable: {ex}")

    res = {}
    sec = "System_Config." + system_config
    if cp is not None and cp.has_section(sec):
        _check_chain(cp, sec)
        res["core_clock"] = float(_lookup(cp, sec, "core_clock") or 1)
        for port in ("axi0_port", "axi1_port"):
            v = _lookup(cp, sec, port) or "Sram"
            if v not in AREAS:
                raise Rejected(f"{port}={v}")
            res[port] = v
        for area in {res["axi0_port"], res["axi1_port"]}:
            try:
                res[area + "_clock_scale"] = float(_lookup(cp, sec, area + "_clock_scale") or 1)
                res[area + "_burst_length"] = int(_lookup(cp, sec, area + "_burst_length") or 1)
                res[area + "_read_latency"] = int(_lookup(cp, sec, area + "_read_latency") or 0)
                res[area + "_write_latency"] = int(_lookup(cp, sec, area + "_write_latency") or 0)
            except ValueError as ex:
                raise Rejected(str(ex))
    elif system_config == "internal-default":
        if is_u65:  # Ethos-U65 Client-Server
            res.update(core_clock=1e9, axi0_port="Sram", axi1_port="Dram")
        else:  # Ethos-U55 High-End Embedded
            res.update(core_clock=500e6, axi0_port="Sram", axi1_port="OffChipFlash")
    else:
        raise Rejected(f"unknown system config {system_config}")

    sec = "Memory_Mode." + memory_mode
    size_from = "Default"
    if cp is not None and cp.has_section(sec):
        _check_chain(cp, sec)
        for k in ("const_mem_area", "arena_mem_area", "cache_mem_area"):
            v = _lookup(cp, sec, k) or "Axi0"
            if v not in PORTS:
                raise Rejected(f"{k}={v}")
            res[k] = v
        v = _lookup(cp, sec, "arena_cache_size")
        try:
            res["arena_cache_size"] = int(v) if v is not None else max_addr
        except ValueError as ex:
            raise Rejected(str(ex))
        if v is not None:
            size_from = "Configuration file"
    elif memory_mode == "internal-default":
        if is_u65:  # Dedicated SRAM
            res.update(const_mem_area="Axi1", arena_mem_area="Axi1", cache_mem_area="Axi0", arena_cache_size=384 * 1024)
        else:  # Shared SRAM
            res.update(const_mem_area="Axi1", arena_mem_area="Axi0", cache_mem_area="Axi0", arena_cache_size=max_addr)
    else:
        raise Rejected(f"unknown memory mode {memory_mode}")

    ports = {"Axi0": res["axi0_port"], "Axi1": res["axi1_port"]}
    # Sram only: constants move to the other port which becomes OnChipFlash
    if ports[res["const_mem_area"]] == "Sram" and res["const_mem_area"] == res["arena_mem_area"] == res["cache_mem_area"]:
        other = "Axi1" if res["const_mem_area"] == "Axi0" else "Axi0"
        res["const_mem_area"] = other
        res[other.lower() + "_port"] = "OnChipFlash"
        ports[other] = "OnChipFlash"
    if cli_size is not None:
        res["arena_cache_size"] = cli_size
        size_from = "CLI option"
    res["arena_cache_size_from"] = size_from

    if ports[res["const_mem_area"]] not in ("Dram", "OnChipFlash", "OffChipFlash"):
        raise Rejected("const_mem_area on " + ports[res["const_mem_area"]])
    if ports[res["arena_mem_area"]] not in ("Sram", "Dram"):
        raise Rejected("arena_mem_area on " + ports[res["arena_mem_area"]])
    if ports[res["cache_mem_area"]] != "Sram":
        raise Rejected("cache_mem_area on " + ports[res["cache_mem_area"]])
    if not 0 <= res["arena_cache_size"] <= max_addr:
        raise Rejected("arena_cache_size out of range")
    res["permanent_storage_mem_area"] = ports[res["const_mem_area"]]
    res["feature_map_storage_mem_area"] = ports[res["arena_mem_area"]]
    res["fast_storage_mem_area"] = ports[res["cache_mem_area"]]
    return res


def arch_params(arch):
    """The same dictionary read back from an ArchitectureFeatures object"""
    from ethosu.vela.tensor import BandwidthDirection

    res = dict(
        core_clock=float(arch.core_clock),
        axi0_port=arch.axi0_port.name,
        axi1_port=arch.axi1_port.name,
        const_mem_area=arch.const_mem_area.name,
        arena_mem_area=arch.arena_mem_area.name,
        cache_mem_area=arch.cache_mem_area.name,
        arena_cache_size=int(arch.arena_cache_size),
        permanent_storage_mem_area=arch.permanent_storage_mem_area.name,
        feature_map_storage_mem_area=arch.feature_map_storage_mem_area.name,
        fast_storage_mem_area=arch.fast_storage_mem_area.name,
    )
    for area in (arch.axi0_port, arch.axi1_port):
        res[area.name + "_clock_scale"] = float(arch.memory_clock_scales[area])
        res[area.name + "_burst_length"] = int(arch.memory_burst_length[area])
        res[area.name + "_read_latency"] = int(arch.memory_latency[area][BandwidthDirection.Read])
        res[area.name + "_write_latency"] = int(arch.memory_latency[area][BandwidthDirection.Write])
    return res


def build_arch(files, accelerator, system_config, memory_mode, cli_size=None):
    """Constructs ArchitectureFeatures quietly; returns (arch, None) or (None, VelaError)"""
    from ethosu.vela.architecture_features import ArchitectureFeatures
    from ethosu.vela.errors import VelaError

    try:
        with contextlib.redirect_stdout(io.StringIO()):
            arch = ArchitectureFeatures(
                vela_config_files=files,
                accelerator_config=accelerator,
                system_config=system_config,
                memory_mode=memory_mode,
                max_blockdep=ArchitectureFeatures.MAX_BLOCKDEP,
                verbose_config=False,
                arena_cache_size=cli_size,
            )
        return arch, None
    except VelaError as ex:
        return None, ex


def run_main(argv):
    """Runs vela.main() and returns (exit status, stdout text)"""
    from ethosu.vela import vela

    out = io.StringIO()
    with contextlib.redirect_stdout(out):
        try:
            status = vela.main(argv)
        except FileNotFoundError:
            # the configuration was accepted and main() went on to read the (deliberately missing) network file
            status = "configuration accepted"
    return status, out.getvalue()


def verbose_values(text):
    """Parses the '   key = value' lines of --verbose-config output"""
    vals = {}
    for line in text.splitlines():
        if line.startswith("   ") and " = " in line:
            k, v = line.strip().split(" = ", 1)
            vals[k] = v
    return vals


def compare(expected, got, keys=None):
    diffs = []
    for k in keys or expected:
        if k == "arena_cache_size_from":
            continue
        if k in got and got[k] != expected[k]:
            diffs.append(f"{k}: expected {expected[k]!r}, got {got[k]!r}")
    return diffs

# DEFECT (unchanged tree): OPTIONS.md documents the internal-default system configuration as Ethos-U65 Client-Server
# (Dram_clock_scale 0.75) for U65 and Ethos-U55 High-End Embedded (500 MHz, AXI1 = OffChipFlash) for U55. vela.main()
# without --config uses Imx93ArchitectureFeatures whose _set_default_sys_config ignores the accelerator: every
# accelerator, including all Ethos-U55 variants, is compiled for 1 GHz with AXI1 = Dram at clock scale 0.234375 (so U55
# constants are placed in Dram, not flash). The same names given with a --config file present give the documented values.
import os
import sys
import tempfile

sys.path.insert(0, os.path.dirname(os.path.abspath(__file__)))
import c18ref  # noqa: E402

tmp = tempfile.mkdtemp()
bad = []
for accel, clock, port in (("ethos-u65-256", 1e9, "Dram"), ("ethos-u55-128", 500e6, "OffChipFlash")):
    status, out = c18ref.run_main(
        ["--accelerator-config", accel, "--verbose-config", "--output-dir", tmp, os.path.join(tmp, "none.tflite")]
    )
    vals = c18ref.verbose_values(out)
    scale = vals.get(port + "_clock_scales")
    want_scale = "0.75" if port == "Dram" else "0.125"
    if float(vals.get("core_clock", 0)) != clock or vals.get("axi1_port") != port or scale != want_scale:
        bad.append(
            f"{accel} defaults: documented core_clock {clock}, axi1_port {port}, clock scale {want_scale}; got "
            f"{vals.get('core_clock')}, {vals.get('axi1_port')}, {scale}"
        )
if bad:
    print("\n".join(bad))
    sys.exit(1)
print("ok")

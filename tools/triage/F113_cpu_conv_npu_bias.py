# Reproducer for an observation on the UNMODIFIED tree (property C11). Run: cd /tmp/seed7/C11 && /venv/bin/python out/observation2.py
# The model is built with the generated flatbuffer classes only, compiled with ethosu.vela.vela.main and compared with
# the source by a plain flatbuffer walk. Exit status 1 = the violation is reproduced, 0 = not reproduced.
import os
import sys
import traceback

sys.path.insert(0, os.getcwd())
import importlib
import inspect

import flatbuffers
import numpy as np

from ethosu.vela.tflite import Buffer as fbBuffer
from ethosu.vela.tflite import Metadata as fbMetadata
from ethosu.vela.tflite import Model as fbModel
from ethosu.vela.tflite import Operator as fbOperator
from ethosu.vela.tflite import OperatorCode as fbOperatorCode
from ethosu.vela.tflite import QuantizationParameters as fbQuant
from ethosu.vela.tflite import SubGraph as fbSubGraph
from ethosu.vela.tflite import Tensor as fbTensor
from ethosu.vela.tflite.BuiltinOperator import BuiltinOperator as BO
from ethosu.vela.tflite.BuiltinOptions import BuiltinOptions
from ethosu.vela.tflite.TensorType import TensorType as TT

NP = {
    TT.FLOAT32: np.float32,
    TT.INT32: np.int32,
    TT.UINT8: np.uint8,
    TT.INT8: np.int8,
    TT.INT16: np.int16,
    TT.INT64: np.int64,
    TT.BOOL: np.bool_,
    TT.FLOAT16: np.float16,
    TT.STRING: np.uint8,
    TT.UINT32: np.uint32,
    TT.UINT16: np.uint16,
    TT.FLOAT64: np.float64,
    TT.UINT64: np.uint64,
    TT.COMPLEX64: np.complex64,
}

BO_NAME = {v: k for k, v in vars(BO).items() if not k.startswith("_")}
OPT_NAME = {v: k for k, v in vars(BuiltinOptions).items() if not k.startswith("_")}


def _vec(b, vals, size, prepend):
    b.StartVector(size, len(vals), size)
    for v in reversed(list(vals)):
        prepend(v)
    return b.EndVector()


def ivec(b, vals):
    return _vec(b, [int(v) for v in vals], 4, b.PrependInt32)


def lvec(b, vals):
    return _vec(b, [int(v) for v in vals], 8, b.PrependInt64)


def fvec(b, vals):
    return _vec(b, [float(v) for v in vals], 4, b.PrependFloat32)


def bvec(b, vals):
    return _vec(b, [int(v) for v in vals], 1, b.PrependByte)


def ovec(b, vals):
    return _vec(b, vals, 4, b.PrependUOffsetTRelative)


class T:
    def __init__(self, name, shape, dtype, quant=None, data=None, is_variable=False, buffer=None):
        # quant: dict with optional keys scale, zero_point, min, max, quantized_dimension
        self.name, self.shape, self.dtype, self.quant, self.data = name, shape, dtype, quant, data
        self.is_variable = is_variable
        self.buffer = buffer  # explicit buffer index (sharing), else automatic


class O:
    def __init__(self, code, inputs, outputs, opts=None, version=1, custom_code=None, custom_options=None,
                 intermediates=None):
        # opts: (options_table_name, {CamelCaseField: value})
        self.code, self.inputs, self.outputs, self.opts, self.version = code, inputs, outputs, opts, version
        self.custom_code, self.custom_options = custom_code, custom_options
        self.intermediates = intermediates or []


class SG:
    def __init__(self, tensors, ops, inputs, outputs, name="main"):
        self.tensors, self.ops, self.inputs, self.outputs, self.name = tensors, ops, inputs, outputs, name


def build_options(b, opts):
    name, fields = opts
    mod = importlib.import_module("ethosu.vela.tflite." + name)
    prepared = []
    for k, v in fields.items():
        if isinstance(v, str):
            v = b.CreateString(v)
        elif isinstance(v, (list, tuple)):
            if len(v) and isinstance(v[0], float):
                v = fvec(b, v)
            else:
                v = ivec(b, v)
        prepared.append((k, v))
    getattr(mod, name + "Start")(b)
    for k, v in prepared:
        getattr(mod, name + "Add" + k)(b, v)
    return getattr(mod, name + "End")(b), getattr(BuiltinOptions, name)


def build_model(subgraphs, description="src", metadata=()):
    if isinstance(subgraphs, SG):
        subgraphs = [subgraphs]
    b = flatbuffers.Builder(1024)
    buffers = [None]  # buffer 0 is the empty buffer
    # operator codes
    codes = []
    for sg in subgraphs:
        for op in sg.ops:
            key = (op.code, op.custom_code, op.version)
            if key not in codes:
                codes.append(key)
    code_offs = []
    for code, custom_code, version in codes:
        cc = b.CreateString(custom_code) if custom_code is not None else None
        fbOperatorCode.OperatorCodeStart(b)
        fbOperatorCode.OperatorCodeAddDeprecatedBuiltinCode(b, min(code, 127))
        fbOperatorCode.OperatorCodeAddBuiltinCode(b, code)
        fbOperatorCode.OperatorCodeAddVersion(b, version)
        if cc is not None:
            fbOperatorCode.OperatorCodeAddCustomCode(b, cc)
        code_offs.append(fbOperatorCode.OperatorCodeEnd(b))
    codes_off = ovec(b, code_offs)

    sg_offs = []
    for sg in subgraphs:
        names = [t.name for t in sg.tensors]

        def idx(n):
            if n is None or n == -1:
                return -1
            return names.index(n)

        tens_offs = []
        for t in sg.tensors:
            if t.buffer is not None:
                buf_idx = t.buffer
            elif t.data is not None:
                buffers.append(np.ascontiguousarray(t.data).view(np.uint8).flatten() if not isinstance(t.data, bytes) else np.frombuffer(t.data, np.uint8))
                buf_idx = len(buffers) - 1
            else:
                buffers.append(None)  # unique empty buffer, like the TFLite converter
                buf_idx = len(buffers) - 1
            shape = ivec(b, t.shape) if t.shape is not None else None
            name = b.CreateString(t.name)
            q = None
            if t.quant is not None:
                qd = t.quant
                mn = fvec(b, np.atleast_1d(qd["min"])) if "min" in qd else None
                mx = fvec(b, np.atleast_1d(qd["max"])) if "max" in qd else None
                sc = fvec(b, np.atleast_1d(qd["scale"])) if "scale" in qd else None
                zp = lvec(b, np.atleast_1d(qd["zero_point"])) if "zero_point" in qd else None
                fbQuant.QuantizationParametersStart(b)
                if mn is not None:
                    fbQuant.QuantizationParametersAddMin(b, mn)
                if mx is not None:
                    fbQuant.QuantizationParametersAddMax(b, mx)
                if sc is not None:
                    fbQuant.QuantizationParametersAddScale(b, sc)
                if zp is not None:
                    fbQuant.QuantizationParametersAddZeroPoint(b, zp)
                if "quantized_dimension" in qd:
                    fbQuant.QuantizationParametersAddQuantizedDimension(b, qd["quantized_dimension"])
                q = fbQuant.QuantizationParametersEnd(b)
            fbTensor.TensorStart(b)
            if shape is not None:
                fbTensor.TensorAddShape(b, shape)
            fbTensor.TensorAddType(b, t.dtype)
            fbTensor.TensorAddBuffer(b, buf_idx)
            fbTensor.TensorAddName(b, name)
            if q is not None:
                fbTensor.TensorAddQuantization(b, q)
            fbTensor.TensorAddIsVariable(b, t.is_variable)
            tens_offs.append(fbTensor.TensorEnd(b))
        tensors_off = ovec(b, tens_offs)
        inputs_off = ivec(b, [idx(n) for n in sg.inputs])
        outputs_off = ivec(b, [idx(n) for n in sg.outputs])
        op_offs = []
        for op in sg.ops:
            i_off = ivec(b, [idx(n) for n in op.inputs])
            o_off = ivec(b, [idx(n) for n in op.outputs])
            m_off = ivec(b, [idx(n) for n in op.intermediates]) if op.intermediates else None
            opt_off = opt_type = None
            if op.opts is not None:
                opt_off, opt_type = build_options(b, op.opts)
            co_off = None
            if op.custom_options is not None:
                co_off = bvec(b, list(op.custom_options))
            fbOperator.OperatorStart(b)
            fbOperator.OperatorAddOpcodeIndex(b, codes.index((op.code, op.custom_code, op.version)))
            fbOperator.OperatorAddInputs(b, i_off)
            fbOperator.OperatorAddOutputs(b, o_off)
            if m_off is not None:
                fbOperator.OperatorAddIntermediates(b, m_off)
            if opt_off is not None:
                fbOperator.OperatorAddBuiltinOptionsType(b, opt_type)
                fbOperator.OperatorAddBuiltinOptions(b, opt_off)
            if co_off is not None:
                fbOperator.OperatorAddCustomOptions(b, co_off)
            op_offs.append(fbOperator.OperatorEnd(b))
        ops_off = ovec(b, op_offs)
        nm = b.CreateString(sg.name)
        fbSubGraph.SubGraphStart(b)
        fbSubGraph.SubGraphAddTensors(b, tensors_off)
        fbSubGraph.SubGraphAddInputs(b, inputs_off)
        fbSubGraph.SubGraphAddOutputs(b, outputs_off)
        fbSubGraph.SubGraphAddOperators(b, ops_off)
        fbSubGraph.SubGraphAddName(b, nm)
        sg_offs.append(fbSubGraph.SubGraphEnd(b))
    sgs_off = ovec(b, sg_offs)

    md_list = []
    for name, data in metadata:
        buffers.append(np.frombuffer(bytes(data), np.uint8))
        md_list.append((name, len(buffers) - 1))

    buf_offs = []
    for buf in buffers:
        d = None
        if buf is not None:
            data = bytes(buf)
            b.StartVector(1, len(data), 16)
            b.head = b.head - len(data)
            b.Bytes[b.head : b.head + len(data)] = data
            d = b.EndVector()
        fbBuffer.BufferStart(b)
        if d is not None:
            fbBuffer.BufferAddData(b, d)
        buf_offs.append(fbBuffer.BufferEnd(b))
    bufs_off = ovec(b, buf_offs)
    md_offs = []
    for name, bi in md_list:
        n = b.CreateString(name)
        fbMetadata.MetadataStart(b)
        fbMetadata.MetadataAddName(b, n)
        fbMetadata.MetadataAddBuffer(b, bi)
        md_offs.append(fbMetadata.MetadataEnd(b))
    md_off = ovec(b, md_offs) if md_offs else None
    desc = b.CreateString(description)
    fbModel.ModelStart(b)
    fbModel.ModelAddVersion(b, 3)
    fbModel.ModelAddOperatorCodes(b, codes_off)
    fbModel.ModelAddSubgraphs(b, sgs_off)
    fbModel.ModelAddDescription(b, desc)
    fbModel.ModelAddBuffers(b, bufs_off)
    if md_off is not None:
        fbModel.ModelAddMetadata(b, md_off)
    m = fbModel.ModelEnd(b)
    b.Finish(m, b"TFL3")
    return bytearray(b.Output())


# ---------------------------------------------------------------------------------------------------------------------
# plain flatbuffer dump


def _tolist(x):
    if isinstance(x, np.ndarray):
        return x.tolist()
    if isinstance(x, (bytes, bytearray)):
        return x.decode("utf-8", "replace")
    if isinstance(x, (np.generic,)):
        return x.item()
    return x


def dump_options(op):
    t = op.BuiltinOptionsType()
    if t == 0 or op.BuiltinOptions() is None:
        return (OPT_NAME.get(t, t), None)
    name = OPT_NAME[t]
    mod = importlib.import_module("ethosu.vela.tflite." + name)
    cls = getattr(mod, name)
    o = cls()
    tab = op.BuiltinOptions()
    o.Init(tab.Bytes, tab.Pos)
    res = {}
    for mname, fn in inspect.getmembers(cls, predicate=inspect.isfunction):
        if mname.startswith("_") or mname == "Init" or mname.endswith("Length") or mname.endswith("IsNone"):
            continue
        params = list(inspect.signature(fn).parameters)
        if params != ["self"]:
            continue
        res[mname] = _tolist(getattr(o, mname)())
    # vectors: prefer the AsNumpy form
    return (name, res)


def dump_model(buf):
    buf = bytes(buf)
    assert buf[4:8] == b"TFL3", "file identifier missing"
    m = fbModel.Model.GetRootAsModel(buf, 0)
    codes = []
    for i in range(m.OperatorCodesLength()):
        c = m.OperatorCodes(i)
        code = max(c.BuiltinCode(), c.DeprecatedBuiltinCode())
        cc = c.CustomCode()
        codes.append((BO_NAME[code], c.Version(), cc.decode() if cc is not None else None, c.DeprecatedBuiltinCode()))
    nbuf = m.BuffersLength()
    sgs = []
    for si in range(m.SubgraphsLength()):
        sg = m.Subgraphs(si)
        tensors = []
        for ti in range(sg.TensorsLength()):
            t = sg.Tensors(ti)
            q = t.Quantization()
            qd = None
            if q is not None:
                qd = {
                    "min": _tolist(q.MinAsNumpy()),
                    "max": _tolist(q.MaxAsNumpy()),
                    "scale": _tolist(q.ScaleAsNumpy()),
                    "zero_point": _tolist(q.ZeroPointAsNumpy()),
                    "quantized_dimension": q.QuantizedDimension(),
                }
            bi = t.Buffer()
            assert 0 <= bi < nbuf, f"tensor {t.Name()} refers to buffer {bi} of {nbuf}"
            bd = m.Buffers(bi)
            data = None if bd.DataLength() == 0 else bytes(bd.DataAsNumpy())
            tensors.append(
                {
                    "name": t.Name().decode(),
                    "shape": _tolist(t.ShapeAsNumpy()) if t.ShapeLength() else [],
                    "type": t.Type(),
                    "quant": qd,
                    "data": data,
                    "is_variable": bool(t.IsVariable()),
                    "buffer": bi,
                }
            )

        def nm(i):
            if i == -1:
                return None
            assert 0 <= i < len(tensors), f"tensor index {i} out of range"
            return tensors[i]["name"]

        ops = []
        for oi in range(sg.OperatorsLength()):
            op = sg.Operators(oi)
            code = codes[op.OpcodeIndex()]
            ops.append(
                {
                    "code": code[0],
                    "version": code[1],
                    "custom_code": code[2],
                    "deprecated_code": code[3],
                    "inputs": [nm(i) for i in (op.InputsAsNumpy().tolist() if op.InputsLength() else [])],
                    "outputs": [nm(i) for i in (op.OutputsAsNumpy().tolist() if op.OutputsLength() else [])],
                    "intermediates": [
                        nm(i) for i in (op.IntermediatesAsNumpy().tolist() if op.IntermediatesLength() else [])
                    ],
                    "options": dump_options(op),
                    "custom_options": bytes(op.CustomOptionsAsNumpy()) if op.CustomOptionsLength() else b"",
                    "custom_options_format": op.CustomOptionsFormat(),
                }
            )
        sgs.append(
            {
                "name": sg.Name().decode() if sg.Name() is not None else None,
                "tensors": tensors,
                "inputs": [nm(i) for i in (sg.InputsAsNumpy().tolist() if sg.InputsLength() else [])],
                "outputs": [nm(i) for i in (sg.OutputsAsNumpy().tolist() if sg.OutputsLength() else [])],
                "ops": ops,
            }
        )
    md = []
    for i in range(m.MetadataLength()):
        e = m.Metadata(i)
        bd = m.Buffers(e.Buffer())
        md.append((e.Name().decode(), None if bd.DataLength() == 0 else bytes(bd.DataAsNumpy())))
    return {"subgraphs": sgs, "metadata": md, "description": m.Description()}


def tens_by_name(sg):
    d = {}
    for t in sg["tensors"]:
        d.setdefault(t["name"], []).append(t)
    return d


def tens_sig(t):
    return (t["shape"], t["type"], t["quant"], t["is_variable"])


def op_sig(sgd, op, with_data=True):
    """what must be preserved of a CPU operator: code, version, options, wiring (by tensor name) and the constant
    operand data plus the operands' shape / type / quantisation"""
    tb = tens_by_name(sgd)

    def opnd(n):
        if n is None:
            return None
        ts = tb[n]
        assert len(ts) == 1, f"tensor name {n} is not unique"
        t = ts[0]
        return (n, tens_sig(t), t["data"] if with_data else None)

    return (
        op["code"],
        op["version"],
        op["custom_code"],
        op["options"],
        op["custom_options"],
        op["custom_options_format"],
        [opnd(n) for n in op["inputs"]],
        [opnd(n) for n in op["outputs"]],
        [opnd(n) for n in op["intermediates"]],
    )


def check(src_buf, out_buf, cpu_ops=None, sg_index=0, all_must_stay=False):
    """returns a list of violation strings. cpu_ops: indices (in the source operator list) of the operators that must
    stay on the CPU; None = every source operator that is found again (by first output name) is compared, and
    nothing is said about the others"""
    errs = []
    s = dump_model(src_buf)
    o = dump_model(out_buf)
    if len(s["subgraphs"]) != len(o["subgraphs"]):
        errs.append(f"number of subgraphs {len(s['subgraphs'])} -> {len(o['subgraphs'])}")
        return errs
    for si, (ss, oo) in enumerate(zip(s["subgraphs"], o["subgraphs"])):
        stb, otb = tens_by_name(ss), tens_by_name(oo)
        for kind in ("inputs", "outputs"):
            if ss[kind] != oo[kind]:
                errs.append(f"sg{si} {kind}: {ss[kind]} -> {oo[kind]}")
            for n in ss[kind]:
                if n in otb and n in stb:
                    if len(otb[n]) != 1:
                        errs.append(f"sg{si} {kind} tensor {n} appears {len(otb[n])} times")
                    elif tens_sig(stb[n][0]) != tens_sig(otb[n][0]):
                        errs.append(f"sg{si} {kind} tensor {n}: {tens_sig(stb[n][0])} -> {tens_sig(otb[n][0])}")
        # operators
        out_by_first_output = {}
        for op in oo["ops"]:
            key = (op["code"], tuple(op["outputs"]))
            out_by_first_output.setdefault(key, []).append(op)
        for idx, op in enumerate(ss["ops"]):
            key = (op["code"], tuple(op["outputs"]))
            found = out_by_first_output.get(key, [])
            must = all_must_stay or (cpu_ops is not None and si == sg_index and idx in cpu_ops)
            if not found:
                if must:
                    # maybe present with other outputs
                    same_code = [x for x in oo["ops"] if x["code"] == op["code"]]
                    errs.append(f"sg{si} op#{idx} {op['code']} -> {op['outputs']} missing (same code in output: {[(x['inputs'], x['outputs']) for x in same_code]})")
                continue
            if len(found) > 1:
                errs.append(f"sg{si} op#{idx} {op['code']} appears {len(found)} times")
            a, b = op_sig(ss, op), op_sig(oo, found[0])
            if a != b:
                for name, x, y in zip(
                    ("code", "version", "custom_code", "options", "custom_options", "co_format", "inputs", "outputs", "intermediates"), a, b
                ):
                    if x != y:
                        errs.append(f"sg{si} op#{idx} {op['code']} {name}: {_short(x)} -> {_short(y)}")
        # order respects data dependencies
        produced = set(oo["inputs"])
        for t in oo["tensors"]:
            if t["data"] is not None:
                produced.add(t["name"])
        producers = {}
        for op in oo["ops"]:
            for n in op["outputs"]:
                producers.setdefault(n, []).append(op)
        for n, ps in producers.items():
            if len(ps) > 1:
                errs.append(f"sg{si} tensor {n} has {len(ps)} producers")
        for k, op in enumerate(oo["ops"]):
            for n in op["inputs"]:
                if n is not None and n in producers and n not in produced:
                    errs.append(f"sg{si} out-op#{k} {op['code']} reads {n} before it is produced")
            for n in op["outputs"]:
                produced.add(n)
        for n in oo["outputs"]:
            if n not in produced and n not in [t["name"] for t in oo["tensors"]]:
                errs.append(f"sg{si} output {n} never produced")
    return errs


def _short(x):
    s = repr(x)
    return s if len(s) < 300 else s[:300] + "..."


def compile_bytes(buf, accel="ethos-u65-256", extra=None):
    """in-process compilation through the public entry point vela.main, returns the bytes of the output file"""
    import os
    import tempfile
    import contextlib
    import io
    from ethosu.vela import vela

    d = tempfile.mkdtemp(prefix="c11_")
    src = os.path.join(d, "m.tflite")
    with open(src, "wb") as f:
        f.write(buf)
    args = [src, "--output-dir", d, "--accelerator-config", accel] + list(extra or [])
    so = io.StringIO()
    with contextlib.redirect_stdout(so):
        rc = vela.main(args)
    out = os.path.join(d, "m_vela.tflite")
    with open(out, "rb") as f:
        data = f.read()
    import shutil

    shutil.rmtree(d, ignore_errors=True)
    return data, so.getvalue()


def read_back(buf):
    """Vela's own reader on a buffer"""
    from ethosu.vela import model_reader

    nng, _ = model_reader.read_tflite_model(bytearray(buf), model_reader.ModelReaderOptions())
    return nng


q = lambda s, z: {"scale": [s], "zero_point": [z]}
f32, i8, i32 = TT.FLOAT32, TT.INT8, TT.INT32
c4 = lambda: np.array([1, 2, 3, 4], np.int8)


def observe(title, subgraphs, cpu_ops=None, all_must_stay=False, extra_check=None):
    print("OBSERVATION:", title)
    src = build_model(subgraphs)
    try:
        out, _ = compile_bytes(src)
    except BaseException as e:  # noqa
        tb = [l.strip() for l in traceback.format_exc().splitlines() if "ethosu/vela" in l]
        print("REPRODUCED: compilation of a valid model fails with %r" % (e,))
        print("   ", tb[-2:] if tb else "")
        sys.exit(1)
    errs = check(src, out, cpu_ops=cpu_ops, all_must_stay=all_must_stay)
    if extra_check is not None:
        errs += extra_check(dump_model(src), dump_model(out))
    if errs:
        print("REPRODUCED:")
        for e in errs:
            print("   -", e[:500])
        d = dump_model(out)
        for s in d["subgraphs"]:
            for op in s["ops"]:
                print("    output operator:", op["code"], op["custom_code"] or "", op["inputs"], "->", op["outputs"])
        sys.exit(1)
    print("not reproduced")
    sys.exit(0)

def wiring(s, o):
    ops = o["subgraphs"][0]["ops"]
    conv = [op for op in ops if op["code"] == "CONV_2D"][0]
    produced = set(o["subgraphs"][0]["inputs"]) | {n for op in ops for n in op["outputs"]}
    produced |= {t["name"] for t in o["subgraphs"][0]["tensors"] if t["data"] is not None}
    return [f"CONV_2D reads {conv['inputs']} (source: ['x', 'w', 'b']); '{n}' is neither a subgraph input, a constant nor"
            f" the output of any operator" for n in conv["inputs"] if n not in produced]


CONV = ("Conv2DOptions", {"StrideW": 1, "StrideH": 1, "DilationWFactor": 1, "DilationHFactor": 1})
observe(
    "CPU-resident CONV_2D (constant weights) whose bias is produced by an NPU operator: the writer replaces the bias"
    " operand by Tensor.src_tensor, i.e. the NPU-internal tensor 'b_cpu' that no operator of the output model produces",
    SG([T("x", [2, 4, 4, 4], i8, q(0.1, 0)),
        T("bi", [4], i32, q(0.01, 0)), T("bc", [4], i32, q(0.01, 0), np.array([1, 2, 3, 4], np.int32)), T("b", [4], i32, q(0.01, 0)),
        T("w", [4, 1, 1, 4], i8, q(0.1, 0), np.arange(16, dtype=np.int8)),
        T("y", [2, 4, 4, 4], i8, q(0.2, 0))],
       [O(BO.ADD, ["bi", "bc"], ["b"], ("AddOptions", {})),
        O(BO.CONV_2D, ["x", "w", "b"], ["y"], CONV)], ["x", "bi"], ["y"]),
    cpu_ops=[],
    extra_check=wiring,
)

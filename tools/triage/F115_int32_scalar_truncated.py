# Observation 1 (unmodified tree): NPU_SET_IFM2_SCALAR is silently truncated for INT32 elementwise operations.
#
# generate_elementwise_op only asserts that the quantised scalar lies in the range of the IFM2 *data type*
# (INT32: +-2^31), but the IFM2_SCALAR register is a 16-bit cmd0 parameter and cmd0_with_param masks it with 0xFFFF.
# An int32 ADD with the scalar constant 100000 therefore adds 34464, -40000 becomes +25536.
#
# Part A: public API. Part B: the same through the whole compiler (TFLite ADD int32 [1,4,4,16] + scalar const 100000).
# Run: cd /tmp/seed8/C06 && /venv/bin/python out/observation1.py     (prints VIOLATION lines, exits 1)
import os
import sys

sys.path.insert(0, os.getcwd())
sys.path.insert(0, os.path.dirname(os.path.abspath(__file__)))

import numpy as np  # noqa: E402

import c06_oracle as oracle  # noqa: E402
from demo_common import feature_map  # noqa: E402
from ethosu.vela.api import NpuAccelerator  # noqa: E402
from ethosu.vela.api import NpuDataType  # noqa: E402
from ethosu.vela.api import NpuElementWiseOp  # noqa: E402
from ethosu.vela.api import NpuElementWiseOperation  # noqa: E402
from ethosu.vela.api import NpuFeatureMap  # noqa: E402
from ethosu.vela.api import NpuShape3D  # noqa: E402
from ethosu.vela.api import npu_generate_register_command_stream  # noqa: E402

bad = 0
# ---- Part A
for value in (100000.0, -40000.0):
    op = NpuElementWiseOperation(NpuElementWiseOp.ADD)
    op.ifm = feature_map(4, 4, 16, 1, 0x0, dtype=NpuDataType.INT32)
    op.ofm = feature_map(4, 4, 16, 1, 0x1000, dtype=NpuDataType.INT32)
    op.ifm.quantization = op.ofm.quantization = None
    op.ifm2 = NpuFeatureMap()
    op.ifm2.data_type = NpuDataType.INT32
    op.ifm2.quantization = None
    op.ifm2_scalar = value
    op.block_config = NpuShape3D(height=2, width=2, depth=16)
    stream = npu_generate_register_command_stream([op], NpuAccelerator.Ethos_U55_128)
    ev = [e for e in oracle.decode(stream) if e.name == "OP_ELEMENTWISE"][0]
    got = ev.regs["IFM2_SCALAR"]
    signed = got - 65536 if got >= 32768 else got
    if signed != int(value):
        bad += 1
        print(f"VIOLATION (API): ifm2_scalar={value}: NPU_SET_IFM2_SCALAR param is {got} (= {signed} as int16)")

# ---- Part B
from c06_e2e import DataType, Net, Op, compile_and_check  # noqa: E402

tmp = os.path.join(os.path.dirname(os.path.abspath(__file__)), "e2e_tmp")
os.makedirs(tmp, exist_ok=True)
net = Net("scalar_add")
x = net.input([1, 4, 4, 16], DataType.int32)
c = net.const([], DataType.int32, np.array(100000, dtype=np.int32))
y = net.op(Op.Add, [x, c], [1, 4, 4, 16], DataType.int32)
path = os.path.join(tmp, "scalar_add.tflite")
net.write([y], path)
captured, problems = compile_and_check(path, "ethos-u55-128")
for ops, stream in captured:
    for op, ev in zip(ops, [e for e in oracle.decode(stream) if e.name in oracle.OPS]):
        if getattr(op, "ifm2_scalar", None) is not None:
            print(f"compiled network: {op.sub_op_type} ifm2_scalar={op.ifm2_scalar} -> IFM2_SCALAR={ev.regs['IFM2_SCALAR']}")
for p in problems:
    bad += 1
    print("VIOLATION (network):", p)
sys.exit(1 if bad else 0)

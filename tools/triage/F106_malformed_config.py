"""Malformed configuration files must end in a Vela error (status 1, 'Error: ...'), not in a ConfigParser traceback.
Run from the repository root: python out/F106_malformed_config.py ; exits 1 if an exception other than VelaError / SystemExit escapes."""
import os
import sys
import tempfile

sys.path.insert(0, os.getcwd())
from ethosu.vela import vela  # noqa: E402
from ethosu.vela.errors import VelaError  # noqa: E402

GOOD = """[System_Config.S]
core_clock=500e6
axi0_port=Sram
axi1_port=OffChipFlash
Sram_clock_scale=1.0
OffChipFlash_clock_scale=0.125
[Memory_Mode.M]
const_mem_area=Axi1
arena_mem_area=Axi0
cache_mem_area=Axi0
"""
CASES = {
    "duplicate section": GOOD + "[Memory_Mode.M]\nconst_mem_area=Axi1\n",
    "duplicate option": GOOD.replace("core_clock=500e6\n", "core_clock=500e6\ncore_clock=1e9\n"),
    "text before the first header": "core_clock=500e6\n" + GOOD,
    "percent sign in a value": GOOD.replace("core_clock=500e6", "core_clock=50%"),
    "line without a key": GOOD.replace("axi0_port=Sram\n", "axi0_port=Sram\n  = 3\n"),
}
bad = 0
with tempfile.TemporaryDirectory() as d:
    for name, text in CASES.items():
        p = os.path.join(d, "cfg.ini")
        open(p, "w").write(text)
        try:
            vela.main([os.path.join(d, "no_model.tflite"), "--config", p, "--system-config", "S", "--memory-mode", "M", "--accelerator-config", "ethos-u55-128", "--output-dir", d])
            print(f"{name}: main returned")
        except SystemExit as e:
            print(f"{name}: exit status {e.code}")
        except VelaError as e:
            print(f"{name}: VelaError {e}")
        except Exception as e:  # noqa: BLE001
            bad += 1
            print(f"{name}: ESCAPED {type(e).__name__}: {str(e)[:100]}")
print("FAIL" if bad else "PASS")
sys.exit(1 if bad else 0)

import sys
exec(open("/verif/tools/triage/F33_F36_c13_batch.py").read().split("# (1) custom op")[0])
a = fm("a", [1, 2, 5000, 1], 0.05)
ax = create_const_tensor("axis", [1], DataType.int32, np.array([1]))
o = fm("o", [1, 1, 5000, 1], 0.05)
op = Operation(Op.Mean, "mean"); op.attrs = {"keep_dims": True}
op.add_input_tensor(a); op.add_input_tensor(ax); op.set_output_tensor(o)
d = tempfile.mkdtemp(prefix="tri_"); p = os.path.join(d, "m.tflite"); open(p, "wb").write(make_model([op], [a], [o]))
out = io.StringIO()
with contextlib.redirect_stdout(out):
    rc = vela.main([p, "--output-dir", d, "--accelerator-config", "ethos-u55-128"])
print("rc", rc); print("\n".join(l for l in out.getvalue().splitlines() if "operators =" in l or "Width" in l or "Warning" in l or " - " in l))

"""Observation 2 (UNMODIFIED tree): Greedy and LinearAlloc do not report the highest end address as their total.

Both pad the size of every range up to the alignment before adding it to the total
(GreedyAllocator.alloc: memory_required = max(..., best_offset + round_up(size, alignment));
linear_allocate_live_ranges: total_sz += round_up(size, alloc_granularity)), so whenever the top-most range has a size
that is not a multiple of its alignment the reported total is larger than max(address + size).  This is reachable in
production: tensor sizes are multiples of 16, and with --cpu-tensor-alignment 128 a 64-byte CPU tensor gives a total
rounded up to 128.  HillClimb (hillclimb_allocate_live_ranges) reports the exact highest end address for the same
input.  The deviation is conservative (over-reporting), but it is a deviation from 'total == highest end address'.
Exits 1 when reproduced.
"""
import contextlib
import io
import os
import sys

sys.path.insert(0, os.getcwd())

from ethosu.vela import greedy_allocation  # noqa: E402
from ethosu.vela import tensor_allocation  # noqa: E402
from ethosu.vela.data_type import DataType  # noqa: E402
from ethosu.vela.live_range import LiveRangeGraph  # noqa: E402
from ethosu.vela.tensor import Tensor  # noqa: E402

spec = [(7, 38, 64, 128), (24, 30, 16, 128), (1, 25, 64, 128)]  # (start, end, size, alignment)


def make_graph():
    graph = LiveRangeGraph()
    for i, (start, end, size, alignment) in enumerate(spec):
        lr = graph.get_or_create_range(Tensor([size], DataType.uint8, "t%d" % i), alignment)
        lr.start_time, lr.end_time, lr.size = start, end, size
    return graph


bad = 0
for name in ("greedy", "linear", "hillclimb"):
    graph = make_graph()
    with contextlib.redirect_stdout(io.StringIO()):
        if name == "greedy":
            total = greedy_allocation.allocate_live_ranges(graph, 128)
        elif name == "linear":
            total = tensor_allocation.linear_allocate_live_ranges(graph, 128)
        else:
            total = tensor_allocation.hillclimb_allocate_live_ranges(graph, 128, None, 1 << 32)
    addrs = [lr.tensors[0].address for lr in graph.lrs]
    top = max(a + sp[2] for a, sp in zip(addrs, spec))
    print("%-9s addresses %r reported total %d highest end address %d" % (name, addrs, total, top))
    if total != top:
        bad = 1
sys.exit(bad)
